package main

// C16, dynamic type family: typep / type-of / subtypep over user defined classes whose
// definitions change with time. Histories (<= 12 ops) of defclass (also REdefinition of a class with
// other superclasses), make-instance, typep, subtypep and type-of run on the implementation and
// on the registry model (SlipVerif.Model.ClassReg through "type classhist", theorems
// Theorems/C16Dyn.lean). The answers must be those of the CURRENT definitions, whatever was asked
// or defined before (seeded mutant C16-9: typep memoised per (type-of, type) pair).
// In addition the laws of the property are evaluated on the implementation alone at the end of
// every history (typep of type-of; typep <=> subtypep of the type-of).
//
// Class names are unique per history and per process (the class registry of slip is global).

import (
	"fmt"
	"sort"
	"strconv"
	"strings"

	"github.com/ohler55/slip"
	"verif/harness/lib"
)

type c16DynHist struct {
	ops   []string // model op tokens
	sweep bool
	cell  string
}

var c16DynUID int

// c16DynTy: the slip type symbol of a model type token
func c16DynTy(tok, prefix string) string {
	switch tok {
	case "b":
		return "standard-object"
	case "T":
		return "t"
	case "a":
		return "fixnum"
	}
	return prefix + tok[1:]
}

func c16DynTyKind(tok string) string {
	switch tok {
	case "b":
		return "standard-object"
	case "T":
		return "t"
	case "a":
		return "fixnum"
	}
	return "user-class"
}

type c16DynRun struct {
	obs    []string
	text   []string
	stale  map[string]bool   // instance -> its class was redefined after the instance was made
	class  map[string]string // instance -> class token
	prefix string
	scope  *slip.Scope
	nClass int
}

// c16DynRunHist runs the history on the implementation, one observation per op in the model's syntax
func c16DynRunHist(h c16DynHist) *c16DynRun {
	c16DynUID++
	r := &c16DynRun{stale: map[string]bool{}, class: map[string]string{}, prefix: fmt.Sprintf("c16dyn%d-", c16DynUID), scope: slip.NewScope()}
	scope := r.scope
	name := func(c string) string { return r.prefix + c }
	tyEval := func(src string) string {
		o := lib.EvalString(scope, src)
		if !o.Ok {
			if o.GoFault {
				return "G:" + o.Class
			}
			return "E:" + o.Class
		}
		if o.Value == nil {
			return "n"
		}
		if o.Value == slip.True {
			return "t"
		}
		return "V:" + o.Text
	}
	for _, op := range h.ops {
		body := op[1:]
		switch op[0] {
		case 'd':
			cs := strings.SplitN(body, ":", 2)
			var sup []string
			if cs[1] != "" {
				for _, s := range strings.Split(cs[1], ",") {
					sup = append(sup, name(s))
				}
			}
			if n, _ := strconv.Atoi(cs[0]); n+1 > r.nClass {
				r.nClass = n + 1
			}
			src := fmt.Sprintf("(defclass %s (%s) ())", name(cs[0]), strings.Join(sup, " "))
			r.text = append(r.text, src)
			o := lib.EvalString(scope, src)
			if e, ok := c16Obs(o); !ok {
				r.obs = append(r.obs, e)
			} else {
				r.obs = append(r.obs, "-")
			}
			for k, c := range r.class {
				if c == cs[0] {
					r.stale[k] = true
				}
			}
		case 'i':
			kc := strings.SplitN(body, ":", 2)
			src := fmt.Sprintf("(make-instance '%s)", name(kc[1]))
			r.text = append(r.text, fmt.Sprintf("(setq i%s %s)", kc[0], src))
			o := lib.EvalString(scope, src)
			if e, ok := c16Obs(o); !ok {
				r.obs = append(r.obs, e)
			} else {
				scope.Let(slip.Symbol("i"+kc[0]), o.Value)
				r.class[kc[0]] = kc[1]
				delete(r.stale, kc[0])
				r.obs = append(r.obs, "-")
			}
		case 't':
			kt := strings.SplitN(body, ":", 2)
			sym := c16DynTy(kt[1], r.prefix)
			scope.Let(slip.Symbol("ty"), slip.Symbol(sym))
			r.text = append(r.text, fmt.Sprintf("(typep i%s '%s)", kt[0], sym))
			r.obs = append(r.obs, tyEval(fmt.Sprintf("(typep i%s ty)", kt[0])))
		case 's':
			ab := strings.SplitN(body, ":", 2)
			sa, sb := c16DynTy(ab[0], r.prefix), c16DynTy(ab[1], r.prefix)
			scope.Let(slip.Symbol("ta"), slip.Symbol(sa))
			scope.Let(slip.Symbol("tb"), slip.Symbol(sb))
			r.text = append(r.text, fmt.Sprintf("(subtypep '%s '%s)", sa, sb))
			r.obs = append(r.obs, tyEval("(car (multiple-value-list (subtypep ta tb)))"))
		case 'o':
			r.text = append(r.text, fmt.Sprintf("(type-of i%s)", body))
			o := lib.EvalString(scope, fmt.Sprintf("(type-of i%s)", body))
			if e, ok := c16Obs(o); !ok {
				r.obs = append(r.obs, e)
				break
			}
			txt := strings.ToLower(o.Text)
			if strings.HasPrefix(txt, r.prefix) {
				r.obs = append(r.obs, "u"+strings.TrimPrefix(txt, r.prefix))
			} else {
				r.obs = append(r.obs, "V:"+txt)
			}
		default:
			panic("c16 dyn op " + op)
		}
	}
	return r
}

var c16DynOpNames = map[byte]string{'d': "defclass", 'i': "make-instance", 't': "typep", 's': "subtypep", 'o': "type-of"}

func c16DynAspect(got string) string {
	switch {
	case strings.HasPrefix(got, "G:"):
		return "go-fault"
	case strings.HasPrefix(got, "E:"):
		return "condition:" + got[2:]
	case strings.HasPrefix(got, "V:"):
		return "impl-other"
	}
	return "impl-" + got
}

// c16DynCheck compares the implementation with the model (first disagreement only) and evaluates
// the laws on the implementation at the end of the history.
func c16DynCheck(c *lib.Ctx, h c16DynHist, model string) bool {
	r := c16DynRunHist(h)
	mw := strings.Fields(model)
	if len(mw) != len(h.ops)+1 || mw[0] != "ok" {
		panic("c16 classhist reply: " + model)
	}
	want := mw[1:]
	redefs, seen := 0, map[string]bool{}
	for _, op := range h.ops {
		if op[0] == 'd' {
			cn := strings.SplitN(op[1:], ":", 2)[0]
			if seen[cn] {
				redefs++
			}
			seen[cn] = true
		}
	}
	c.Ev.Case("classhist "+strings.Join(h.ops, " "), redefs > 0)
	c.Ev.Hist("dyn_hist_len", strconv.Itoa(len(h.ops)))
	c.Ev.Hist("dyn_redefinitions", strconv.Itoa(redefs))
	replay := func(i int, observed, expected, from string) map[string]any {
		return map[string]any{"family": "classhist", "cell": h.cell, "ops": h.ops, "input": strings.Join(r.text, " "),
			"observed": observed, "expected": expected, "first_difference_at_op": i, "expected_from": from,
			"relies_on": []string{"SlipVerif.ClassReg.typep_iff_subtypep", "SlipVerif.ClassReg.subtypep_trans", "SlipVerif.ClassReg.typep_of_typeOf"}}
	}
	staleSeen := map[string]bool{}
	// replay the staleness per op (r.stale is the final state)
	cls := map[string]string{}
	for i, op := range h.ops {
		c.Ev.Hist("dyn_op", c16DynOpNames[op[0]])
		body := op[1:]
		switch op[0] {
		case 'd':
			cn := strings.SplitN(body, ":", 2)[0]
			for k, cc := range cls {
				if cc == cn {
					staleSeen[k] = true
				}
			}
		case 'i':
			kc := strings.SplitN(body, ":", 2)
			cls[kc[0]] = kc[1]
			delete(staleSeen, kc[0])
		}
		if strings.HasPrefix(want[i], "R:") {
			panic("c16 classhist: the model rejects a generated history: " + want[i] + " in " + strings.Join(h.ops, " "))
		}
		if r.obs[i] == want[i] {
			continue
		}
		var sig string
		switch op[0] {
		case 't':
			kt := strings.SplitN(body, ":", 2)
			kind := "instance"
			if staleSeen[kt[0]] {
				kind = "stale-instance"
			}
			sig = fmt.Sprintf("type-law=dyn-typep type=%s kind=%s aspect=%s", c16DynTyKind(kt[1]), kind, c16DynAspect(r.obs[i]))
		case 's':
			ab := strings.SplitN(body, ":", 2)
			sig = fmt.Sprintf("type-law=dyn-subtypep type=%s kind=%s aspect=%s", c16DynTyKind(ab[1]), c16DynTyKind(ab[0]), c16DynAspect(r.obs[i]))
		default:
			sig = fmt.Sprintf("type-law=dyn-%s type=- kind=- aspect=%s", c16DynOpNames[op[0]], c16DynAspect(r.obs[i]))
		}
		c.Report(sig, h.sweep, replay(i, strings.Join(r.obs, " "), strings.Join(want, " "), "model:type.classhist"))
		return false
	}
	// --- the laws on the implementation alone, on the final state: every instance that reflects the
	// current definition of its class x every type symbol of the history
	var tys []string
	for i := 0; i < r.nClass; i++ {
		tys = append(tys, "u"+strconv.Itoa(i))
	}
	tys = append(tys, "b", "T", "a")
	ok := true
	var insts []string
	for k := range r.class {
		insts = append(insts, k)
	}
	sort.Strings(insts)
	for _, k := range insts {
		cn := r.class[k]
		if r.stale[k] {
			continue
		}
		tau := r.prefix + cn
		r.scope.Let(slip.Symbol("ta"), slip.Symbol(tau))
		for _, tok := range tys {
			sym := c16DynTy(tok, r.prefix)
			r.scope.Let(slip.Symbol("ty"), slip.Symbol(sym))
			tp := c16Call(r.scope, fmt.Sprintf("(typep i%s ty)", k))
			st := c16Call(r.scope, "(car (multiple-value-list (subtypep ta ty)))")
			c.Ev.Count("dyn_law_evaluations", 1)
			if "u"+cn == tok && tp != "t" {
				c.Report(fmt.Sprintf("type-law=dyn-law-typep-of-type-of type=user-class kind=instance aspect=impl-%s", tp), h.sweep,
					replay(len(h.ops), fmt.Sprintf("(typep i%s (type-of i%s)) = %s", k, k, tp), "t", "property statement"))
				ok = false
			}
			// standard-object and t head no class of the registry (find-class is nil): they are not
			// "type symbols known to the class registry", subtypep answers nil for them
			if tok != "b" && tok != "T" && (tp == "t" || tp == "n") && (st == "t" || st == "n") && tp != st {
				// subtypep of an undefined class symbol is nil and so is typep: no disagreement arises there
				law := "dyn-law-supertype-typep"
				if tp == "t" {
					law = "dyn-law-typep-subtypep"
				}
				c.Report(fmt.Sprintf("type-law=%s type=%s kind=instance aspect=typep-%s-subtypep-%s", law, c16DynTyKind(tok), tp, st), h.sweep,
					replay(len(h.ops), fmt.Sprintf("(typep i%s '%s) = %s, (subtypep '%s '%s) = %s", k, sym, tp, tau, sym, st), "the same answer", "property statement"))
				ok = false
			}
		}
	}
	return ok
}

// the fixed cells
func c16DynSweep() []c16DynHist {
	cell := func(name string, ops ...string) c16DynHist { return c16DynHist{ops: ops, sweep: true, cell: name} }
	return []c16DynHist{
		// the class is redefined with another superclass after typep was asked; a new instance answers by the new definition
		cell("redefine-other-super", "d0:", "d1:", "d2:0", "i0:2", "t0:u0", "t0:u1", "t0:u2", "d2:1", "i1:2", "t1:u1", "t1:u0", "t1:u2"),
		cell("redefine-other-super-subtypep", "d0:", "d1:", "d2:0", "s u2:u0", "s u2:u1", "d2:1", "s u2:u1", "s u2:u0", "s u2:u2"),
		cell("redefine-drop-super", "d0:", "d1:0", "i0:1", "t0:u0", "d1:", "i1:1", "t1:u0", "t1:u1", "s u1:u0", "o1"),
		cell("redefine-add-super", "d0:", "d1:", "i0:1", "t0:u0", "d1:0", "i1:1", "t1:u0", "t1:u1", "s u1:u0", "s u0:u1"),
		// a superclass is redefined: the subclasses are merged again, also for their existing instances
		cell("superclass-redefined", "d0:", "d1:", "d2:0", "i0:2", "t0:u1", "d0:1", "t0:u1", "t0:u0", "s u2:u1", "s u0:u1", "s u1:u0", "o0"),
		cell("diamond", "d0:", "d1:0", "d2:0", "d3:1,2", "i0:3", "t0:u0", "t0:u1", "t0:u2", "t0:u3", "s u3:u0", "s u1:u2", "o0"),
		cell("chain", "d0:", "d1:0", "d2:1", "d3:2", "i0:3", "t0:u0", "t0:u1", "s u3:u0", "s u0:u3", "s u2:u0", "i1:1", "t1:u2"),
		cell("unrelated-and-undefined", "d0:", "i0:0", "t0:a", "t0:u1", "s u0:a", "s a:u0", "s u0:u1", "s u1:u0", "s a:a", "s a:T", "s T:a", "s T:T"),
		// the base types an instance belongs to
		cell("base-types-typep", "d0:", "d1:0", "i0:1", "t0:b", "t0:T", "o0", "i1:0", "t1:b", "t1:T"),
		cell("base-types-subtypep", "d0:", "d1:0", "s u1:b", "s u1:T", "s u0:b", "s u0:T", "s b:T", "s b:b", "s b:u0", "s T:u0", "s T:b"),
		// an instance made before its class was redefined
		cell("stale-instance-gains-super", "d0:", "d1:", "d2:0", "i0:2", "d2:1", "t0:u1", "o0"),
		cell("stale-instance-loses-super", "d0:", "d1:", "d2:0", "i0:2", "d2:1", "t0:u0", "o0"),
	}
}

func c16DynNormalize(ops []string) []string {
	// sweep cells are written with a blank after s for readability
	out := make([]string, len(ops))
	for i, op := range ops {
		out[i] = strings.Replace(op, "s ", "s", 1)
	}
	return out
}

// c16DynRandom: a random history without cycles, forward references or questions about stale instances
func c16DynRandom(rng *lib.Rng, avoidBaseSubtypep bool) c16DynHist {
	nC := 3 + rng.Intn(3)
	supers := map[int][]int{}
	var defined []int
	reaches := func(from, to int) bool {
		seen := map[int]bool{}
		var walk func(x int) bool
		walk = func(x int) bool {
			if x == to {
				return true
			}
			if seen[x] {
				return false
			}
			seen[x] = true
			for _, s := range supers[x] {
				if walk(s) {
					return true
				}
			}
			return false
		}
		return walk(from)
	}
	var ops []string
	inst := map[int]int{} // instance -> class
	stale := map[int]bool{}
	def := func(c int) {
		var sup []int
		for _, d := range defined {
			if d != c && !reaches(d, c) && rng.Chance(40) && len(sup) < 3 {
				sup = append(sup, d)
			}
		}
		// a random order of the direct superclasses
		if len(sup) > 1 && rng.Bool() {
			sup[0], sup[len(sup)-1] = sup[len(sup)-1], sup[0]
		}
		_, was := supers[c]
		supers[c] = sup
		if !was {
			defined = append(defined, c)
		}
		var ss []string
		for _, s := range sup {
			ss = append(ss, strconv.Itoa(s))
		}
		ops = append(ops, fmt.Sprintf("d%d:%s", c, strings.Join(ss, ",")))
		for k, cc := range inst {
			if cc == c {
				stale[k] = true
			}
		}
	}
	ty := func() string {
		switch r := rng.Intn(10); {
		case r < 7:
			return "u" + strconv.Itoa(rng.Intn(nC))
		case r < 8:
			return "b"
		case r < 9:
			return "T"
		}
		return "a"
	}
	fresh := func() []int {
		var ks []int
		for k := 0; k < 4; k++ {
			if _, has := inst[k]; has && !stale[k] {
				ks = append(ks, k)
			}
		}
		return ks
	}
	def(0)
	nops := 6 + rng.Intn(7)
	for len(ops) < nops {
		switch r := rng.Intn(100); {
		case r < 30:
			c := rng.Intn(nC)
			if len(defined) < nC && rng.Chance(60) {
				c = len(defined) // the next new class
			}
			if _, was := supers[c]; !was && c != len(defined) {
				c = len(defined)
			}
			def(c)
		case r < 45:
			k := rng.Intn(4)
			c := defined[rng.Intn(len(defined))]
			inst[k] = c
			delete(stale, k)
			ops = append(ops, fmt.Sprintf("i%d:%d", k, c))
		case r < 75:
			ks := fresh()
			if len(ks) == 0 {
				continue
			}
			k := ks[rng.Intn(len(ks))]
			ops = append(ops, fmt.Sprintf("t%d:%s", k, ty()))
		case r < 95:
			a, b := ty(), ty()
			if avoidBaseSubtypep && a[0] == 'u' && (b == "b" || b == "T") {
				continue
			}
			ops = append(ops, fmt.Sprintf("s%s:%s", a, b))
		default:
			ks := fresh()
			if len(ks) == 0 {
				continue
			}
			ops = append(ops, fmt.Sprintf("o%d", ks[rng.Intn(len(ks))]))
		}
	}
	return c16DynHist{ops: ops}
}

// c16DynAskRedefineAsk: the same question before and after a redefinition, for instances made
// before and after it (the question is only put to instances that reflect the current definition)
func c16DynAskRedefineAsk(rng *lib.Rng) c16DynHist {
	// classes 0,1 are roots, 2 is the class under redefinition, 3 (sometimes) a subclass of 2
	pick := func() string { return []string{"", "0", "1", "0,1", "1,0"}[rng.Intn(5)] }
	s1, s2 := pick(), pick()
	for s2 == s1 {
		s2 = pick()
	}
	ops := []string{"d0:", "d1:", "d2:" + s1}
	target := "2"
	if rng.Bool() {
		ops = append(ops, "d3:2")
		target = "3" // the instance is of a subclass: it is not stale after the superclass is redefined
	}
	q1, q2 := "u"+strconv.Itoa(rng.Intn(2)), "u"+strconv.Itoa(rng.Intn(3))
	ops = append(ops, "i0:"+target, "t0:"+q1, "t0:"+q2, "d2:"+s2)
	if target == "3" && rng.Bool() {
		ops = append(ops, "t0:"+q1, "t0:"+q2)
	} else {
		ops = append(ops, "i1:"+target, "t1:"+q1, "t1:"+q2)
	}
	ops = append(ops, "s u"+target+":"+q1)
	return c16DynHist{ops: c16DynNormalize(ops)}
}

func c16DynFamily(c *lib.Ctx) {
	avoidBase := false
	var hists []c16DynHist
	for _, h := range c16DynSweep() {
		h.ops = c16DynNormalize(h.ops)
		hists = append(hists, h)
	}
	nSweep := len(hists)
	nRandom := c.Scale(400, 4000)
	for i := 0; i < nRandom; i++ {
		if i%3 == 0 {
			hists = append(hists, c16DynAskRedefineAsk(c.Rng))
		} else {
			hists = append(hists, c16DynRandom(c.Rng, avoidBase))
		}
	}
	reqs := make([]string, len(hists))
	for i, h := range hists {
		reqs[i] = "type classhist " + strings.Join(h.ops, " ")
	}
	replies := c.Model(reqs)
	agree := 0
	for i, h := range hists {
		if c16DynCheck(c, h, replies[i]) {
			agree++
		}
	}
	c.Ev.Coverage["dyn_sweep_histories"] = nSweep
	c.Ev.Coverage["dyn_random_histories"] = nRandom
	c.Ev.Coverage["dyn_histories_agree"] = agree
}
