package main

// C04 part (ii-b): the key section of built-ins. For every built-in whose documented lambda list
// has a `&key` section (and no `&rest`): a *baseline* call — the positional parameters filled from
// the argument pools until the call returns normally, then the same with `:key nil` for a documented
// key (control: the key section is reached and accepted) — and then the same positional arguments
// followed by malformed key sections of odd length:
//
//   known      … :k                 a documented key without a value
//   unknown    … :c04-zz            an undocumented key without a value
//   repeated   … :k nil :k          a pair, then the same key dangling
//   after-pair … :k nil :c04-zz     a pair, then an undocumented key dangling
//
// The documented lambda list rejects each of them (model: `ll bind` on the documented list answers
// `err oddKeys`); a call that returns normally accepted an argument vector the documented lambda
// list does not allow. Signature per built-in: the exact set of accepted tails.
// Everything is enumerated (seed independent); the calls run in the worker process of part (ii).

import (
	"fmt"
	"sort"
	"strings"

	"verif/harness/lib"
)

var c04KeyTails = []string{"known", "unknown", "repeated", "after-pair"}

const c04UnknownKey = ":c04-zz"

func c04KeyTail(kind, key, val string) []string {
	switch kind {
	case "control":
		return []string{":" + key, val}
	case "known":
		return []string{":" + key}
	case "unknown":
		return []string{c04UnknownKey}
	case "repeated":
		return []string{":" + key, val, ":" + key}
	case "after-pair":
		return []string{":" + key, val, c04UnknownKey}
	}
	panic(kind)
}

// values tried for the documented key of the control call: one of its documented type first
func c04KeyValues(b c04Builtin, key string) []string {
	vals := []string{c04TypedTok(c04DocType(b.fi, key)), "nil", "t", "i:1", "s:a", "y:" + c04ProbeName}
	if t := c04DocType(b.fi, ":"+key); t != "" {
		vals = append([]string{c04TypedTok(t)}, vals...)
	}
	var out []string
	seen := map[string]bool{}
	for _, v := range vals {
		if !seen[v] {
			seen[v] = true
			out = append(out, v)
		}
	}
	return out
}

// positional part of the baseline call: the documented positional parameters from one pool
func (b c04Builtin) positional(variant int) []string {
	return b.args(b.npos, variant)
}

// c04KeyTailLine: the worker line of one built-in: "K <pkg> <name> <npos> <key>…"
func c04KeyTailLine(b c04Builtin) string {
	return "K " + b.pkg + " " + b.name + " " + fmt.Sprint(b.npos) + " " + strings.Join(b.keys, " ")
}

// c04KeyTailWork runs in the worker: find a baseline, a control key, then the malformed tails.
// Reply: "nobase" | "nocontrol <pool>" | "<pool> <key> <value> <outcome known> <unknown> <repeated> <after-pair>"
func c04KeyTailWork(b c04Builtin) string {
	for variant := range c04Pools {
		pos := b.positional(variant)
		if variant > 0 && strings.Join(pos, " ") == strings.Join(b.positional(0), " ") {
			continue
		}
		if c04CellOutcome(c04Call(b.fi, pos)) != "ok" {
			continue
		}
		for _, key := range b.keys {
			for _, val := range c04KeyValues(b, key) {
				if c04CellOutcome(c04Call(b.fi, append(append([]string{}, pos...), c04KeyTail("control", key, val)...))) != "ok" {
					continue
				}
				out := []string{fmt.Sprint(variant), key, val}
				for _, kind := range c04KeyTails {
					out = append(out, c04CellOutcome(c04Call(b.fi, append(append([]string{}, pos...), c04KeyTail(kind, key, val)...))))
				}
				return strings.Join(out, " ")
			}
		}
		return fmt.Sprintf("nocontrol %d", variant)
	}
	return "nobase"
}

func c04DocWire(doc []string) string {
	w := make([]string, len(doc))
	for i, d := range doc {
		w[i] = c04Sym(d)
	}
	return "(" + strings.Join(w, ",") + ")"
}

func c04TokWire(t string) string {
	switch {
	case strings.HasPrefix(t, ":"):
		return c04Kw(t[1:])
	case t == "nil":
		return "n"
	}
	return "i:0" // the model only looks at the shape of the key section
}

// c04KeyTails judges the replies of the key-tail lines.
func c04KeyTailJudge(c *lib.Ctx, bs []c04Builtin, idx []int, replies []string) {
	judged, nobase, nocontrol, cells := 0, []string{}, []string{}, 0
	var reqs []string
	type ref struct {
		b    int
		kind string
		toks []string
		out  string
	}
	var refs []ref
	for k, bi := range idx {
		b := bs[bi]
		w := strings.Fields(replies[k])
		switch {
		case len(w) == 0 || w[0] == "timeout" || w[0] == "crash" || w[0] == "skipped" || w[0] == "missing" || w[0] == "not-run":
			nobase = append(nobase, b.pkg+":"+b.name+" ("+replies[k]+")")
			continue
		case w[0] == "nobase":
			nobase = append(nobase, b.pkg+":"+b.name)
			continue
		case w[0] == "nocontrol":
			nocontrol = append(nocontrol, b.pkg+":"+b.name)
			continue
		case len(w) != 3+len(c04KeyTails):
			panic("harness bug: key tail reply " + replies[k])
		}
		judged++
		var variant int
		fmt.Sscan(w[0], &variant)
		key, val := w[1], w[2]
		pos := b.positional(variant)
		for j, kind := range c04KeyTails {
			toks := append(append([]string{}, pos...), c04KeyTail(kind, key, val)...)
			wire := make([]string, len(toks))
			for i, t := range toks {
				wire[i] = c04TokWire(t)
			}
			reqs = append(reqs, "ll bind "+c04DocWire(b.doc)+" ("+strings.Join(wire, ",")+")")
			refs = append(refs, ref{bi, kind, toks, w[3+j]})
			cells++
			c.Ev.Case("builtin-keytail "+b.pkg+":"+b.name+" "+kind, true)
			c.Ev.Hist("builtin_keytail", kind+" "+strings.SplitN(w[3+j], ":", 2)[0])
		}
	}
	model := c.Model(reqs)
	accepted := map[int][]string{}
	first := map[int]ref{}
	for i, r := range refs {
		if model[i] != "err oddKeys" {
			panic("harness bug: the documented lambda list does not reject " + reqs[i] + ": " + model[i])
		}
		if r.out == "ok" {
			if _, has := first[r.b]; !has {
				first[r.b] = r
			}
			accepted[r.b] = append(accepted[r.b], r.kind)
		}
	}
	var bis []int
	for bi := range accepted {
		bis = append(bis, bi)
	}
	sort.Ints(bis)
	for _, bi := range bis {
		b, r := bs[bi], first[bi]
		sig := "builtin=" + b.name + " pkg=" + b.pkg + " dangling-key-accepted=" + strings.Join(accepted[bi], ",")
		c.Report(sig, true, map[string]any{
			"part": "builtin-keytail", "sweep": true, "pkg": b.pkg, "name": b.name, "input": b.formOf(r.toks), "doc": b.doc,
			"accepted_tails": accepted[bi], "toks": r.toks,
			"observed": "returned normally", "expected": "a condition: the key section has odd length (model: err oddKeys on the documented lambda list (" + strings.Join(b.doc, " ") + "))",
			"expected_from": "model:ll.bind on the run-time FuncDoc", "relies_on": []string{"SlipVerif.Theorems.C04.bind_ok_iff", "SlipVerif.Theorems.C04.bindKeys_ok_iff"}})
	}
	sort.Strings(nobase)
	sort.Strings(nocontrol)
	c.Ev.Coverage["builtin_keytail_builtins"] = len(idx)
	c.Ev.Coverage["builtin_keytail_judged"] = judged
	c.Ev.Coverage["builtin_keytail_cells"] = cells
	c.Ev.Coverage["builtin_keytail_no_normal_baseline"] = nobase
	c.Ev.Coverage["builtin_keytail_no_accepted_key"] = nocontrol
	c.Ev.Coverage["builtin_keytail_accepting"] = len(bis)
	c.Ev.Count("traces_validated_against_impl", cells)
}

func c04ReplayKeyTail(c *lib.Ctx, rec map[string]any) {
	pkg, _ := rec["pkg"].(string)
	name, _ := rec["name"].(string)
	var toks []string
	if l, ok := rec["toks"].([]any); ok {
		for _, e := range l {
			s, _ := e.(string)
			toks = append(toks, s)
		}
	}
	c04DefineProbes()
	for _, b := range c04Enumerate() {
		if b.pkg == pkg && b.name == name {
			out := c04CellOutcome(c04Call(b.fi, toks))
			fmt.Printf("replay %s\n  observed (implementation): %s\n  expected: a condition (odd key section; model: err oddKeys)\n", b.formOf(toks), out)
			if out == "ok" {
				c.Report("replay", false, map[string]any{"input": b.formOf(toks), "observed": out})
			}
			return
		}
	}
	fmt.Println("replay: built-in not found:", pkg, name)
}
