// Command vh is the correspondence harness: vh <prop> --tier T --seed N --model BIN --root /verif
package main

import (
	"bufio"
	"flag"
	"fmt"
	"os"
	"path/filepath"
	"time"

	"github.com/ohler55/slip"
	"verif/harness/lib"
)

// props maps a property id to its runner. Each cXX.go registers itself in init().
var props = map[string]func(c *lib.Ctx){}

func main() {
	if len(os.Args) < 2 {
		fmt.Fprintln(os.Stderr, "usage: vh <prop>|eval [flags]")
		os.Exit(2)
	}
	id := os.Args[1]
	fs := flag.NewFlagSet("vh", flag.ExitOnError)
	tier := fs.String("tier", "quick", "quick|thorough")
	seed := fs.Uint64("seed", 1, "seed")
	model := fs.String("model", "", "model driver binary")
	root := fs.String("root", "/verif", "verif root")
	repo := fs.String("repo", "/repo", "repository")
	replay := fs.String("replay", "", "replay file")
	genBroken := fs.String("gen-broken", "", "name of a generated obligation that no longer builds")
	_ = fs.Parse(os.Args[2:])
	if id == "eval" {
		evalLoop()
		return
	}
	run, ok := props[id]
	if !ok {
		fmt.Fprintf(os.Stderr, "vh: no harness for %s\n", id)
		os.Exit(2)
	}
	c := &lib.Ctx{Prop: id, Tier: *tier, Seed: *seed, Root: *root, Repo: *repo, ModelBin: *model,
		OutDir: filepath.Join(*root, ".work", "run", id), Replay: *replay, GenBroken: *genBroken, Start: time.Now(),
		Rng: lib.NewRng(*seed), Ev: lib.NewEvidence(id, *tier, *seed),
		Findings: lib.LoadFindings(filepath.Join(*root, "findings")),
		KnownHit: map[string]int{}}
	_ = os.MkdirAll(c.OutDir, 0o755)
	run(c)
	os.Exit(c.Finish())
}

// evalLoop: debugging aid, one expression per line on stdin.
func evalLoop() {
	scope := slip.NewScope()
	sc := bufio.NewScanner(os.Stdin)
	sc.Buffer(make([]byte, 1<<20), 1<<26)
	for sc.Scan() {
		o := lib.EvalString(scope, sc.Text())
		if o.Ok {
			fmt.Printf("%s  ; %s\n", o.Text, lib.TypeOf(scope, o.Value))
		} else {
			fmt.Printf("ERR %s: %s\n", o.Class, o.Msg)
		}
	}
}
