//go:build verif && verifhooks

package main

import "github.com/ohler55/slip/pkg/repl"

// Built when the repository carries the verif hook files (pkg/repl/verif_on.go, delivered as
// repo-patches/C20/hook-0001-*.patch): tools/check.py adds the build tag `verifhooks` then.
// The hook is called before and after every file-system step of History.Add/Clear, Stash.Add/Clear
// and updateConfigFile; the harness snapshots the directory there (= what a process death at that
// point leaves behind).

const c20HaveHooks = true

func c20SetHook(fn func(point string)) { repl.VerifFS = fn }
