package main

// C16, machine-boundary values. Every integer width the implementation converts through (int64 of
// Fixnum, uint64, the 53/24-bit float mantissas, int32/uint32 for completeness) has values where a
// float->integer conversion wraps, saturates or rounds: 2^k, its neighbours and negations, and the
// values a wrapped or saturated conversion of them lands on (v - 2^64, -2^63, 2^63-1, 0, +-1).
// Each value is emitted in EVERY representation that holds it exactly (fixnum, bignum, ratio,
// single/double/long-float), so that e.g. the double 2^63 meets the fixnum -2^63 and the fixnum
// 2^63-1. The groups are used (a) as extra hash sweep keys in all ordered pairs within a group,
// (b) as a pool of the random hash histories, (c) in the fixed predicate universe, bare and as the
// single element of a vector and of a list, (d) as a leaf class of the random objects.

import (
	"fmt"
	"math"
	"math/big"
)

type c16BoundGroup struct {
	name   string
	values []*big.Rat
}

func c16Pow2(e uint) *big.Int { return new(big.Int).Lsh(big.NewInt(1), e) }

// c16BoundGroups: one group per family of widths whose wrap/saturation images fall on each other.
func c16BoundGroups() []c16BoundGroup {
	around := func(ks ...uint) (vs []*big.Rat) {
		seen := map[string]bool{}
		add := func(b *big.Int) {
			if !seen[b.String()] {
				seen[b.String()] = true
				vs = append(vs, new(big.Rat).SetInt(b))
			}
		}
		for _, d := range []int64{0, 1, -1} {
			add(big.NewInt(d))
		}
		for _, k := range ks {
			for _, d := range []int64{-1, 0, 1} {
				b := new(big.Int).Add(c16Pow2(k), big.NewInt(d))
				add(b)
				add(new(big.Int).Neg(b))
			}
		}
		return
	}
	flt := func(vs []*big.Rat, fs ...float64) []*big.Rat {
		for _, f := range fs {
			vs = append(vs, new(big.Rat).SetFloat64(f), new(big.Rat).SetFloat64(-f))
		}
		return vs
	}
	p63, p64, p53, p24 := math.Ldexp(1, 63), math.Ldexp(1, 64), math.Ldexp(1, 53), math.Ldexp(1, 24)
	return []c16BoundGroup{
		// int64 / uint64: the doubles and singles adjacent to 2^63 and 2^64
		{"w64", flt(around(63, 64), math.Nextafter(p63, 0), math.Nextafter(p63, math.Inf(1)),
			float64(math.Nextafter32(float32(p63), 0)), math.Nextafter(p64, 0))},
		// int32 / uint32
		{"w32", around(31, 32)},
		// double mantissa
		{"m53", flt(around(53), p53+2)},
		// single mantissa
		{"m24", flt(around(24), p24+2)},
	}
}

// c16ExactReps: the representations that hold v exactly. ratio and long-float only for the
// powers of two themselves and for non-integers (they behave like bignum for the neighbours).
func c16ExactReps(v *big.Rat) (reps []byte) {
	if v.IsInt() {
		if v.Num().IsInt64() {
			reps = append(reps, 'f')
		}
		reps = append(reps, 'b')
	}
	if _, exact := v.Float32(); exact {
		reps = append(reps, 's')
	}
	if _, exact := v.Float64(); exact {
		reps = append(reps, 'd')
	}
	abs := new(big.Int).Abs(v.Num())
	pow2 := v.IsInt() && abs.Sign() > 0 && new(big.Int).And(abs, new(big.Int).Sub(abs, big.NewInt(1))).Sign() == 0
	if !v.IsInt() || (pow2 && abs.BitLen() > 2) {
		reps = append(reps, 'r', 'l')
	}
	return
}

// c16BoundKeys: wire terms per group with a name "<group>:<value>:<rep>" each.
func c16BoundKeys(g *c16Gen) (wires [][]string, names [][]string) {
	for _, grp := range c16BoundGroups() {
		var ws, ns []string
		for _, v := range grp.values {
			for _, rep := range c16ExactReps(v) {
				ws = append(ws, g.num(rep, v))
				ns = append(ns, fmt.Sprintf("%s:%s:%c", grp.name, v.RatString(), rep))
			}
		}
		wires = append(wires, ws)
		names = append(names, ns)
	}
	return
}

// c16BoundValues: all boundary values (for the random leaf class).
func c16BoundValues() (vs []*big.Rat) {
	for _, grp := range c16BoundGroups() {
		vs = append(vs, grp.values...)
	}
	return
}

var c16BoundValueList = c16BoundValues()

// boundaryLeaf: a random boundary value in a random exact representation (also ratio, and
// long-float when the value is a double, for the neighbours).
func (g *c16Gen) boundaryLeaf() string {
	v := c16BoundValueList[g.rng.Intn(len(c16BoundValueList))]
	if v.Sign() == 0 && c16AvoidNegZero {
		v = big.NewRat(1, 1)
	}
	reps := c16ExactReps(v)
	if v.IsInt() {
		reps = append(reps, 'r')
		// long-floats only with at most double precision (notes, Limits: the root Equal methods of
		// LongFloat/Ratio go through float64 for wider ones — observed, see "Seeded mutants, round 4")
		if _, exact := v.Float64(); exact {
			reps = append(reps, 'l')
		}
	}
	return g.num(reps[g.rng.Intn(len(reps))], v)
}

// c16BoundUniverse: the part of the fixed predicate universe — the values around +-2^63 (the
// int64 range of Fixnum) bare in every exact representation, the double above 2^63, and the
// values whose conversions alias (2^63, -2^63, 2^63-1) as the single element of a vector and of
// a list (vector elements are compared with the root Equal methods, list elements with the
// predicate itself; sxhash descends into both). 2^64 and its neighbours are in the universe already.
func c16BoundUniverse(g *c16Gen) (u []string) {
	one := big.NewRat(1, 1)
	p63 := new(big.Rat).SetInt(c16Pow2(63))
	n63 := new(big.Rat).Neg(p63)
	m63 := new(big.Rat).Sub(p63, one)
	for _, s := range []*big.Rat{p63, n63} {
		for _, d := range []int64{-1, 0, 1} {
			v := new(big.Rat).Add(s, big.NewRat(d, 1))
			for _, rep := range c16ExactReps(v) {
				u = append(u, g.num(rep, v))
			}
		}
	}
	above := new(big.Rat).SetFloat64(math.Nextafter(math.Ldexp(1, 63), math.Inf(1)))
	u = append(u, g.num('d', above), g.num('b', above))
	for _, c := range []struct {
		v    *big.Rat
		reps string
	}{{p63, "sdb"}, {n63, "fd"}, {m63, "f"}} {
		for _, rep := range []byte(c.reps) {
			u = append(u, g.vec(g.num(rep, c.v)), g.list(g.num(rep, c.v)))
		}
	}
	return
}
