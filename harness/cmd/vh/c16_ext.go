package main

// C16, extended universe (laws only): objects of the kinds the Lean universe does not contain —
// complex numbers, octets and the other small integer types, dotted lists, multi-dimensional arrays,
// bit-vectors, octets vectors, hash tables, flavor and class instances, functions, times — next to
// the numbers, strings, lists and vectors they may be equal to. On ALL pairs and triples the laws of
// the property are evaluated on the implementation itself: every predicate answers t or nil, is
// reflexive, symmetric and transitive, eq => eql => equal => equalp, and sxhash gives equal codes to
// objects the implementation calls equal. There is no model comparison here (the kinds are outside
// Model/Equality.lean); the pool is fixed (seed independent): every cell is a sweep cell.

import (
	"fmt"
	"strings"

	"github.com/ohler55/slip"
	"verif/harness/lib"
)

var c16ExtSetup = []string{
	"(defflavor c16e-fl ((x 1)) () :initable-instance-variables :gettable-instance-variables)",
	"(defclass c16e-cl () ((x :initarg :x :initform 1)))",
}

var c16ExtPool = []string{
	// complex numbers and the reals they may equal
	"#C(1 2)", "#C(1 2)", "#C(1.0 2.0)", "#C(1 0)", "#C(1.0 0.0)", "#C(0 1)", "1", "1.0d0", "1.0s0", "#C(0.5 0)", "1/2", "0.5d0", "#C(0 0)", "0", "-0.0d0",
	// small integer types
	"(coerce 5 'octet)", "(coerce 5 'octet)", "5", "5.0d0", "(coerce 5 'signed-byte)", "(coerce 5 'unsigned-byte)", "(coerce 1 'bit)", "(coerce 1 'octet)",
	"#C(5 0)", "5/1",
	// dotted lists
	"'(1 . 2)", "'(1 . 2)", "'(1 . 2.0d0)", "'(1.0d0 . 2)", "'(1 2)", `'(1 . "a")`, `'(1 . "A")`, `'(1 . #\a)`, `'(1 . #\A)`, "'(1 2 . 3)", "'(1 2 . 3)", "'(1 2 3)",
	"'((1 . 2) . 3)", "'((1 . 2.0d0) . 3)", "(cons 1 2)", `'(1 "a")`, `'(1 "A")`, `'(1 #\a)`, `'(1 #\A)`,
	// arrays
	"(make-array '(2 2) :initial-element 1)", "(make-array '(2 2) :initial-element 1)", "(make-array '(2 2) :initial-element 1.0d0)",
	`(make-array '(2 2) :initial-element "a")`, `(make-array '(2 2) :initial-element "A")`, `(make-array '(2 2) :initial-element #\a)`, `(make-array '(2 2) :initial-element #\A)`,
	"(make-array '(4) :initial-element 1)", "(make-array '(4 1) :initial-element 1)", "(make-array '(1 4) :initial-element 1)", "#(1 1 1 1)", "'(1 1 1 1)",
	"(make-array '(2 2) :initial-element nil)", "(make-array '(2 2 1) :initial-element 1)",
	// bit-vectors, octets
	"#*101", "#*101", "#(1 0 1)", "'(1 0 1)", "(coerce '(1 0 1) 'octets)", "(coerce '(1 0 1) 'octets)", "#*", "#()", `""`,
	"(coerce '(1 2) 'octets)", "#(1 2)", "#(1.0d0 2)", "'(1 2)",
	// strings and vectors of characters
	`"ab"`, `"AB"`, `#(#\a #\b)`, `#(#\A #\B)`, `'(#\a #\b)`, `#\a`, `#\A`, `"a"`, "'a", "'ab", ":a",
	// hash tables
	"(make-hash-table)", "(make-hash-table)",
	`(let ((h (make-hash-table))) (setf (gethash 1 h) "x") h)`, `(let ((h (make-hash-table))) (setf (gethash 1 h) "x") h)`,
	`(let ((h (make-hash-table))) (setf (gethash 1 h) "X") h)`, `(let ((h (make-hash-table))) (setf (gethash 1.0d0 h) "x") h)`,
	`(let ((h (make-hash-table))) (setf (gethash 1 h) "x") (setf (gethash 2 h) "y") h)`, `(let ((h (make-hash-table))) (setf (gethash 2 h) "y") (setf (gethash 1 h) "x") h)`,
	`(let ((h (make-hash-table))) (setf (gethash 1 h) 1) h)`, `(let ((h (make-hash-table))) (setf (gethash 1 h) 1.0d0) h)`, `(let ((h (make-hash-table))) (setf (gethash 'a h) '(1 . 2)) h)`,
	// instances
	"(make-instance 'vanilla-flavor)", "(make-instance 'vanilla-flavor)",
	"(make-instance 'c16e-fl)", "(make-instance 'c16e-fl)", "(make-instance 'c16e-fl :x 1.0d0)", `(make-instance 'c16e-fl :x "a")`, `(make-instance 'c16e-fl :x "A")`,
	`(make-instance 'c16e-fl :x #\a)`, `(make-instance 'c16e-fl :x #\A)`, "(make-instance 'c16e-fl :x 2)",
	"(make-instance 'c16e-cl)", "(make-instance 'c16e-cl)", "(make-instance 'c16e-cl :x 1.0d0)", `(make-instance 'c16e-cl :x "a")`, `(make-instance 'c16e-cl :x "A")`,
	"(find-class 'c16e-cl)", "(find-class 'c16e-fl)", "(find-class 'fixnum)", "(find-class 'fixnum)",
	// conditions, functions, packages, streams, times
	"(make-condition 'error)", "(make-condition 'error)", "#'car", "#'car", "#'cdr", "(lambda (x) x)", "(lambda (x) x)",
	"*package*", "(find-package 'keyword)", "*standard-output*", "(make-string-output-stream)", "(now)",
	"nil", "t", "'()",
}

// c16ExtCoarse: the operand kinds of a signature about numbers: every real representation but bit
// and octet is "real" (the comparison of numbers goes through one conversion matrix), sorted
func c16ExtCoarse(a, b string) string {
	co := func(k string) string {
		switch k {
		case "fixnum", "bignum", "ratio", "single-float", "double-float", "long-float", "signed-byte", "unsigned-byte":
			return "real"
		}
		return k
	}
	x, y := co(a), co(b)
	if y < x {
		x, y = y, x
	}
	return x + "," + y
}

func c16ExtFamily(c *lib.Ctx) {
	scope := slip.NewScope()
	for _, src := range c16ExtSetup {
		if o := lib.EvalString(scope, src); !o.Ok {
			fmt.Printf("c16: ext setup %s failed: %s %s\n", src, o.Class, o.Msg)
			panic("c16 ext setup")
		}
	}
	n := len(c16ExtPool)
	kinds := make([]string, n)
	for i, src := range c16ExtPool {
		o := lib.EvalString(scope, src)
		if !o.Ok {
			fmt.Printf("c16: ext pool expression %s failed: %s %s\n", src, o.Class, o.Msg)
			panic("c16 ext pool")
		}
		scope.Let(slip.Symbol(fmt.Sprintf("u%d", i)), o.Value)
		kinds[i] = c16TypeOfText(scope, o.Value)
		c.Ev.Hist("ext_pool_kind", kinds[i])
	}
	var m [4][][]string
	for p := range m {
		m[p] = make([][]string, n)
		for i := range m[p] {
			m[p][i] = make([]string, n)
		}
	}
	hash := make([]string, n)
	for i := 0; i < n; i++ {
		for j := 0; j < n; j++ {
			for p, name := range c16Preds {
				m[p][i][j] = c16Call(scope, fmt.Sprintf("(%s u%d u%d)", name, i, j))
			}
			c.Ev.Case("ext pair "+c16ExtPool[i]+" | "+c16ExtPool[j]+fmt.Sprintf(" #%d,%d", i, j), true)
		}
		hash[i] = c16Call(scope, fmt.Sprintf("(sxhash u%d)", i))
	}
	isBool := func(s string) bool { return s == "t" || s == "n" }
	rep := func(sig, input, observed, expected string) {
		c.Report(sig, true, map[string]any{"family": "ext", "input": input, "observed": observed, "expected": expected, "expected_from": "property statement"})
	}
	for i := 0; i < n; i++ {
		if !strings.HasPrefix(hash[i], "V:") {
			rep(fmt.Sprintf("ext law=sxhash-total kinds=%s aspect=%s", kinds[i], hash[i]), "(sxhash "+c16ExtPool[i]+")", hash[i], "a fixnum")
		}
		for j := 0; j < n; j++ {
			kk := kinds[i] + "," + kinds[j]
			xy := fmt.Sprintf("x=%s y=%s", c16ExtPool[i], c16ExtPool[j])
			for p, name := range c16Preds {
				got := m[p][i][j]
				if !isBool(got) {
					aspect := "condition:" + strings.TrimPrefix(got, "E:")
					if strings.HasPrefix(got, "G:") {
						aspect = "go-fault"
					}
					rep(fmt.Sprintf("ext pred=%s law=total kinds=%s aspect=%s", name, c16ExtCoarse(kinds[i], kinds[j]), aspect), "("+name+" x y) "+xy, got, "t or nil")
					continue
				}
				if i == j && got == "n" {
					rep(fmt.Sprintf("ext pred=%s law=reflexive kinds=%s aspect=nil", name, kinds[i]), "("+name+" x x) x="+c16ExtPool[i], "nil", "t")
				}
				if i < j && isBool(m[p][j][i]) && got != m[p][j][i] {
					rep(fmt.Sprintf("ext pred=%s law=symmetric kinds=%s aspect=asymmetric", name, kk), "("+name+" x y) ("+name+" y x) "+xy, got+" "+m[p][j][i], "the same answer")
				}
				if p < 3 && got == "t" && m[p+1][i][j] == "n" {
					rep(fmt.Sprintf("ext pred=%s law=chain:%s kinds=%s aspect=not-implied", c16Preds[p+1], name, kk), xy, name+"=t "+c16Preds[p+1]+"=nil", name+" implies "+c16Preds[p+1])
				}
			}
			if i < j && m[2][i][j] == "t" && strings.HasPrefix(hash[i], "V:") && strings.HasPrefix(hash[j], "V:") && hash[i] != hash[j] {
				rep(fmt.Sprintf("ext law=sxhash kinds=%s aspect=codes-differ", c16ExtCoarse(kinds[i], kinds[j])), "(equal x y) (sxhash x) (sxhash y) "+xy, "t "+hash[i][2:]+" "+hash[j][2:], "equal codes for equal objects")
			}
		}
	}
	for p, name := range c16Preds {
		for i := 0; i < n; i++ {
			for j := 0; j < n; j++ {
				if i == j || m[p][i][j] != "t" {
					continue
				}
				for k := 0; k < n; k++ {
					if m[p][j][k] == "t" && m[p][i][k] == "n" {
						rep(fmt.Sprintf("ext pred=%s law=transitive kinds=%s,%s,%s aspect=intransitive", name, kinds[i], kinds[j], kinds[k]),
							fmt.Sprintf("(%s x y) (%s y z) (%s x z) x=%s y=%s z=%s", name, name, name, c16ExtPool[i], c16ExtPool[j], c16ExtPool[k]), "t t nil", "transitive")
					}
				}
			}
		}
	}
	c.Ev.Coverage["ext_pool_objects"] = n
	c.Ev.Count("ext_pairs", n*n)
	c.Ev.Count("ext_triples", n*n*n)
}
