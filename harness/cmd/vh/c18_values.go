package main

// C18 — value universe of the harness: JSON documents (jv), paths, and the canonical encodings
// shared by the implementation side (Go any-trees, slip objects) and the model side (wire tokens).

import (
	"encoding/json"
	"fmt"
	"math"
	"math/big"
	"sort"
	"strconv"
	"strings"
	"time"

	"github.com/ohler55/ojg/jp"
	"github.com/ohler55/slip"
	"verif/harness/lib"
)

// ---------------------------------------------------------------------------------------------
// documents

type jv struct {
	kind byte // n b i d s a o
	b    bool
	i    *big.Int
	f    float64
	s    string
	arr  []*jv
	keys []string
	vals []*jv
}

func jNull() *jv            { return &jv{kind: 'n'} }
func jBool(b bool) *jv      { return &jv{kind: 'b', b: b} }
func jInt(i int64) *jv      { return &jv{kind: 'i', i: big.NewInt(i)} }
func jBig(i *big.Int) *jv   { return &jv{kind: 'i', i: i} }
func jFlo(f float64) *jv    { return &jv{kind: 'd', f: f} }
func jStr(s string) *jv     { return &jv{kind: 's', s: s} }
func jArr(xs ...*jv) *jv    { return &jv{kind: 'a', arr: xs} }

// jTime: a time value named by a model token (second:<float> | nano:<int> | text:<string>).
func jTime(tok string) *jv { return &jv{kind: 'm', s: tok} }

// timeTokCanon turns a model time token into the canonical form of the time it denotes, the way
// pkg/bag/pkg.go and ojg build the time.Time.
func timeTokCanon(tok string) string {
	kind, val, _ := strings.Cut(tok, ":")
	var t time.Time
	switch kind {
	case "second":
		f, err := strconv.ParseFloat(val, 64)
		if err != nil {
			return "m?" + tok
		}
		sec := int64(f)
		t = time.Unix(sec, int64((f-float64(sec))*1_000_000_000.0))
	case "nano":
		n, err := strconv.ParseInt(val, 10, 64)
		if err != nil {
			return "m?" + tok
		}
		t = time.Unix(0, n)
	case "text":
		ok := false
		for _, layout := range []string{time.RFC3339Nano, time.RFC3339, "2006-01-02"} {
			if pt, err := time.ParseInLocation(layout, val, time.UTC); err == nil {
				t, ok = pt, true
				break
			}
		}
		if !ok {
			return "m?" + tok
		}
	default:
		return "m?" + tok
	}
	return "m" + t.UTC().Format(time.RFC3339Nano)
}
func jObj(kv ...any) *jv { // alternating string, *jv
	o := &jv{kind: 'o'}
	for i := 0; i+1 < len(kv); i += 2 {
		o.keys = append(o.keys, kv[i].(string))
		o.vals = append(o.vals, kv[i+1].(*jv))
	}
	return o
}

// fmtFloat is the float token of the line protocol: shortest decimal that identifies the
// float64, forced to contain a point or an exponent mark.
func fmtFloat(f float64) string {
	s := strconv.FormatFloat(f, 'g', -1, 64)
	if !strings.ContainsAny(s, ".eE") {
		s += ".0"
	}
	return s
}

// bigLimit: integers at or beyond this magnitude are held as json.Number by ojg's parsers (a digit
// is added while the value so far has reached MaxInt64/10).
var c18BigLimit = big.NewInt((math.MaxInt64 / 10) * 10)

func (v *jv) isBigInt() bool {
	return v.kind == 'i' && new(big.Int).Abs(v.i).Cmp(c18BigLimit) >= 0
}

func (v *jv) isIntegralFloat() bool {
	return v.kind == 'd' && v.f == math.Trunc(v.f) && math.Abs(v.f) < 1e21
}

// floatHeldAsText: ojg's parsers keep a number as json.Number (its text) when the integer part
// reaches BigLimit or the fraction has 18 or more digits.
func floatHeldAsText(tok string) bool {
	t := strings.TrimPrefix(tok, "-")
	mant, _, _ := strings.Cut(strings.ToLower(t), "e")
	ip, fp, _ := strings.Cut(mant, ".")
	if n, ok := new(big.Int).SetString(ip, 10); ok && n.Cmp(c18BigLimit) >= 0 {
		return true
	}
	return len(fp) >= 18
}

// strKind classifies a string for signatures.
func strKind(s string) string {
	switch s {
	case "":
		return "str-empty"
	case "true", "false", "null":
		return "str-keyword"
	}
	if _, err := strconv.ParseFloat(s, 64); err == nil {
		return "str-number-like"
	}
	if strings.ContainsRune(s, '`') {
		return "str-backtick"
	}
	if s[0] == '-' || s[0] == '+' {
		return "str-sign-led"
	}
	ctrl, high, punct := false, false, false
	for _, c := range s {
		switch {
		case c < 0x20 || c == 0x7f:
			ctrl = true
		case c >= 0x80:
			high = true
		case !(c >= 'a' && c <= 'z' || c >= 'A' && c <= 'Z' || c >= '0' && c <= '9' || c == '_'):
			punct = true
		}
	}
	switch {
	case ctrl:
		return "str-control"
	case high:
		return "str-non-ascii"
	case punct:
		return "str-punct"
	}
	return "str"
}

// leafKind names the value kind used in signatures.
func (v *jv) leafKind() string {
	switch v.kind {
	case 'n':
		return "null"
	case 'b':
		if v.b {
			return "true"
		}
		return "false"
	case 'i':
		if v.isBigInt() {
			return "bigint"
		}
		return "int"
	case 'd':
		if v.isIntegralFloat() {
			return "float-integral"
		}
		if floatHeldAsText(fmtFloat(v.f)) {
			return "float-long"
		}
		return "float"
	case 's':
		return strKind(v.s)
	case 'm':
		return "time"
	case 'a':
		if len(v.arr) == 0 {
			return "empty-arr"
		}
		return "arr"
	case 'o':
		if len(v.keys) == 0 {
			return "empty-obj"
		}
		return "obj"
	}
	return "?"
}

func (v *jv) depth() int {
	d := 0
	for _, c := range v.arr {
		if x := c.depth(); x > d {
			d = x
		}
	}
	for _, c := range v.vals {
		if x := c.depth(); x > d {
			d = x
		}
	}
	if v.kind == 'a' || v.kind == 'o' {
		return d + 1
	}
	return 0
}

// any walks the leaves.
func (v *jv) anyLeaf(p func(*jv) bool) bool {
	if p(v) {
		return true
	}
	for _, c := range v.arr {
		if c.anyLeaf(p) {
			return true
		}
	}
	for _, c := range v.vals {
		if c.anyLeaf(p) {
			return true
		}
	}
	return false
}

// wire encodes the document as model tokens.
func (v *jv) wire() []string {
	switch v.kind {
	case 'n':
		return []string{"n"}
	case 'b':
		if v.b {
			return []string{"T"}
		}
		return []string{"F"}
	case 'i':
		return []string{"i" + v.i.String()}
	case 'd':
		return []string{"d" + fmtFloat(v.f)}
	case 's':
		return []string{"s" + lib.Hex(v.s)}
	case 'm':
		return []string{"m" + lib.Hex(v.s)}
	case 'a':
		out := []string{"["}
		for _, c := range v.arr {
			out = append(out, c.wire()...)
		}
		return append(out, "]")
	default:
		out := []string{"{"}
		for i, k := range v.keys {
			out = append(out, "k"+lib.Hex(k))
			out = append(out, v.vals[i].wire()...)
		}
		return append(out, "}")
	}
}

func c18JSONString(s string) string {
	b, _ := json.Marshal(s)
	// encoding/json escapes <, >, & and U+2028/9 as \uXXXX: all valid JSON
	return string(b)
}

// json renders strict JSON text (the harness's own writer, used as parser input).
func (v *jv) json(sb *strings.Builder) {
	switch v.kind {
	case 'n':
		sb.WriteString("null")
	case 'b':
		if v.b {
			sb.WriteString("true")
		} else {
			sb.WriteString("false")
		}
	case 'i':
		sb.WriteString(v.i.String())
	case 'd':
		sb.WriteString(fmtFloat(v.f))
	case 's':
		sb.WriteString(c18JSONString(v.s))
	case 'a':
		sb.WriteByte('[')
		for i, c := range v.arr {
			if i > 0 {
				sb.WriteByte(',')
			}
			c.json(sb)
		}
		sb.WriteByte(']')
	default:
		sb.WriteByte('{')
		for i, k := range v.keys {
			if i > 0 {
				sb.WriteByte(',')
			}
			sb.WriteString(c18JSONString(k))
			sb.WriteByte(':')
			v.vals[i].json(sb)
		}
		sb.WriteByte('}')
	}
}

func (v *jv) text() string {
	var sb strings.Builder
	v.json(&sb)
	return sb.String()
}

// ---------------------------------------------------------------------------------------------
// canonical form: one string per document, object members sorted by key, floats by bit pattern

func canonFloat(f float64) string { return fmt.Sprintf("d%016x", math.Float64bits(f)) }

func canonFloatTok(tok string) string {
	f, err := strconv.ParseFloat(tok, 64)
	if err != nil && !math.IsInf(f, 0) {
		return "d?" + tok
	}
	return canonFloat(f)
}

func canonMembers(keys []string, vals []string) string {
	idx := make([]int, len(keys))
	for i := range idx {
		idx[i] = i
	}
	sort.SliceStable(idx, func(a, b int) bool { return keys[idx[a]] < keys[idx[b]] })
	var sb strings.Builder
	sb.WriteString("{")
	for _, i := range idx {
		sb.WriteString(" k" + lib.Hex(keys[i]) + " " + vals[i])
	}
	sb.WriteString(" }")
	return sb.String()
}

func (v *jv) canon() string {
	switch v.kind {
	case 'n':
		return "n"
	case 'b':
		if v.b {
			return "T"
		}
		return "F"
	case 'i':
		return "i" + v.i.String()
	case 'd':
		return canonFloat(v.f)
	case 's':
		return "s" + lib.Hex(v.s)
	case 'm':
		return timeTokCanon(v.s)
	case 'a':
		parts := []string{"["}
		for _, c := range v.arr {
			parts = append(parts, c.canon())
		}
		return strings.Join(append(parts, "]"), " ")
	default:
		// duplicate keys: the last one wins (as in a Go map)
		last := map[string]int{}
		for i, k := range v.keys {
			last[k] = i
		}
		var ks, vs []string
		for i, k := range v.keys {
			if last[k] == i {
				ks = append(ks, k)
				vs = append(vs, v.vals[i].canon())
			}
		}
		return canonMembers(ks, vs)
	}
}

func isIntText(s string) bool {
	if s == "" {
		return false
	}
	for i, c := range s {
		if c == '-' && i == 0 && len(s) > 1 {
			continue
		}
		if c < '0' || c > '9' {
			return false
		}
	}
	return true
}

// canonAny is the canonical form of a bag's Go tree.
func canonAny(v any) string {
	switch tv := v.(type) {
	case nil:
		return "n"
	case bool:
		if tv {
			return "T"
		}
		return "F"
	case int64:
		return "i" + strconv.FormatInt(tv, 10)
	case int:
		return "i" + strconv.Itoa(tv)
	case json.Number:
		if isIntText(string(tv)) {
			n, _ := new(big.Int).SetString(string(tv), 10)
			return "i" + n.String()
		}
		return canonFloatTok(string(tv))
	case float64:
		return canonFloat(tv)
	case string:
		return "s" + lib.Hex(tv)
	case time.Time:
		return "m" + tv.UTC().Format(time.RFC3339Nano)
	case []any:
		parts := []string{"["}
		for _, c := range tv {
			parts = append(parts, canonAny(c))
		}
		return strings.Join(append(parts, "]"), " ")
	case map[string]any:
		var ks, vs []string
		for k, c := range tv {
			ks = append(ks, k)
			vs = append(vs, canonAny(c))
		}
		return canonMembers(ks, vs)
	}
	return fmt.Sprintf("?%T", v)
}

// strictAny is like canonAny but keeps the Go representation visible (int64 vs json.Number vs
// float64): used for the direct bag = bag relation.
func strictAny(v any) string {
	switch tv := v.(type) {
	case json.Number:
		return "N" + string(tv)
	case []any:
		parts := []string{"["}
		for _, c := range tv {
			parts = append(parts, strictAny(c))
		}
		return strings.Join(append(parts, "]"), " ")
	case map[string]any:
		var ks, vs []string
		for k, c := range tv {
			ks = append(ks, k)
			vs = append(vs, strictAny(c))
		}
		return canonMembers(ks, vs)
	}
	return canonAny(v)
}

// c18SortPairSlices: in the simplify family a Go map comes back as a slice of [key value] pairs
// in map iteration order, which is not an observable.
var c18SortPairSlices = false

// c18TimeTokens: m<hex> tokens are model time tokens of the J grammar (config family); in the L / G
// grammars m<text> is a time already in canonical text.
var c18TimeTokens = false

// tokTree parses model reply tokens of the J / G grammar into a canonical string. Returns the
// canonical text and the remaining tokens.
func canonTokens(ts []string) (string, []string, bool) {
	if len(ts) == 0 {
		return "", nil, false
	}
	w, rest := ts[0], ts[1:]
	switch {
	case w == "n" || w == "T" || w == "F" || w == "t":
		return w, rest, true
	case w == "[" || w == "(":
		closer := "]"
		if w == "(" {
			closer = ")"
		}
		parts := []string{w}
		allPairs := w == "(" || c18SortPairSlices
		for {
			if len(rest) == 0 {
				return "", nil, false
			}
			if rest[0] == closer {
				rest = rest[1:]
				break
			}
			var c string
			var ok bool
			c, rest, ok = canonTokens(rest)
			if !ok {
				return "", nil, false
			}
			if w == "(" && (!strings.HasPrefix(c, "( s") || !strings.Contains(c, " . ")) {
				allPairs = false
			}
			if w == "[" && (!strings.HasPrefix(c, "[ s") || len(strings.Fields(c)) < 4) {
				allPairs = false
			}
			parts = append(parts, c)
		}
		if allPairs && len(parts) > 2 {
			// an assoc list that came from a Go map: order is not an observable
			sort.Strings(parts[1:])
		}
		return strings.Join(append(parts, closer), " "), rest, true
	case w == ".":
		c, r, ok := canonTokens(rest)
		return ". " + c, r, ok
	case w == "{":
		var ks, vs []string
		for {
			if len(rest) == 0 {
				return "", nil, false
			}
			if rest[0] == "}" {
				rest = rest[1:]
				break
			}
			if !strings.HasPrefix(rest[0], "k") {
				return "", nil, false
			}
			k := lib.Unhex(rest[0][1:])
			var c string
			var ok bool
			c, rest, ok = canonTokens(rest[1:])
			if !ok {
				return "", nil, false
			}
			// model objects keep the first member for a key on lookup; writers keep keys unique
			dup := false
			for _, e := range ks {
				if e == k {
					dup = true
				}
			}
			if !dup {
				ks = append(ks, k)
				vs = append(vs, c)
			}
		}
		return canonMembers(ks, vs), rest, true
	case w[0] == 'd' || w[0] == 'f':
		return string(w[0]) + canonFloatTok(w[1:])[1:], rest, true
	case w[0] == 'm' && c18TimeTokens:
		return timeTokCanon(lib.Unhex(w[1:])), rest, true
	default:
		return w, rest, true
	}
}

func canonTokenString(s string) string {
	c, rest, ok := canonTokens(strings.Fields(s))
	if !ok || len(rest) != 0 {
		return "?bad-tokens " + s
	}
	return c
}

// canonTokenList canonicalises a sequence of values (the model's "list J*" results) as a sorted
// multiset.
func canonTokenList(ts []string, sorted bool) []string {
	var out []string
	for len(ts) > 0 {
		c, rest, ok := canonTokens(ts)
		if !ok {
			return []string{"?bad-tokens"}
		}
		out = append(out, c)
		ts = rest
	}
	if sorted {
		sort.Strings(out)
	}
	return out
}

// ---------------------------------------------------------------------------------------------
// paths

type pstep struct {
	kind byte // k x * d
	key  string
	idx  int
}

type ppath []pstep

func (p ppath) wire() []string {
	var out []string
	for _, s := range p {
		switch s.kind {
		case 'k':
			out = append(out, "k"+lib.Hex(s.key))
		case 'x':
			out = append(out, "x"+strconv.Itoa(s.idx))
		case '*':
			out = append(out, "*")
		default:
			out = append(out, "..")
		}
	}
	return append(out, ";")
}

func (p ppath) expr() jp.Expr { return p.exprFrom(jp.R()) }

// exprFrom builds the expression on a given start (jp.R() = "$", an empty Expr = relative form).
func (p ppath) exprFrom(x jp.Expr) jp.Expr {
	for _, s := range p {
		switch s.kind {
		case 'k':
			x = x.Child(s.key)
		case 'x':
			x = x.Nth(s.idx)
		case '*':
			x = x.Wildcard()
		default:
			x = x.Descent()
		}
	}
	return x
}

func (p ppath) definite() bool {
	for _, s := range p {
		if s.kind == '*' || s.kind == 'd' {
			return false
		}
	}
	return true
}

func (p ppath) hasDescent() bool {
	for _, s := range p {
		if s.kind == 'd' {
			return true
		}
	}
	return false
}

func simpleKey(k string) bool {
	if k == "" || (k[0] >= '0' && k[0] <= '9') {
		return false
	}
	for _, c := range k {
		if !(c >= 'a' && c <= 'z' || c >= 'A' && c <= 'Z' || c >= '0' && c <= '9' || c == '_') {
			return false
		}
	}
	return true
}

// str renders the path in JSONPath text when every key is a plain identifier; rooted=false
// leaves out the leading "$" ("a.b[0]" instead of "$.a.b[0]").
func (p ppath) str(rooted bool) (string, bool) {
	var sb strings.Builder
	if rooted || len(p) == 0 {
		sb.WriteString("$")
	}
	for i, s := range p {
		switch s.kind {
		case 'k':
			if !simpleKey(s.key) {
				return "", false
			}
			if (i > 0 && p[i-1].kind == 'd') || (i == 0 && !rooted) {
				sb.WriteString(s.key)
			} else {
				sb.WriteString("." + s.key)
			}
		case 'x':
			sb.WriteString("[" + strconv.Itoa(s.idx) + "]")
		case '*':
			sb.WriteString("[*]")
		default:
			sb.WriteString("..")
		}
	}
	return sb.String(), true
}

func (p ppath) show() string {
	return p.expr().String()
}

// stepKinds classifies the steps against the tree the path is applied to (signature part).
func (p ppath) stepKinds(root any) string {
	var out []string
	cur, known := root, true
	for _, s := range p {
		if !known {
			switch s.kind {
			case 'k':
				out = append(out, "key")
			case 'x':
				if s.idx < 0 {
					out = append(out, "neg")
				} else {
					out = append(out, "idx")
				}
			case '*':
				out = append(out, "wild")
			default:
				out = append(out, "desc")
			}
			continue
		}
		switch s.kind {
		case '*':
			out = append(out, "wild")
			known = false
		case 'd':
			out = append(out, "desc")
			known = false
		case 'k':
			switch t := cur.(type) {
			case map[string]any:
				if c, has := t[s.key]; has {
					out = append(out, "key-hit")
					cur = c
				} else {
					out = append(out, "key-miss")
					known = false
				}
			case []any:
				out = append(out, "key@arr")
				known = false
			default:
				out = append(out, "key@scalar")
				known = false
			}
		case 'x':
			name := "idx"
			if s.idx < 0 {
				name = "neg"
			}
			switch t := cur.(type) {
			case []any:
				n := s.idx
				if n < 0 {
					n += len(t)
				}
				if n >= 0 && n < len(t) {
					out = append(out, name+"-in")
					cur = t[n]
				} else {
					out = append(out, name+"-out")
					known = false
				}
			case map[string]any:
				out = append(out, name+"@obj")
				known = false
			default:
				out = append(out, name+"@scalar")
				known = false
			}
		}
	}
	if len(out) == 0 {
		return "root"
	}
	return strings.Join(out, ",")
}

// ---------------------------------------------------------------------------------------------
// Lisp objects as model L tokens

func encLisp(o slip.Object) []string {
	switch t := o.(type) {
	case nil:
		return []string{"n"}
	case slip.Fixnum:
		return []string{"i" + strconv.FormatInt(int64(t), 10)}
	case *slip.Bignum:
		return []string{"i" + (*big.Int)(t).String()}
	case slip.Octet:
		return []string{"o" + strconv.Itoa(int(t))}
	case slip.SingleFloat:
		return []string{"f" + fmtFloat(float64(t))}
	case slip.DoubleFloat:
		return []string{"d" + fmtFloat(float64(t))}
	case slip.String:
		return []string{"s" + lib.Hex(string(t))}
	case slip.Symbol:
		return []string{"y" + lib.Hex(string(t))}
	case slip.Time:
		return []string{"m" + time.Time(t).UTC().Format(time.RFC3339Nano)}
	case slip.List:
		out := []string{"("}
		for _, e := range t {
			out = append(out, encLisp(e)...)
		}
		return append(out, ")")
	case slip.Tail:
		return append([]string{"."}, encLisp(t.Value)...)
	}
	if o == slip.True {
		return []string{"t"}
	}
	return []string{fmt.Sprintf("?%T", o)}
}
