package main

// C09 (c): format control strings over the directive alphabet x argument lists.
// Single-cause sweep (seed independent): every directive instance (directive x modifiers x
// parameter shape) x every argument list of length 0, 1 and 2 over the format argument pool.
// Seeded part: composite control strings built from the same instances; a faulting composite is
// minimised (segments, then arguments) and its signature is the one of the minimal case.

import (
	"fmt"
	"strings"

	"verif/harness/lib"
)

// format argument pool (Expr text, type label)
var c09FmtArgs = []c09Obj{
	c09Self("nil", "null", "nil"),
	c09Self("t", "boolean", "t"),
	c09Self("0", "fixnum", "0"),
	c09Self("1", "fixnum", "1"),
	c09Self("-1", "fixnum", "-1"),
	c09Self("1e15", "fixnum", "1000000000000000"),
	c09Self("1e21", "bignum", "1000000000000000000000"),
	c09Self("1/2", "ratio", "1/2"),
	c09Self("1.5", "double-float", "1.5d0"),
	c09Self("\"a\"", "string", `"a"`),
	c09Self("\"~a\"", "string", `"~a"`),
	c09Lit("sym", "symbol", "c09-sym"),
	c09Self("#\\a", "character", `#\a`),
	c09Lit("(1 2 3)", "list", "(1 2 3)"),
	c09Lit("((1 2) (3 4))", "nested-list", "((1 2) (3 4))"),
	c09Self("#(1 2)", "vector", "#(1 2)"),
}

// second arguments of the quick tier's two-argument lists
var c09FmtSecond = map[string]bool{"nil": true, "1": true, "-1": true, "1e15": true, "\"a\"": true, "sym": true, "(1 2 3)": true}

// directive bodies: what follows "~<params><modifiers>"; most are the directive character alone,
// block directives come with bodies (terminated and unterminated)
var c09FmtBodies = []struct {
	dir    string
	bodies []string
}{
	{"newline", []string{"\n", "\n  x"}},
	{"$", []string{"$"}}, {"%", []string{"%"}}, {"&", []string{"&"}}, {"|", []string{"|"}}, {"~", []string{"~"}},
	{"(", []string{"(~a~)", "(", "(~)", "(x~:)", "(~(~a~)~)", "(~a", "(~a)", "(~a~"}},
	{")", []string{")"}},
	{"*", []string{"*", "*~a"}},
	{"/", []string{"/car/", "/nosuch/", "/", "/c09-pkg:x/", "//"}},
	{"<", []string{"<~a~;~a~>", "<", "<~>", "<~a~>", "<~a~:;~a~>", "<x~;y~;z~>", "<~a~;", "<~a~;>", "<~a", "<~;~;~>"}},
	{">", []string{">"}},
	{"=", []string{"=(+ 1 2)~=", "=", "=\"a\"~=", "=)~=", "=~="}},
	{"?", []string{"?"}},
	{"A", []string{"A", "a"}}, {"B", []string{"B"}}, {"C", []string{"C"}}, {"D", []string{"D", "d"}}, {"E", []string{"E"}}, {"F", []string{"F"}},
	{"G", []string{"G"}}, {"I", []string{"I"}}, {"O", []string{"O"}}, {"P", []string{"P"}}, {"R", []string{"R", "r"}}, {"S", []string{"S"}},
	{"T", []string{"T"}}, {"W", []string{"W"}}, {"X", []string{"X"}},
	{"[", []string{"[zero~;one~:;other~]", "[", "[~]", "[a~;b~]", "[~a~]", "[a~;~]", "[a~;]", "[a~;;b~]", "[a~;", "[a~:;]", "[a~;~[x~;y~]~;c~]", "[~;~;~]"}},
	{"]", []string{"]"}},
	{"{", []string{"{~a~}", "{", "{~}", "{~a~^,~}", "{~a ~a~}", "{~}~a", "{~a", "{~a}", "{~a~:}", "{~{~a~}~}"}},
	{"}", []string{"}"}},
	{"^", []string{"^", "^x"}},
	{";", []string{";"}},
	{"unknown", []string{"H", "!", "Z", " ", "\x00", "\xff", "é", "\""}},
	{"end", []string{""}},
}

var c09FmtMods = []string{"", ":", "@", ":@", "@:", "::", "@@"}

// parameter shapes (class label, text)
var c09FmtParams = [][2]string{
	{"-", ""}, {"n", "5"}, {"0", "0"}, {"neg", "-1"}, {"v", "v"}, {"#", "#"}, {"'c", "'x"}, {"n,n", "5,3"}, {"n,0", "5,0"}, {"0,0", "0,0"}, {",,,0", ",,,0"}, {",,,n", ",,,2"}, {",,'c", ",,'*"}, {"v,v", "v,v"},
	{"n*8", "1,2,3,4,5,6,7,8"}, {"big", "100000"}, {"overflow", "99999999999999999999"}, {",", ","}, {"'", "'"}, {"n,", "5,"}, {"-", "-"}, {"+n", "+5"}, {"V", "V"},
}

type c09FmtInst struct {
	dir, mod, pclass string
	text             string // the directive instance text
}

func (i c09FmtInst) label() string {
	return fmt.Sprintf("dir=%s mod=%q params=%s", i.dir, i.mod, i.pclass)
}

func c09FmtInstances() []c09FmtInst {
	var out []c09FmtInst
	seen := map[string]bool{}
	for _, d := range c09FmtBodies {
		for bi, body := range d.bodies {
			dir := d.dir
			if len(d.bodies) > 1 {
				dir = fmt.Sprintf("%s#%d", d.dir, bi)
			}
			for mi, m := range c09FmtMods {
				for _, p := range c09FmtParams {
					if mi >= 4 && p[0] != "-" {
						continue // doubled / reversed modifiers only without parameters
					}
					t := "~" + p[1] + m + body
					if seen[t] {
						continue
					}
					seen[t] = true
					out = append(out, c09FmtInst{dir, m, p[0], t})
				}
			}
		}
	}
	return out
}

// huge-size probes: a directive repeating / padding 10^11 times. Kept out of the exhaustive table
// (each one runs until the memory cap) and tried with two argument lists only.
var c09FmtHuge = []string{"~99999999999%", "~99999999999&", "~99999999999|", "~99999999999~", "~99999999999A", "~99999999999D", "~99999999999T",
	"~99999999999,1T", "~0,99999999999T", "~99999999999<~a~>", "~99999999999$", "~1,99999999999$", "~1,1,99999999999$", "~99999999999F", "~1,99999999999F",
	"~99999999999E", "~1,99999999999E", "~99999999999*", "~99999999999{~a~}", "~99999999999R", "~99999999999,1,1,1R", "~99999999999C", "~99999999999S", "~99999999999B", "~99999999999O", "~99999999999X", "~99999999999G", "~99999999999W", "~99999999999P", "~99999999999[a~]"}

// c09DigitRun: the length of the longest run of decimal digits.
func c09DigitRun(s string) int {
	run, max := 0, 0
	for i := 0; i < len(s); i++ {
		if '0' <= s[i] && s[i] <= '9' {
			run++
			if run > max {
				max = run
			}
		} else {
			run = 0
		}
	}
	return max
}

func c09LispString(s string) string {
	s = strings.ReplaceAll(s, `\`, `\\`)
	s = strings.ReplaceAll(s, `"`, `\"`)
	return `"` + s + `"`
}

func c09FmtCall(control string, args []int) string {
	var b strings.Builder
	b.WriteString("(format nil ")
	b.WriteString(c09LispString(control))
	for _, a := range args {
		b.WriteByte(' ')
		b.WriteString(c09FmtArgs[a].Expr)
	}
	b.WriteByte(')')
	return b.String()
}

func c09FmtTypes(args []int) string {
	if len(args) == 0 {
		return "-"
	}
	t := make([]string, len(args))
	for i, a := range args {
		t[i] = c09FmtArgs[a].Type
	}
	return strings.Join(t, ",")
}

type c09FmtCase struct {
	segs  []string // directive instance labels (table: one)
	ctl   string
	args  []int
	table bool
	// seeded composites: the text of every part (directive instances and literal text) and the
	// label of the part ("" for literal text); nil for table cases and mutated strings
	parts  []string
	labels []string
}

func (fc c09FmtCase) sig(kind string) string {
	return fmt.Sprintf("format %s args=%s kind=%s", strings.Join(fc.segs, " + "), c09FmtTypes(fc.args), kind)
}

// c09FmtTable: the single-cause sweep.
func c09FmtTable(thorough bool) []c09FmtCase {
	var out []c09FmtCase
	n := len(c09FmtArgs)
	for _, in := range c09FmtInstances() {
		lab := []string{in.label()}
		out = append(out, c09FmtCase{segs: lab, ctl: in.text, table: true})
		// a huge integer consumed by a v parameter is a repeat / padding count: those cells run
		// until the memory cap, so they are tried in c09FmtHuge only, not in the cross product
		vparam := strings.ContainsAny(in.pclass, "vV")
		hugeArg := func(a int) bool { return vparam && (c09FmtArgs[a].Name == "1e15" || c09FmtArgs[a].Name == "1e21") }
		for a := 0; a < n; a++ {
			if hugeArg(a) {
				continue
			}
			out = append(out, c09FmtCase{segs: lab, ctl: in.text, args: []int{a}, table: true})
		}
		// two arguments matter only when the instance can consume two: a v parameter, or a body
		// with more than one directive / a block / ~? / ~* (quick tier; thorough: always)
		two := thorough || strings.ContainsAny(in.pclass, "vV") || strings.Count(in.text, "~") > 1 ||
			strings.ContainsAny(in.dir[:1], "?*([{</")
		for a := 0; a < n && two; a++ {
			for b := 0; b < n; b++ {
				if hugeArg(a) || (in.pclass == "v,v" && hugeArg(b)) {
					continue
				}
				if !thorough && !c09FmtSecond[c09FmtArgs[b].Name] {
					continue // quick tier: second argument from a reduced pool
				}
				out = append(out, c09FmtCase{segs: lab, ctl: in.text, args: []int{a, b}, table: true})
			}
		}
	}
	out = append(out, c09BoundaryFormatTable()...)
	for _, h := range c09FmtHuge {
		lab := []string{"huge " + h}
		out = append(out, c09FmtCase{segs: lab, ctl: h, table: true})
		out = append(out, c09FmtCase{segs: lab, ctl: h, args: []int{3}, table: true})
		out = append(out, c09FmtCase{segs: lab, ctl: h, args: []int{13}, table: true})
		// the same count given through a v parameter
		hv := strings.Replace(h, "99999999999", "v", 1)
		out = append(out, c09FmtCase{segs: []string{"huge " + hv}, ctl: hv, args: []int{5, 3}, table: true})
	}
	return out
}

// c09FmtSeeded: composite control strings: 2..5 segments (directive instances and literal text)
// and 0..4 arguments; a share of them is mutated at the byte level over the directive alphabet.
func c09FmtSeeded(rng *lib.Rng, n int, skip func(label string) bool) []c09FmtCase {
	insts := c09FmtInstances()
	alphabet := []byte("~~~~:@,#v'0123456789-+()[]{}<>;^*?/%&|$ADRSFEGCBOXPTWI\n a")
	var out []c09FmtCase
	for len(out) < n {
		k := 2 + rng.Intn(4)
		var fc c09FmtCase
		var b strings.Builder
		for i := 0; i < k; i++ {
			if rng.Chance(25) {
				lit := []string{"x", " ", "abc ", "\n", "é", "~~"}[rng.Intn(6)]
				b.WriteString(lit)
				fc.parts, fc.labels = append(fc.parts, lit), append(fc.labels, "")
				continue
			}
			in := insts[rng.Intn(len(insts))]
			if skip(in.label()) {
				continue
			}
			fc.segs = append(fc.segs, in.label())
			fc.parts, fc.labels = append(fc.parts, in.text), append(fc.labels, in.label())
			b.WriteString(in.text)
		}
		fc.ctl = b.String()
		if len(fc.segs) == 0 {
			fc.segs = []string{"literal"}
		}
		if rng.Chance(20) {
			// byte-level mutation: the segments no longer describe the control string
			bs := []byte(fc.ctl)
			for m := 1 + rng.Intn(3); m > 0 && len(bs) > 0; m-- {
				i := rng.Intn(len(bs))
				switch rng.Intn(3) {
				case 0:
					bs[i] = alphabet[rng.Intn(len(alphabet))]
				case 1:
					bs = append(bs[:i], append([]byte{alphabet[rng.Intn(len(alphabet))]}, bs[i:]...)...)
				case 2:
					bs = append(bs[:i], bs[i+1:]...)
				}
			}
			fc.ctl = string(bs)
			fc.segs = []string{"mutated"}
			fc.parts, fc.labels = nil, nil
			if c09DigitRun(fc.ctl) > 6 {
				continue // a count beyond 10^6 belongs to the huge-count probes of the table
			}
		}
		// a huge integer consumed by a v parameter is a repeat / padding count (see c09FmtHuge)
		vparam := strings.ContainsAny(fc.ctl, "vV")
		for a := rng.Intn(5); a > 0; a-- {
			x := rng.Intn(len(c09FmtArgs))
			if vparam && (c09FmtArgs[x].Name == "1e15" || c09FmtArgs[x].Name == "1e21") {
				x = 3
			}
			fc.args = append(fc.args, x)
		}
		out = append(out, fc)
	}
	return out
}
