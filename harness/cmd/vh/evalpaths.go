package main

// Exit-path analysis of a program (independent of the generator): for every return-from / return /
// go form, the chain of (form, position) cells between the exit and its lexical target is
// computed with the cell names of the single-cause sweep (c07Ctx), and checked against the
// findings. Used (1) to validate every generated composite program — a program that places an exit
// behind a listed cell is a generator bug and is set aside, never judged — and (2) to keep the
// shrinker from moving an exit behind a listed cell.

type evPathEntry struct {
	cell    string   // a (form, position) cell, or "" for a target entry
	block   string   // target entry: block name ("nil" for the nil block), "" if none
	tags    []string // target entry: tags of a tagbody
	stmt    int      // target entry (tagbody): index of the statement being walked
	items   []*sx    // target entry (tagbody): all items
	fence   bool     // a function boundary that hides every outer target (non-immediate lambda, defun)
	selfOf  string   // cell entry return-from.value: the block the enclosing return-from aims at
	through string   // target entry: the cell an exit crosses when it passes this entry without stopping
}

type evPathChecker struct {
	avoid   func(cell, exit string) bool
	userFns map[string]bool
	bad     string // first offending (cell, exit) or problem
}

// evExitPathsOK reports whether every exit of the program only crosses cells that pass.
func evExitPathsOK(forms []*sx, avoid func(cell, exit string) bool) (bool, string) {
	pc := &evPathChecker{avoid: avoid, userFns: map[string]bool{}}
	// every defun of the program, also one nested in a let (a function closing over the variables of the let)
	var collect func(f *sx)
	collect = func(f *sx) {
		if f == nil || f.k != 'l' {
			return
		}
		if len(f.l) >= 3 && f.l[0].k == 'y' && f.l[0].s == "defun" && f.l[1].k == 'y' {
			pc.userFns[f.l[1].s] = true
		}
		for _, e := range f.l {
			collect(e)
		}
	}
	for _, f := range forms {
		collect(f)
	}
	for _, f := range forms {
		pc.walk(f, nil)
	}
	return pc.bad == "", pc.bad
}

func (pc *evPathChecker) fail(why string) {
	if pc.bad == "" {
		pc.bad = why
	}
}

func evTagText(x *sx) (string, bool) {
	switch x.k {
	case 'y':
		return "y:" + x.s, true
	case 'i':
		return "i:" + x.String(), true
	}
	return "", false
}

// exit checks the chain for an exit of the given kind family ("ret" with block name, or "go" with tag)
func (pc *evPathChecker) exit(stack []evPathEntry, isGo bool, name string) {
	var cells []evPathEntry
	// value forms of enclosing return-from forms crossed so far whose own block has not been seen yet
	var pendingRF []string
	for i := len(stack) - 1; i >= 0; i-- {
		e := stack[i]
		if e.fence {
			pc.fail("exit to a target outside a function that is not called on the spot: " + name)
			return
		}
		if e.cell != "" {
			cells = append(cells, e)
			if e.cell == "return-from.value" {
				pendingRF = append(pendingRF, e.selfOf)
			}
			continue
		}
		kind := ""
		if !isGo && e.block == name && e.block != "" {
			kind = "ret-from"
			if name == "nil" {
				kind = "ret-nil"
			}
		}
		if isGo {
			for ti, it := range e.items {
				if tt, ok := evTagText(it); ok && tt == name {
					kind = "go-fwd"
					if ti < e.stmt {
						kind = "go-back"
					}
					break
				}
			}
		}
		if kind == "" {
			if e.through != "" {
				cells = append(cells, evPathEntry{cell: e.through})
			}
			if e.block != "" {
				// the block of an enclosing return-from lies inside the exit's target: harmless
				var still []string
				for _, w := range pendingRF {
					if w != e.block {
						still = append(still, w)
					}
				}
				pendingRF = still
			}
			continue
		}
		for _, c := range cells {
			if pc.avoid(c.cell, kind) {
				pc.fail("cell=" + c.cell + " exit=" + kind)
				return
			}
		}
		for _, w := range pendingRF {
			pair := "return-from.value-outer-block"
			if !isGo && w == name {
				pair = "return-from.value-same-block"
			}
			if pc.avoid(pair, kind) {
				pc.fail("cell=" + pair + " exit=" + kind)
				return
			}
		}
		return
	}
	// no lexical target: the reference signals control-error; the implementation may do anything
	// dynamic — only generated on purpose in sweep cells
	pc.fail("exit without lexical target: " + name)
}

func push(stack []evPathEntry, e evPathEntry) []evPathEntry {
	return append(append([]evPathEntry{}, stack...), e)
}

// seq walks body forms with cells <name>.body / <name>.last
func (pc *evPathChecker) seq(forms []*sx, name string, stack []evPathEntry) {
	for i, f := range forms {
		cell := name + ".body"
		if i == len(forms)-1 {
			cell = name + ".last"
		}
		pc.walk(f, push(stack, evPathEntry{cell: cell}))
	}
}

// lambda walks (lambda (params) body…) whose call happens on the spot; cellName "" = not called
// on the spot (a fence)
func (pc *evPathChecker) lambda(x *sx, cellName string, stack []evPathEntry) {
	if len(x.l) < 2 {
		return
	}
	if cellName == "" {
		stack = push(stack, evPathEntry{fence: true})
		cellName = "lambda"
	}
	pc.seq(x.l[2:], cellName, stack)
}

func isLambda(x *sx) bool {
	return x.k == 'l' && len(x.l) >= 2 && x.l[0].k == 'y' && x.l[0].s == "lambda"
}

func (pc *evPathChecker) walk(x *sx, stack []evPathEntry) {
	if x.k != 'l' || len(x.l) == 0 {
		return
	}
	head := x.l[0]
	args := x.l[1:]
	sub := func(f *sx, cell string) { pc.walk(f, push(stack, evPathEntry{cell: cell})) }
	if isLambda(head) {
		// ((lambda (p…) body…) arg…)
		for _, a := range args {
			sub(a, "dlambda.arg")
		}
		pc.seq(head.l[2:], "dlambda", stack)
		return
	}
	if head.k != 'y' {
		return
	}
	bindings := func(bs *sx, cell string) {
		if bs.k != 'l' {
			return
		}
		for _, b := range bs.l {
			if b.k == 'l' && len(b.l) >= 2 {
				if isLambda(b.l[1]) {
					pc.lambda(b.l[1], "", stack)
				} else {
					sub(b.l[1], cell)
				}
			}
		}
	}
	loopStack := func(body []*sx) []evPathEntry {
		return push(stack, evPathEntry{block: "nil", items: body, stmt: -1})
	}
	switch head.s {
	case "quote":
		return
	case "progn", "ignore-errors":
		pc.seq(args, head.s, stack)
	case "prog1":
		for i, a := range args {
			if i == 0 {
				sub(a, "prog1.first")
			} else {
				sub(a, "prog1.body")
			}
		}
	case "if":
		for i, a := range args {
			sub(a, []string{"if.test", "if.then", "if.else"}[min(i, 2)])
		}
	case "when", "unless":
		if len(args) > 0 {
			sub(args[0], head.s+".test")
			pc.seq(args[1:], head.s, stack)
		}
	case "cond":
		for _, cl := range args {
			if cl.k == 'l' && len(cl.l) > 0 {
				sub(cl.l[0], "cond.test")
				pc.seq(cl.l[1:], "cond", stack)
			}
		}
	case "case":
		if len(args) > 0 {
			sub(args[0], "case.key")
			for _, cl := range args[1:] {
				if cl.k == 'l' && len(cl.l) > 0 {
					pc.seq(cl.l[1:], "case", stack)
				}
			}
		}
	case "and", "or":
		for i, a := range args {
			if i == len(args)-1 {
				sub(a, head.s+".last")
			} else {
				sub(a, head.s+".first")
			}
		}
	case "let", "let*":
		if len(args) > 0 {
			bindings(args[0], head.s+".init")
			pc.seq(args[1:], head.s, stack)
		}
	case "setq":
		for i := 1; i < len(args); i += 2 {
			sub(args[i], "setq.value")
		}
	case "lambda":
		pc.lambda(x, "", stack)
	case "function":
		if len(args) == 1 && isLambda(args[0]) {
			pc.lambda(args[0], "", stack)
		}
	case "funcall", "apply", "mapcar":
		cell := map[string]string{"funcall": "funcall.arg", "apply": "apply.arg", "mapcar": "mapcar.list"}[head.s]
		for i, a := range args {
			if i == 0 && isLambda(a) {
				lc := "lambda"
				if head.s == "mapcar" {
					lc = "mapcar-lambda"
				}
				pc.lambda(a, lc, stack)
				continue
			}
			sub(a, cell)
		}
	case "defun":
		if len(args) >= 2 && args[0].k == 'y' {
			st := []evPathEntry{{fence: true}, {block: args[0].s}}
			pc.seq(args[2:], "block", st)
		}
	case "dolist", "dotimes":
		if len(args) > 0 && args[0].k == 'l' {
			body := args[1:]
			ls := loopStack(body)
			cells := []string{"", head.s + ".list", head.s + ".result"}
			if head.s == "dotimes" {
				cells[1] = "dotimes.count"
			}
			for i, e := range args[0].l {
				if i >= 1 && i <= 2 {
					pc.walk(e, push(ls, evPathEntry{cell: cells[i]}))
				}
			}
			for _, b := range body {
				pc.walk(b, push(ls, evPathEntry{cell: head.s + ".body"}))
			}
		}
	case "do", "do*":
		if len(args) >= 2 && args[0].k == 'l' && args[1].k == 'l' {
			body := args[2:]
			ls := loopStack(body)
			for _, b := range args[0].l {
				if b.k == 'l' {
					if len(b.l) >= 2 {
						pc.walk(b.l[1], push(ls, evPathEntry{cell: head.s + ".init"}))
					}
					if len(b.l) >= 3 {
						pc.walk(b.l[2], push(ls, evPathEntry{cell: head.s + ".step"}))
					}
				}
			}
			for i, e := range args[1].l {
				if i == 0 {
					pc.walk(e, push(ls, evPathEntry{cell: head.s + ".test"}))
				} else {
					pc.walk(e, push(ls, evPathEntry{cell: head.s + ".result"}))
				}
			}
			for _, b := range body {
				pc.walk(b, push(ls, evPathEntry{cell: head.s + ".body"}))
			}
		}
	case "values":
		for _, a := range args {
			sub(a, "values.arg")
		}
	case "multiple-value-list":
		for _, a := range args {
			sub(a, "mvl.arg")
		}
	case "multiple-value-bind":
		if len(args) >= 2 {
			sub(args[1], "mvb.values")
			pc.seq(args[2:], "mvb", stack)
		}
	case "block":
		if len(args) >= 1 {
			name := "nil"
			if args[0].k == 'y' {
				name = args[0].s
			}
			pc.seq(args[1:], "block", push(stack, evPathEntry{block: name}))
		}
	case "return-from":
		if len(args) >= 1 {
			name := "nil"
			if args[0].k == 'y' {
				name = args[0].s
			}
			for _, a := range args[1:] {
				pc.walk(a, push(stack, evPathEntry{cell: "return-from.value", selfOf: name}))
			}
			pc.exit(stack, false, name)
		}
	case "return":
		for _, a := range args {
			pc.walk(a, push(stack, evPathEntry{cell: "return-from.value", selfOf: "nil"}))
		}
		pc.exit(stack, false, "nil")
	case "tagbody":
		for i, it := range args {
			if it.k != 'l' {
				continue
			}
			// a statement's exits aimed at this tagbody cross no cell ("direct"); exits aimed further
			// out cross the cell tagbody.body — handled in exit(): a target entry that does not match
			// counts as the cell named in through
			pc.walk(it, push(stack, evPathEntry{items: args, stmt: i, through: "tagbody.body"}))
		}
	case "go":
		if len(args) == 1 {
			if tt, ok := evTagText(args[0]); ok {
				pc.exit(stack, true, tt)
			}
		}
	case "unwind-protect":
		for i, a := range args {
			if i == 0 {
				sub(a, "unwind-protect.protected")
			} else {
				sub(a, "unwind-protect.cleanup")
			}
		}
	case "with-mutex-lock":
		if len(args) > 0 {
			pc.seq(args[1:], "with-mutex-lock", stack)
		}
	case "recover":
		if len(args) >= 2 {
			sub(args[1], "recover.on-recover")
			pc.seq(args[2:], "recover", stack)
		}
	case "with-open-file":
		if len(args) > 0 {
			if args[0].k == 'l' {
				for _, a := range args[0].l[1:] {
					sub(a, "with-open-file.path")
				}
			}
			pc.seq(args[1:], "with-open-file", stack)
		}
	default:
		cell := "call.arg"
		if pc.userFns[head.s] {
			cell = "ucall.arg"
		}
		for _, a := range args {
			sub(a, cell)
		}
	}
}
