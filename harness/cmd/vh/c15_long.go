package main

// C15 — long outputs and destination kinds. "Output to nil, t or a stream is the same text" must also
// hold when the output is large: an implementation that writes to a stream in pieces (buffer flushes,
// chunked writers) can lose what ~& and ~T look back at. Producers of N bytes of output (N around the
// powers of two from 1 KiB to beyond 64 KiB, to 1 MiB in the thorough tier) are followed by
// column-sensitive directives; every case is run for every destination kind and compared with the nil
// destination and with the model.

import (
	"fmt"
	"strings"

	"verif/harness/lib"
)

type longProducer struct {
	name string
	make func(n int) (string, []fArg) // about n bytes of output; nil args allowed
	max  int                          // largest n the producer is used for (0 = no limit)
}

func c15Repeat(s string, n int) string {
	if n <= 0 {
		return ""
	}
	return strings.Repeat(s, n/len(s)+1)[:n]
}

// c15Chunks: strings whose lengths add up to n, at most 200 of them
func c15Chunks(n int) []fArg {
	size := 64
	if n/200 > size {
		size = n / 200
	}
	var out []fArg
	for n > 0 {
		k := size
		if n < k {
			k = n
		}
		out = append(out, aStr(c15Repeat("abcdefghij", k)))
		n -= k
	}
	return out
}

func c15LongProducers() []longProducer {
	return []longProducer{
		{"mincol-a", func(n int) (string, []fArg) { return fmt.Sprintf("~%da", n), []fArg{aStr("a")} }, 0},
		{"mincol-d-leftpad", func(n int) (string, []fArg) { return fmt.Sprintf("~%d,'*d", n), []fArg{aInt(7)} }, 0},
		{"mincol-s-v", func(n int) (string, []fArg) { return "~v@s", []fArg{aInt(int64(n)), aSym("x")} }, 0},
		{"repeat-tilde", func(n int) (string, []fArg) { return fmt.Sprintf("~%d~", n), nil }, 0},
		{"repeat-newline", func(n int) (string, []fArg) { return fmt.Sprintf("~%d%%", n), nil }, 0},
		{"repeat-page-v", func(n int) (string, []fArg) { return "~v|", []fArg{aInt(int64(n))} }, 0},
		{"string-argument", func(n int) (string, []fArg) { return "~a", []fArg{aStr(c15Repeat("0123456789", n))} }, 0},
		{"iteration", func(n int) (string, []fArg) { return "~{~a~}", []fArg{aList(c15Chunks(n)...)} }, 140000},
		{"iteration-sublists", func(n int) (string, []fArg) {
			var subs []fArg
			for _, c := range c15Chunks(n) {
				subs = append(subs, aList(c))
			}
			return "~:{~a~}", []fArg{aList(subs...)}
		}, 140000},
		{"case-conversion", func(n int) (string, []fArg) { return fmt.Sprintf("~(~%da~)", n), []fArg{aStr("A")} }, 0},
		{"many-fields", func(n int) (string, []fArg) {
			var b strings.Builder
			var args []fArg
			for left := n; left > 0; left -= 512 {
				k := 512
				if left < k {
					k = left
				}
				fmt.Fprintf(&b, "~%da", k)
				args = append(args, aStr("b"))
			}
			return b.String(), args
		}, 140000},
		{"literal-text", func(n int) (string, []fArg) { return c15Repeat("lorem ipsum ", n), nil }, 8200},
	}
}

type longFollower struct {
	name string
	ctrl string
	args []fArg
}

func c15LongFollowers() []longFollower {
	return []longFollower{
		{"newline-freshline", "~%~&x", nil},
		{"tab-after-text", "abc~8,1t|", nil},
		{"freshline", "~&x", nil},
		{"newline-tab", "~%ab~6t|", nil},
		{"relative-tab", "~2,8@t|", nil},
		{"freshline-in-conditional", "~%~[~&x~]", []fArg{aInt(0)}},
		{"freshline-in-case", "~%~(~&X~)", nil},
		{"freshline-in-iteration", "~%~{~&~a~}", []fArg{aList(aInt(1), aInt(2))}},
		{"freshline-in-recursive", "~%~?", []fArg{aStr("~&x"), aList(aInt(1))}},
		{"tab-in-recursive", "~%ab~?|", []fArg{aStr("~6tx"), aList(aInt(1))}},
		{"two-freshlines", "~%~&~&~2&x", nil},
		{"tab-default", "~%~t|~%abc~t|", nil},
	}
}

func c15LongLengths(thorough bool) []int {
	var out []int
	top := 16
	if thorough {
		top = 20
	}
	for k := 10; k <= top; k++ {
		p := 1 << k
		out = append(out, p-1, p, p+1)
	}
	out = append(out, 3000, 5000, 12288, 70001, 100000)
	if thorough {
		out = append(out, 200000, 600000)
	}
	return out
}

// c15LongDestCases: the deterministic part (sweep cells "rel=destination long=… follow=…").
func c15LongDestCases(thorough bool) []fCase {
	var cases []fCase
	inst := map[string]int{}
	prods, fols := c15LongProducers(), c15LongFollowers()
	for li, n := range c15LongLengths(thorough) {
		for pi, p := range prods {
			if p.max > 0 && n > p.max {
				continue
			}
			// the two most sensitive followers always, the others in rotation (all of them at 4 KiB and 64 KiB)
			pick := []int{0, 1, 2 + (li+pi)%(len(fols)-2)}
			if n == 4096 || n == 65536 {
				pick = nil
				for i := range fols {
					pick = append(pick, i)
				}
			}
			for _, fi := range pick {
				f := fols[fi]
				ctrl, args := p.make(n)
				cell := "rel=destination long=" + p.name + " follow=" + f.name
				cases = append(cases, fCase{Mode: "dest", Ctrl: ctrl + f.ctrl, Args: append(append([]fArg{}, args...), f.args...),
					Cell: cell, Sweep: true, Inst: inst[cell]})
				inst[cell]++
				// the producer twice (two buffer generations)
				if fi == 0 && (n == 4096 || n == 4097 || n == 65536) {
					c2, a2 := p.make(n)
					cell2 := "rel=destination long=" + p.name + " follow=twice"
					cases = append(cases, fCase{Mode: "dest", Ctrl: ctrl + "~%~&a" + c2 + "~%~&b~%xy~5t|",
						Args: append(append([]fArg{}, args...), a2...), Cell: cell2, Sweep: true, Inst: inst[cell2]})
					inst[cell2]++
				}
			}
		}
	}
	// the long output produced INSIDE a block, the column-sensitive directive in the same block
	add := func(name, ctrl string, args ...fArg) {
		cell := "rel=destination long=inside-block follow=" + name
		cases = append(cases, fCase{Mode: "dest", Ctrl: ctrl, Args: args, Cell: cell, Sweep: true, Inst: inst[cell]})
		inst[cell]++
	}
	for _, n := range []int{4095, 4096, 4100, 8192, 65536, 65540} {
		add("iteration", "~{~va~%~&~a~5t|~}", aList(aInt(int64(n)), aStr("a"), aStr("bc"), aInt(int64(n)), aStr("d"), aStr("ef")))
		add("iteration-at", "~@{~va~%~&~a~5t|~}", aInt(int64(n)), aStr("a"), aStr("bc"), aInt(int64(n)), aStr("d"), aStr("ef"))
		add("iteration-sublists", "~:{~va~%~&~a~5t|~}", aList(aList(aInt(int64(n)), aStr("a"), aStr("bc")), aList(aInt(int64(n)), aStr("d"), aStr("ef"))))
		add("case-conversion", fmt.Sprintf("~(~%da~%%~&X~%%yz~5t|~)", n), aStr("A"))
		add("conditional", fmt.Sprintf("~[~;~%da~%%~&x~%%yz~5t|~]", n), aInt(1), aStr("a"))
		add("recursive", "~?", aStr(fmt.Sprintf("~%da~%%~&x~%%yz~5t|", n)), aList(aStr("a")))
		add("recursive-at", "~@?", aStr(fmt.Sprintf("~%da~%%~&x~%%yz~5t|", n)), aStr("a"))
		add("nested", fmt.Sprintf("~{~[~;~(~%da~%%~&X~)~]~%%~&~a~}", n), aList(aInt(1), aStr("a"), aStr("b"), aInt(1), aStr("c"), aStr("d")))
	}
	// one megabyte also in the quick tier (a coarser flush threshold)
	for _, n := range []int{1<<20 - 1, 1<<20 + 1} {
		add("one-mebibyte", fmt.Sprintf("~%da~%%~&x~%%ab~6t|", n), aStr("a"))
		add("one-mebibyte", fmt.Sprintf("~%d,'*d~%%~&x~%%ab~6t|", n), aInt(7))
	}
	return cases
}

// c15CompositeDest: seeded compositions run for every destination kind: optional units, a long producer
// of random size, optional units, a column-sensitive follower.
func c15CompositeDest(rng *lib.Rng, n int, thorough bool, avoid func(string) bool) []fCase {
	g := newC15Gen(rng, avoid)
	prods, fols := c15LongProducers(), c15LongFollowers()
	var out []fCase
	for len(out) < n {
		var units []fUnit
		some := func(k int) {
			for i := 0; i < k; i++ {
				u := g.pieceUnit()
				units = append(units, fUnit{Ctrl: u.ctrl, Args: u.gen()})
			}
		}
		some(rng.Intn(2))
		if rng.Chance(85) {
			size := 0
			top := 17
			if thorough {
				top = 19
			}
			switch rng.Intn(3) {
			case 0: // near a power of two
				size = (1 << (10 + rng.Intn(top-9))) + rng.Intn(7) - 3
			case 1: // a little above a multiple of 4 KiB
				size = 4096*(1+rng.Intn(20)) + rng.Intn(64) - 8
			default:
				size = 1000 + rng.Intn(90000)
			}
			p := prods[rng.Intn(len(prods))]
			if p.max > 0 && size > p.max {
				size = p.max - rng.Intn(100)
			}
			ctrl, args := p.make(size)
			units = append(units, fUnit{Ctrl: ctrl, Args: args})
		}
		some(rng.Intn(3))
		f := fols[rng.Intn(len(fols))]
		units = append(units, fUnit{Ctrl: f.ctrl, Args: f.args})
		cs := fCase{Mode: "dest", Sweep: false, Units: units}
		for _, u := range units {
			cs.Ctrl += u.Ctrl
			cs.Args = append(cs.Args, u.Args...)
		}
		out = append(out, cs)
	}
	return out
}
