package main

// C01 — core evaluation follows the language rules for order, binding and control.
//
// Correspondence: programs from the typed generator (evalgen.go) over the core forms, evaluated by
// the real slip (Scope.Eval on a fresh scope, trace primitive `vtr` registered here in Go) and by
// the Lean reference evaluator (SlipVerif.Model.Eval through "eval run"); compared: outcome kind,
// printed primary value or condition class, ordered trace.
// Single-cause sweep: c01Cells — one minimal program per binding / closure / multiple-value rule;
// known findings of C01 are keyed on these cells; the composite generator avoids the listed ones.

import (
	"fmt"
	"os"
	"sort"
	"strings"
	"time"

	"verif/harness/lib"
)

func init() { props["C01"] = runC01 }

var c01Cells = []struct{ name, prog string }{
	// argument order / once
	{"args.order", "(list (vtr 1) (vtr 2) (vtr 3))"},
	{"args.nested-order", "(+ (vtr 1) (* (vtr 2) (vtr 3)) (vtr 4))"},
	{"args.primary-value-only", "(list (values (vtr 1) (vtr 2)) (vtr 3))"},
	{"funcall.order", "(funcall (vtr (function +)) (vtr 1) (vtr 2))"},
	{"apply.spread", "(apply (function list) (vtr 1) (vtr 2) (vtr (quote (3 4))))"},
	{"mapcar.order", "(mapcar (lambda (vz) (vtr (* vz 10))) (vtr (quote (1 2 3))))"},
	{"mapcar.two-lists", "(mapcar (lambda (vy vz) (vtr (+ vy vz))) (quote (1 2 3)) (quote (10 20)))"},
	{"mapcar.nil-literal", "(mapcar (function 1+) nil)"},
	{"mapcar.nil-through-let", "(mapcar (function vtr) (let ((va 1)) (list)))"},
	{"mapcar.nil-second-list", "(mapcar (function +) (quote (1 2)) nil)"},
	{"funcall.symbol", "(defun c01fs# (vz) (vtr (+ vz 1))) (funcall (quote c01fs#) 1)"},
	// quote
	{"quote.data", "(quote (a \"s\" 1 (b . c) nil t (quote d)))"},
	{"quote.no-eval", "(quote (vtr 1))"},
	// conditionals
	{"if.selected-only", "(list (if (vtr 1) (vtr 2) (vtr 3)) (if (vtr nil) (vtr 4) (vtr 5)) (if (vtr nil) (vtr 6)))"},
	{"when-unless", "(list (when (vtr 1) (vtr 2) (vtr 3)) (when (vtr nil) (vtr 4)) (unless (vtr nil) (vtr 5) (vtr 6)) (unless (vtr 1) (vtr 7)))"},
	{"cond.first-true", "(cond ((vtr nil) (vtr 1)) ((vtr 2) (vtr 3) (vtr 4)) ((vtr 5) (vtr 6)))"},
	{"cond.none", "(cond ((vtr nil) (vtr 1)))"},
	{"cond.test-only", "(cond ((vtr 3)))"},
	{"cond.test-only-later", "(cond ((vtr nil) 1) ((vtr 4)) (t 5))"},
	{"case.keys", "(list (case (vtr 2) (1 (vtr 10)) ((2 3) (vtr 20) (vtr 21)) (t (vtr 30))) (case (vtr 9) (1 (vtr 10)) (otherwise (vtr 30))) (case (vtr 9) (1 (vtr 10))))"},
	{"case.symbol-key", "(case (quote vb) (va (vtr 1)) (vb (vtr 2)) (t (vtr 3)))"},
	{"case.nil-key", "(case nil (nil (vtr 1)) (t (vtr 2)))"},
	{"and-or", "(list (and (vtr 1) (vtr 2)) (and (vtr 1) (vtr nil) (vtr 3)) (and) (or (vtr nil) (vtr 4) (vtr 5)) (or (vtr nil)) (or))"},
	{"progn-prog1", "(list (progn (vtr 1) (vtr 2)) (prog1 (vtr 3) (vtr 4)) (progn))"},
	// binding
	{"let.parallel", "(let ((vx 1)) (let ((vx 2) (vy vx)) (vtr vy)))"},
	{"let.init-order", "(let ((va (vtr 1)) (vb (vtr 2)) vc (vd)) (list va vb vc vd))"},
	{"letstar.empty-bindings", "(let* () (vtr 6))"},
	{"let.empty-bindings", "(let () (vtr 6))"},
	{"letstar.sequential", "(let ((vx 1)) (let* ((vx 2) (vy vx)) (vtr vy)))"},
	{"letstar.closure-later-binding", "(let ((vz 9)) (let* ((vx 1) (vf (lambda (vq) vz)) (vz 2)) (funcall vf 0)))"},
	{"setq.pairs", "(let ((va 1) (vb 2)) (list (setq va (vtr 10) vb (vtr (+ va 1))) va vb (setq)))"},
	{"setq.inner-binding", "(let ((va 1)) (let ((va 2)) (setq va 3)) (vtr va))"},
	{"setq.global", "(setq vgq# (vtr 4)) (let ((vb 1)) (setq vgq# (+ vgq# vb))) (vtr vgq#)"},
	// closures
	{"closure.counter", "(let ((vc 0)) (let ((vinc (lambda (vz) (setq vc (+ vc vz)))) (vget (lambda (vz) vc))) (funcall vinc 2) (funcall vinc 3) (vtr (funcall vget 0)) vc))"},
	{"closure.read.let-shadow", "(let ((vx 1)) (let ((vf (lambda (vz) (vtr vx)))) (let ((vx 2)) (funcall vf 0))))"},
	{"closure.write.let-shadow", "(let ((vx 1)) (let ((vf (lambda (vz) (setq vx (+ vx vz))))) (let ((vx 10)) (funcall vf 5) (vtr vx)) (vtr vx)))"},
	{"closure.read.param-shadow", "(defun c01ps# (vx vf) (funcall vf 0)) (let ((vx 1)) (c01ps# 2 (lambda (vz) (vtr vx))))"},
	{"closure.read.recursion", "(defun c01rec# (vn vf) (if (< vn 1) (funcall vf 0) (c01rec# (- vn 1) (if vf vf (lambda (vz) (vtr vn)))))) (c01rec# 2 nil)"},
	{"closure.escape.upward", "(defun c01mk# (vx) (lambda (vz) (+ vx vz))) (let ((vx 100)) (funcall (c01mk# 1) 10))"},
	{"closure.fresh-per-call", "(defun c01mk# (vx) (lambda (vz) (setq vx (+ vx vz)))) (let ((vf (c01mk# 1)) (vg (c01mk# 100))) (funcall vf 1) (funcall vg 1) (list (funcall vf 0) (funcall vg 0)))"},
	// closures that outlive the binding they were created in (called when the let / the function call that made
	// them has returned), assigning the captured variable from every kind of nested scope of their body
	{"closure.escaped.setq-direct", "(let ((vf (let ((vc 0)) (lambda (vz) (setq vc (+ vc vz)) (vtr vc))))) (funcall vf 1) (funcall vf 2))"},
	{"closure.escaped.setq-in-let", "(let ((vf (let ((vc 0)) (lambda (vz) (let ((vq 1)) (setq vc (+ vc vz vq))) (vtr vc))))) (funcall vf 1) (funcall vf 2))"},
	{"closure.escaped.setq-in-letstar", "(let ((vf (let ((vc 0)) (lambda (vz) (let* ((vq 1) (vr vq)) (setq vc (+ vc vz vr))) (vtr vc))))) (funcall vf 1) (funcall vf 2))"},
	{"closure.escaped.setq-in-dotimes", "(let ((vf (let ((vc 0)) (lambda (vz) (dotimes (vi 2) (setq vc (+ vc vz vi))) (vtr vc))))) (funcall vf 1) (funcall vf 2))"},
	{"closure.escaped.setq-in-dolist", "(let ((vf (let ((vc 0)) (lambda (vz) (dolist (vx (quote (1 2))) (setq vc (+ vc vz vx))) (vtr vc))))) (funcall vf 1) (funcall vf 2))"},
	{"closure.escaped.setq-in-do", "(let ((vf (let ((vc 0)) (lambda (vz) (do ((vi 0 (+ vi 1))) ((>= vi 2)) (setq vc (+ vc vz vi))) (vtr vc))))) (funcall vf 1) (funcall vf 2))"},
	{"closure.escaped.setq-in-dostar", "(let ((vf (let ((vc 0)) (lambda (vz) (do* ((vi 0 (+ vi 1))) ((>= vi 2)) (setq vc (+ vc vz vi))) (vtr vc))))) (funcall vf 1) (funcall vf 2))"},
	{"closure.escaped.setq-in-mvb", "(let ((vf (let ((vc 0)) (lambda (vz) (multiple-value-bind (vm vn) (values vz 1) (setq vc (+ vc vm vn))) (vtr vc))))) (funcall vf 1) (funcall vf 2))"},
	{"closure.escaped.setq-in-block", "(let ((vf (let ((vc 0)) (lambda (vz) (block vb (setq vc (+ vc vz))) (vtr vc))))) (funcall vf 1) (funcall vf 2))"},
	{"closure.escaped.setq-in-nested-lambda", "(let ((vf (let ((vc 0)) (lambda (vz) (funcall (lambda (vy) (setq vc (+ vc vy))) vz) (vtr vc))))) (funcall vf 1) (funcall vf 2))"},
	{"closure.escaped.from-defun", "(defun c01mk# (vc) (lambda (vz) (let ((vq 1)) (setq vc (+ vc vz vq))) (vtr vc))) (let ((vf (c01mk# 10)) (vg (c01mk# 20))) (funcall vf 1) (funcall vg 2) (funcall vf 3))"},
	{"closure.escaped.two-share-one-binding", "(let ((vfs (let ((vc 0)) (list (lambda (vz) (let ((vq vz)) (setq vc (+ vc vq)))) (lambda (vz) (vtr vc)))))) (funcall (car vfs) 5) (funcall (car (cdr vfs)) 0) (funcall (car vfs) 2) (funcall (car (cdr vfs)) 0))"},
	{"closure.escaped.through-mapcar", "(let ((vf (let ((vc 0)) (lambda (vz) (let ((vq vz)) (setq vc (+ vc vq))))))) (vtr (mapcar vf (quote (1 2 3)))))"},
	{"closure.escaped.through-apply", "(let ((vf (let ((vc 0)) (lambda (vy vz) (dotimes (vi 1) (setq vc (+ vc vy vz))) (vtr vc))))) (apply vf 1 (quote (2))) (apply vf (quote (3 4))))"},
	{"closure.escaped.global-not-touched", "(setq vcg# 7) (let ((vf (let ((vcg# 0)) (lambda (vz) (let ((vq 1)) (setq vcg# (+ vcg# vz vq))) (vtr vcg#))))) (funcall vf 1) (vtr vcg#))"},
	// &rest: a list of the surplus arguments, made for the call
	{"rest.collects-surplus", "(funcall (lambda (va &rest vr) (vtr (list va vr))) (vtr 1) (vtr 2) (vtr 3))"},
	{"rest.empty", "(funcall (lambda (va &rest vr) (vtr (list va vr))) 1)"},
	{"rest.defun-apply", "(defun c01rs# (va &rest vr) (vtr (cons va vr))) (apply (function c01rs#) 1 2 (quote (3 4)))"},
	{"rest.mapcar-two-lists-own-list-per-call", "(vtr (mapcar (lambda (&rest vr) vr) (quote (1 2 3)) (quote (10 20 30))))"},
	{"rest.mapcar-list-kept-by-setq", "(let ((vkeep nil)) (mapcar (lambda (va &rest vr) (setq vkeep (cons vr vkeep)) va) (quote (1 2 3)) (quote (10 20 30))) (vtr vkeep))"},
	{"rest.mapcar-list-captured-by-closure", "(let ((vfs (mapcar (lambda (&rest vr) (lambda (vz) vr)) (quote (1 2)) (quote (10 20))))) (vtr (list (funcall (car vfs) 0) (funcall (car (cdr vfs)) 0))))"},
	{"rest.funcall-list-independent-of-later-call", "(let ((vf (lambda (&rest vr) vr))) (let ((va (funcall vf 1 2)) (vb (funcall vf 3 4))) (vtr (list va vb))))"},
	// the same let / function body evaluated again: every evaluation has its own bindings
	{"let.reevaluated-parallel", "(let ((vx 1) (vout nil)) (dotimes (vi 3) (let ((vx (+ vx 10)) (vy (+ vx 100))) (setq vout (cons (list vx vy) vout)))) (vtr vout))"},
	{"defun.recursion-frames-independent", "(defun c01rf# (vn) (let ((va (* vn 10))) (if (> vn 0) (c01rf# (- vn 1))) (vtr (list vn va)))) (c01rf# 2) (c01rf# 1)"},
	{"defun.recursion-after-call-arg", "(defun c01ra# (vn) (if (< vn 1) 0 (+ (c01ra# (- vn 1)) (vtr vn)))) (vtr (c01ra# 3)) (vtr (c01ra# 2))"},
	{"dolist.list-form-outside-binding", "(let ((vx (quote (1 2 3))) (vacc nil)) (dolist (vx vx) (setq vacc (cons vx vacc))) (vtr (list vacc vx)))"},
	{"mvb.values-form-outside-binding", "(let ((va 1)) (multiple-value-bind (va vb) (values (+ va 1) 2) (vtr (list va vb))))"},
	{"defun.free-var-lexical", "(defun c01fv# (vz) (vtr vq#)) (setq vq# 1) (let ((vq# 2)) (c01fv# 0))"},
	{"defun.recursion", "(defun c01fact# (vn) (if (< vn 2) 1 (* vn (c01fact# (- vn 1))))) (vtr (c01fact# 5))"},
	{"defun.late-binding", "(defun c01a# (vz) (c01b# vz)) (defun c01b# (vz) (vtr (+ vz 1))) (c01a# 1)"},
	// a defun inside a let is a closure over the variables of the let, called from outside the let — whether the
	// name is new, already defined (redefinition), or already referred to by the body of an earlier defun
	{"defun.closure.new-name", "(let ((vn 0)) (defun c01dc# () (setq vn (+ vn 1)))) (vtr (c01dc#)) (vtr (c01dc#))"},
	{"defun.closure.redefinition", "(defun c01dc# () 0) (vtr (c01dc#)) (let ((vn 0)) (defun c01dc# () (setq vn (+ vn 1)))) (vtr (c01dc#)) (vtr (c01dc#))"},
	{"defun.closure.redefinition-uncalled", "(defun c01dc# () 0) (let ((vn 0)) (defun c01dc# () (setq vn (+ vn 1)))) (vtr (c01dc#)) (vtr (c01dc#))"},
	{"defun.closure.forward-reference", "(defun c01du# () (c01dc#)) (let ((vn 10)) (defun c01dc# () (setq vn (+ vn 1)))) (vtr (c01du#)) (vtr (c01dc#))"},
	{"defun.closure.redefinition-other-let", "(let ((vk 5)) (defun c01dc# (vx) (+ vx vk))) (vtr (c01dc# 1)) (let ((vk 7)) (defun c01dc# (vx) (* vx vk))) (vtr (c01dc# 2))"},
	{"defun.closure.two-functions-one-variable", "(let ((vn 0)) (defun c01dc# () (setq vn (+ vn 1))) (defun c01dd# () vn)) (c01dc#) (c01dc#) (vtr (c01dd#))"},
	{"defun.closure.not-the-global", "(setq vn# 100) (defun c01dc# () 0) (let ((vn# 0)) (defun c01dc# () (setq vn# (+ vn# 1)))) (vtr (c01dc#)) (vtr vn#)"},
	{"defun.closure.redefinition-inside-function", "(defun c01dm# (vc) (defun c01dc# () (setq vc (+ vc 1)))) (c01dm# 10) (vtr (c01dc#)) (c01dm# 20) (vtr (c01dc#)) (vtr (c01dc#))"},
	{"dlambda.in-defun", "(defun c01dl# (vx#) ((lambda (vy) vx#) 1)) (vtr (c01dl# 5))"},
	{"dlambda.in-defun-arg", "(defun c01dl# (vx#) (vtr ((lambda (vy) (vtr vy) vx#) 1))) (c01dl# 5)"},
	{"dlambda.in-lambda", "(funcall (lambda (vx#) (vtr ((lambda (vy) vx#) 1))) 5)"},
	{"dlambda.in-do-step", "(do ((vi 0 (+ vi 1)) (va# 7 ((lambda (vp) va#) 5))) ((>= vi 2) (vtr va#)))"},
	{"dlambda.in-dostar-step", "(do* ((vi 0 (+ vi 1)) (va# 7 ((lambda (vp) va#) 5))) ((>= vi 2) (vtr va#)))"},
	{"dlambda.call", "((lambda (va vb) (vtr (- va vb))) (vtr 5) (vtr 3))"},
	// loops
	{"dolist.var-nil-in-result", "(dolist (vx (quote (1 2)) (vtr vx)) (vtr vx))"},
	{"dotimes.var-count-in-result", "(dotimes (vi 2 (vtr vi)) (vtr vi))"},
	{"dotimes.no-result", "(dotimes (vi (vtr 2)) (vtr vi))"},
	// boundary: no iteration at all — the variable is bound all the same when the result form is evaluated, and it
	// is the loop's own variable, not an outer one of the same name
	{"dotimes.zero-count-var-in-result", "(dotimes (vi 0 (vtr vi)) (vtr 9))"},
	{"dotimes.zero-count-var-in-result", "(let ((vi 7)) (vtr (dotimes (vi (vtr 0) (list vi 1)) (vtr 9))) (vtr vi))"},
	{"dotimes.zero-count-var-in-result", "(defun c01dz# (vn) (let ((vacc nil)) (dotimes (vj vn (list vj vacc)) (setq vacc (cons vj vacc))))) (vtr (c01dz# 0)) (vtr (c01dz# 2)) (vtr (c01dz# 0))"},
	{"dotimes.zero-count-no-result", "(vtr (dotimes (vi 0) (vtr 9)))"},
	{"dolist.empty-list-var-nil-in-result", "(let ((vx 7)) (vtr (dolist (vx nil (list vx 1)) (vtr 9))) (vtr vx))"},
	{"dolist.empty-list-var-nil-in-result", "(defun c01lz# (vl) (dolist (vx vl (list vx 1)) (vtr vx))) (vtr (c01lz# nil)) (vtr (c01lz# (quote (1)))) (vtr (c01lz# nil))"},
	{"do.zero-iterations", "(let ((vi 7)) (vtr (do ((vi 0 (+ vi 1)) (va (vtr 5) (vtr 6))) ((>= vi 0) (list vi va)) (vtr 9))) (vtr vi))"},
	{"dostar.zero-iterations", "(let ((vi 7)) (vtr (do* ((vi 0 (+ vi 1)) (va (+ vi 5) (vtr 6))) ((>= vi 0) (list vi va)) (vtr 9))) (vtr vi))"},
	{"do.parallel-step", "(do ((vi 0 (+ vi 1)) (va 0 (+ va vi))) ((>= vi 3) (vtr va)) (vtr vi))"},
	{"dostar.sequential-step", "(do* ((vi 0 (+ vi 1)) (va 0 (+ va vi))) ((>= vi 3) (vtr va)) (vtr vi))"},
	{"do.var-without-step", "(do ((vi 0 (+ vi 1)) (va (vtr 5))) ((>= vi 2) (vtr va)) (vtr vi))"},
	{"dostar.var-without-step", "(do* ((vi 0 (+ vi 1)) (va (vtr 5)) vb) ((>= vi 2) (vtr (list va vb))) (vtr vi))"},
	{"do.atom-end-test", "(do ((vi 0 (+ vi 1)) (vdone nil (> vi 1))) (vdone (vtr vi)) (vtr 7))"},
	{"dostar.atom-end-test", "(do* ((vi 0 (+ vi 1)) (vdone nil (> vi 1))) (vdone (vtr vi)) (vtr 7))"},
	{"do.no-result", "(do ((vi 0 (+ vi 1))) ((>= vi 2)) (vtr vi))"},
	{"do.parallel-init", "(let ((vi 7)) (do ((vi 0 (+ vi 1)) (va vi)) ((>= vi 1) (vtr va))))"},
	{"dostar.sequential-init", "(let ((vi 7)) (do* ((vi 0 (+ vi 1)) (va vi)) ((>= vi 1) (vtr va))))"},
	// multiple values
	{"mv.bind-pad-truncate", "(list (multiple-value-bind (va vb vc) (values (vtr 1) (vtr 2)) (list va vb vc)) (multiple-value-bind (va) (values 1 2) va) (multiple-value-bind (va vb) 5 (list va vb)))"},
	{"mv.list", "(list (multiple-value-list (values 1 2 3)) (multiple-value-list 5))"},
	{"mv.values-empty", "(multiple-value-list (values))"},
	{"mv.let-init", "(let ((va (values 1 2))) (list va))"},
	// a variable bound to a form that returns multiple values holds the primary value: wherever the variable is
	// used afterwards (argument of a primitive, of a user function, of funcall / apply, element traced by vtr,
	// values form of multiple-value-bind, captured by a closure) exactly one value arrives
	{"mv.var.let-arith", "(let ((vq (values 7 2))) (vtr (+ vq 1)))"},
	{"mv.var.let-vtr", "(let ((va (values (vtr 1) (vtr 2)))) (vtr va) (vtr (cons va nil)))"},
	{"mv.var.letstar", "(let* ((va (values 1 2)) (vb 3)) (vtr (list va vb)))"},
	{"mv.var.through-if", "(let ((va (if t (values 1 2) 3))) (vtr (funcall (lambda (vz) (list vz vz)) va)))"},
	{"mv.var.from-function", "(defun c01mvf# (vz) (values vz (+ vz 1))) (let ((va (c01mvf# 1))) (vtr (list va)) (vtr (c01mvf# va)))"},
	{"mv.var.mvb-values-arg", "(let ((va (values 1 2))) (multiple-value-bind (vb vc) (values va 9) (vtr (list vb vc))))"},
	{"mv.var.do-init-and-step", "(do ((vi 0 (+ vi 1)) (va (values 1 2) (values (+ va 1) 9))) ((>= vi 2) (vtr (list va))) (vtr (list vi va)))"},
	{"mv.var.dostar-init", "(do* ((vi 0 (+ vi 1)) (va (values 1 2))) ((>= vi 1) (vtr (list va))) (vtr (list va)))"},
	{"mv.var.apply-user-function", "(defun c01mvu# (vy vz) (vtr (list vy vz))) (let ((va (values 1 2))) (c01mvu# va va) (apply (function c01mvu#) va (list va)))"},
	{"mv.var.closure-captured", "(let ((vf (let ((va (values 1 2))) (lambda (vz) (list va vz))))) (vtr (funcall vf 3)))"},
	{"mv.var.mvb-variable", "(multiple-value-bind (va vb) (values 1 2) (vtr (list va vb)) (vtr (+ va vb)))"},
	{"mv.progn-last", "(multiple-value-list (progn (values 1 2)))"},
	{"mv.prog1", "(multiple-value-list (prog1 (values 1 2) 3))"},
	{"mv.if-test", "(if (values nil 1) 1 2)"},
	{"mv.when-test", "(when (values nil 1) 5)"},
	{"mv.or-nonlast", "(multiple-value-list (or (values 1 2) 3))"},
	{"mv.setq", "(multiple-value-list (setq vgm# (values 1 2)))"},
	{"mv.through-let-if-lambda", "(multiple-value-list (let ((va 1)) (if va (funcall (lambda (vz) (values vz 2)) va) 3)))"},
}

func c01SweepCases() []evCase {
	var out []evCase
	for i, x := range c01Cells {
		out = append(out, evNewCase(strings.ReplaceAll(x.prog, "#", fmt.Sprintf("%d", i)), x.name, "c01", "sweep"))
	}
	return out
}

var c01Relies = []string{
	"SlipVerif.Theorems.C01",
}

func runC01(c *lib.Ctx) {
	if c.Replay != "" {
		evReplay(c, c01Relies)
		return
	}
	avoid := func(cell, exit string) bool {
		if exit == "c01" {
			return c.Findings.Listed("C01", "cell="+cell+" ")
		}
		return true // no exits in C01 programs
	}
	evRun(c, c01SweepCases(), c.Scale(20000, 200000), false, avoid, c01Relies)
	c.Ev.Coverage["rule"] = "cases = programs; sweep = one minimal program per evaluation-order / binding / closure / multiple-value rule (exhaustive, seed independent); composite = typed generator over the core forms, nesting depth <= 6, trace calls in every evaluated position; compared: outcome kind, printed primary value or condition class, ordered trace; non-trivial = nesting >= 2, trace length >= 2, no generator-induced type error; distinct by program text"
}

// evRun runs sweep and composite cases through the model and the implementation and reports.
// evMix: the shared Rng is an additive-step generator seeded with seed*step, so consecutive seeds
// give the same stream shifted by one draw; scramble the seed first (murmur finaliser).
func evMix(x uint64) uint64 {
	x ^= x >> 33
	x *= 0xff51afd7ed558ccd
	x ^= x >> 33
	x *= 0xc4ceb9fe1a85ec53
	x ^= x >> 33
	return x
}

func evRun(c *lib.Ctx, sweep []evCase, nComposite int, ctl bool, avoid func(cell, exit string) bool, relies []string) {
	c.Rng = lib.NewRng(evMix(c.Seed + 0x5eed))
	cases := append([]evCase{}, sweep...)
	if os.Getenv("VERIF_EV_NOSWEEP") != "" { // self-test aid: what do the composite programs alone detect
		cases = nil
	}
	hist := map[string]int{}
	rejected := []string{}
	if v := os.Getenv("VERIF_EV_N"); v != "" { // debugging aid: override the number of composite cases
		fmt.Sscanf(v, "%d", &nComposite)
	}
	for i := 0; i < nComposite; i++ {
		src := evGenProgram(c.Rng, i, ctl, avoid, hist)
		cs := evNewCase(src, "", "", "composite")
		cs.prefix = fmt.Sprintf("k%d", i)
		if ok, why := evExitPathsOK(cs.forms, avoid); !ok {
			// independent validation of the generator: never judge a program that places an exit
			// behind a listed cell (expected count: 0)
			c.Ev.Count("generator_programs_rejected_by_exit_path_check", 1)
			if len(rejected) < 5 {
				rejected = append(rejected, why+": "+cs.src)
			}
			continue
		}
		cases = append(cases, cs)
	}
	reqs := make([]string, len(cases))
	for i, cs := range cases {
		reqs[i] = cs.request()
	}
	if v := os.Getenv("VERIF_EV_DUMP"); v != "" { // debugging aid: write the request lines
		_ = os.WriteFile(v, []byte(strings.Join(reqs, "\n")+"\n"), 0o644)
	}
	t0 := time.Now()
	replies := c.Model(reqs)
	c.Ev.Coverage["model_wall_s"] = time.Since(t0).Seconds()
	agree, setAside := 0, 0
	sweepFail := []map[string]string{}
	var implWall, shrinkWall time.Duration
	shrunk := 0
	for i, cs := range cases {
		if len(c.Violations) >= 40 {
			// the verdict is settled and only the first 25 get a replay: do not spend minutes on more
			c.Ev.Coverage["stopped_early_after_violations"] = len(c.Violations)
			break
		}
		model := evParseReply(replies[i])
		c.Ev.Hist("model_outcome", model.kind)
		if !evComparable(model) {
			if cs.cell != "" {
				// a sweep cell the model makes no claim about is a harness bug
				c.ReportBroken("sweep-cell-not-evaluable", map[string]any{"cell": cs.cell, "exit": cs.exit, "program": cs.src, "model": model.String()})
			}
			setAside++
			continue
		}
		t1 := time.Now()
		if os.Getenv("VERIF_EV_DEBUG") == "2" {
			_ = os.WriteFile("/var/tmp/ev-current-case.txt", []byte(cs.src+"\n"), 0o644)
		}
		impl := evRunImpl(cs)
		implWall += time.Since(t1)
		if dt := time.Since(t1); dt > 300*time.Millisecond && os.Getenv("VERIF_EV_DEBUG") != "" {
			fmt.Fprintf(os.Stderr, "slow case (%v): %s\n   impl %s\n   model %s\n", dt, cs.src, impl, model)
		}
		c.Ev.Case(cs.src, evNontrivial(cs, model))
		if model.kind == "err" {
			c.Ev.Hist("condition_class", model.value)
		}
		if cs.cell == "" {
			c.Ev.Hist("depth", fmt.Sprintf("%d", maxDepth(cs.forms)))
			n := 0
			if model.trace != "" {
				n = len(strings.Fields(model.trace))
			}
			c.Ev.Hist("trace_len", bucket(n))
		}
		if i%(len(cases)/10+1) == 0 || (cs.cell == "" && len(cs.src) > 150 && i%97 == 0) {
			c.Ev.Sample(map[string]string{"program": cs.src, "impl": impl.String(), "model": model.String()})
		}
		aspect := evAspect(impl, model)
		if aspect == "" {
			agree++
			continue
		}
		if cs.cell != "" {
			sig := fmt.Sprintf("cell=%s exit=%s aspect=%s", cs.cell, cs.exit, aspect)
			if c.Findings.Match(c.Prop, sig) == nil {
				sweepFail = append(sweepFail, map[string]string{"signature": sig, "program": cs.src, "observed": impl.String(), "expected": model.String()})
			}
			c.Report(sig, true, evReplayMap(cs, impl, model, relies))
		} else {
			head := "atom"
			last := cs.forms[len(cs.forms)-1]
			if last.k == 'l' && len(last.l) > 0 && last.l[0].k == 'y' {
				head = last.l[0].s
			}
			sig0 := fmt.Sprintf("composite form=%s aspect=%s", head, aspect)
			dup := false
			for _, v := range c.Violations {
				if v.Signature == sig0 {
					dup = true
				}
			}
			if dup {
				c.Ev.Count("composite_disagreements", 1)
				continue
			}
			c.Ev.Count("composite_disagreements", 1)
			min, mi, mm := cs, impl, model
			if shrunk < 3 { // shrinking is bounded per run; later disagreements are reported as found
				shrunk++
				t2 := time.Now()
				min, mi, mm = evShrink(c, cs, aspect, impl, model, avoid)
				shrinkWall += time.Since(t2)
			}
			sig := fmt.Sprintf("composite form=%s aspect=%s", head, aspect)
			rm := evReplayMap(min, mi, mm, relies)
			rm["unshrunk_program"] = cs.src
			c.Report(sig, false, rm)
		}
	}
	keys := make([]string, 0, len(hist))
	for k := range hist {
		keys = append(keys, k)
	}
	sort.Strings(keys)
	fh := map[string]int{}
	for _, k := range keys {
		fh[k] = hist[k]
	}
	c.Ev.Coverage["hist_generated_forms"] = fh
	c.Ev.Coverage["impl_wall_s"] = implWall.Seconds()
	c.Ev.Coverage["shrink_wall_s"] = shrinkWall.Seconds()
	c.Ev.Coverage["generator_rejected_samples"] = rejected
	c.Ev.Coverage["worker_restarts"] = evRestarts
	c.Ev.Coverage["worker_gave_up_on"] = evGaveUp
	c.Ev.Coverage["sweep_failures_not_listed"] = sweepFail
	c.Ev.Coverage["traces_validated_against_impl"] = len(cases) - setAside
	c.Ev.Coverage["agreements"] = agree
	c.Ev.Coverage["sweep_cases"] = len(sweep)
	c.Ev.Coverage["composite_cases"] = nComposite
	c.Ev.Coverage["set_aside_timeout_or_out_of_range"] = setAside
}

func maxDepth(forms []*sx) int {
	d := 0
	for _, f := range forms {
		if fd := f.depth(); fd > d {
			d = fd
		}
	}
	return d
}

func bucket(n int) string {
	switch {
	case n == 0:
		return "0"
	case n < 2:
		return "1"
	case n < 5:
		return "2-4"
	case n < 10:
		return "5-9"
	case n < 30:
		return "10-29"
	}
	return "30+"
}

// evShrink: delta-debugging by subterm replacement. A candidate is kept when the model still makes
// a claim, the implementation still disagrees with the same aspect, and it is smaller. Because the
// interpreter keeps global state per name (functions, variables created on first sight), every
// candidate is run under fresh identifiers.
func evShrink(c *lib.Ctx, cs evCase, aspect string, impl, model evObs, avoid func(cell, exit string) bool) (evCase, evObs, evObs) {
	cur := cs
	budget := 1200 // implementation runs
	// candidates may run away (an exit that is not forwarded removes the base case of a recursion):
	// short deadline, and shrinking stops after three such candidates
	savedLimit, restarts0 := evCPULimit, evRestarts
	evCPULimit, evNoRetry = time.Second, true
	defer func() { evCPULimit, evNoRetry = savedLimit, false }()
	for round := 0; round < 40 && budget > 0; round++ {
		cands := evShrinkCandidates(cur)
		if len(cands) == 0 {
			break
		}
		if len(cands) > 400 {
			cands = cands[:400]
		}
		reqs := make([]string, len(cands))
		for i := range cands {
			if cs.prefix != "" {
				np := fmt.Sprintf("%sr%dx%dx", cs.prefix, round, i)
				forms := evRename(cands[i].forms, cur.prefix, np)
				cands[i] = evCase{src: sxText(forms), forms: forms, kind: "shrink", prefix: np}
			}
			reqs[i] = cands[i].request()
		}
		replies := evModelTimed(c, reqs, 20*time.Second)
		if replies == nil {
			break // some candidate multiplies the work beyond reason: keep what we have
		}
		found := false
		for i, cd := range cands {
			m := evParseReply(replies[i])
			if !evComparable(m) {
				continue
			}
			if m.kind == "err" && (m.value == "program-error" || m.value == "unbound-variable" || m.value == "undefined-function") {
				continue // do not shrink into malformed programs
			}
			if evHasAtomDoTest(cd.forms) {
				continue
			}
			if ok, _ := evExitPathsOK(cd.forms, avoid); !ok {
				continue // the candidate moved an exit behind a listed cell
			}
			budget--
			if budget < 0 || evRestarts-restarts0 >= 3 {
				budget = -1
				break
			}
			if o := evRunImpl(cd); evAspect(o, m) == aspect {
				cur, impl, model, found = cd, o, m, true
				break
			}
		}
		if !found {
			break
		}
	}
	return cur, impl, model
}

// evHasAtomDoTest: some do / do* form has an end-test clause that is not (list …): on a tree without
// repo-patches/C01/0005 such a loop never ends and evaluates nothing that could be interrupted.
func evHasAtomDoTest(forms []*sx) bool {
	var walk func(x *sx) bool
	walk = func(x *sx) bool {
		if x.k != 'l' {
			return false
		}
		if len(x.l) >= 3 && x.l[0].k == 'y' && (x.l[0].s == "do" || x.l[0].s == "do*") {
			if tc := x.l[2]; tc.k != 'l' || len(tc.l) == 0 || tc.l[0].k != 'l' {
				return true
			}
		}
		for _, e := range x.l {
			if walk(e) {
				return true
			}
		}
		return false
	}
	for _, f := range forms {
		if walk(f) {
			return true
		}
	}
	return false
}

// evRename gives every generated identifier (they all contain the case prefix) a new prefix.
func evRename(forms []*sx, prefix, np string) []*sx {
	var ren func(x *sx) *sx
	ren = func(x *sx) *sx {
		switch x.k {
		case 'y':
			if strings.Contains(x.s, prefix) {
				return &sx{k: 'y', s: strings.Replace(x.s, prefix, np, 1)}
			}
			return x
		case 'l':
			nl := make([]*sx, len(x.l))
			for i, e := range x.l {
				nl[i] = ren(e)
			}
			var t *sx
			if x.tail != nil {
				t = ren(x.tail)
			}
			return &sx{k: 'l', l: nl, tail: t}
		}
		return x
	}
	out := make([]*sx, len(forms))
	for i, f := range forms {
		out[i] = ren(f)
	}
	return out
}

func evShrinkCandidates(cs evCase) []evCase {
	var out []evCase
	total := 0
	for _, f := range cs.forms {
		total += f.size()
	}
	add := func(forms []*sx) {
		n := 0
		for _, f := range forms {
			n += f.size()
		}
		if n < total && len(forms) > 0 {
			out = append(out, evCase{src: sxText(forms), forms: forms, kind: "shrink", prefix: cs.prefix})
		}
	}
	// drop a top-level form
	for i := range cs.forms {
		if len(cs.forms) > 1 {
			nf := append(append([]*sx{}, cs.forms[:i]...), cs.forms[i+1:]...)
			add(nf)
		}
	}
	// replace a subterm by one of its children, or by a literal, or drop a list element
	for fi, f := range cs.forms {
		var walk func(x *sx, rebuild func(r *sx) *sx)
		walk = func(x *sx, rebuild func(r *sx) *sx) {
			if x.k != 'l' {
				return
			}
			repl := func(r *sx) {
				nf := append([]*sx{}, cs.forms...)
				nf[fi] = rebuild(r)
				add(nf)
			}
			for _, ch := range x.l[1:] {
				repl(ch)
			}
			repl(&sx{k: 'i', i: 0})
			repl(&sx{k: 'n'})
			for i := 1; i < len(x.l); i++ {
				if len(x.l) > 2 {
					nl := append(append([]*sx{}, x.l[:i]...), x.l[i+1:]...)
					repl(&sx{k: 'l', l: nl, tail: x.tail})
				}
			}
			for i, ch := range x.l {
				i := i
				walk(ch, func(r *sx) *sx {
					nl := append([]*sx{}, x.l...)
					nl[i] = r
					return rebuild(&sx{k: 'l', l: nl, tail: x.tail})
				})
			}
		}
		walk(f, func(r *sx) *sx { return r })
	}
	return out
}
