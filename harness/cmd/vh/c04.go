package main

// C04 — lambda-list binding and documented arity.
// Part (i): lambda-list shapes × argument vectors, evaluated on the implementation as
//   ((lambda LL (list p…)) args…), (defun f LL (list p…)) (f args…), the same inside a let that
//   binds every parameter name (defaults must not be taken from outside), funcall and apply,
//   versus the Lean model `SlipVerif.Lambda.bind` (line protocol "ll bind <LL> <args>").
// Part (ii): c04_builtins.go.

import (
	"encoding/json"
	"fmt"
	"os"
	"path/filepath"
	"sort"
	"strings"
	"time"

	"github.com/ohler55/slip"
	"verif/harness/lib"
)

func init() { props["C04"] = runC04 }

// ---------------------------------------------------------------------------------------------
// shapes

type c04Param struct {
	name    string
	defLisp string // "" = no default
	defWire string
}

type c04Shape struct {
	req  []string
	opt  []c04Param
	rest string
	// restMarker: "&rest" (also when empty) or "&body"
	restMarker string
	keys       []c04Param
	aok  bool // &allow-other-keys written in the lambda list
	aux  []c04Param
	// mcase: how the lambda-list markers are written for slip: 0 lower case, 1 upper case (&OPTIONAL),
	// 2 capitalised (&Optional), 3 alternating (&oPtIoNaL). Symbols are case insensitive: the model and
	// the code-level machine always get the lower-case spelling.
	mcase int
	// extraAlpha: further keyword names the vector generator may put in key position (key names of
	// earlier definitions of the same function in a history); not part of the lambda list
	extraAlpha []string
}

func c04Sym(name string) string { return "y:" + lib.Hex(name) }
func c04Kw(name string) string  { return "k:" + lib.Hex(name) }

func (p c04Param) lisp() string {
	if p.defLisp == "" {
		return p.name
	}
	return "(" + p.name + " " + p.defLisp + ")"
}

func (p c04Param) wire() string {
	if p.defLisp == "" {
		return c04Sym(p.name)
	}
	return "(" + c04Sym(p.name) + "," + p.defWire + ")"
}

// elems returns the lambda-list elements as (lisp, wire) pairs. withRest=false leaves the &rest
// parameter out (used for the split prediction). The wire form always carries &allow-other-keys
// after the key parameters: slip documents (defun) that "the default and only option if &key is
// included is for :allow-other-keys to be true".
func (sh c04Shape) elems(withRest bool) (lisp, wire []string) {
	add := func(l, w string) {
		if strings.HasPrefix(l, "&") {
			// the model reads the marker as it is written (parseLLci folds its case)
			l = c04MarkerCase(l, sh.mcase)
			w = c04Sym(l)
		}
		lisp = append(lisp, l)
		wire = append(wire, w)
	}
	for _, r := range sh.req {
		add(r, c04Sym(r))
	}
	if len(sh.opt) > 0 {
		add("&optional", c04Sym("&optional"))
		for _, p := range sh.opt {
			add(p.lisp(), p.wire())
		}
	}
	if sh.rest != "" && withRest {
		m := sh.restMarker
		if m == "" {
			m = "&rest"
		}
		add(m, c04Sym(m))
		add(sh.rest, c04Sym(sh.rest))
	}
	if len(sh.keys) > 0 {
		add("&key", c04Sym("&key"))
		for _, p := range sh.keys {
			add(p.lisp(), p.wire())
		}
		if sh.aok {
			lisp = append(lisp, c04MarkerCase("&allow-other-keys", sh.mcase))
		}
		wire = append(wire, c04Sym(c04MarkerCase("&allow-other-keys", sh.mcase)))
	}
	if len(sh.aux) > 0 {
		add("&aux", c04Sym("&aux"))
		for _, p := range sh.aux {
			add(p.lisp(), p.wire())
		}
	}
	return
}

// llWireRaw: the lambda list exactly as it is written for slip (&allow-other-keys only when the
// shape has it): what DefLambda sees, for the code-level machine `ll impl`.
func (sh c04Shape) llWireRaw() string {
	sh.mcase = 0 // the machine works on the lower-case markers (GenC04.marker_fold_facts: every comparison folds case)
	l, w := sh.elems(true)
	if len(w) > len(l) {
		// elems appended the model's &allow-other-keys to the wire form only: drop it again
		aok := c04Sym("&allow-other-keys")
		for i, x := range w {
			if x == aok {
				w = append(append([]string{}, w[:i]...), w[i+1:]...)
				break
			}
		}
	}
	return "(" + strings.Join(w, ",") + ")"
}

// c04MarkerCase spells a lambda-list marker in one of the four ways
func c04MarkerCase(m string, mcase int) string {
	switch mcase {
	case 1:
		return strings.ToUpper(m)
	case 2:
		if len(m) > 1 {
			return m[:1] + strings.ToUpper(m[1:2]) + m[2:]
		}
	case 3:
		b := []byte(m)
		for i := 2; i < len(b); i += 2 {
			if b[i] >= 'a' && b[i] <= 'z' {
				b[i] -= 'a' - 'A'
			}
		}
		return string(b)
	}
	return m
}

func (sh c04Shape) llLisp() string {
	l, _ := sh.elems(true)
	return "(" + strings.Join(l, " ") + ")"
}

func (sh c04Shape) llWire(withRest bool) string {
	_, w := sh.elems(withRest)
	return "(" + strings.Join(w, ",") + ")"
}

// params in binding order with their kind
func (sh c04Shape) params() (names, kinds []string) {
	for _, r := range sh.req {
		names, kinds = append(names, r), append(kinds, "req")
	}
	for _, p := range sh.opt {
		names, kinds = append(names, p.name), append(kinds, "opt")
	}
	if sh.rest != "" {
		names, kinds = append(names, sh.rest), append(kinds, "rest")
	}
	for _, p := range sh.keys {
		names, kinds = append(names, p.name), append(kinds, "key")
	}
	for _, p := range sh.aux {
		names, kinds = append(names, p.name), append(kinds, "aux")
	}
	return
}

func (sh c04Shape) npos() int { return len(sh.req) + len(sh.opt) }

func (sh c04Shape) nkinds() int {
	n := 0
	for _, b := range []bool{len(sh.req) > 0, len(sh.opt) > 0, sh.rest != "", len(sh.keys) > 0, len(sh.aux) > 0} {
		if b {
			n++
		}
	}
	return n
}

// class is the shape class used in signatures: the parameter kinds present.
func (sh c04Shape) class() string {
	var k []string
	if len(sh.req) > 0 {
		k = append(k, "req")
	}
	if len(sh.opt) > 0 {
		k = append(k, "opt")
	}
	if sh.rest != "" {
		k = append(k, "rest")
	}
	if len(sh.keys) > 0 {
		k = append(k, "key")
	}
	if len(sh.aux) > 0 {
		k = append(k, "aux")
	}
	if len(k) == 0 {
		return "empty"
	}
	return strings.Join(k, "+")
}

// default constants (stored unevaluated by slip, so only self-evaluating objects)
// slip documents the default as a *value*: a list or a symbol written as default is the default
// itself, not a form to evaluate.
var c04Defaults = [][2]string{{"101", "i:101"}, {`"dflt"`, "s:" + lib.Hex("dflt")}, {":dk", c04Kw("dk")}, {"-7", "i:-7"},
	{"(1 :dk)", "(i:1," + c04Kw("dk") + ")"}, {"zed", c04Sym("zed")}}

// c04AuxParams: the &aux variables of a shape. variant 0: constants; variant 1: initial forms that
// depend on the parameters before them (evaluated left to right at call time): x1 = (list 0 p…)
// over every earlier parameter, x2 = (list x1 (quote q) 7).
func c04AuxParams(sh c04Shape, variant int) []c04Param {
	if variant == 0 {
		return []c04Param{{name: "x1", defLisp: "55", defWire: "i:55"}, {name: "x2"}}
	}
	names, _ := sh.params()
	l, w := "(list 0", "("+c04Sym("list")+",i:0"
	for _, n := range names {
		l += " " + n
		w += "," + c04Sym(n)
	}
	return []c04Param{{name: "x1", defLisp: l + ")", defWire: w + ")"},
		{name: "x2", defLisp: "(list x1 (quote q) 7)", defWire: "(" + c04Sym("list") + "," + c04Sym("x1") + ",(" + c04Sym("quote") + "," + c04Sym("q") + "),i:7)"}}
}

func c04MkParams(prefix string, n int, defMask int, salt int) []c04Param {
	var ps []c04Param
	for i := 0; i < n; i++ {
		p := c04Param{name: fmt.Sprintf("%s%d", prefix, i+1)}
		if defMask&(1<<i) != 0 {
			d := c04Defaults[(salt+i)%len(c04Defaults)]
			p.defLisp, p.defWire = d[0], d[1]
		}
		ps = append(ps, p)
	}
	return ps
}

// c04AllShapes: 0–3 required × 0–2 optional ± default × rest × 0–3 keys ± default × aux (1680).
func c04AllShapes() []c04Shape {
	var out []c04Shape
	for r := 0; r <= 3; r++ {
		for o := 0; o <= 2; o++ {
			for om := 0; om < 1<<o; om++ {
				for rest := 0; rest <= 1; rest++ {
					for k := 0; k <= 3; k++ {
						for km := 0; km < 1<<k; km++ {
							for aux := 0; aux <= 1; aux++ {
								sh := c04Shape{}
								for i := 0; i < r; i++ {
									sh.req = append(sh.req, fmt.Sprintf("a%d", i+1))
								}
								sh.opt = c04MkParams("b", o, om, r)
								if rest == 1 {
									sh.rest = "r"
									if (r+o+k+km+aux)%2 == 1 {
										sh.restMarker = "&body"
									}
								}
								sh.keys = c04MkParams("k", k, km, r+o+1)
								if aux == 1 {
									sh.aux = c04AuxParams(sh, 0)
								}
								out = append(out, sh)
							}
						}
					}
				}
			}
		}
	}
	return out
}

// c04SweepShapes: the single-cause sweep table — every parameter kind alone and every pair of
// kinds in its minimal form (seed independent).
func c04SweepShapes() []c04Shape {
	d := func(name, l, w string) c04Param { return c04Param{name, l, w} }
	req1, req2 := []string{"a1"}, []string{"a1", "a2"}
	opt1 := []c04Param{{name: "b1"}}
	opt1d := []c04Param{d("b1", "101", "i:101")}
	opt2 := []c04Param{d("b1", "101", "i:101"), {name: "b2"}}
	key1 := []c04Param{{name: "k1"}}
	key1d := []c04Param{d("k1", ":dk", c04Kw("dk"))}
	key2 := []c04Param{{name: "k1"}, d("k2", "102", "i:102")}
	aux := []c04Param{d("x1", "55", "i:55"), {name: "x2"}}
	dep := func(sh c04Shape) c04Shape { sh.aux = c04AuxParams(sh, 1); return sh }
	// &aux initial forms that are a variable or a call without arguments (listed deviation c04AuxSig)
	auxVar := []c04Param{d("x1", "a1", c04Sym("a1"))}
	auxCall := []c04Param{d("x1", "(list)", "("+c04Sym("list")+")")}
	auxBoth := []c04Param{d("x1", "b1", c04Sym("b1")), d("x2", "(list)", "("+c04Sym("list")+")")}
	body := func(sh c04Shape) c04Shape { sh.restMarker = "&body"; return sh }
	base := c04SweepBase(body, dep, req1, req2, opt1, opt1d, opt2, key1, key1d, key2, aux, auxVar, auxCall, auxBoth)
	// every marker written in upper case, capitalised and alternating, in every section it can open and
	// behind every other marker (symbols are case insensitive; every constructor of a Lambda and every
	// reader of its documented list must treat `&OPTIONAL` like `&optional`)
	cased := []c04Shape{
		{opt: opt1d}, {rest: "r"}, body(c04Shape{rest: "r"}), {keys: key2}, {keys: key2, aok: true}, {aux: aux},
		{req: req1, opt: opt1d, rest: "r"}, {req: req1, keys: key1d}, {req: req1, opt: opt1, keys: key1},
		dep(c04Shape{req: req1}), dep(c04Shape{opt: opt1d}), dep(c04Shape{rest: "r"}), dep(c04Shape{keys: key1d}),
		dep(c04Shape{req: req1, keys: key2, aok: true}),
		{req: req1, opt: opt1d, rest: "r", keys: key2, aux: aux},
	}
	for i, sh := range cased {
		for mc := 1; mc <= 3; mc++ {
			if mc == 3 && i%4 != 2 {
				continue
			}
			sh.mcase = mc
			base = append(base, sh)
		}
	}
	return base
}

func c04SweepBase(body, dep func(c04Shape) c04Shape, req1, req2 []string, opt1, opt1d, opt2, key1, key1d, key2, aux, auxVar, auxCall, auxBoth []c04Param) []c04Shape {
	return []c04Shape{
		// &body is the same marker as &rest, in every section it can follow
		body(c04Shape{rest: "r"}), body(c04Shape{req: req1, rest: "r"}), body(c04Shape{opt: opt1d, rest: "r"}),
		body(c04Shape{req: req1, opt: opt2, rest: "r"}), body(c04Shape{opt: opt1, rest: "r", keys: key1}),
		body(c04Shape{req: req1, opt: opt1d, rest: "r", aux: aux}),
		// &aux initial forms that use the parameters before them
		dep(c04Shape{}), dep(c04Shape{req: req2}), dep(c04Shape{opt: opt2}), dep(c04Shape{rest: "r"}), dep(c04Shape{keys: key2}),
		dep(c04Shape{req: req1, opt: opt1d, rest: "r", keys: key2}),
		{req: req1, aux: auxVar}, {aux: auxCall}, {req: req1, opt: opt1d, aux: auxBoth},
		{},
		{req: req1}, {req: req2}, {req: []string{"a1", "a2", "a3"}},
		{opt: opt1}, {opt: opt1d}, {opt: opt2},
		{rest: "r"},
		{keys: key1}, {keys: key1d}, {keys: key2}, {keys: key2, aok: true},
		{aux: aux},
		{req: req1, opt: opt1d}, {req: req2, opt: opt2},
		{req: req1, rest: "r"}, {req: req2, rest: "r"},
		{req: req1, keys: key1}, {req: req1, keys: key2}, {req: req2, keys: key1d},
		{req: req1, aux: aux},
		{opt: opt1d, rest: "r"}, {opt: opt2, rest: "r"},
		{opt: opt1d, keys: key1}, {opt: opt1, keys: key2},
		{opt: opt1d, aux: aux},
		{rest: "r", keys: key1}, {rest: "r", keys: key2},
		{rest: "r", aux: aux},
		{keys: key1d, aux: aux}, {keys: key2, aux: aux},
		{req: req1, opt: opt1d, rest: "r"},
		{req: req1, opt: opt1d, keys: key2},
		{req: req1, rest: "r", keys: key2},
		{req: req1, opt: opt1d, rest: "r", keys: key2, aux: aux},
	}
}

// ---------------------------------------------------------------------------------------------
// argument vectors

type c04Arg struct{ lisp, wire string }

func c04Int(n int) c04Arg { return c04Arg{fmt.Sprint(n), fmt.Sprintf("i:%d", n)} }
func c04Key(name string) c04Arg {
	return c04Arg{":" + name, c04Kw(name)}
}

var (
	c04Nil  = c04Arg{"nil", "n"}
	c04Str  = c04Arg{`"s"`, "s:" + lib.Hex("s")}
	c04QSym = c04Arg{"'k1", c04Sym("k1")}
	c04QLst = c04Arg{"'(1 :k1)", "(i:1," + c04Kw("k1") + ")"}
)

func c04ArgsWire(args []c04Arg) string {
	if len(args) == 0 {
		return "()"
	}
	w := make([]string, len(args))
	for i, a := range args {
		w[i] = a.wire
	}
	return "(" + strings.Join(w, ",") + ")"
}

func c04ArgsLisp(args []c04Arg) string {
	w := make([]string, len(args))
	for i, a := range args {
		w[i] = a.lisp
	}
	return strings.Join(w, " ")
}

// keyAlphabet: what may stand in key position: the declared keys, an unknown key, and unknown
// keys spelled like the other parameters of the lambda list.
func (sh c04Shape) keyAlphabet() []c04Arg {
	var a []c04Arg
	for _, p := range sh.keys {
		a = append(a, c04Key(p.name))
	}
	a = append(a, c04Key("zz"))
	for _, n := range sh.extraAlpha {
		dup := false
		for _, x := range a {
			if x.lisp == ":"+n {
				dup = true
			}
		}
		if !dup {
			a = append(a, c04Key(n))
		}
	}
	if len(sh.req) > 0 {
		a = append(a, c04Key(sh.req[0]))
	}
	if len(sh.opt) > 0 {
		a = append(a, c04Key(sh.opt[0].name))
	}
	if sh.rest != "" {
		a = append(a, c04Key(sh.rest))
	}
	if len(sh.aux) > 0 {
		a = append(a, c04Key(sh.aux[0].name))
	}
	return a
}

// c04Vectors enumerates argument vectors (length 0..8) for a shape. full=true: the systematic
// enumeration without sampling (sweep table); otherwise tails longer than two pairs are sampled
// with rng up to about budget vectors.
func c04Vectors(sh c04Shape, rng *lib.Rng, full bool, budget int) [][]c04Arg {
	var out [][]c04Arg
	seen := map[string]bool{}
	add := func(v []c04Arg) {
		if len(v) > 8 {
			return
		}
		k := c04ArgsWire(v)
		if !seen[k] {
			seen[k] = true
			out = append(out, append([]c04Arg{}, v...))
		}
	}
	pos := func(n int) []c04Arg {
		v := make([]c04Arg, n)
		for i := range v {
			v[i] = c04Int(i + 1)
		}
		return v
	}
	npos := sh.npos()
	// 1. plain positional vectors 0..npos+2 (and 8)
	for n := 0; n <= npos+2 && n <= 8; n++ {
		add(pos(n))
	}
	add(pos(8))
	// positional values that are nil / a keyword / a list
	if npos > 0 {
		v := pos(npos)
		v[0] = c04Nil
		add(v)
		v = pos(npos)
		v[npos-1] = c04Key("k1")
		add(v)
		v = pos(npos)
		v[npos-1] = c04QLst
		add(v)
	}
	if len(sh.keys) == 0 && sh.rest == "" {
		return out
	}
	alpha := sh.keyAlphabet()
	starts := []int{npos}
	if len(sh.opt) > 0 {
		starts = append(starts, len(sh.req)) // the tail starts early: keywords become positional values
	}
	if len(sh.req) > 0 {
		starts = append(starts, len(sh.req)-1) // too few even with a tail
	}
	val := 10
	nextVal := func() c04Arg { val++; return c04Int(val) }
	for _, st := range starts {
		base := pos(st)
		room := 8 - st
		// all tails of one and two pairs; three and four pairs sampled (or all, when full)
		var rec func(prefix []c04Arg, pairs int)
		rec = func(prefix []c04Arg, pairs int) {
			if pairs == 0 {
				return
			}
			for _, k := range alpha {
				v := append(append([]c04Arg{}, prefix...), k, nextVal())
				if len(v)-st > room {
					return
				}
				add(v)
				rec(v, pairs-1)
			}
		}
		depth := 2
		if full && st == npos {
			depth = 3
			if len(alpha) > 5 {
				depth = 2
			}
		}
		val = 10
		rec(base, depth)
		if st != npos {
			continue
		}
		// permutations of all declared keys (each once), every order
		if n := len(sh.keys); n >= 2 {
			idx := make([]int, n)
			for i := range idx {
				idx[i] = i
			}
			var perm func(k int)
			perm = func(k int) {
				if k == n {
					v := append([]c04Arg{}, base...)
					for _, i := range idx {
						v = append(v, c04Key(sh.keys[i].name), c04Int(20+i))
					}
					add(v)
					return
				}
				for i := k; i < n; i++ {
					idx[k], idx[i] = idx[i], idx[k]
					perm(k + 1)
					idx[k], idx[i] = idx[i], idx[k]
				}
			}
			perm(0)
		}
		// values that are nil / keywords (a known key in value position) / strings
		k0 := alpha[0]
		add(append(append([]c04Arg{}, base...), k0, c04Nil))
		add(append(append([]c04Arg{}, base...), k0, k0))
		add(append(append([]c04Arg{}, base...), k0, c04Key("zz"), k0, c04Int(31)))
		add(append(append([]c04Arg{}, base...), c04Key("zz"), k0, k0, c04Int(32)))
		add(append(append([]c04Arg{}, base...), k0, c04Str, c04Key("zz"), c04QLst))
		// duplicates: same key two and three times, interleaved with another
		add(append(append([]c04Arg{}, base...), k0, c04Int(41), k0, c04Int(42), k0, c04Int(43)))
		if len(alpha) > 1 {
			k1 := alpha[1]
			add(append(append([]c04Arg{}, base...), k0, c04Int(41), k1, c04Int(44), k0, c04Int(42)))
			add(append(append([]c04Arg{}, base...), k1, c04Int(44), k0, c04Nil, k0, c04Int(42)))
		}
		// malformed tails: odd length, non-keyword in key position
		add(append(append([]c04Arg{}, base...), k0))
		add(append(append([]c04Arg{}, base...), k0, c04Int(51), k0))
		add(append(append([]c04Arg{}, base...), k0, c04Int(51), c04Key("zz")))
		add(append(append([]c04Arg{}, base...), c04Int(52), c04Int(53)))
		add(append(append([]c04Arg{}, base...), k0, c04Int(51), c04Int(52), c04Int(53)))
		add(append(append([]c04Arg{}, base...), c04Nil, c04Int(53)))
		add(append(append([]c04Arg{}, base...), c04Str, c04Int(53)))
		add(append(append([]c04Arg{}, base...), c04QSym, c04Int(53)))
		add(append(append([]c04Arg{}, base...), c04Int(52), k0, c04Int(53)))
		add(append(append([]c04Arg{}, base...), c04Int(52), c04Int(54), k0, c04Int(53)))
		// random longer tails
		if !full {
			for i := 0; i < budget/4; i++ {
				v := append([]c04Arg{}, base...)
				n := 1 + rng.Intn(room)
				for j := 0; j < n; j++ {
					switch {
					case j%2 == 0 && rng.Chance(88):
						v = append(v, alpha[rng.Intn(len(alpha))])
					case j%2 == 1 && rng.Chance(75):
						v = append(v, c04Int(60+j))
					default:
						pool := []c04Arg{c04Nil, c04Str, c04QSym, c04QLst, alpha[rng.Intn(len(alpha))], c04Int(70 + j)}
						v = append(v, pool[rng.Intn(len(pool))])
					}
				}
				add(v)
			}
		}
	}
	if !full && len(out) > budget {
		// keep the systematic head, sample the rest
		head := out[:budget/2]
		restv := out[budget/2:]
		for i := len(restv) - 1; i > 0; i-- {
			j := rng.Intn(i + 1)
			restv[i], restv[j] = restv[j], restv[i]
		}
		out = append(head, restv[:budget-budget/2]...)
	}
	return out
}

// ---------------------------------------------------------------------------------------------
// implementation side

var c04Contexts = []string{"lambda", "defun", "shadow", "funcall", "apply", "defmacro"}

// c04ObjWire renders a slip value as a wire term.
func c04ObjWire(v slip.Object) string {
	switch tv := v.(type) {
	case nil:
		return "n"
	case slip.Fixnum:
		return fmt.Sprintf("i:%d", int64(tv))
	case slip.Symbol:
		s := strings.ToLower(string(tv))
		if strings.HasPrefix(s, ":") {
			return c04Kw(s[1:])
		}
		return c04Sym(s)
	case slip.String:
		return "s:" + lib.Hex(string(tv))
	case slip.List:
		if len(tv) == 0 {
			return "n"
		}
		w := make([]string, len(tv))
		for i, e := range tv {
			w[i] = c04ObjWire(e)
		}
		return "(" + strings.Join(w, ",") + ")"
	}
	return "?" + strings.ToLower(string(v.Hierarchy()[0])) + ":" + lib.Hex(slip.ObjectString(v))
}

// c04Outcome canonicalises an evaluation: "ok <term>*" | "err arity-few" | "err arity-many" |
// "err <class>" | "err go-fault".
func c04Outcome(o lib.Outcome) string {
	if o.Ok {
		list, ok := o.Value.(slip.List)
		if !ok && o.Value != nil {
			return "ok ?" + o.Text
		}
		w := []string{"ok"}
		for _, v := range list {
			w = append(w, c04ObjWire(v))
		}
		return strings.Join(w, " ")
	}
	if o.GoFault || o.Class == "go-error" || o.Class == "go-panic" {
		return "err go-fault"
	}
	if a := c04ArityCondition(o); a != "" {
		return "err " + a
	}
	return "err " + o.Class
}

// c04ArityCondition recognises slip's argument count condition: class error (slip has no more
// specific class for it) raised by CheckArgCount / Lambda.Call with the fixed message prefix.
func c04ArityCondition(o lib.Outcome) string {
	if o.Ok || (o.Class != "error" && o.Class != "program-error" && o.Class != "simple-error") {
		return ""
	}
	switch {
	case strings.HasPrefix(o.Msg, "Too few arguments"):
		return "arity-few"
	case strings.HasPrefix(o.Msg, "Too many arguments"):
		return "arity-many"
	}
	return ""
}

type c04Runner struct {
	scope       *slip.Scope
	defuns      map[string]string // ll lisp -> function name
	n           int
	flavorReady bool
	lastDefs    string // definitions the last form of a further context relies on (for the replay text)
}

func newC04Runner() *c04Runner {
	return &c04Runner{scope: slip.NewScope(), defuns: map[string]string{}}
}

func (r *c04Runner) form(sh c04Shape, args []c04Arg, ctx string) (setup, form string) {
	names, _ := sh.params()
	body := "(list " + strings.Join(names, " ") + ")"
	if len(names) == 0 {
		body = "(list)"
	}
	ll := sh.llLisp()
	lam := "(lambda " + ll + " " + body + ")"
	al := c04ArgsLisp(args)
	sp := ""
	if al != "" {
		sp = " "
	}
	switch ctx {
	case "lambda":
		return "", "(" + lam + sp + al + ")"
	case "defun":
		fn, ok := r.defuns[ll]
		if !ok {
			r.n++
			fn = fmt.Sprintf("c04f%d", r.n)
			r.defuns[ll] = fn
			setup = "(defun " + fn + " " + ll + " " + body + ")"
		}
		return setup, "(" + fn + sp + al + ")"
	case "defmacro":
		// the macro receives the argument forms themselves: only self-evaluating arguments are used
		fn, ok := r.defuns["macro "+ll]
		if !ok {
			r.n++
			fn = fmt.Sprintf("c04m%d", r.n)
			r.defuns["macro "+ll] = fn
			setup = "(defmacro " + fn + " " + ll + " " + body + ")"
		}
		return setup, "(" + fn + sp + al + ")"
	case "shadow":
		var bs []string
		for _, n := range names {
			bs = append(bs, "("+n+" :outer)")
		}
		return "", "(let (" + strings.Join(bs, " ") + ") (" + lam + sp + al + "))"
	case "funcall":
		return "", "(funcall " + lam + sp + al + ")"
	case "apply":
		return "", "(apply " + lam + " (list" + sp + al + "))"
	}
	return r.formMore(sh, args, ctx)
}

// c04SelfEvaluating: no argument is a quoted form (macros see the forms, not the values).
func c04SelfEvaluating(args []c04Arg) bool {
	for _, a := range args {
		if strings.HasPrefix(a.lisp, "'") {
			return false
		}
	}
	return true
}

func (r *c04Runner) run(sh c04Shape, args []c04Arg, ctx string) (string, string, string) {
	outs, shown, msg := r.runAll(sh, args, ctx)
	return outs[0], shown, msg
}

// runAll evaluates the case in the context and returns one canonical outcome per observed call
// (one, except in the multi-call contexts of c04_ctx.go).
func (r *c04Runner) runAll(sh c04Shape, args []c04Arg, ctx string) ([]string, string, string) {
	setup, form := r.form(sh, args, ctx)
	if setup != "" {
		if o := lib.EvalString(r.scope, setup); !o.Ok {
			return []string{"err setup:" + o.Class}, setup, o.Msg
		}
	}
	o := lib.EvalString(slip.NewScope(), form)
	for _, m := range c04MoreContexts {
		if m == ctx {
			shown := form
			if r.lastDefs != "" {
				shown = r.lastDefs + " " + form
			}
			return c04OutcomesMore(sh, ctx, o), shown, o.Msg
		}
	}
	shown := form
	if ctx == "defun" || ctx == "defmacro" {
		names, _ := sh.params()
		key, def := sh.llLisp(), "defun"
		if ctx == "defmacro" {
			key, def = "macro "+key, "defmacro"
		}
		shown = "(" + def + " " + r.defuns[key] + " " + sh.llLisp() + " (list " + strings.Join(names, " ") + ")) " + form
	}
	return []string{c04Outcome(o)}, shown, o.Msg
}

// ---------------------------------------------------------------------------------------------
// judging

// c04ModelOutcome turns the model reply "ok n=v …" into "ok v…" (names are checked against the
// shape: a mismatch is a machinery error).
func c04ModelOutcome(sh c04Shape, reply string, withRest bool) string {
	w := strings.Fields(reply)
	if len(w) == 0 {
		return "err empty-reply"
	}
	if w[0] != "ok" {
		return reply
	}
	names, kinds := sh.params()
	out := []string{"ok"}
	i := 0
	for _, nv := range w[1:] {
		n, v, _ := strings.Cut(nv, "=")
		for !withRest && i < len(kinds) && kinds[i] == "rest" {
			i++
		}
		if i >= len(names) || lib.Unhex(n) != names[i] {
			panic(fmt.Sprintf("harness bug: model binds %q, shape %s expects %v", lib.Unhex(n), sh.llLisp(), names))
		}
		i++
		out = append(out, v)
	}
	return strings.Join(out, " ")
}

var c04KeyErrOK = map[string]bool{"err error": true, "err type-error": true, "err program-error": true, "err simple-error": true}

// c04Judge compares the canonical outcomes; aspect "" = agreement.
func c04Judge(sh c04Shape, ctx, model, impl string) string {
	if impl == "err go-fault" {
		return "go-fault"
	}
	if strings.HasPrefix(impl, "err setup:") {
		return "definition-failed:" + strings.TrimPrefix(impl, "err setup:")
	}
	switch model {
	case "err tooFew":
		if impl == "err arity-few" {
			return ""
		}
		return "too-few-accepted"
	case "err tooMany":
		if impl == "err arity-many" {
			return ""
		}
		return "too-many-accepted"
	case "err oddKeys", "err badKey", "err unknownKey":
		if strings.HasPrefix(impl, "ok") {
			return "malformed-keys-accepted:" + strings.TrimPrefix(model, "err ")
		}
		if c04KeyErrOK[impl] {
			return ""
		}
		return "key-error-class:" + strings.TrimPrefix(impl, "err ")
	}
	if !strings.HasPrefix(model, "ok") {
		panic("harness bug: model reply " + model)
	}
	if strings.HasPrefix(impl, "err arity-") {
		return "arity-error-in-range:" + strings.TrimPrefix(impl, "err arity-")
	}
	if strings.HasPrefix(impl, "err ") {
		return "unexpected-error:" + strings.TrimPrefix(impl, "err ")
	}
	if impl == model {
		return ""
	}
	mw, iw := strings.Fields(model), strings.Fields(impl)
	if len(mw) != len(iw) {
		return "binding-count"
	}
	_, kinds := sh.params()
	seen := map[string]bool{}
	var diff []string
	allOuter := true
	for i := 1; i < len(mw); i++ {
		if mw[i] != iw[i] {
			if !seen[kinds[i-1]] {
				seen[kinds[i-1]] = true
				diff = append(diff, kinds[i-1])
			}
			if iw[i] != c04Kw("outer") {
				allOuter = false
			}
		}
	}
	if ctx == "shadow" && allOuter {
		return "default-shadowed-by-outer-binding:" + strings.Join(diff, ",")
	}
	return "wrong-binding:" + strings.Join(diff, ",")
}

// c04Split reproduces the listed deviation of &rest with &key: the tail after the positional
// parameters is cut at the first keyword (anywhere in the tail) that names a &key parameter;
// &rest gets the part before the cut, the keys are parsed from the cut on.
func c04Split(sh c04Shape, args []c04Arg) (restPart, other []c04Arg, applies bool) {
	if sh.rest == "" || len(sh.keys) == 0 || len(args) <= sh.npos() {
		return nil, nil, false
	}
	known := map[string]bool{}
	for _, p := range sh.keys {
		known[c04Kw(p.name)] = true
	}
	tail := args[sh.npos():]
	cut := len(tail)
	for i, a := range tail {
		if known[a.wire] {
			cut = i
			break
		}
	}
	other = append(append([]c04Arg{}, args[:sh.npos()]...), tail[cut:]...)
	return tail[:cut], other, true
}

const c04SplitAspect = "rest-split-at-first-known-key"
const c04SplitSig = "lambda shape=rest+key aspect=" + c04SplitAspect

type c04Case struct {
	sh    c04Shape
	args  []c04Arg
	sweep bool
}

func (cs c04Case) request() string {
	return "ll bind " + cs.sh.llWire(true) + " " + c04ArgsWire(cs.args)
}

// c04SplitExpected asks the model for the outcome under the listed deviation.
func c04SplitRequest(cs c04Case) (string, []c04Arg, bool) {
	restPart, other, ok := c04Split(cs.sh, cs.args)
	if !ok {
		return "", nil, false
	}
	return "ll bind " + cs.sh.llWire(false) + " " + c04ArgsWire(other), restPart, true
}

func c04SplitOutcome(sh c04Shape, reply string, restPart []c04Arg) string {
	m := c04ModelOutcome(sh, reply, false)
	if !strings.HasPrefix(m, "ok") {
		return m
	}
	w := strings.Fields(m)[1:]
	_, kinds := sh.params()
	out := []string{"ok"}
	j := 0
	for _, k := range kinds {
		if k == "rest" {
			rw := c04ArgsWire(restPart)
			if len(restPart) == 0 {
				rw = "n"
			}
			out = append(out, rw)
			continue
		}
		out = append(out, w[j])
		j++
	}
	return strings.Join(out, " ")
}

// c04AuxQuirk: an &aux initial form of the shape is a variable or a call without arguments: the
// forms slip binds unevaluated (known finding c04AuxSig; only sweep shapes have them)
func c04AuxQuirk(sh c04Shape) bool {
	for _, p := range sh.aux {
		if p.defLisp == "(list)" || strings.HasPrefix(p.defWire, "y:") {
			return true
		}
	}
	return false
}

const c04AuxSig = "lambda shape=aux aspect=aux-init-form-not-evaluated"

// c04AuxDepends: an &aux initial form of the shape refers to other parameters
func c04AuxDepends(sh c04Shape) bool {
	for _, p := range sh.aux {
		if strings.HasPrefix(p.defLisp, "(list") {
			return true
		}
	}
	return false
}

func c04Nontrivial(cs c04Case, model string) bool {
	if cs.sh.nkinds() >= 2 {
		return true
	}
	n := len(cs.args)
	mn := len(cs.sh.req)
	if n == mn || n+1 == mn {
		return true
	}
	if cs.sh.rest == "" && len(cs.sh.keys) == 0 && (n == cs.sh.npos() || n == cs.sh.npos()+1) {
		return true
	}
	return false
}

func c04Lambda(c *lib.Ctx) {
	var cases []c04Case
	// single-cause sweep (seed independent)
	for _, sh := range c04SweepShapes() {
		for vi, v := range c04Vectors(sh, nil, true, 0) {
			// the spelling of a marker decides which section a parameter belongs to, not how a key tail
			// is parsed: the re-spelled shapes take every vector of at most npos+3 arguments and every
			// third of the longer ones (seed independent)
			if sh.mcase != 0 && len(v) > sh.npos()+3 && vi%3 != 0 {
				continue
			}
			cases = append(cases, c04Case{sh, v, true})
		}
	}
	nSweep := len(cases)
	// composite: the full shape space (thorough) or a seeded sample of it (quick)
	all := c04AllShapes()
	budget := c.Scale(32, 256)
	if !c.Thorough() {
		for i := len(all) - 1; i > 0; i-- {
			j := c.Rng.Intn(i + 1)
			all[i], all[j] = all[j], all[i]
		}
		all = all[:800]
	}
	for si, sh := range all {
		if len(sh.aux) > 0 && si%2 == 1 {
			sh.aux = nil
			sh.aux = c04AuxParams(sh, 1) // initial forms that depend on the parameters before them
		}
		if si%4 == 2 {
			sh.mcase = 1 + (si/4)%3 // markers in upper / capitalised / alternating case
		}
		for _, v := range c04Vectors(sh, c.Rng, false, budget) {
			cases = append(cases, c04Case{sh, v, false})
		}
	}
	c.Ev.Coverage["lambda_shapes_composite"] = len(all)
	c.Ev.Coverage["lambda_shapes_total"] = 1680
	c.Ev.Coverage["lambda_sweep_cases"] = nSweep
	c.Ev.Coverage["lambda_composite_cases"] = len(cases) - nSweep

	splitListed := c.Findings.Match("C04", c04SplitSig) != nil
	// model requests per case: bind(V), the code-level machine on V, both on the shifted vector V'
	// (second call of the multi-call contexts), and the split prediction inside the listed construct
	n := len(cases)
	reqs := make([]string, 0, n*4+n/4)
	splitIdx := make([]int, n)
	splitRest := make([][]c04Arg, n)
	for i, cs := range cases {
		reqs = append(reqs, cs.request())
		splitIdx[i] = -1
	}
	for _, cs := range cases {
		reqs = append(reqs, "ll impl "+cs.sh.llWireRaw()+" "+c04ArgsWire(cs.args))
	}
	// the shifted vector is only needed where a multi-call context runs
	others := append(append([]string{}, c04Contexts[2:]...), c04MoreContexts...)
	quickComposite := func(i int) bool { return !cases[i].sweep && !c.Thorough() }
	// the method-chain context defines three methods per case: in the quick tier it takes every third of its turns
	otherOf := func(i int) string {
		o := others[i%len(others)]
		if o == "around" && (i/len(others))%3 != 0 {
			o = "clos"
		}
		return o
	}
	needShift := func(i int) bool { return !quickComposite(i) || c04MultiCalls(otherOf(i)) > 1 }
	shiftIdx := make([]int, n)
	for i, cs := range cases {
		shiftIdx[i] = -1
		if needShift(i) {
			shiftIdx[i] = len(reqs)
			reqs = append(reqs, c04Case{cs.sh, c04Shift(cs.args), cs.sweep}.request(),
				"ll impl "+cs.sh.llWireRaw()+" "+c04ArgsWire(c04Shift(cs.args)))
		}
	}
	for i, cs := range cases {
		if c04AuxDepends(cs.sh) {
			continue // the prediction without &rest cannot evaluate an initial form that uses the &rest variable
		}
		if rq, rp, ok := c04SplitRequest(cs); ok {
			splitIdx[i] = len(reqs)
			splitRest[i] = rp
			reqs = append(reqs, rq)
		}
	}
	tm := time.Now()
	replies := c.Model(reqs)
	c.Ev.Coverage["lambda_model_requests"] = len(reqs)
	c.Ev.Coverage["lambda_model_seconds"] = float64(int(time.Since(tm).Seconds()*10)) / 10

	runner := newC04Runner()
	ctxTime := map[string]time.Duration{}
	defer func() {
		secs := map[string]float64{}
		for k, d := range ctxTime {
			secs[k] = float64(int(d.Seconds()*10)) / 10
		}
		c.Ev.Coverage["lambda_context_seconds"] = secs
	}()
	agree, evals, machineChecks := 0, 0, 0
	for i, cs := range cases {
		model := c04ModelOutcome(cs.sh, replies[i], true)
		if model == "err badLL" {
			panic("harness bug: the model rejects lambda list " + cs.sh.llLisp())
		}
		if strings.HasPrefix(replies[n+i], "bad-request") || replies[n+i] == "err defLambda" || replies[n+i] == "err auxForm" {
			panic("harness bug: the code-level machine rejects " + cs.sh.llLisp() + ": " + replies[n+i])
		}
		machine := c04ImplCanon(cs.sh, replies[n+i])
		model2, machine2 := "", ""
		if shiftIdx[i] >= 0 {
			model2 = c04ModelOutcome(cs.sh, replies[shiftIdx[i]], true)
			machine2 = c04ImplCanon(cs.sh, replies[shiftIdx[i]+1])
		}
		split := ""
		if splitIdx[i] >= 0 {
			split = c04SplitOutcome(cs.sh, replies[splitIdx[i]], splitRest[i])
		} else if _, _, applies := c04Split(cs.sh, cs.args); applies && c04AuxDepends(cs.sh) {
			split = machine // prediction of the listed deviation taken from the code-level machine
		}
		inListed := split != "" && split != model // the listed construct (&rest with &key and a key in the tail)
		// the code-level machine (regenerated from lambda.go, proved to refine bind outside the listed
		// construct) must say what the model says — inside the listed construct what the listed rule says
		machineChecks++
		ref := model
		if inListed {
			ref = split
		}
		if !c04SameVerdict(machine, ref) && !c04AuxQuirk(cs.sh) {
			c.Report(fmt.Sprintf("lambda shape=%s aspect=machine-vs-model", cs.sh.class()), false, map[string]any{
				"part": "lambda", "sweep": false, "input": "ll impl " + cs.sh.llLisp() + " / " + c04ArgsLisp(cs.args), "context": "model-only",
				"ll": cs.sh.llLisp(), "args": c04ArgsLisp(cs.args), "request": reqs[n+i],
				"observed": "Model/LambdaImpl (Lambda.Call as extracted): " + machine, "expected": ref,
				"expected_from":                                          "model:ll.bind (Theorems.C04Impl.call_refines_bind)",
				"shape": c04ShapeJSON(cs.sh), "argv": c04ArgsJSON(cs.args)})
		}
		ctxs := append(append([]string{}, c04Contexts...), c04MoreContexts...)
		if !cs.sweep && c.Thorough() {
			// thorough composite: lambda + defun always, four of the other twelve contexts in turn
			// (every context sees a third of the cases; the method chain every fourth of its turns)
			ctxs = []string{"lambda", "defun"}
			for k := 0; k < 4; k++ {
				o := others[(i+3*k)%len(others)]
				if o == "around" && (i/len(others))%4 != 0 {
					o = "clos"
				}
				ctxs = append(ctxs, o)
			}
		}
		if quickComposite(i) {
			// quick composite: lambda always, defun for every second case, one of the other contexts in turn
			ctxs = []string{"lambda", otherOf(i)}
			if i%2 == 0 {
				ctxs = append(ctxs, "defun")
			}
		}
		key := cs.sh.llLisp() + " " + c04ArgsLisp(cs.args)
		c.Ev.Case(key, c04Nontrivial(cs, model))
		c.Ev.Hist("shape_class", cs.sh.class())
		c.Ev.Hist("argc", fmt.Sprint(len(cs.args)))
		if strings.HasPrefix(model, "ok") {
			c.Ev.Hist("model_outcome", "ok")
		} else {
			c.Ev.Hist("model_outcome", model)
		}
		for _, ctx := range ctxs {
			if !c04CtxApplies(cs.sh, cs.args, ctx) {
				continue
			}
			te := time.Now()
			impls, form, msg := runner.runAll(cs.sh, cs.args, ctx)
			ctxTime[ctx] += time.Since(te)
			evals++
			c.Ev.Hist("context", ctx)
			if i%(len(cases)/9+1) == 0 && ctx == "lambda" {
				c.Ev.Sample(map[string]string{"form": form, "impl": impls[0], "model": model})
			}
			ncalls := c04MultiCalls(ctx)
			if len(impls) != ncalls && strings.HasPrefix(impls[0], "ok") && strings.HasPrefix(model, "ok") {
				c.Report(fmt.Sprintf("lambda shape=%s aspect=call-count", cs.sh.class()), cs.sweep, map[string]any{
					"part": "lambda", "sweep": cs.sweep, "input": form, "context": ctx, "ll": cs.sh.llLisp(), "args": c04ArgsLisp(cs.args),
					"observed": fmt.Sprintf("%d calls observed: %v", len(impls), impls), "expected": fmt.Sprintf("%d calls", ncalls),
					"shape": c04ShapeJSON(cs.sh), "argv": c04ArgsJSON(cs.args)})
				continue
			}
			ok := true
			for j, impl := range impls {
				// what the j-th observed call must see: the vector itself, then the shifted vector
				mj, machj := model, machine
				if c04CallShifted(ctx, j) {
					mj, machj = model2, machine2
				}
				listedJ := inListed
				devJ := split
				if ncalls > 1 {
					// multi-call contexts: the prediction under the listed deviation is the machine's
					devJ = machj
					listedJ = cs.sh.rest != "" && len(cs.sh.keys) > 0 && !c04SameVerdict(machj, mj)
				}
				expected, from := mj, "model:ll.bind"
				if listedJ && splitListed && !cs.sweep {
					// composite cases never are excused: inside the listed construct they are held to the
					// outcome the listed deviation predicts, everything else as the model says
					expected, from = devJ, "model:ll.bind under the listed deviation "+c04SplitSig
				}
				aspect := c04Judge(cs.sh, ctx, expected, impl)
				if aspect == "" {
					continue
				}
				ok = false
				sig := fmt.Sprintf("lambda shape=%s aspect=%s", cs.sh.class(), aspect)
				if listedJ && c04Judge(cs.sh, ctx, devJ, impl) == "" {
					sig = c04SplitSig // exactly the listed deviation, nothing else
				}
				if cs.sweep && c04AuxQuirk(cs.sh) && c04Judge(cs.sh, ctx, machj, impl) == "" {
					sig = c04AuxSig // exactly what the code says: the initial form bound as it is written
				}
				sent := cs.request()
				if c04CallShifted(ctx, j) {
					sent = reqs[shiftIdx[i]]
				}
				c.Report(sig, cs.sweep, map[string]any{
					"part": "lambda", "sweep": cs.sweep, "input": form, "context": ctx, "call": j, "ll": cs.sh.llLisp(), "args": c04ArgsLisp(c04CallArgs(ctx, cs.args, j)),
					"request": sent, "observed": impl + "  ; " + msg, "expected": expected, "expected_from": from,
					"relies_on": []string{"SlipVerif.Theorems.C04.bind_ok_iff", "SlipVerif.Theorems.C04.bind_required/optional/rest/key/aux", "SlipVerif.Theorems.C04.parseLL_render", "SlipVerif.Theorems.C04Impl.call_refines_bind"},
					"shape": c04ShapeJSON(cs.sh), "argv": c04ArgsJSON(cs.args)})
			}
			if ok {
				agree++
			}
		}
	}
	c.Ev.Coverage["lambda_machine_vs_model_checks"] = machineChecks
	c.Ev.Count("traces_validated_against_impl", evals)
	c.Ev.Coverage["lambda_agreements"] = agree
	c.Ev.Coverage["lambda_evaluations"] = evals
}

// --- replay support: shapes and vectors as JSON

func c04ShapeJSON(sh c04Shape) map[string]any {
	ps := func(ps []c04Param) []any {
		out := []any{}
		for _, p := range ps {
			out = append(out, []any{p.name, p.defLisp, p.defWire})
		}
		return out
	}
	return map[string]any{"req": sh.req, "opt": ps(sh.opt), "rest": sh.rest, "rest_marker": sh.restMarker, "keys": ps(sh.keys), "aok": sh.aok, "aux": ps(sh.aux), "mcase": sh.mcase}
}

func c04ArgsJSON(args []c04Arg) []any {
	out := []any{}
	for _, a := range args {
		out = append(out, []any{a.lisp, a.wire})
	}
	return out
}

func c04ShapeFromJSON(m map[string]any) c04Shape {
	sh := c04Shape{}
	strs := func(v any) []string {
		var out []string
		l, _ := v.([]any)
		for _, e := range l {
			s, _ := e.(string)
			out = append(out, s)
		}
		return out
	}
	ps := func(v any) []c04Param {
		var out []c04Param
		l, _ := v.([]any)
		for _, e := range l {
			t := strs(e)
			if len(t) == 3 {
				out = append(out, c04Param{t[0], t[1], t[2]})
			}
		}
		return out
	}
	sh.req = strs(m["req"])
	sh.opt = ps(m["opt"])
	sh.rest, _ = m["rest"].(string)
	sh.restMarker, _ = m["rest_marker"].(string)
	sh.keys = ps(m["keys"])
	sh.aok, _ = m["aok"].(bool)
	sh.aux = ps(m["aux"])
	if f, ok := m["mcase"].(float64); ok {
		sh.mcase = int(f)
	}
	return sh
}

func c04ReplayLambda(c *lib.Ctx, rec map[string]any) {
	shm, _ := rec["shape"].(map[string]any)
	sh := c04ShapeFromJSON(shm)
	var args []c04Arg
	av, _ := rec["argv"].([]any)
	for _, e := range av {
		t, _ := e.([]any)
		if len(t) == 2 {
			l, _ := t[0].(string)
			w, _ := t[1].(string)
			args = append(args, c04Arg{l, w})
		}
	}
	ctx, _ := rec["context"].(string)
	cs := c04Case{sh, args, false}
	model := c04ModelOutcome(sh, c.Model([]string{cs.request()})[0], true)
	if ctx == "model-only" {
		rq, _ := rec["request"].(string)
		fmt.Printf("replay %s\n  observed (code-level machine): %s\n  expected (model ll.bind): %s\n", rq, c04ImplCanon(sh, c.Model([]string{rq})[0]), model)
		c.Report("replay", false, map[string]any{"input": rq})
		return
	}
	impls, form, msg := newC04Runner().runAll(sh, args, ctx)
	model2 := c04ModelOutcome(sh, c.Model([]string{c04Case{sh, c04Shift(args), false}.request()})[0], true)
	fmt.Printf("replay %s\n", form)
	for j, impl := range impls {
		mj := model
		if c04CallShifted(ctx, j) {
			mj = model2
		}
		aspect := c04Judge(sh, ctx, mj, impl)
		fmt.Printf("  call %d observed (implementation): %s  ; %s\n  call %d expected (model ll.bind) : %s\n  aspect: %s\n", j, impl, msg, j, mj, aspect)
		if aspect != "" {
			c.Report("replay", false, map[string]any{"input": form, "observed": impl, "expected": mj})
		}
	}
}

func runC04(c *lib.Ctx) {
	if os.Getenv("C04_WORKER") != "" {
		c04Worker() // does not return
	}
	if c.Replay != "" {
		var rec map[string]any
		if _, err := os.Stat(c.Replay); err != nil && !filepath.IsAbs(c.Replay) {
			c.Replay = filepath.Join(c.Root, c.Replay) // the harness runs in its run directory
		}
		if err := lib.ReadJSON(c.Replay, &rec); err != nil {
			fmt.Println("cannot read replay file:", err)
			return
		}
		switch rec["part"] {
		case "lambda":
			c04ReplayLambda(c, rec)
		case "builtin":
			c04ReplayBuiltin(c, rec)
		case "history":
			c04ReplayHistory(c, rec)
		case "builtin-static":
			c04ReplayStatic(c, rec)
		case "builtin-keytail":
			c04ReplayKeyTail(c, rec)
		case "malformed":
			form, _ := rec["input"].(string)
			o := lib.EvalString(slip.NewScope(), form)
			fmt.Printf("replay %s\n  observed (implementation): %s %s\n  expected: a condition (malformed lambda-list element)\n", form, c04Outcome(o), o.Msg)
			if o.Ok {
				c.Report("replay", false, map[string]any{"input": form})
			}
		default:
			fmt.Println("replay file has no usable case (kind:", rec["kind"], ")")
		}
		return
	}
	t0 := time.Now()
	phases := map[string]float64{}
	lap := func(name string) { phases[name] = float64(int(time.Since(t0).Seconds()*10)) / 10; t0 = time.Now() }
	c04Lambda(c)
	c04Malformed(c)
	lap("lambda")
	c04Histories(c)
	lap("histories")
	c04Builtins(c)
	lap("builtins")
	c.Ev.Coverage["phase_seconds"] = phases
	sigs := []string{}
	for _, v := range c.Violations {
		if len(sigs) < 400 {
			sigs = append(sigs, v.Signature)
		}
	}
	c.Ev.Coverage["violation_signatures"] = sigs
	if path := os.Getenv("C04_DUMP_FINDINGS"); path != "" {
		// maintenance aid: write the unexcused sweep cells in findings format (never used by ./check)
		c04DumpFindings(c, path)
	}
	keys := make([]string, 0)
	for _, ctx := range c04Contexts {
		keys = append(keys, ctx)
	}
	sort.Strings(keys)
	c.Ev.Coverage["lambda_contexts"] = keys
	c.Ev.Coverage["rule"] = "part (i): cases = (lambda-list shape, argument vector) evaluated in up to fourteen call contexts (lambda, defun, shadowing let, funcall, apply, defmacro, multiple-value-call, apply with leading arguments, flavors method via send, CLOS method, two calls through mapcar and map with retained results, :around method chain with call-next-method with and without arguments, flavors whopper with continue-whopper); sweep = 47 minimal shapes (each parameter kind alone / in pairs) x systematic vectors of length 0..8 (positional counts, all key tails up to 2-3 pairs over declared/unknown/parameter-named keys, all key permutations, duplicates, odd and non-keyword tails), seed independent; composite = the 1680 shapes of the quantifier (thorough: all, quick: 800 sampled by seed) x systematic + seeded random tails; every case is also run on the code-level machine (ll impl: Lambda.Call as extracted from lambda.go) which must agree with the model (inside the listed &rest+&key construct: with the split prediction); malformed lambda-list elements (5 kinds x 4 sections x lambda/defun/defmacro) must be rejected at definition; part (ii): cells = (built-in, argc) for every function of every package, argc 0..documented max+2 (+4,+8,+16,+24 when unbounded); part (ii-b): every built-in with a documented &key section (no &rest/&allow-other-keys) x 4 odd key tails (dangling known / unknown / repeated / after a pair) behind a baseline call found from the argument pools. non-trivial = lambda list with >= 2 parameter kinds or argc at min-1, min, max, max+1; distinct by (shape, args) / (builtin, argc)"
}

func c04DumpFindings(c *lib.Ctx, path string) {
	type fd struct {
		Property  string `json:"property"`
		Signature string `json:"signature"`
		WhatFails string `json:"what_fails"`
		Replay    string `json:"replay"`
		FirstSeen string `json:"first_seen"`
	}
	out := struct {
		Findings []fd `json:"findings"`
	}{}
	for _, v := range c.Violations {
		if sw, _ := v.Replay["sweep"].(bool); !sw {
			continue
		}
		sig, _ := v.Replay["signature"].(string)
		if sig == "" {
			sig = v.Signature
		}
		out.Findings = append(out.Findings, fd{"C04", sig,
			fmt.Sprintf("%v: observed %v; expected %v", v.Replay["input"], v.Replay["observed"], v.Replay["expected"]),
			fmt.Sprint(v.Replay["input"]), "round 1"})
	}
	b, _ := json.MarshalIndent(out, "", " ")
	_ = os.WriteFile(path, b, 0o644)
}
