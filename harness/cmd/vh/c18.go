package main

// C18 — JSON data survives the trip through bags and through the Go data bridge.
//
// Correspondence: the real bag functions / flavor methods and slip.SimpleObject / Simplify versus
// the Lean model (SlipVerif.Model.Json*) through the line protocol "json <entry> …", plus the
// property's relations checked directly between implementation runs (parse → write → parse,
// bag → native → bag, get after set). Families: text, native, ops, simplify; each has a
// seed-independent single-cause sweep and a seeded composite generator.

import (
	"encoding/json"
	"fmt"
	"os"
	"sort"
	"strings"
	"time"

	"github.com/ohler55/slip"
	"github.com/ohler55/slip/pkg/bag"
	"github.com/ohler55/slip/pkg/flavors"
	"verif/harness/lib"
)

func init() { props["C18"] = runC18 }

type c18Run struct {
	c     *lib.Ctx
	g     *c18Gen
	impl  *c18Impl
	agree int
	total int
	// how long a call that hands out bags is waited for before it counts as blocked
	blockLimit time.Duration
}

func c18Avoids(c *lib.Ctx) c18Avoid {
	var a c18Avoid
	for _, f := range c.Findings.Findings {
		if f.Property != "C18" {
			continue
		}
		if strings.Contains(f.Signature, "value=bigint") {
			a.bigInt = true
		}
		if strings.Contains(f.Signature, "value=float-integral") {
			a.integralFloat = true
		}
		if strings.Contains(f.Signature, "aspect=shared-value") {
			a.sharedValue = true
		}
		if strings.Contains(f.Signature, "value=float-long") {
			a.longFloat = true
		}
		if strings.Contains(f.Signature, "steps=wild-desc") {
			a.wildDesc = true
		}
		if strings.Contains(f.Signature, "steps=desc-last") {
			a.trailingDesc = true
		}
		if strings.Contains(f.Signature, "value=str-keyword") {
			a.keywordStr = true
		}
		if strings.Contains(f.Signature, "value=str-number-like") {
			a.numberLikeStr = true
		}
		if strings.Contains(f.Signature, "str-sign-led") {
			a.signLedStr = true
		}
		if strings.Contains(f.Signature, "str-backtick") {
			a.backtickStr = true
		}
	}
	return a
}

func (r *c18Run) report(cs *c18Case, d c18Diff) {
	rep := map[string]any{"case": cs, "observed": d.observed, "expected": d.expected, "expected_from": d.from}
	if len(d.relies) > 0 {
		rep["relies_on"] = d.relies
	}
	r.c.Report(d.sig, cs.Sweep, rep)
}

func (r *c18Run) check(cs *c18Case, ok bool, d c18Diff) {
	r.total++
	if r.total%4001 == 1 {
		r.c.Ev.Sample(map[string]any{"case": cs, "check": d.sig, "agree": ok, "expected": d.expected})
	}
	if ok {
		r.agree++
		return
	}
	r.report(cs, d)
}

func sig(op, steps, value, aspect string) string {
	return fmt.Sprintf("op=%s steps=%s value=%s aspect=%s", op, steps, value, aspect)
}

// ---------------------------------------------------------------------------------------------
// text family

func (r *c18Run) runText(cases []*c18Case) {
	// round A: the model writes every document, as JSON and as SEN, and names the writer branch of
	// every option list (Model/JsonWrite.lean applyKws / writerOf)
	reqs := make([]string, 0, 2*len(cases))
	for _, cs := range cases {
		reqs = append(reqs, "json write "+cs.Layout+" "+cs.Doc, "json writesen "+cs.Layout+" "+cs.Doc)
	}
	var optReqs []string
	for _, cs := range cases {
		for _, opt := range cs.Opts {
			optReqs = append(optReqs, "json wopts T 80 "+opt.w().wire())
		}
	}
	texts := r.c.Model(reqs)
	modes := r.c.Model(optReqs)
	modeAt := 0
	type pend struct {
		cs   *c18Case
		doc  *jv
		opt  c18Opts
		text string
		mode string
	}
	var pends []pend
	var reqB []string
	for i, cs := range cases {
		doc := parseDoc(cs.Doc)
		myModes := modes[modeAt : modeAt+len(cs.Opts)]
		modeAt += len(cs.Opts)
		if doc == nil || !strings.HasPrefix(texts[2*i], "ok s") || !strings.HasPrefix(texts[2*i+1], "ok s") {
			fmt.Println("C18 harness bug: bad text case", cs.Doc, texts[2*i], texts[2*i+1])
			continue
		}
		textM := lib.Unhex(texts[2*i][4:])
		textS := lib.Unhex(texts[2*i+1][4:])
		r.c.Ev.Case("text "+cs.Doc+cs.Layout, doc.depth() >= 2)
		r.c.Ev.Hist("family", "text")
		kindOf := doc.firstKind()
		if cs.Cell == "key" && doc.kind == 'o' && len(doc.keys) == 1 {
			kindOf = "key-" + strKind(doc.keys[0])
		}
		b1, o := r.impl.makeBag(textM, cs.Via)
		if !o.Ok {
			r.check(cs, false, c18Diff{sig: sig("parse", "-", kindOf, "condition"), observed: "err " + o.Class + " " + o.Msg,
				expected: "a bag equal to the document", from: "model:json.write", relies: []string{"SlipVerif.Json.write_parse_roundtrip"}})
			continue
		}
		// the implementation's parser agrees with the model on the value of the model's text
		dk := diffKind(doc, doc.toAnyTree(), b1.Any, canonAny)
		r.check(cs, dk == "", c18Diff{sig: sig("parse", "-", dk, "wrong-value"), observed: canonAny(b1.Any), expected: doc.canon(),
			from: "model:json.write", relies: []string{"SlipVerif.Json.write_parse_roundtrip"}})
		if dk != "" {
			continue
		}
		// … and on the value of the model's SEN text (bare words, no commas)
		if bs, so := r.impl.makeBag(textS, cs.Via+2); !so.Ok {
			r.check(cs, false, c18Diff{sig: sig("parse-sen", "-", kindOf, "condition"), observed: fmt.Sprintf("%q: err %s %s", textS, so.Class, so.Msg),
				expected: "a bag equal to the document", from: "model:json.writesen", relies: []string{"SlipVerif.Json.sen_write_parse_roundtrip"}})
		} else {
			dks := diffKind(doc, doc.toAnyTree(), bs.Any, canonAny)
			r.check(cs, dks == "", c18Diff{sig: sig("parse-sen", "-", dks, "wrong-value"), observed: fmt.Sprintf("%q parses to %s", textS, canonAny(bs.Any)), expected: doc.canon(),
				from: "model:json.writesen", relies: []string{"SlipVerif.Json.sen_write_parse_roundtrip"}})
		}
		for oi, opt := range cs.Opts {
			w := opt.w()
			mode := w.mode()
			// the branch the model derives from the keyword list must be the one the harness names
			if f := strings.Fields(myModes[oi]); len(f) < 2 || f[0] != "ok" || f[1] != mode {
				fmt.Println("C18 harness bug: writer mode", w.String(), "harness", mode, "model", myModes[oi])
			}
			r.c.Ev.Hist("write_mode", mode)
			wo := r.impl.write(b1, w)
			one := *cs
			one.Opts = []c18Opts{opt}
			if !wo.Ok {
				r.check(&one, false, c18Diff{sig: sig("write", mode, kindOf, "condition"), observed: "err " + wo.Class + " " + wo.Msg,
					expected: "text", from: "property statement"})
				continue
			}
			if opt.TimeFormat != "" || opt.TimeWrap != "" {
				r.checkPristine(&one, "after-write-keywords")
			}
			text1 := string(wo.Value.(slip.String))
			// the destination: the same text arrives at an output stream, and nil is returned
			if (i+oi)%3 == 0 {
				r.checkStream(&one, b1, w, text1, mode, kindOf)
			}
			b2, po := r.impl.makeBag(text1, cs.Via+1)
			if !po.Ok {
				r.check(&one, false, c18Diff{sig: sig("write-parse", mode, kindOf, "unparsable"), observed: "written text " + fmt.Sprintf("%q", text1) + " does not parse: " + po.Msg,
					expected: "text that parses to an equal bag", from: "impl:parse-write-parse"})
				continue
			}
			dk := diffKind(doc, b1.Any, b2.Any, strictAny)
			if dk != "" && strings.HasPrefix(kindOf, "key-") {
				dk = kindOf
			}
			r.check(&one, dk == "", c18Diff{sig: sig("write-parse", mode, dk, "reparse-differs"),
				observed: fmt.Sprintf("%q parses to %s", text1, strictAny(b2.Any)), expected: strictAny(b1.Any), from: "impl:parse-write-parse"})
			// bag-compare is the package's own equality of bags: it must agree
			if dk == "" {
				co := r.impl.eval("(bag-compare c18-a c18-b)", map[string]slip.Object{"c18-a": b1, "c18-b": b2})
				r.check(&one, co.Ok && co.Value == nil, c18Diff{sig: sig("write-parse", mode, kindOf, "compare-differs"),
					observed: fmt.Sprintf("(bag-compare original reparsed) => %s %s", slip.ObjectString(co.Value), co.Msg), expected: "nil", from: "impl:parse-write-parse"})
			}
			if dk == "" {
				pends = append(pends, pend{&one, doc, opt, text1, mode})
				if opt.JSON == 1 {
					reqB = append(reqB, "json parse s"+lib.Hex(text1))
				} else {
					reqB = append(reqB, "json parsesen s"+lib.Hex(text1))
				}
			}
		}
	}
	// round B: the model parses what the implementation wrote: JSON with the strict reader, SEN with
	// the SEN reader
	replies := r.c.Model(reqB)
	for i, p := range pends {
		exp := p.doc.canon()
		got := "?"
		if strings.HasPrefix(replies[i], "ok ") {
			got = canonTokenString(replies[i][3:])
		} else {
			got = replies[i]
		}
		dk := ""
		if got != exp {
			dk = p.doc.firstKind()
			if m := parseDoc(strings.TrimPrefix(replies[i], "ok ")); m != nil {
				if k := diffKind(p.doc, p.doc.toAnyTree(), m.toAnyTree(), canonAny); k != "" {
					dk = k
				}
			}
		}
		r.check(p.cs, got == exp, c18Diff{sig: sig("model-parse", p.mode, dk, "wrong-value"),
			observed: fmt.Sprintf("the model reads %q as %s", p.text, got), expected: exp, from: "model:json.parse"})
	}
}

// checkStream: bag-write / :write with an output stream as destination writes exactly the text it
// returns for a nil destination, and returns nil.
func (r *c18Run) checkStream(cs *c18Case, b *flavors.Instance, w c18WriteOpts, text, mode, kind string) {
	src := "(let ((c18-out (make-string-output-stream))) (list (bag-write c18-b c18-out " + w.String() + ") (get-output-stream-string c18-out)))"
	if w.viaSend {
		src = "(let ((c18-out (make-string-output-stream))) (list (send c18-b :write c18-out " + w.String() + ") (get-output-stream-string c18-out)))"
	}
	o := r.impl.eval(src, map[string]slip.Object{"c18-b": b})
	ok := false
	obs := "err " + o.Class + " " + o.Msg
	if o.Ok {
		if l, isl := o.Value.(slip.List); isl && len(l) == 2 {
			s, _ := l[1].(slip.String)
			// without :pretty the members of an object are written in Go's map order, which differs
			// from call to call: the two texts are compared as the bags they parse to, and by length
			ok = l[0] == nil && len(s) == len(text)
			if ok && string(s) != text {
				b1, o1 := r.impl.makeBag(text, 0)
				b2, o2 := r.impl.makeBag(string(s), 0)
				ok = o1.Ok == o2.Ok && (!o1.Ok || strictAny(b1.Any) == strictAny(b2.Any))
			}
			obs = fmt.Sprintf("returned %s, stream received %q", slip.ObjectString(l[0]), string(s))
		}
	}
	r.c.Ev.Hist("write_destination", "stream")
	r.check(cs, ok, c18Diff{sig: sig("write-stream", mode, kind, "wrong-text"), observed: obs, expected: fmt.Sprintf("nil returned, stream received %q", text), from: "impl:write-nil-vs-stream"})
}

// firstKind: the value kind of a one-leaf sweep document, else the root's kind.
func (v *jv) firstKind() string {
	switch {
	case v.kind == 'a' && len(v.arr) == 1:
		return v.arr[0].firstKind()
	case v.kind == 'o' && len(v.keys) == 1:
		return v.vals[0].firstKind()
	}
	return v.leafKind()
}

// ---------------------------------------------------------------------------------------------
// native family: bag -> bag-native -> make-bag

func (r *c18Run) runNative(cases []*c18Case) {
	reqs := make([]string, len(cases))
	for i, cs := range cases {
		reqs[i] = "json native " + cs.Doc
	}
	replies := r.c.Model(reqs)
	for i, cs := range cases {
		doc := parseDoc(cs.Doc)
		r.c.Ev.Case("native "+cs.Doc, doc.depth() >= 2)
		r.c.Ev.Hist("family", "native")
		parts := strings.SplitN(strings.TrimPrefix(replies[i], "ok "), " | ", 2)
		if len(parts) != 2 {
			fmt.Println("C18 harness bug: native reply", replies[i])
			continue
		}
		faithful := strings.HasPrefix(parts[0], "T ")
		r.c.Ev.Hist("native_guard", map[bool]string{true: "inside", false: "outside"}[faithful])
		expL := canonTokenString(parts[0][2:])
		expJ := parts[1]
		if strings.HasPrefix(expJ, "ok ") {
			expJ = canonTokenString(expJ[3:])
		}
		b1, o := r.impl.makeBag(doc.text(), cs.Via)
		if !o.Ok {
			r.check(cs, false, c18Diff{sig: sig("parse", "-", doc.firstKind(), "condition"), observed: "err " + o.Class + " " + o.Msg, expected: "a bag", from: "property statement"})
			continue
		}
		src := "(bag-native c18-b)"
		if cs.Via%2 == 1 {
			src = "(send c18-b :native)"
		}
		no := r.impl.eval(src, map[string]slip.Object{"c18-b": b1})
		if !no.Ok {
			r.check(cs, false, c18Diff{sig: sig("native", "-", doc.firstKind(), "condition"), observed: "err " + no.Class + " " + no.Msg, expected: expL, from: "model:json.native"})
			continue
		}
		gotL := canonTokenString(strings.Join(encLisp(no.Value), " "))
		dk := ""
		if gotL != expL {
			dk = r.nativeDiffKind(doc)
		}
		r.check(cs, gotL == expL, c18Diff{sig: sig("native", "-", dk, "wrong-lisp-value"), observed: gotL, expected: expL, from: "model:json.native"})
		if gotL != expL {
			continue
		}
		var bo lib.Outcome
		via := cs.Via % 3
		if _, isStr := no.Value.(slip.String); isStr && via == 0 {
			via = 1 // make-bag parses a string argument as JSON/SEN text (documented)
		}
		switch via {
		case 0:
			bo = r.impl.eval("(make-bag c18-n)", map[string]slip.Object{"c18-n": no.Value})
		case 1:
			bo = r.impl.eval("(make-instance 'bag-flavor :set c18-n)", map[string]slip.Object{"c18-n": no.Value})
		default:
			bo = r.impl.eval("(bag-set (make-bag \"0\") c18-n)", map[string]slip.Object{"c18-n": no.Value})
		}
		gotJ := "err"
		if bo.Ok {
			if a, ok := bagAny(bo.Value); ok {
				gotJ = canonAny(a)
			}
		}
		dk = ""
		if gotJ != expJ {
			dk = r.nativeDiffKind(doc)
		}
		r.check(cs, gotJ == expJ, c18Diff{sig: sig("native-back", "-", dk, "wrong-bag"), observed: gotJ + " " + bo.Msg, expected: expJ, from: "model:json.native",
			relies: []string{"SlipVerif.Json.native_roundtrip"}})
		if faithful && bo.Ok {
			// the relation itself, no model in the loop
			a, _ := bagAny(bo.Value)
			same := canonAny(a) == canonAny(b1.Any)
			r.check(cs, same, c18Diff{sig: sig("native-roundtrip", "-", r.nativeDiffKind(doc), "bag-differs"), observed: canonAny(a), expected: canonAny(b1.Any), from: "impl:bag-native-bag"})
		}
	}
}

// nativeDiffKind names the most specific lossy/odd kind present in the document.
func (r *c18Run) nativeDiffKind(doc *jv) string {
	for _, k := range []string{"bigint", "float-long", "float-integral", "false", "empty-arr", "empty-obj"} {
		if doc.anyLeaf(func(v *jv) bool { return v.leafKind() == k }) {
			return k
		}
	}
	return doc.firstKind()
}

// ---------------------------------------------------------------------------------------------
// simplify family: slip.Simplify(slip.SimpleObject(v))

func (r *c18Run) runSimplify(cases []*c18Case) {
	reqs := make([]string, len(cases))
	for i, cs := range cases {
		reqs[i] = "json simple " + cs.GoVal
	}
	replies := r.c.Model(reqs)
	c18SortPairSlices = true
	defer func() { c18SortPairSlices = false }()
	for i, cs := range cases {
		v, rest, ok := parseGV(strings.Fields(cs.GoVal))
		if !ok || len(rest) != 0 {
			fmt.Println("C18 harness bug: go value", cs.GoVal)
			continue
		}
		r.c.Ev.Case("simple "+cs.GoVal, v.kind == '[' || v.kind == '{')
		r.c.Ev.Hist("family", "simplify")
		r.c.Ev.Hist("go_kind", v.kindName())
		parts := strings.SplitN(strings.TrimPrefix(replies[i], "ok "), " | ", 3)
		if len(parts) != 3 || len(parts[2]) < 2 {
			fmt.Println("C18 harness bug: simple reply", replies[i])
			continue
		}
		r.c.Ev.Hist("simplify_guard", map[bool]string{true: "inside", false: "outside"}[strings.HasPrefix(parts[0], "T ")])
		r.c.Ev.Hist("go_into_bag_guard", map[bool]string{true: "inside", false: "outside"}[strings.HasPrefix(parts[2], "T ")])
		expL := canonTokenString(parts[0][2:])
		expG := canonTokenString(parts[1])
		var obj slip.Object
		var back any
		val := v.value()
		o := lib.Protect(func() slip.Object {
			obj = slip.SimpleObject(val)
			back = slip.Simplify(obj)
			return obj
		})
		kind := v.oddKind()
		if !o.Ok {
			r.check(cs, false, c18Diff{sig: sig("simplify", "-", kind, "condition"), observed: "err " + o.Class + " " + o.Msg, expected: expG, from: "model:json.simple"})
			continue
		}
		gotL := canonTokenString(strings.Join(encLisp(obj), " "))
		r.check(cs, gotL == expL, c18Diff{sig: sig("simple-object", "-", kind, "wrong-lisp-value"), observed: gotL, expected: expL, from: "model:json.simple"})
		if gotL != expL {
			continue
		}
		gotG := canonTokenString(strings.Join(encGo(back), " "))
		r.check(cs, gotG == expG, c18Diff{sig: sig("simplify", "-", kind, "wrong-go-value"), observed: gotG, expected: expG, from: "model:json.simple",
			relies: []string{"SlipVerif.Json.simplify_roundtrip"}})
		// the same Lisp object put into a bag (bag.ObjectToBag: make-bag, bag-set, :set)
		expB := parts[2][2:]
		var tree any
		bo := lib.Protect(func() slip.Object {
			tree = bag.ObjectToBag(r.impl.scope, obj, 0)
			return nil
		})
		gotB := "err " + bo.Class
		if bo.Ok {
			gotB = "ok " + canonTokenString(strings.Join(encBagTree(tree), " "))
		}
		if strings.HasPrefix(expB, "ok ") {
			expB = "ok " + canonTokenString(expB[3:])
		} else {
			expB = "err " // any condition
			if !bo.Ok {
				gotB = expB
			}
		}
		r.check(cs, gotB == expB, c18Diff{sig: sig("go-into-bag", "-", kind, "wrong-bag"), observed: gotB + " " + bo.Msg, expected: expB, from: "model:json.simple",
			relies: []string{"SlipVerif.Json.go_data_into_bag"}})
	}
}

// oddKind: the most specific kind of the value for signatures.
func (v *gv) oddKind() string {
	best := ""
	var walk func(x *gv)
	walk = func(x *gv) {
		k := x.kindName()
		if strings.HasSuffix(k, "above-int64") {
			best = k
		}
		for _, c := range x.arr {
			walk(c)
		}
		for _, c := range x.vals {
			walk(c)
		}
	}
	walk(v)
	if best != "" {
		return best
	}
	if (v.kind == '[' && len(v.arr) == 1) || (v.kind == '{' && len(v.vals) == 1) {
		if v.kind == '[' {
			return v.arr[0].oddKind()
		}
		return "map"
	}
	return v.kindName()
}

// ---------------------------------------------------------------------------------------------

func runC18(c *lib.Ctx) {
	r := &c18Run{c: c, impl: newC18Impl(), blockLimit: 10 * time.Minute}
	// lib.NewRng(seed) streams of neighbouring seeds are shifted copies of each other (state =
	// seed*C + K, advanced by C per draw); the generator is therefore derived from a mixed output
	// of c.Rng, which decorrelates the seeds.
	r.g = &c18Gen{r: lib.NewRng(c.Rng.U64() ^ 0xC18C18), avoid: c18Avoids(c)}
	if c.Replay != "" {
		r.replay()
		return
	}
	var text, native, ops, simple []*c18Case
	text, native, ops, simple = r.sweepCases()
	multi, scan := r.sweepMulti()
	config := r.sweepConfig()
	recov := r.sweepRecover()
	oflisp := r.sweepOfLisp()
	twice := r.sweepTwice()
	alias := r.sweepAlias()
	nSweep := len(text) + len(native) + len(ops) + len(simple) + len(multi) + len(scan) + len(config) + len(recov) + len(oflisp) + len(twice) + len(alias)
	nCfgSweep := len(config)
	for i := 0; i < c.Scale(1500, 120000); i++ {
		config = append(config, r.randomConfigCase())
	}
	// configuration histories run in chunks between the other families: each chunk ends with
	// both variables back at nil, so every family below is a "use after the reset"
	chunk := func(i int) {
		a, b := len(config)*i/6, len(config)*(i+1)/6
		r.runConfig(config[a:b])
	}
	// composite, seeded
	r.g.text = true
	for i := 0; i < c.Scale(300, 40000); i++ {
		text = append(text, r.randomTextCase())
	}
	r.g.text = false
	for i := 0; i < c.Scale(500, 150000); i++ {
		native = append(native, &c18Case{Family: "native", Doc: strings.Join(r.g.doc(5).wire(), " "), Via: r.g.r.Intn(6)})
	}
	for i := 0; i < c.Scale(2500, 600000); i++ {
		ops = append(ops, &c18Case{Family: "ops", Doc: strings.Join(r.g.container(1+r.g.r.Intn(5)).wire(), " "), Via: r.g.r.Intn(3)})
	}
	for i := 0; i < c.Scale(2000, 400000); i++ {
		simple = append(simple, &c18Case{Family: "simplify", GoVal: strings.Join(r.g.goValue(3).wire(), " ")})
	}
	for i := 0; i < c.Scale(600, 60000); i++ {
		multi = append(multi, r.randomMultiCase())
	}
	for i := 0; i < c.Scale(300, 40000); i++ {
		scan = append(scan, &c18Case{Family: "scan", Doc: strings.Join(r.g.doc(5).wire(), " "), Via: r.g.r.Intn(6), Strict: r.g.r.Bool()})
	}
	for i := 0; i < c.Scale(400, 40000); i++ {
		recov = append(recov, r.randomRecoverCase())
	}
	for i := 0; i < c.Scale(800, 100000); i++ {
		oflisp = append(oflisp, &c18Case{Family: "oflisp", GoVal: lw(r.randomLisp(3)), Via: r.g.r.Intn(4)})
	}
	for i := 0; i < c.Scale(600, 60000); i++ {
		twice = append(twice, r.randomTwiceCase())
	}
	for i := 0; i < c.Scale(1200, 60000); i++ {
		alias = append(alias, &c18Case{Family: "alias"})
	}
	marker := func(name string) *c18Case { return &c18Case{Family: "config", Cell: "after-" + name, Sweep: true} }
	r.runRecover(recov[:len(recov)/2])
	chunk(0)
	r.runMulti(multi)
	r.checkPristine(marker("multi"), "after-multi")
	chunk(1)
	r.runScan(scan)
	r.checkPristine(marker("scan"), "after-scan")
	chunk(2)
	r.runText(text)
	r.checkPristine(marker("text"), "after-text")
	chunk(3)
	r.runNative(native)
	r.checkPristine(marker("native"), "after-native")
	chunk(4)
	r.runOps(ops)
	r.checkPristine(marker("ops"), "after-ops")
	chunk(5)
	r.runSimplify(simple)
	r.checkPristine(marker("simplify"), "after-simplify")
	r.runOfLisp(oflisp)
	r.runTwice(twice)
	r.runAlias(alias)
	r.checkPristine(marker("alias"), "after-alias")
	r.runRecover(recov[len(recov)/2:])
	c.Ev.Coverage["parser_healed_outside_recover_family"] = r.impl.healed
	_ = nCfgSweep
	if os.Getenv("C18_DUMP") != "" { // development aid: every distinct signature with its first case
		for _, v := range c.Violations {
			b, _ := json.Marshal(v.Replay["case"])
			fmt.Fprintf(os.Stderr, "SIG %s\n    obs: %.300v\n    exp: %.300v\n    case: %.400s\n", v.Signature, v.Replay["observed"], v.Replay["expected"], b)
		}
	}
	c.Ev.Coverage["traces_validated_against_impl"] = r.total
	c.Ev.Coverage["agreements"] = r.agree
	c.Ev.Coverage["sweep_cases"] = nSweep
	c.Ev.Coverage["composite_cases"] = len(text) + len(native) + len(ops) + len(simple) + len(multi) + len(scan) + len(config) + len(recov) + len(oflisp) + len(twice) + len(alias) - nSweep
	avoided := []string{}
	if r.g.avoid.bigInt {
		avoided = append(avoided, "integers ojg holds as json.Number")
	}
	if r.g.avoid.integralFloat {
		avoided = append(avoided, "floats with an integral value")
	}
	if r.g.avoid.longFloat {
		avoided = append(avoided, "floats ojg holds as json.Number")
	}
	if r.g.avoid.sharedValue {
		avoided = append(avoided, "container values set through a multi-match path")
	}
	if r.g.avoid.wildDesc {
		avoided = append(avoided, "a wildcard immediately followed by a descent")
	}
	if r.g.avoid.trailingDesc {
		avoided = append(avoided, "query paths ending in a descent")
	}
	if r.g.avoid.keywordStr {
		avoided = append(avoided, "the strings true/false/null as values")
	}
	if r.g.avoid.numberLikeStr {
		avoided = append(avoided, "strings that read as numbers as values")
	}
	sort.Strings(avoided)
	c.Ev.Coverage["composite_avoids"] = avoided
	c.Ev.Coverage["rule"] = "cases = (document, model layout, write option lists: JSON and SEN text in both directions, stream destination, bag-compare) / (document: bag-native and back) / (document, op sequence <= 6) / (Go value: Simplify(SimpleObject) and ObjectToBag(SimpleObject)) / (Lisp value into a bag) / (documents through a multi-document entry point) / (document: scan) / (history of settings, document, entry) / (bad text, entry, valid documents through every entry) / (document parsed twice and a third time through 16 entries, edit at depth 1..3) / (history over several bags that share trees: child bags, bags stored in bags, writes through any of them framed by reads through every enclosing bag); sweep = single-cause cells (one leaf kind x placement x writer mode; one op x one or two step path x small document; path shape x value kind incl. null x depth 1..3 x path form; one bad text x entry; one Lisp value x entry; one document x entry x edit depth), seed independent; non-trivial = path length >= 2 or container nesting >= 2 or two or more documents; distinct by case text"
}

// randomMultiCase: 1..5 documents through one of the entry points that hand out bags.
func (r *c18Run) randomMultiCase() *c18Case {
	g := r.g
	cs := &c18Case{Family: "multi"}
	type ent struct {
		name   string
		forms  []int
		multi  bool
		strict bool // takes the strict argument
		chanOK bool
		onlyContainers bool
	}
	ents := []ent{
		{"json-parse", []int{0, 1, 2}, true, true, true, false},
		{"json-parse", []int{0, 1, 2}, true, true, true, false},
		{"discover-json", []int{0, 1, 2}, true, true, true, true},
		{"each-bag", []int{2, 3}, true, false, false, false},
		{"bag-read", []int{2}, false, false, false, false},
		{"send-read", []int{2}, false, false, false, false},
		{"init-read", []int{2}, false, false, false, false},
		{"load-bag", []int{3}, false, false, false, false},
		{"make-bag", []int{1}, false, false, false, false},
	}
	e := ents[g.r.Intn(len(ents))]
	cs.Entry = e.name
	cs.Form = e.forms[g.r.Intn(len(e.forms))]
	cs.Strict = e.strict && g.r.Bool()
	cs.Channel = e.chanOK && g.r.Chance(40)
	if g.r.Chance(30) {
		cs.Layout = "i2"
	}
	n := 1
	if e.multi {
		n = 1 + g.r.Intn(5)
	}
	for i := 0; i < n; i++ {
		var d *jv
		if e.onlyContainers {
			d = g.tameDoc(1 + g.r.Intn(4))
		} else if g.r.Chance(80) {
			d = g.container(1 + g.r.Intn(4))
		} else {
			d = g.scalar()
		}
		cs.Docs = append(cs.Docs, strings.Join(d.wire(), " "))
		cs.Seps = append(cs.Seps, []string{" ", "\n", "\n\n", "\t", "  "}[g.r.Intn(5)])
	}
	cs.Seps[0] = []string{"", " ", "\n"}[g.r.Intn(3)]
	cs.Seps = append(cs.Seps, []string{"", "\n", " "}[g.r.Intn(3)])
	return cs
}

func (r *c18Run) randomTextCase() *c18Case {
	g := r.g
	cs := &c18Case{Family: "text", Doc: strings.Join(g.doc(5).wire(), " "), Via: g.r.Intn(3)}
	cs.Layout = []string{"c", "c", "i2", "i1", "i4"}[g.r.Intn(5)]
	n := 1 + g.r.Intn(3)
	for i := 0; i < n; i++ {
		o := c18Opts{Pretty: g.r.Intn(3) - 1, Depth: -1, JSON: g.r.Intn(3) - 1, Margin: -1, Color: -1, Send: g.r.Bool()}
		if g.r.Chance(60) {
			o.Depth = []int{0, 1, 2, 3, 4, 6}[g.r.Intn(6)]
		}
		if g.r.Chance(25) {
			o.Margin = []int{10, 20, 40, 200}[g.r.Intn(4)]
		}
		if g.r.Chance(20) {
			o.Color = 0
		}
		if g.r.Chance(15) {
			o.TimeFormat = []string{"second", "nano", "2006-01-02T15:04:05.999999999Z07:00", "2006-01-02"}[g.r.Intn(4)]
		}
		if g.r.Chance(10) {
			o.TimeWrap = "t"
		}
		cs.Opts = append(cs.Opts, o)
	}
	return cs
}

// replay re-runs exactly the recorded case.
func (r *c18Run) replay() {
	var rec struct {
		Case      *c18Case `json:"case"`
		Signature string   `json:"signature"`
	}
	if err := lib.ReadJSON(r.c.Replay, &rec); err != nil || rec.Case == nil {
		fmt.Fprintln(os.Stderr, "cannot read replay file (give an absolute path):", r.c.Replay, err)
		os.Exit(2)
	}
	cs := rec.Case
	cs.Sweep = false
	switch cs.Family {
	case "text":
		r.runText([]*c18Case{cs})
	case "native":
		r.runNative([]*c18Case{cs})
	case "ops":
		r.runOps([]*c18Case{cs})
	case "simplify":
		r.runSimplify([]*c18Case{cs})
	case "multi":
		r.runMulti([]*c18Case{cs})
	case "scan":
		r.runScan([]*c18Case{cs})
	case "config":
		r.runConfig([]*c18Case{cs})
	case "recover":
		r.runRecover([]*c18Case{cs})
	case "oflisp":
		r.runOfLisp([]*c18Case{cs})
	case "twice":
		r.runTwice([]*c18Case{cs})
	case "alias":
		r.runAlias([]*c18Case{cs})
	}
	fmt.Printf("replay family=%s recorded signature: %s\n", cs.Family, rec.Signature)
	for _, v := range r.c.Violations {
		fmt.Printf("  signature: %s\n  observed : %v\n  expected : %v\n", v.Signature, v.Replay["observed"], v.Replay["expected"])
	}
	if len(r.c.Violations) == 0 {
		fmt.Println("  all checks of the case agree")
	}
}

var _ = flavors.Instance{}
