package main

// C16, hash-table family: histories of (setf gethash) / gethash / remhash / clrhash /
// hash-table-count / maphash on the implementation versus the map model under the model's eql
// ("eq hist", SlipVerif.Model.HashTable.step, proved to refine the finite-map semantics).

import (
	"fmt"
	"math"
	"math/big"
	"sort"
	"strconv"
	"strings"

	"github.com/ohler55/slip"
	"verif/harness/lib"
)

var c16MakeForms = []string{
	"(make-hash-table)", "(make-hash-table :test 'eql)", "(make-hash-table :test 'equal)",
	"(make-hash-table :test 'equalp)", "(make-hash-table :test 'eq)", "(make-hash-table :size 10)",
}

type c16Hist struct {
	make  string
	keys  []string // wire terms
	ops   []string // p<i>,<v> g<i> r<i> c n m
	sweep bool
	cell  string // sweep cell id
}

func (h c16Hist) request() string {
	return "eq hist " + strings.Join(h.keys, " ") + " -- " + strings.Join(h.ops, " ")
}

func (h c16Hist) text(keys []*c16Obj) string {
	var sb strings.Builder
	sb.WriteString("h=" + h.make)
	for _, op := range h.ops {
		sb.WriteString(" ")
		switch op[0] {
		case 'p':
			iv := strings.SplitN(op[1:], ",", 2)
			i, _ := strconv.Atoi(iv[0])
			fmt.Fprintf(&sb, "(setf (gethash %s h) %s)", keys[i].text, iv[1])
		case 'g':
			i, _ := strconv.Atoi(op[1:])
			fmt.Fprintf(&sb, "(gethash %s h)", keys[i].text)
		case 'r':
			i, _ := strconv.Atoi(op[1:])
			fmt.Fprintf(&sb, "(remhash %s h)", keys[i].text)
		case 'c':
			sb.WriteString("(clrhash h)")
		case 'n':
			sb.WriteString("(hash-table-count h)")
		case 'm':
			sb.WriteString("(maphash #'collect h)")
		}
	}
	return sb.String()
}

func c16Obs(o lib.Outcome) (string, bool) {
	if o.Ok {
		return "", true
	}
	if o.GoFault {
		return "G:" + o.Class, false
	}
	return "E:" + o.Class, false
}

// c16RunHist runs the history on the implementation; one observation per op (same syntax as the
// model's reply).
func c16RunHist(h c16Hist) (obs []string, keys []*c16Obj) {
	scope := slip.NewScope()
	byWire := map[string]*c16Obj{}
	for i, w := range h.keys {
		// the same wire term (same token) is the same object
		o := byWire[w]
		if o == nil {
			o = c16FromWire(w)
			byWire[w] = o
		}
		keys = append(keys, o)
		scope.Let(slip.Symbol(fmt.Sprintf("k%d", i)), o.obj)
	}
	mk := lib.EvalString(scope, h.make)
	if !mk.Ok {
		for range h.ops {
			obs = append(obs, "E:make:"+mk.Class)
		}
		return
	}
	scope.Let(slip.Symbol("h"), mk.Value)
	for _, op := range h.ops {
		switch op[0] {
		case 'p':
			iv := strings.SplitN(op[1:], ",", 2)
			o := lib.EvalString(scope, fmt.Sprintf("(setf (gethash k%s h) %s)", iv[0], iv[1]))
			if e, ok := c16Obs(o); !ok {
				obs = append(obs, e)
			} else {
				obs = append(obs, "-")
			}
		case 'g':
			o := lib.EvalString(scope, fmt.Sprintf("(multiple-value-list (gethash k%s h))", op[1:]))
			if e, ok := c16Obs(o); !ok {
				obs = append(obs, e)
				break
			}
			l, _ := o.Value.(slip.List)
			switch {
			case len(l) == 2 && l[1] == nil && l[0] == nil:
				obs = append(obs, "~")
			case len(l) == 2 && l[1] != nil:
				obs = append(obs, "v"+slip.ObjectString(l[0]))
			default:
				obs = append(obs, "?"+o.Text)
			}
		case 'r':
			o := lib.EvalString(scope, fmt.Sprintf("(remhash k%s h)", op[1:]))
			if e, ok := c16Obs(o); !ok {
				obs = append(obs, e)
			} else if o.Value == nil {
				obs = append(obs, "0")
			} else {
				obs = append(obs, "1")
			}
		case 'c':
			o := lib.EvalString(scope, "(clrhash h)")
			if e, ok := c16Obs(o); !ok {
				obs = append(obs, e)
			} else {
				obs = append(obs, "-")
			}
		case 'n':
			o := lib.EvalString(scope, "(hash-table-count h)")
			if e, ok := c16Obs(o); !ok {
				obs = append(obs, e)
			} else {
				obs = append(obs, o.Text)
			}
		case 'm':
			o := lib.EvalString(scope, "(let ((acc nil)) (maphash (lambda (k v) (setq acc (cons (list k v) acc))) h) acc)")
			if e, ok := c16Obs(o); !ok {
				obs = append(obs, e)
				break
			}
			type ent struct{ cls, val int }
			var es []ent
			l, _ := o.Value.(slip.List)
			for _, e := range l {
				kv, _ := e.(slip.List)
				if len(kv) != 2 {
					es = append(es, ent{-2, 0})
					continue
				}
				// the class of the reported key: the first key of the history it is eql to (decided
				// by the harness on exact values / identity, not by the implementation's eql)
				cls := -1
				for j := range keys {
					if c16SameEql(keys[j].obj, kv[0]) {
						cls = j
						break
					}
				}
				v, _ := kv[1].(slip.Fixnum)
				es = append(es, ent{cls, int(v)})
			}
			sort.Slice(es, func(a, b int) bool {
				if es[a].cls != es[b].cls {
					return es[a].cls < es[b].cls
				}
				return es[a].val < es[b].val
			})
			var parts []string
			for _, e := range es {
				parts = append(parts, fmt.Sprintf("%d:%d", e.cls, e.val))
			}
			obs = append(obs, "m"+strings.Join(parts, ","))
		}
	}
	return
}

// c16RatOf returns the exact value of a real number object of the modelled kinds.
func c16RatOf(o slip.Object) *big.Rat {
	switch t := o.(type) {
	case slip.Fixnum:
		return new(big.Rat).SetInt64(int64(t))
	case *slip.Bignum:
		return new(big.Rat).SetInt((*big.Int)(t))
	case *slip.Ratio:
		return (*big.Rat)(t)
	case slip.SingleFloat:
		if !math.IsNaN(float64(t)) && !math.IsInf(float64(t), 0) {
			return new(big.Rat).SetFloat64(float64(t))
		}
	case slip.DoubleFloat:
		if !math.IsNaN(float64(t)) && !math.IsInf(float64(t), 0) {
			return new(big.Rat).SetFloat64(float64(t))
		}
	case *slip.LongFloat:
		if r, _ := (*big.Float)(t).Rat(nil); r != nil {
			return r
		}
	}
	return nil
}

// c16SameEql: the harness's own statement of slip's eql on key objects (numbers by exact value,
// characters, strings and symbols by content, everything else by identity).
func c16SameEql(a, b slip.Object) bool {
	if ra, rb := c16RatOf(a), c16RatOf(b); ra != nil || rb != nil {
		return ra != nil && rb != nil && ra.Cmp(rb) == 0
	}
	switch ta := a.(type) {
	case nil:
		return b == nil
	case slip.Character:
		tb, ok := b.(slip.Character)
		return ok && ta == tb
	case slip.String:
		tb, ok := b.(slip.String)
		return ok && ta == tb
	case slip.Symbol:
		tb, ok := b.(slip.Symbol)
		return ok && ta == tb
	case slip.List:
		return false
	}
	defer func() { _ = recover() }()
	return a == b
}

func c16HistAspect(op, got, want string) string {
	switch {
	case strings.HasPrefix(got, "G:"):
		return "go-fault"
	case strings.HasPrefix(got, "E:"):
		return "condition:" + got[2:]
	}
	switch op[0] {
	case 'g':
		switch {
		case want != "~" && got == "~":
			return "lost"
		case want == "~" && got != "~":
			return "stale"
		}
		return "wrong-value"
	case 'r':
		return "result-" + got
	case 'n':
		g, _ := strconv.Atoi(got)
		w, _ := strconv.Atoi(want)
		if g > w {
			return "count-high"
		}
		return "count-low"
	case 'm':
		return "entries-differ"
	}
	return "differs"
}

var c16OpNames = map[byte]string{'p': "setf-gethash", 'g': "gethash", 'r': "remhash", 'c': "clrhash", 'n': "hash-table-count", 'm': "maphash"}

// c16CheckHist compares implementation and model observations; the first disagreement is
// reported (later ones are its consequences).
func c16CheckHist(c *lib.Ctx, h c16Hist, model string) bool {
	obs, keys := c16RunHist(h)
	mw := strings.Fields(model)
	if len(mw) != len(h.ops)+1 || mw[0] != "ok" {
		panic("c16 hist reply: " + model)
	}
	want := mw[1:]
	nontrivial := false
	for _, op := range h.ops {
		if op[0] == 'r' {
			nontrivial = true
		}
	}
	seen := map[string]bool{}
	for _, op := range h.ops {
		if op[0] == 'p' {
			k := strings.SplitN(op[1:], ",", 2)[0]
			if seen[k] {
				nontrivial = true
			}
			seen[k] = true
		}
	}
	c.Ev.Case(h.request()+" "+h.make, nontrivial)
	c.Ev.Hist("hist_len", strconv.Itoa(len(h.ops)))
	for i, op := range h.ops {
		c.Ev.Hist("hist_op", c16OpNames[op[0]])
		if obs[i] == want[i] {
			continue
		}
		keyKind := "-"
		if op[0] == 'p' || op[0] == 'g' || op[0] == 'r' {
			k, _ := strconv.Atoi(strings.SplitN(op[1:], ",", 2)[0])
			keyKind = keys[k].kind
		} else {
			ks := map[string]bool{}
			for _, k := range keys {
				ks[k.kind] = true
			}
			var kk []string
			for k := range ks {
				kk = append(kk, k)
			}
			sort.Strings(kk)
			keyKind = strings.Join(kk, "+")
		}
		sig := fmt.Sprintf("hash op=%s key=%s aspect=%s", c16OpNames[op[0]], keyKind, c16HistAspect(op, obs[i], want[i]))
		c.Report(sig, h.sweep, map[string]any{"family": "hist", "cell": h.cell, "make": h.make, "keys": h.keys, "ops": h.ops, "input": h.text(keys),
			"observed": strings.Join(obs, " "), "expected": strings.Join(want, " "), "first_difference_at_op": i,
			"expected_from": "model:eq.hist", "relies_on": []string{"SlipVerif.HashTable.hashtable_refines_map", "SlipVerif.HashTable.count_is_number_of_distinct_keys"}})
		return false
	}
	return true
}

// the keys of the hash sweep: every hashable kind, with a second object of the same value and a
// different representation of the same value where there is one.
func c16HashKeys(g *c16Gen) (wires []string, names []string) {
	add := func(name, w string) { wires = append(wires, w); names = append(names, name) }
	add("fixnum", g.numS('f', "5"))
	add("fixnum-copy", g.numS('f', "5"))
	add("bignum-small", g.numS('b', "5"))
	add("ratio-int", g.numS('r', "5"))
	add("single-int", g.sgl(5))
	add("double-int", g.dbl(5))
	add("fixnum-other", g.numS('f', "6"))
	add("bignum", g.numS('b', "18446744073709551616"))
	add("bignum-copy", g.numS('b', "18446744073709551616"))
	add("double-big", g.dbl(18446744073709551616.0))
	add("bignum-other", g.numS('b', "18446744073709551617"))
	add("ratio", g.numS('r', "1/2"))
	add("ratio-copy", g.numS('r', "1/2"))
	add("single-half", g.sgl(0.5))
	add("double-half", g.dbl(0.5))
	add("ratio-third", g.numS('r', "1/3"))
	add("ratio-third-copy", g.numS('r', "1/3"))
	add("long-int", g.numS('l', "5"))
	add("long-half", g.numS('l', "1/2"))
	add("long-half-copy", g.numS('l', "1/2"))
	add("double", g.dbl(1.25))
	add("double-copy", g.dbl(1.25))
	add("string", g.str("abc"))
	add("string-copy", g.str("abc"))
	add("string-case", g.str("ABC"))
	add("symbol", g.sym("abc"))
	add("symbol-case", g.sym("Abc"))
	add("keyword", g.sym(":abc"))
	add("character", g.chr('a'))
	add("character-copy", g.chr('a'))
	add("character-case", g.chr('A'))
	add("null", "N")
	add("list", g.list(g.numS('f', "1"), g.numS('f', "2")))
	add("list-copy", g.list(g.numS('f', "1"), g.numS('f', "2")))
	add("vector", g.vec(g.numS('f', "1")))
	add("vector-copy", g.vec(g.numS('f', "1")))
	add("other", "O1;")
	return
}

// the fixed script of a sweep cell over keys a (index 0) and b (index 1)
var c16SweepScript = []string{"p0,1", "g0", "g1", "n", "p1,2", "g0", "g1", "n", "m", "r1", "g0", "g1", "n", "p0,3", "m", "c", "n", "g0", "m"}

func c16HashFamily(c *lib.Ctx) {
	g := &c16Gen{next: 5000000, rng: c.Rng}
	kw, kn := c16HashKeys(g)
	var hists []c16Hist
	// --- sweep: every ordered pair of sweep keys (and each key with itself: the same object)
	for i := range kw {
		for j := range kw {
			keys := []string{kw[i], kw[j]}
			script := c16SweepScript
			if i == j {
				// the same object twice
				keys = []string{kw[i]}
				script = make([]string, len(c16SweepScript))
				for k, op := range c16SweepScript {
					script[k] = strings.Replace(strings.Replace(op, "p1,", "p0,", 1), "g1", "g0", 1)
					if op == "r1" {
						script[k] = "r0"
					}
				}
			}
			hists = append(hists, c16Hist{make: c16MakeForms[(i+j)%len(c16MakeForms)], keys: keys, ops: script, sweep: true, cell: kn[i] + "/" + kn[j]})
		}
	}
	// second script per key: removal before any store, double removal
	for i := range kw {
		hists = append(hists, c16Hist{make: c16MakeForms[i%len(c16MakeForms)], keys: []string{kw[i]},
			ops: []string{"r0", "g0", "n", "p0,1", "r0", "r0", "g0", "n", "m", "p0,2", "p0,3", "g0", "n"}, sweep: true, cell: kn[i] + "/remove-first"})
	}
	// --- machine-boundary sweep: within every boundary group (c16_bound.go) all ordered pairs of
	// keys (every value in every exact representation) under the sweep script
	bw, bn := c16BoundKeys(g)
	nBound := 0
	var boundPool []string
	for gi := range bw {
		boundPool = append(boundPool, bw[gi]...)
		for i := range bw[gi] {
			for j := range bw[gi] {
				if i == j {
					continue // one key alone: covered per kind by the sweep above
				}
				hists = append(hists, c16Hist{make: c16MakeForms[(i+j)%len(c16MakeForms)], keys: []string{bw[gi][i], bw[gi][j]},
					ops: c16SweepScript, sweep: true, cell: bn[gi][i] + "/" + bn[gi][j]})
				nBound++
			}
		}
	}
	c.Ev.Coverage["hash_boundary_keys"] = len(boundPool)
	c.Ev.Coverage["hash_boundary_histories"] = nBound
	nSweep := len(hists)
	// --- composite: random histories (<= 12 ops) over 2..6 keys of every hashable kind; key kinds
	// with a listed finding are not used
	var pool []string
	for _, w := range kw {
		// key kinds with a listed finding (signature "hash op=… key=<kind> …") are not used
		if c.Findings.Listed("C16", "hash op=setf-gethash key="+c16FromWire(w).kind+" ") {
			continue
		}
		pool = append(pool, w)
	}
	c.Ev.Coverage["hash_random_key_pool"] = len(pool)
	nRandom := c.Scale(600, 60000)
	for n := 0; n < nRandom; n++ {
		nk := 2 + c.Rng.Intn(5)
		var keys []string
		for len(keys) < nk {
			w := pool[c.Rng.Intn(len(pool))]
			if c.Rng.Chance(25) {
				w = boundPool[c.Rng.Intn(len(boundPool))]
			}
			switch {
			case c.Rng.Chance(35) && len(keys) > 0:
				// a fresh object that is mostly eql/equal to a key already chosen
				keys = append(keys, g.variant(keys[c.Rng.Intn(len(keys))], 1))
			case c.Rng.Chance(15) && len(keys) > 0:
				keys = append(keys, keys[c.Rng.Intn(len(keys))]) // the very same object again
			default:
				keys = append(keys, w)
			}
		}
		// variants may be of a kind with a listed finding (a list inside stays a list): fine, the
		// variant of a hashable sweep key has the kind of its source
		nops := 3 + c.Rng.Intn(10)
		var ops []string
		for len(ops) < nops {
			k := c.Rng.Intn(nk)
			switch r := c.Rng.Intn(100); {
			case r < 35:
				ops = append(ops, fmt.Sprintf("p%d,%d", k, 10+len(ops)))
			case r < 60:
				ops = append(ops, fmt.Sprintf("g%d", k))
			case r < 75:
				ops = append(ops, fmt.Sprintf("r%d", k))
			case r < 79:
				ops = append(ops, "c")
			case r < 90:
				ops = append(ops, "n")
			default:
				ops = append(ops, "m")
			}
		}
		hists = append(hists, c16Hist{make: c16MakeForms[c.Rng.Intn(len(c16MakeForms))], keys: keys, ops: ops})
	}
	reqs := make([]string, len(hists))
	for i, h := range hists {
		reqs[i] = h.request()
	}
	replies := c.Model(reqs)
	agree := 0
	for i, h := range hists {
		if c16CheckHist(c, h, replies[i]) {
			agree++
		}
		if i%(len(hists)/4+1) == 0 {
			obs, keys := c16RunHist(h)
			c.Ev.Sample(map[string]string{"history": h.text(keys), "impl": strings.Join(obs, " "), "model": replies[i]})
		}
	}
	c.Ev.Coverage["hash_sweep_histories"] = nSweep
	c.Ev.Coverage["hash_random_histories"] = nRandom
	c.Ev.Coverage["hash_histories_agree"] = agree
}
