package main

// C10 — generic dispatch equals the specification and is unaffected by its cache.
//
// Correspondence: histories of defmethod / remove-method / call operations on freshly named 1- and
// 2-argument generic functions are run on the real implementation (pkg/generic through the
// evaluator) and through the Lean model (SlipVerif.Model.Dispatch, line protocol "disp run …").
// Every method body records its id through Go primitives registered here (c10-tr / c10-en /
// c10-lv); per call the ordered trace, the value of next-method-p seen by each :around body and the
// value of the call are compared with the model's.
//
// A history is one line (also the replay format):
//   disp run <n>[~i] <tC> <classes> <op>*     see lean/SlipVerif/Driver/Dispatch.lean
// harness-only annotations start with '~' and are stripped before the line goes to the model:
//   <n>~i   no defgeneric form: the first defmethod creates the generic function
//   d…~b    the method's parameters specialised on t are written as bare symbols
//   d…~g    the method is defined from Go (generic.DefCallerMethod) instead of a defmethod form
//   <n>~m<k> the first k operations (defmethods) are :method options of the defgeneric form
//   <n>~o   every lambda list ends in `&optional o`; every second call passes a value for it
//
// Bounded-exhaustive families run sharded over worker subprocesses (this binary re-executed with
// VH_C10_WORKER=1): interpreter state is process-global and single-threaded workers keep the
// sequential facet free of scheduling effects.

import (
	"bufio"
	"bytes"
	"fmt"
	"io"
	"os"
	"os/exec"
	"regexp"
	"runtime"
	"sort"
	"strconv"
	"strings"
	"sync"
	"sync/atomic"

	"github.com/ohler55/slip"
	"github.com/ohler55/slip/pkg/generic"
	"verif/harness/lib"
)

func init() { props["C10"] = runC10 }

// ---------------------------------------------------------------------------------------------
// the world: classes, canonical argument objects, trace primitives (one per process)

type c10Arg struct {
	varName string // lisp variable bound to the object
	class   int    // id of Hierarchy()[0] ("t" for nil)
}

type c10World struct {
	scope     *slip.Scope
	classID   map[string]int
	className []string
	cpl       map[int][]int // class id -> precedence list (ids), for classes that occur as argument classes
	argOf     map[int]c10Arg
	log       []string
	gensym    int
	goBodies  bool                     // :around bodies are one call of the Go primitive c10-ar (concurrent facets)
	optLL     bool                     // lambda lists end in &optional o (histories annotated ~o)
	optArg    bool                     // the call being rendered passes a value for o
	conc      map[slip.Object][]string // concurrent facet: per-call logs keyed by the first argument object
	concMu    sync.Mutex
}

var c10W *c10World

func (w *c10World) intern(name string) int {
	name = strings.ToLower(name)
	if id, ok := w.classID[name]; ok {
		return id
	}
	id := len(w.className)
	w.classID[name] = id
	w.className = append(w.className, name)
	return id
}

func c10Fixnum(o slip.Object) (int64, bool) {
	n, ok := o.(slip.Fixnum)
	return int64(n), ok
}

type c10Prim struct {
	slip.Function
	kind string
}

func (w *c10World) emit(key slip.Object, ev string) {
	if w.conc != nil {
		// concurrent facets: the event belongs to the call whose first argument is this object
		w.concMu.Lock()
		w.conc[key] = append(w.conc[key], ev)
		w.concMu.Unlock()
		return
	}
	w.log = append(w.log, ev)
}

func (f *c10Prim) Call(s *slip.Scope, args slip.List, depth int) slip.Object {
	w := c10W
	id := int64(-1)
	if 0 < len(args) {
		id, _ = c10Fixnum(args[0])
	}
	var key slip.Object
	if 0 < len(args) {
		key = args[len(args)-1]
	}
	npFlag := func(v slip.Object) string {
		switch v {
		case nil:
			return "-"
		case slip.True:
			return "+"
		}
		return ""
	}
	switch f.kind {
	case "tr":
		w.emit(key, fmt.Sprintf("m%d", id))
	case "lv":
		w.emit(key, fmt.Sprintf("l%d", id))
	case "en":
		flag := ""
		if 1 < len(args) {
			flag = npFlag(args[1])
		}
		w.emit(key, fmt.Sprintf("e%d%s", id, flag))
	case "ar":
		// (c10-ar id mode x [y…]): a whole :around body in Go (mode 0 guarded, 1 direct, 2 stop),
		// used by the concurrent facets: slip compiles the sub-forms of let / if lazily and in
		// place on their first evaluation, which is not safe when several routines evaluate a
		// fresh body at the same time; a body made of one call with atom arguments has no such
		// sub-forms. next-method-p and call-next-method are the real ones, applied in this scope.
		if len(args) < 3 {
			return nil
		}
		mode, _ := c10Fixnum(args[1])
		key = args[2]
		rest := args[2:]
		var np slip.Object
		if mode != 1 {
			np = slip.MustFindFunc("next-method-p").Apply(s, slip.List{}, depth)
			w.emit(key, fmt.Sprintf("e%d%s", id, npFlag(np)))
		} else {
			w.emit(key, fmt.Sprintf("e%d", id))
		}
		var v slip.Object = slip.Fixnum(id)
		if mode == 1 || (mode == 0 && np != nil) {
			v = slip.MustFindFunc("call-next-method").Apply(s, append(slip.List{}, rest...), depth)
		}
		w.emit(key, fmt.Sprintf("l%d", id))
		return v
	}
	return nil
}

func c10Init() *c10World {
	if c10W != nil {
		return c10W
	}
	w := &c10World{scope: slip.NewScope(), classID: map[string]int{}, cpl: map[int][]int{}, argOf: map[int]c10Arg{}}
	c10W = w
	for _, kind := range []string{"tr", "en", "lv", "ar"} {
		kind := kind
		name := "c10-" + kind
		slip.Define(
			func(args slip.List) slip.Object {
				f := c10Prim{Function: slip.Function{Name: name, Args: args}, kind: kind}
				f.Self = &f
				return &f
			},
			&slip.FuncDoc{Name: name, Args: []*slip.DocArg{{Name: "&rest"}, {Name: "args"}}, Return: "object",
				Text: "verification harness trace primitive"},
		)
	}
	w.intern("t") // class 0
	// the class chain of the property's quantifier and the built-in numeric chain
	for _, n := range []string{"c10a", "c10b", "c10c", "c10d", "standard-object", "fixnum", "integer", "rational", "real", "number",
		"float", "c10a-ext", "c10p1", "c10p2", "c10m", "c10l"} {
		w.intern(n)
	}
	must := func(src string) slip.Object {
		o := lib.EvalString(w.scope, src)
		if !o.Ok {
			fmt.Fprintf(os.Stderr, "C10 harness: cannot set up the world: %s => %s %s\n", src, o.Class, o.Msg)
			os.Exit(2)
		}
		return o.Value
	}
	must("(defclass c10a () ())")
	must("(defclass c10b (c10a) ())")
	must("(defclass c10c (c10b) ())")
	must("(defclass c10d (c10c) ())")
	// a class whose name starts with the name of one of its superclasses (and double-float / float among
	// the built-in ones): a dispatcher that handles class names as text must not confuse them
	must("(defclass c10a-ext (c10d) ())")
	args := []struct{ v, src string }{
		{"anil", "nil"}, {"ia", "(make-instance 'c10a)"}, {"ib", "(make-instance 'c10b)"}, {"ic", "(make-instance 'c10c)"},
		{"id", "(make-instance 'c10d)"}, {"ie", "(make-instance 'c10a-ext)"}, {"n7", "7"}, {"nbig", "100000000000000000000000"}, {"nrat", "1/2"}, {"nflo", "1.5d0"},
		{"nstr", "\"s\""},
	}
	for _, a := range args {
		obj := must(a.src)
		w.scope.Let(slip.Symbol(a.v), obj)
		var hier []int
		if obj == nil {
			hier = []int{0}
		} else {
			for _, h := range obj.Hierarchy() {
				hier = append(hier, w.intern(string(h)))
			}
		}
		w.cpl[hier[0]] = hier
		w.argOf[hier[0]] = c10Arg{varName: a.v, class: hier[0]}
	}
	return w
}

// precondition of the whole check: the chains the generators rely on are what the implementation's
// Hierarchy() reports (most specific first, ending in t).
func (w *c10World) chainProblem() string {
	check := func(arg string, want ...string) string {
		var got []string
		for _, id := range w.cpl[w.classID[arg]] {
			got = append(got, w.className[id])
		}
		pos := 0
		for _, g := range got {
			if pos < len(want) && g == want[pos] {
				pos++
			}
		}
		if pos != len(want) || got[len(got)-1] != "t" {
			return fmt.Sprintf("precedence list of %s is %v, expected the subsequence %v ending in t", arg, got, want)
		}
		return ""
	}
	for _, p := range []string{
		check("c10d", "c10d", "c10c", "c10b", "c10a", "standard-object", "t"),
		check("c10c", "c10c", "c10b", "c10a", "standard-object", "t"),
		check("c10b", "c10b", "c10a", "standard-object", "t"),
		check("c10a", "c10a", "standard-object", "t"),
		check("fixnum", "fixnum", "integer", "rational", "real", "number", "t"),
		check("ratio", "ratio", "rational", "real", "number", "t"),
		check("double-float", "double-float", "float", "real", "number", "t"),
		check("c10a-ext", "c10a-ext", "c10d", "c10c", "c10b", "c10a", "standard-object", "t"),
		check("bignum", "bignum", "integer", "rational", "real", "number", "t"),
	} {
		if p != "" {
			return p
		}
	}
	return ""
}

// ---------------------------------------------------------------------------------------------
// histories

type c10Op struct {
	kind  byte  // 'd' defmethod, 'r' remove-method, 'c' call, 'm' compute-applicable-methods, 'G' defgeneric evaluated again
	qual  byte  // p b a r
	key   []int // specializer class ids (d, r) or argument class ids (c)
	id    int
	mode  byte // g d s (around bodies)
	bare  bool // t specializers written as bare parameter symbols
	viaGo bool // defined through generic.DefCallerMethod
	opts  int  // 'G': up to this many directly following defmethod operations are :method options of the form
}

type c10Hist struct {
	n         int
	implicit  bool // no defgeneric form
	inGeneric int  // the first inGeneric operations (all defmethod) are written as :method options of the defgeneric form
	optional  bool // every lambda list ends in &optional o
	ops       []c10Op
}

func c10Join(xs []int) string {
	s := make([]string, len(xs))
	for i, x := range xs {
		s[i] = strconv.Itoa(x)
	}
	return strings.Join(s, ".")
}

func (op c10Op) word() string {
	switch op.kind {
	case 'd':
		s := fmt.Sprintf("d%c:%s:%d:%c", op.qual, c10Join(op.key), op.id, op.mode)
		if op.bare {
			s += "~b"
		} else if op.viaGo {
			s += "~g"
		}
		return s
	case 'r':
		return fmt.Sprintf("r%c:%s", op.qual, c10Join(op.key))
	case 'm':
		return "m:" + c10Join(op.key)
	case 'G':
		if 0 < op.opts {
			return fmt.Sprintf("G~m%d", op.opts)
		}
		return "G"
	}
	return "c:" + c10Join(op.key)
}

// observes: the operation produces an outcome word (a call or compute-applicable-methods)
func (op c10Op) observes() bool { return op.kind == 'c' || op.kind == 'm' }

// line renders the history as a worker/replay line (with '~' annotations).
func (h c10Hist) line(w *c10World) string {
	var b strings.Builder
	b.WriteString("disp run ")
	b.WriteString(strconv.Itoa(h.n))
	if h.implicit || 0 < h.inGeneric || h.optional {
		b.WriteByte('~')
		if h.implicit {
			b.WriteByte('i')
		} else if 0 < h.inGeneric {
			fmt.Fprintf(&b, "m%d", h.inGeneric)
		}
		if h.optional {
			b.WriteByte('o')
		}
	}
	b.WriteString(" 0 ")
	// the class table: every argument class used by a call
	used := map[int]bool{}
	for _, op := range h.ops {
		if op.observes() {
			for _, c := range op.key {
				used[c] = true
			}
		}
	}
	ids := make([]int, 0, len(used))
	for c := range used {
		ids = append(ids, c)
	}
	sort.Ints(ids)
	if len(ids) == 0 {
		ids = []int{0}
	}
	for i, c := range ids {
		if 0 < i {
			b.WriteByte(';')
		}
		fmt.Fprintf(&b, "%d:%s", c, c10Join(w.cpl[c]))
	}
	for _, op := range h.ops {
		b.WriteByte(' ')
		b.WriteString(op.word())
	}
	return b.String()
}

// c10ModelLine strips the harness-only annotations.
func c10ModelLine(line string) string {
	if !strings.Contains(line, "~") {
		return line
	}
	words := strings.Fields(line)
	for i, w := range words {
		if j := strings.IndexByte(w, '~'); 0 <= j {
			words[i] = w[:j]
		}
	}
	return strings.Join(words, " ")
}

func c10Ints(s string) ([]int, bool) {
	var out []int
	for _, p := range strings.Split(s, ".") {
		n, err := strconv.Atoi(p)
		if err != nil {
			return nil, false
		}
		out = append(out, n)
	}
	return out, true
}

// c10Parse rebuilds a history from its line.
func c10Parse(line string) (h c10Hist, ok bool) {
	words := strings.Fields(line)
	if len(words) < 5 || words[0] != "disp" {
		return h, false
	}
	nw := words[2]
	if j := strings.IndexByte(nw, '~'); 0 <= j {
		ann := nw[j+1:]
		if strings.HasSuffix(ann, "o") {
			h.optional = true
			ann = strings.TrimSuffix(ann, "o")
		}
		switch {
		case ann == "":
		case ann == "i":
			h.implicit = true
		case strings.HasPrefix(ann, "m"):
			k, err := strconv.Atoi(ann[1:])
			if err != nil || k < 0 || len(words)-5 < k {
				return h, false
			}
			h.inGeneric = k
		default:
			return h, false
		}
		nw = nw[:j]
	}
	n, err := strconv.Atoi(nw)
	if err != nil || n < 1 || 3 < n {
		return h, false
	}
	h.n = n
	for _, w := range words[5:] {
		var op c10Op
		if strings.HasSuffix(w, "~b") {
			op.bare = true
			w = strings.TrimSuffix(w, "~b")
		} else if strings.HasSuffix(w, "~g") {
			op.viaGo = true
			w = strings.TrimSuffix(w, "~g")
		}
		parts := strings.Split(w, ":")
		if w == "G" || strings.HasPrefix(w, "G~m") {
			op.kind = 'G'
			if w != "G" {
				if op.opts, err = strconv.Atoi(w[3:]); err != nil || op.opts < 0 {
					return h, false
				}
			}
			h.ops = append(h.ops, op)
			continue
		}
		switch {
		case len(parts) == 4 && len(parts[0]) == 2 && parts[0][0] == 'd' && len(parts[3]) == 1:
			op.kind, op.qual, op.mode = 'd', parts[0][1], parts[3][0]
			if op.key, ok = c10Ints(parts[1]); !ok {
				return h, false
			}
			if op.id, err = strconv.Atoi(parts[2]); err != nil {
				return h, false
			}
		case len(parts) == 2 && len(parts[0]) == 2 && parts[0][0] == 'r':
			op.kind, op.qual = 'r', parts[0][1]
			if op.key, ok = c10Ints(parts[1]); !ok {
				return h, false
			}
		case len(parts) == 2 && (parts[0] == "c" || parts[0] == "m"):
			op.kind = parts[0][0]
			if op.key, ok = c10Ints(parts[1]); !ok {
				return h, false
			}
		default:
			return h, false
		}
		if len(op.key) != h.n {
			return h, false
		}
		h.ops = append(h.ops, op)
	}
	for _, op := range h.ops[:h.inGeneric] {
		if op.kind != 'd' {
			return h, false
		}
	}
	return h, true
}

var c10QualName = map[byte]string{'p': "", 'b': ":before", 'a': ":after", 'r': ":around"}

// c10Forms renders the lisp forms of a history for generic function name g (documentation of a
// replay; the same text is what the implementation evaluates).
func (w *c10World) form(g string, n int, op c10Op) string {
	params := []string{"x", "y", "z"}[:n]
	switch op.kind {
	case 'd':
		var ll []string
		for i, c := range op.key {
			if c == 0 && op.bare {
				ll = append(ll, params[i])
			} else {
				ll = append(ll, fmt.Sprintf("(%s %s)", params[i], w.className[c]))
			}
		}
		args := strings.Join(params, " ")
		var body string
		switch {
		case op.qual != 'r':
			body = fmt.Sprintf("(c10-tr %d x) %d", op.id, op.id)
		case w.goBodies:
			body = fmt.Sprintf("(c10-ar %d %d %s)", op.id, strings.IndexByte("gds", op.mode), args)
		case op.mode == 'g':
			body = fmt.Sprintf("(let ((np (next-method-p))) (c10-en %d np x) (let ((v (if np (call-next-method %s) %d))) (c10-lv %d x) v))",
				op.id, args, op.id, op.id)
		case op.mode == 'd':
			body = fmt.Sprintf("(c10-en %d 0 x) (let ((v (call-next-method %s))) (c10-lv %d x) v)", op.id, args, op.id)
		default:
			body = fmt.Sprintf("(let ((np (next-method-p))) (c10-en %d np x) (c10-lv %d x) %d)", op.id, op.id, op.id)
		}
		q := c10QualName[op.qual]
		if q != "" {
			q += " "
		}
		if w.optLL {
			ll = append(ll, "&optional o")
		}
		return fmt.Sprintf("(defmethod %s %s(%s) %s)", g, q, strings.Join(ll, " "), body)
	case 'r':
		var sp []string
		for _, c := range op.key {
			sp = append(sp, w.className[c])
		}
		q := c10QualName[op.qual]
		return fmt.Sprintf("(let ((m (find-method '%s '(%s) '(%s) nil))) (if m (remove-method '%s m) nil))",
			g, q, strings.Join(sp, " "), g)
	}
	var as []string
	for _, c := range op.key {
		a, ok := w.argOf[c]
		if !ok {
			return "(error \"no argument object of class " + strconv.Itoa(c) + "\")"
		}
		as = append(as, a.varName)
	}
	if op.kind == 'm' {
		return fmt.Sprintf("(compute-applicable-methods '%s (list %s))", g, strings.Join(as, " "))
	}
	if w.optArg {
		as = append(as, "99")
	}
	return fmt.Sprintf("(%s %s)", g, strings.Join(as, " "))
}

// defineViaGo defines the method of a defmethod operation through the Go interface
// generic.DefCallerMethod: the caller is the lambda of the same body, the specializers are the
// Type fields of the FuncDoc arguments.
func (w *c10World) defineViaGo(g string, n int, op c10Op) lib.Outcome {
	src := w.form(g, n, c10Op{kind: 'd', qual: 'p', key: op.key, id: op.id, mode: op.mode})
	if op.qual == 'r' {
		src = w.form(g, n, c10Op{kind: 'd', qual: 'r', key: op.key, id: op.id, mode: op.mode})
	}
	// (defmethod g [q] (ll) body…) → the body after the lambda list
	i := strings.Index(src, ") ")
	for depth, j := 0, strings.Index(src, "("+"("); 0 <= j && j < len(src); j++ { // find the end of the lambda list
		switch src[j] {
		case '(':
			depth++
		case ')':
			depth--
			if depth == 0 {
				i = j
				j = len(src)
			}
		}
	}
	params := []string{"x", "y", "z"}[:n]
	lsrc := fmt.Sprintf("(lambda (%s%s) %s", strings.Join(params, " "), map[bool]string{true: " &optional o", false: ""}[w.optLL], src[i+2:])
	return lib.Protect(func() slip.Object {
		lam, _ := w.scope.Eval(slip.ReadString(lsrc, w.scope)[0], 0).(*slip.Lambda)
		if lam == nil {
			panic("c10: not a lambda: " + lsrc)
		}
		fd := &slip.FuncDoc{Name: g, Kind: slip.MethodSymbol, Return: "object"}
		for k, c := range op.key {
			fd.Args = append(fd.Args, &slip.DocArg{Name: params[k], Type: w.className[c]})
		}
		if w.optLL {
			fd.Args = append(fd.Args, &slip.DocArg{Name: "&optional"}, &slip.DocArg{Name: "o"})
		}
		lam.Doc = fd
		generic.DefCallerMethod(c10QualName[op.qual], lam, fd)
		return nil
	})
}

var c10IDRe = regexp.MustCompile(`c10-(?:tr|en|ar) (\d+)`)

// c10MethodWord renders the list returned by compute-applicable-methods as the model does:
// M<q><id>,… with the qualifier read from the one daemon each returned method holds and the id
// from the text of its body.
func c10MethodWord(v slip.Object) string {
	list, ok := v.(slip.List)
	if !ok && v != nil {
		return "M?not-a-list"
	}
	var parts []string
	for _, e := range list {
		m, ok := e.(*slip.Method)
		if !ok || len(m.Combinations) != 1 {
			parts = append(parts, "?")
			continue
		}
		cb := m.Combinations[0]
		q := ""
		var caller slip.Caller
		for _, d := range []struct {
			q string
			c slip.Caller
		}{{"p", cb.Primary}, {"b", cb.Before}, {"a", cb.After}, {"r", cb.Wrap}} {
			if d.c != nil {
				q += d.q
				caller = d.c
			}
		}
		id := "?"
		if lam, ok := caller.(*slip.Lambda); ok {
			var b []byte
			for _, f := range lam.Forms {
				b = slip.ObjectAppend(b, f)
				b = append(b, ' ')
			}
			if mm := c10IDRe.FindSubmatch(b); mm != nil {
				id = string(mm[1])
			}
		}
		parts = append(parts, q+id)
	}
	if len(parts) == 0 {
		return "M-"
	}
	return "M" + strings.Join(parts, ",")
}

// the defgeneric form of a history, with its first inGeneric methods as :method options
func (w *c10World) defgeneric(g string, h c10Hist) string {
	var b strings.Builder
	fmt.Fprintf(&b, "(defgeneric %s (%s%s)", g, strings.Join([]string{"x", "y", "z"}[:h.n], " "), map[bool]string{true: " &optional o", false: ""}[h.optional])
	for _, op := range h.ops[:h.inGeneric] {
		b.WriteString(" (:method ")
		b.WriteString(strings.TrimPrefix(w.form(g, h.n, op), "(defmethod "+g+" "))
	}
	b.WriteString(")")
	return b.String()
}

// the form of a 'G' operation at index i: (defgeneric g …) evaluated again for the existing generic
// function, with the same lambda list; up to op.opts directly following defmethod operations (not
// the ones defined from Go) are written as its :method options. Returns the number of operations
// consumed as options.
func (w *c10World) regeneric(g string, h c10Hist, i int) (string, int) {
	var b strings.Builder
	fmt.Fprintf(&b, "(defgeneric %s (%s%s) (:documentation \"again\")", g, strings.Join([]string{"x", "y", "z"}[:h.n], " "), map[bool]string{true: " &optional o", false: ""}[h.optional])
	used := 0
	for j := i + 1; j < len(h.ops) && used < h.ops[i].opts && h.ops[j].kind == 'd' && !h.ops[j].viaGo; j++ {
		b.WriteString(" (:method ")
		b.WriteString(strings.TrimPrefix(w.form(g, h.n, h.ops[j]), "(defmethod "+g+" "))
		used++
	}
	b.WriteString(")")
	return b.String(), used
}

func (w *c10World) forms(g string, h c10Hist) []string {
	var out []string
	w.optLL = h.optional
	defer func() { w.optLL, w.optArg = false, false }()
	if !h.implicit {
		out = append(out, w.defgeneric(g, h))
	}
	skip := 0
	for i, op := range h.ops {
		if i < h.inGeneric {
			continue
		}
		if 0 < skip {
			skip--
			continue
		}
		if op.kind == 'G' {
			var f string
			f, skip = w.regeneric(g, h, i)
			out = append(out, f)
			continue
		}
		w.optArg = h.optional && i%2 == 1
		f := w.form(g, h.n, op)
		if op.kind == 'd' && op.viaGo {
			f = "#| from Go: generic.DefCallerMethod with the lambda and specializers of |# " + f
		}
		out = append(out, f)
	}
	return out
}

// runImpl runs the history on the real implementation and returns the reply in the model's format:
// "ok <outcome>*", one outcome per call; a failing defmethod / remove-method adds a word X<i>:<class>.
func (w *c10World) runImpl(h c10Hist) string {
	w.gensym++
	g := fmt.Sprintf("c10g%d", w.gensym)
	words := []string{"ok"}
	w.optLL = h.optional
	defer func() { w.optLL, w.optArg = false, false }()
	if !h.implicit {
		o := lib.EvalString(w.scope, w.defgeneric(g, h))
		if !o.Ok {
			words = append(words, "Xdefgeneric:"+o.Class)
		}
	}
	skip := 0
	for i, op := range h.ops {
		if i < h.inGeneric {
			continue
		}
		if 0 < skip {
			skip--
			continue
		}
		if op.kind == 'G' {
			var src string
			src, skip = w.regeneric(g, h, i)
			// slip.Define warns "redefining <name>" on *error-output*: not an observable of the property
			saved := slip.ErrorOutput
			slip.ErrorOutput = &slip.OutputStream{Writer: io.Discard}
			o := lib.EvalString(w.scope, src)
			slip.ErrorOutput = saved
			if !o.Ok {
				words = append(words, fmt.Sprintf("X%d:%s", i, o.Class))
			}
			continue
		}
		w.optArg = h.optional && i%2 == 1
		if op.kind == 'd' && op.viaGo {
			if o := w.defineViaGo(g, h.n, op); !o.Ok {
				words = append(words, fmt.Sprintf("X%d:%s", i, o.Class))
			}
			continue
		}
		src := w.form(g, h.n, op)
		if op.kind == 'm' {
			if o := lib.EvalString(w.scope, src); o.Ok {
				words = append(words, c10MethodWord(o.Value))
			} else {
				words = append(words, "M!"+o.Class)
			}
			continue
		}
		if op.kind != 'c' {
			if o := lib.EvalString(w.scope, src); !o.Ok {
				words = append(words, fmt.Sprintf("X%d:%s", i, o.Class))
			}
			continue
		}
		w.log = w.log[:0]
		o := lib.EvalString(w.scope, src)
		tr := "-"
		if 0 < len(w.log) {
			tr = strings.Join(w.log, ",")
		}
		switch {
		case o.Ok && o.Value == nil:
			tr += "=nil"
		case o.Ok:
			if n, isFix := c10Fixnum(o.Value); isFix {
				tr += "=" + strconv.FormatInt(n, 10)
			} else {
				tr += "=?" + strings.ReplaceAll(o.Text, " ", "_")
			}
		case o.Class == "no-applicable-method-error":
			tr += "!na"
		default:
			tr += "!" + o.Class
		}
		words = append(words, tr)
	}
	slip.CurrentPackage.Undefine(g)
	return strings.Join(words, " ")
}

// c10Canon brings the model's reply into the form the implementation's observation has: the value
// of next-method-p is not observed by `direct` :around bodies, and no-next-method is a plain error.
func c10Canon(h c10Hist, model string) string {
	direct := map[string]bool{}
	for _, op := range h.ops {
		if op.kind == 'd' && op.qual == 'r' && op.mode == 'd' {
			direct["e"+strconv.Itoa(op.id)] = true
		}
	}
	words := strings.Fields(model)
	for i, wd := range words {
		if i == 0 {
			continue
		}
		if strings.HasSuffix(wd, "!nn") {
			wd = strings.TrimSuffix(wd, "!nn") + "!error"
		}
		if 0 < len(direct) && !strings.HasPrefix(wd, "M") {
			cut := strings.LastIndexAny(wd, "=!")
			evs := strings.Split(wd[:cut], ",")
			for j, e := range evs {
				if strings.HasPrefix(e, "e") {
					base := strings.TrimRight(e, "+-")
					if direct[base] {
						evs[j] = base
					}
				}
			}
			wd = strings.Join(evs, ",") + wd[cut:]
		}
		words[i] = wd
	}
	return strings.Join(words, " ")
}

// ---------------------------------------------------------------------------------------------
// classification of a disagreement

func c10Entered(outcome string) (ids []string, nps []string, leaves []string, res string) {
	cut := strings.LastIndexAny(outcome, "=!")
	if cut < 0 {
		return nil, nil, nil, outcome
	}
	res = outcome[cut:]
	if outcome[:cut] == "-" {
		return
	}
	for _, e := range strings.Split(outcome[:cut], ",") {
		switch {
		case strings.HasPrefix(e, "m"):
			ids = append(ids, e[1:])
		case strings.HasPrefix(e, "e"):
			base := strings.TrimRight(e[1:], "+-")
			ids = append(ids, base)
			nps = append(nps, e)
		case strings.HasPrefix(e, "l"):
			leaves = append(leaves, e[1:])
		}
	}
	return
}

func c10Aspect(h c10Hist, upto int, impl, model string) string {
	if h.ops[upto].kind == 'm' {
		return "applicable-methods"
	}
	ii, inp, il, ir := c10Entered(impl)
	mi, mnp, ml, mr := c10Entered(model)
	live := map[string]bool{} // ids currently in the table
	type slot struct {
		q byte
		k string
	}
	table := map[slot]string{}
	ever := map[string]bool{}
	for _, op := range h.ops[:upto] {
		switch op.kind {
		case 'd':
			table[slot{op.qual, c10Join(op.key)}] = strconv.Itoa(op.id)
			ever[strconv.Itoa(op.id)] = true
		case 'r':
			delete(table, slot{op.qual, c10Join(op.key)})
		case 'G':
			table = map[slot]string{}
		}
	}
	for _, id := range table {
		live[id] = true
	}
	inModel := map[string]bool{}
	for _, id := range mi {
		inModel[id] = true
	}
	inImpl := map[string]bool{}
	for _, id := range ii {
		inImpl[id] = true
	}
	for _, id := range ii {
		if !inModel[id] && ever[id] && !live[id] {
			return "stale"
		}
	}
	errI, errM := strings.HasPrefix(ir, "!"), strings.HasPrefix(mr, "!")
	if errI != errM || (errI && ir != mr) {
		if errI {
			return "condition:" + ir[1:]
		}
		return "no-condition"
	}
	for _, id := range ii {
		if !inModel[id] {
			return "extra"
		}
	}
	for _, id := range mi {
		if !inImpl[id] {
			return "missing"
		}
	}
	if strings.Join(ii, ",") != strings.Join(mi, ",") {
		if len(ii) != len(mi) {
			return "repeated"
		}
		return "order"
	}
	if strings.Join(inp, ",") != strings.Join(mnp, ",") {
		return "next-method-p"
	}
	if strings.Join(il, ",") != strings.Join(ml, ",") {
		return "leave"
	}
	if ir != mr {
		return "value"
	}
	return "trace"
}

// c10Signature: (argument count, kind and qualifier of the last mutating operation before the
// failing call, whether that mutation's specializer tuple is applicable to the call's arguments,
// whether the same argument classes were called before that mutation, aspect).
func c10Signature(w *c10World, h c10Hist, callIdx int, aspect string) string {
	last, lastAt := "none", -1
	for i := callIdx - 1; 0 <= i; i-- {
		if op := h.ops[i]; !op.observes() {
			q := map[byte]string{'p': "primary", 'b': "before", 'a': "after", 'r': "around"}[op.qual]
			k := "defmethod"
			if op.kind == 'r' {
				k = "remove"
			}
			last, lastAt = k+"-"+q, i
			if op.kind == 'G' {
				last = "defgeneric-again"
			}
			break
		}
	}
	rel, cached := "-", "-"
	call := h.ops[callIdx]
	if 0 <= lastAt {
		rel = "applicable"
		if h.ops[lastAt].kind == 'G' {
			rel = "-"
		}
		for i, c := range h.ops[lastAt].key {
			found := false
			for _, p := range w.cpl[call.key[i]] {
				if p == c {
					found = true
				}
			}
			if !found {
				rel = "not-applicable"
			}
		}
		cached = "no"
		for _, op := range h.ops[:lastAt] {
			if op.kind == 'c' && c10Join(op.key) == c10Join(call.key) {
				cached = "yes"
			}
		}
	}
	arounds := 0
	{
		type slot struct{ k string }
		cur := map[string]bool{}
		for _, op := range h.ops[:callIdx] {
			if op.kind == 'G' {
				cur = map[string]bool{}
			}
			if op.qual != 'r' {
				continue
			}
			app := true
			for i, c := range op.key {
				found := false
				for _, p := range w.cpl[call.key[i]] {
					if p == c {
						found = true
					}
				}
				if !found {
					app = false
				}
			}
			if !app {
				continue
			}
			if op.kind == 'd' {
				cur[c10Join(op.key)] = true
			} else if op.kind == 'r' {
				delete(cur, c10Join(op.key))
			}
		}
		arounds = len(cur)
	}
	ar := strconv.Itoa(arounds)
	if 3 <= arounds {
		ar = "3+"
	}
	return fmt.Sprintf("args=%d last=%s rel=%s called-before=%s arounds=%s aspect=%s", h.n, last, rel, cached, ar, aspect)
}

// ---------------------------------------------------------------------------------------------
// generators

// a symbol of a reduced alphabet: an operation template (ids are assigned when instantiated)
type c10Sym struct {
	kind byte
	qual byte
	key  []string // class names
	mode byte
	bare bool
}

type c10Alphabet struct {
	name string
	n    int
	syms []c10Sym
}

func c10D(q byte, mode byte, key ...string) c10Sym {
	return c10Sym{kind: 'd', qual: q, key: key, mode: mode}
}
func c10Db(q byte, mode byte, key ...string) c10Sym {
	return c10Sym{kind: 'd', qual: q, key: key, mode: mode, bare: true}
}
func c10M(key ...string) c10Sym         { return c10Sym{kind: 'm', key: key} }
func c10R(q byte, key ...string) c10Sym { return c10Sym{kind: 'r', qual: q, key: key} }
func c10C(key ...string) c10Sym         { return c10Sym{kind: 'c', key: key} }
func c10G() c10Sym                      { return c10Sym{kind: 'G'} }

func c10Alphabets() []c10Alphabet {
	return []c10Alphabet{
		{"primary-around-1", 1, []c10Sym{
			c10D('p', 's', "c10a"), c10D('p', 's', "c10c"), c10D('r', 'g', "c10a"), c10D('r', 'g', "c10c"),
			c10R('p', "c10a"), c10R('p', "c10c"), c10R('r', "c10a"), c10R('r', "c10c"),
			c10C("c10b"), c10C("c10d")}},
		{"before-after-1", 1, []c10Sym{
			c10D('b', 's', "c10a"), c10D('b', 's', "c10c"), c10D('a', 's', "c10a"), c10D('a', 's', "c10c"), c10D('p', 's', "t"),
			c10R('b', "c10a"), c10R('a', "c10c"), c10R('p', "t"),
			c10C("c10b"), c10C("c10d")}},
		{"lexicographic-2", 2, []c10Sym{
			c10D('p', 's', "c10a", "c10c"), c10D('p', 's', "c10c", "c10a"), c10D('r', 'g', "c10a", "c10c"), c10D('r', 'g', "c10c", "c10a"),
			c10D('a', 's', "c10c", "c10c"),
			c10R('p', "c10c", "c10a"), c10R('r', "c10a", "c10c"),
			c10C("c10d", "c10d"), c10C("c10d", "c10b"), c10C("c10b", "c10d")}},
		{"around-modes-1", 1, []c10Sym{
			c10D('p', 's', "t"), c10R('p', "t"), c10D('r', 'd', "c10b"), c10D('r', 's', "c10d"), c10D('r', 'g', "c10a"),
			c10R('r', "c10b"), c10R('r', "c10d"),
			c10C("c10d"), c10C("c10a"), c10C("fixnum")}},
		{"numeric-1", 1, []c10Sym{
			c10D('p', 's', "fixnum"), c10D('p', 's', "real"), c10D('b', 's', "integer"), c10D('r', 'g', "rational"),
			c10R('p', "fixnum"), c10R('r', "rational"), c10R('p', "real"),
			c10C("fixnum"), c10C("ratio"), c10C("double-float")}},
		{"default-path-2", 2, []c10Sym{
			c10D('p', 's', "t", "t"), c10R('p', "t", "t"), c10D('p', 's', "c10b", "t"), c10R('p', "c10b", "t"),
			c10D('b', 's', "t", "t"), c10R('b', "t", "t"), c10D('r', 'd', "t", "c10b"),
			c10C("c10b", "c10b"), c10C("t", "t"), c10C("c10a", "fixnum")}},
		// three required arguments, the middle one never specialised (written as a bare parameter)
		{"three-args-3", 3, []c10Sym{
			c10Db('p', 's', "c10a", "t", "c10c"), c10Db('p', 's', "c10c", "t", "c10a"), c10Db('r', 'g', "t", "t", "c10b"),
			c10Db('b', 's', "c10b", "t", "t"), c10R('p', "c10a", "t", "c10c"), c10R('r', "t", "t", "c10b"),
			c10C("c10d", "fixnum", "c10d"), c10C("c10b", "t", "c10d")}},
		// specializers whose name is part of the name of a more specific class of the argument
		{"name-substring-1", 1, []c10Sym{
			c10D('p', 's', "float"), c10R('p', "float"), c10D('p', 's', "real"), c10D('r', 'g', "c10a"), c10R('r', "c10a"),
			c10D('p', 's', "t"), c10C("double-float"), c10C("c10a-ext")}},
		// compute-applicable-methods between the mutations and calls
		{"methods-query-1", 1, []c10Sym{
			c10D('p', 's', "c10a"), c10D('p', 's', "c10c"), c10D('r', 'g', "c10b"), c10D('b', 's', "c10c"), c10D('a', 's', "c10a"),
			c10R('p', "c10c"), c10M("c10d"), c10C("c10d")}},
		// (defgeneric g …) evaluated again between definitions, removals, calls and queries
		{"defgeneric-again-1", 1, []c10Sym{
			c10D('p', 's', "c10a"), c10D('r', 'g', "c10c"), c10D('b', 's', "t"), c10D('p', 's', "t"),
			c10R('p', "c10a"), c10G(), c10M("c10d"), c10C("c10b"), c10C("c10d")}},
		{"defgeneric-again-2", 2, []c10Sym{
			c10D('p', 's', "t", "t"), c10D('p', 's', "c10b", "t"), c10D('a', 's', "c10a", "c10c"), c10D('r', 'd', "t", "c10b"),
			c10R('p', "t", "t"), c10G(), c10C("c10b", "c10b"), c10C("c10d", "c10d"), c10C("t", "fixnum")}},
	}
}

// small alphabet for the deepest enumeration
func c10DeepAlphabet() c10Alphabet {
	return c10Alphabet{"deep-1", 1, []c10Sym{
		c10D('p', 's', "c10a"), c10D('r', 'g', "c10c"), c10D('b', 's', "c10c"),
		c10R('p', "c10a"), c10R('r', "c10c"),
		c10C("c10b"), c10C("c10d")}}
}

func (w *c10World) instantiate(a c10Alphabet, digits []int) c10Hist {
	h := c10Hist{n: a.n}
	id := 10
	for _, d := range digits {
		s := a.syms[d]
		op := c10Op{kind: s.kind, qual: s.qual, mode: s.mode, bare: s.bare}
		for _, name := range s.key {
			op.key = append(op.key, w.classID[name])
		}
		if s.kind == 'd' {
			id++
			op.id = id
		}
		h.ops = append(h.ops, op)
	}
	return h
}

// enumerate histories of exactly `length` symbols whose last symbol is a call; index → history.
// (every shorter history ending in a call is a prefix of one of them, and all calls are compared)
func c10EnumCount(a c10Alphabet, length int) int {
	calls := 0
	for _, s := range a.syms {
		if s.kind == 'c' {
			calls++
		}
	}
	n := calls
	for i := 1; i < length; i++ {
		n *= len(a.syms)
	}
	return n
}

func c10EnumDigits(a c10Alphabet, length, index int) []int {
	var callIdx []int
	for i, s := range a.syms {
		if s.kind == 'c' {
			callIdx = append(callIdx, i)
		}
	}
	digits := make([]int, length)
	digits[length-1] = callIdx[index%len(callIdx)]
	index /= len(callIdx)
	for i := length - 2; 0 <= i; i-- {
		digits[i] = index % len(a.syms)
		index /= len(a.syms)
	}
	return digits
}

// random long history over the full alphabet of a world
func (w *c10World) randomHistory(r *lib.Rng) c10Hist {
	n := 1 + r.Intn(2)
	if r.Chance(20) {
		n = 3
	}
	var specs, argc []int
	switch r.Intn(4) {
	case 0: // numeric chain
		for _, s := range []string{"fixnum", "integer", "rational", "real", "number", "t", "float"} {
			specs = append(specs, w.classID[s])
		}
		for _, s := range []string{"fixnum", "bignum", "ratio", "double-float", "string"} {
			argc = append(argc, w.classID[s])
		}
	case 1: // mixed
		for _, s := range []string{"c10a", "c10c", "standard-object", "integer", "real", "t"} {
			specs = append(specs, w.classID[s])
		}
		for _, s := range []string{"c10a", "c10c", "c10d", "fixnum", "ratio", "t"} {
			argc = append(argc, w.classID[s])
		}
	default: // the instance chain
		for _, s := range []string{"c10a", "c10b", "c10c", "c10d", "t"} {
			specs = append(specs, w.classID[s])
		}
		if r.Chance(30) {
			specs = append(specs, w.classID["standard-object"])
		}
		for _, s := range []string{"c10a", "c10b", "c10c", "c10d", "c10d", "fixnum", "t", "c10a-ext"} {
			argc = append(argc, w.classID[s])
		}
	}
	// keep the number of distinct specializer tuples small enough that slots get replaced/removed
	var tuples [][]int
	nt := 3 + r.Intn(6)
	for i := 0; i < nt; i++ {
		k := make([]int, n)
		for j := range k {
			k[j] = specs[r.Intn(len(specs))]
		}
		tuples = append(tuples, k)
	}
	h := c10Hist{n: n}
	length := 8 + r.Intn(40)
	pCall, pRemove := 30+r.Intn(30), 10+r.Intn(25)
	stopPct := r.Intn(25)
	// a third of the histories evaluate the defgeneric form again now and then (some with :method options)
	pAgain := 0
	if r.Chance(33) {
		pAgain = 2 + r.Intn(8)
	}
	id := 100
	for i := 0; i < length; i++ {
		x := r.Intn(100)
		if 0 < pAgain && r.Intn(100) < pAgain {
			op := c10Op{kind: 'G'}
			if r.Chance(40) {
				op.opts = 1 + r.Intn(3)
			}
			h.ops = append(h.ops, op)
			continue
		}
		switch {
		case x < pCall:
			k := make([]int, n)
			for j := range k {
				k[j] = argc[r.Intn(len(argc))]
			}
			kind := byte('c')
			if r.Chance(12) {
				kind = 'm'
			}
			h.ops = append(h.ops, c10Op{kind: kind, key: k})
		case x < pCall+pRemove:
			h.ops = append(h.ops, c10Op{kind: 'r', qual: "pbar"[r.Intn(4)], key: tuples[r.Intn(len(tuples))]})
		default:
			id++
			op := c10Op{kind: 'd', qual: "pbarrp"[r.Intn(6)], key: tuples[r.Intn(len(tuples))], id: id, mode: 'g'}
			if op.qual == 'r' {
				switch y := r.Intn(100); {
				case y < stopPct:
					op.mode = 's'
				case y < stopPct+35:
					op.mode = 'd'
				}
			} else {
				op.mode = 's'
			}
			op.bare = r.Chance(20)
			if !op.bare && r.Chance(12) {
				op.viaGo = true
			}
			h.ops = append(h.ops, op)
		}
	}
	h.ops = append(h.ops, c10Op{kind: 'c', key: func() []int {
		k := make([]int, n)
		for j := range k {
			k[j] = argc[r.Intn(len(argc))]
		}
		return k
	}()})
	if h.ops[0].kind == 'd' && r.Chance(25) {
		h.implicit = true
	} else if r.Chance(25) {
		// the leading defmethods (some of them) as :method options of the defgeneric form
		lead := 0
		for lead < len(h.ops) && h.ops[lead].kind == 'd' {
			lead++
		}
		if 0 < lead {
			h.inGeneric = 1 + r.Intn(lead)
			for i := 0; i < h.inGeneric; i++ {
				h.ops[i].viaGo = false
			}
		}
	}
	h.optional = r.Chance(15)
	return h
}

// Appendix C rule for C10–C13: ≥ 1 observation after ≥ 2 mutations, one of which happened after an
// earlier observation.
func (h c10Hist) nontrivial() bool {
	muts, seenCall, mutAfterCall := 0, false, false
	for _, op := range h.ops {
		if op.observes() {
			if 2 <= muts && mutAfterCall {
				return true
			}
			seenCall = true
		} else {
			muts++
			if seenCall {
				mutAfterCall = true
			}
		}
	}
	return false
}

// ---------------------------------------------------------------------------------------------
// worker mode and sharded execution

func c10Worker() {
	w := c10Init()
	if mode := os.Getenv("VH_C10_WORKER"); mode == "conc" || mode == "race" {
		w.goBodies = true
	}
	sc := bufio.NewScanner(os.Stdin)
	sc.Buffer(make([]byte, 1<<20), 1<<26)
	out := bufio.NewWriterSize(os.Stdout, 1<<20)
	for sc.Scan() {
		if strings.HasPrefix(sc.Text(), "conc ") {
			fmt.Fprintln(out, w.runConc(sc.Text()))
			continue
		}
		if strings.HasPrefix(sc.Text(), "race ") {
			fmt.Fprintln(out, w.runRace(sc.Text()))
			continue
		}
		if strings.HasPrefix(sc.Text(), "dyn ") {
			fmt.Fprintln(out, w.runDyn(sc.Text()))
			continue
		}
		h, ok := c10Parse(sc.Text())
		if !ok {
			fmt.Fprintln(out, "bad-request worker-parse")
			continue
		}
		fmt.Fprintln(out, w.runImpl(h))
	}
	_ = out.Flush()
	os.Exit(0)
}

func c10Pipe(cmd *exec.Cmd, lines []string) ([]string, error) {
	var in bytes.Buffer
	for _, l := range lines {
		in.WriteString(l)
		in.WriteByte('\n')
	}
	cmd.Stdin = &in
	var out bytes.Buffer
	cmd.Stdout = &out
	var errb bytes.Buffer
	cmd.Stderr = &errb
	if err := cmd.Run(); err != nil {
		msg := errb.String()
		if 12000 < len(msg) {
			msg = msg[:12000]
		}
		return nil, fmt.Errorf("%v: %s", err, strings.TrimSpace(msg))
	}
	if 0 < errb.Len() {
		_, _ = os.Stderr.Write(errb.Bytes())
	}
	var res []string
	sc := bufio.NewScanner(&out)
	sc.Buffer(make([]byte, 1<<20), 1<<28)
	for sc.Scan() {
		res = append(res, sc.Text())
	}
	if len(res) != len(lines) {
		return nil, fmt.Errorf("%d requests, %d replies", len(lines), len(res))
	}
	return res, nil
}

type c10Mismatch struct {
	line, impl, model string
}

// c10RunChunk runs the lines through the model driver and through a worker process and returns the
// disagreeing lines.
func c10RunChunk(c *lib.Ctx, lines []string) []c10Mismatch {
	mlines := make([]string, len(lines))
	for i, l := range lines {
		mlines[i] = c10ModelLine(l)
	}
	var model, impl []string
	var errM, errI error
	runWorker := func(ls []string) ([]string, error) {
		cmd := exec.Command(os.Args[0], "C10", "--root", c.Root)
		cmd.Env = append(os.Environ(), "VH_C10_WORKER=1")
		return c10Pipe(cmd, ls)
	}
	var wg sync.WaitGroup
	wg.Add(2)
	go func() {
		defer wg.Done()
		// the model driver is deterministic: a failure is the machine (fork, memory), try again
		for try := 0; try < 3; try++ {
			if model, errM = c10Pipe(exec.Command(c.ModelBin), mlines); errM == nil {
				break
			}
		}
	}()
	go func() {
		defer wg.Done()
		for try := 0; try < 3; try++ {
			if impl, errI = runWorker(lines); errI == nil {
				break
			}
		}
	}()
	wg.Wait()
	if errM == nil && errI != nil {
		// The single-threaded worker failed three times on this chunk: a history that terminates
		// the interpreter process is a failing input, not a machinery error. Locate it by bisection.
		lo, hi := 0, len(lines)
		for 1 < hi-lo {
			mid := (lo + hi) / 2
			if _, err := runWorker(lines[lo:mid]); err != nil {
				hi = mid
			} else if _, err := runWorker(lines[mid:hi]); err != nil {
				lo = mid
			} else {
				break // only fails in the company of the other half
			}
		}
		if hi-lo == 1 {
			if _, err := runWorker(lines[lo:hi]); err != nil {
				return []c10Mismatch{{lines[lo], "crash " + strings.ReplaceAll(strings.SplitN(err.Error(), "\n", 2)[0], " ", "_"), "ok"}}
			}
		}
	}
	if errM != nil || errI != nil {
		fmt.Fprintf(os.Stderr, "C10: chunk failed: model: %v worker: %v\n", errM, errI)
		os.Exit(2)
	}
	var out []c10Mismatch
	for i, l := range lines {
		if strings.HasPrefix(model[i], "bad-request") || strings.HasPrefix(impl[i], "bad-request") {
			fmt.Fprintf(os.Stderr, "C10: request rejected: %q model=%q worker=%q\n", l, model[i], impl[i])
			os.Exit(2)
		}
		if model[i] == impl[i] {
			continue
		}
		h, _ := c10Parse(l)
		if m := c10Canon(h, model[i]); m != impl[i] {
			out = append(out, c10Mismatch{l, impl[i], m})
		}
	}
	return out
}

// ---------------------------------------------------------------------------------------------
// concurrent facet (thorough tier): calls from several goroutines while another goroutine defines
// methods. Every call must produce the outcome the specification assigns under the method table
// after i of the definitions, for some i between the number of definitions completed before the
// call started and the number started before it returned. Definitions only add methods under
// fresh specializer tuples (what the property's schedules clause names: calls and defmethod), the
// arguments are instances so that each event is attributed to its call by argument identity.
//
//   conc <n> <callsPerCaller> <caller;caller…> <defmethod-op>*        caller = class.class
//   reply: ok <caller>|<lo>|<hi>|<outcome> …

func (w *c10World) runConc(line string) string {
	words := strings.Fields(line)
	if len(words) < 5 || words[0] != "conc" {
		return "bad-request conc"
	}
	n, _ := strconv.Atoi(words[1])
	callsPer, _ := strconv.Atoi(words[2])
	var callers [][]int
	for _, cw := range strings.Split(words[3], ";") {
		k, ok := c10Ints(cw)
		if !ok || len(k) != n {
			return "bad-request conc-caller"
		}
		callers = append(callers, k)
	}
	h, ok := c10Parse("disp run " + words[1] + " 0 0:0 " + strings.Join(words[4:], " "))
	if !ok {
		return "bad-request conc-ops"
	}
	w.gensym++
	g := fmt.Sprintf("c10k%d", w.gensym)
	if o := lib.EvalString(w.scope, fmt.Sprintf("(defgeneric %s (%s))", g, strings.Join([]string{"x", "y", "z"}[:n], " "))); !o.Ok {
		return "ok Xdefgeneric:" + o.Class
	}
	var mutForms []slip.Object
	for _, op := range h.ops {
		code := slip.ReadString(w.form(g, n, op), w.scope)
		mutForms = append(mutForms, code[0])
	}
	type callerState struct {
		scope *slip.Scope
		form  slip.Object
		key   slip.Object
		recs  []string
	}
	states := make([]*callerState, len(callers))
	for ci, classes := range callers {
		st := &callerState{scope: slip.NewScope()}
		var names []string
		for j, c := range classes {
			o := lib.EvalString(w.scope, fmt.Sprintf("(make-instance '%s)", w.className[c]))
			if !o.Ok {
				return "bad-request conc-instance"
			}
			name := fmt.Sprintf("q%d", j)
			st.scope.Let(slip.Symbol(name), o.Value)
			names = append(names, name)
			if j == 0 {
				st.key = o.Value
			}
		}
		st.form = slip.ReadString(fmt.Sprintf("(%s %s)", g, strings.Join(names, " ")), st.scope)[0]
		states[ci] = st
	}
	w.conc = map[slip.Object][]string{}
	var started, completed, callCount atomic.Int64
	total := int64(len(callers) * callsPer)
	begin := make(chan struct{})
	var wg sync.WaitGroup
	mutErr := ""
	wg.Add(1)
	go func() {
		defer wg.Done()
		<-begin
		mscope := slip.NewScope()
		for i, f := range mutForms {
			// pace the definitions over the callers' lifetime
			target := int64(i+1) * total / int64(len(mutForms)+1)
			for callCount.Load() < target {
				runtime.Gosched()
			}
			started.Add(1)
			f := f
			if o := lib.Protect(func() slip.Object { return mscope.Eval(f, 0) }); !o.Ok {
				mutErr = fmt.Sprintf("X%d:%s", i, o.Class)
			}
			completed.Add(1)
		}
	}()
	for ci, st := range states {
		wg.Add(1)
		go func(ci int, st *callerState) {
			defer wg.Done()
			<-begin
			for j := 0; j < callsPer; j++ {
				w.concMu.Lock()
				delete(w.conc, st.key)
				w.concMu.Unlock()
				lo := completed.Load()
				o := lib.Protect(func() slip.Object { return st.scope.Eval(st.form, 0) })
				hi := started.Load()
				callCount.Add(1)
				w.concMu.Lock()
				evs := append([]string{}, w.conc[st.key]...)
				w.concMu.Unlock()
				tr := "-"
				if 0 < len(evs) {
					tr = strings.Join(evs, ",")
				}
				switch {
				case o.Ok && o.Value == nil:
					tr += "=nil"
				case o.Ok:
					if v, isFix := c10Fixnum(o.Value); isFix {
						tr += "=" + strconv.FormatInt(v, 10)
					} else {
						tr += "=?" + strings.ReplaceAll(o.Text, " ", "_")
					}
				case o.Class == "no-applicable-method-error":
					tr += "!na"
				default:
					tr += "!" + o.Class
				}
				st.recs = append(st.recs, fmt.Sprintf("%d|%d|%d|%s", ci, lo, hi, tr))
			}
		}(ci, st)
	}
	close(begin)
	wg.Wait()
	w.conc = nil
	slip.CurrentPackage.Undefine(g)
	out := []string{"ok"}
	if mutErr != "" {
		out = append(out, mutErr)
	}
	for _, st := range states {
		out = append(out, st.recs...)
	}
	return strings.Join(out, " ")
}

// c10ConcScenario draws one scenario line.
func (w *c10World) concScenario(r *lib.Rng) string {
	n := 1 + r.Intn(2)
	specs := []int{w.classID["c10a"], w.classID["c10b"], w.classID["c10c"], w.classID["c10d"], w.classID["standard-object"], 0}
	insts := []int{w.classID["c10a"], w.classID["c10b"], w.classID["c10c"], w.classID["c10d"], w.classID["c10d"]}
	var callers []string
	for i, k := 0, 2+r.Intn(4); i < k; i++ {
		t := make([]int, n)
		for j := range t {
			t[j] = insts[r.Intn(len(insts))]
		}
		callers = append(callers, c10Join(t))
	}
	used := map[string]bool{}
	var ops []string
	id := 200
	for i, k := 0, 3+r.Intn(8); i < k; i++ {
		t := make([]int, n)
		for j := range t {
			t[j] = specs[r.Intn(len(specs))]
		}
		if used[c10Join(t)] {
			continue // only fresh specializer tuples
		}
		used[c10Join(t)] = true
		id++
		op := c10Op{kind: 'd', qual: "pbarrp"[r.Intn(6)], key: t, id: id, mode: 's'}
		if op.qual == 'r' {
			op.mode = "ggds"[r.Intn(4)]
		}
		ops = append(ops, op.word())
	}
	return fmt.Sprintf("conc %d %d %s %s", n, 20+r.Intn(40), strings.Join(callers, ";"), strings.Join(ops, " "))
}

// c10ConcCheck verifies the reply of a scenario against the model; returns a description of the
// first call that matches no admissible table, or "".
func (w *c10World) concCheck(c *lib.Ctx, line, reply string) (bad string, calls int) {
	words := strings.Fields(line)
	n := words[1]
	ops := words[4:]
	expected := map[string][]string{} // caller tuple -> outcome after i definitions
	var callers []string
	var mlines []string
	for _, cw := range strings.Split(words[3], ";") {
		callers = append(callers, cw)
		if _, done := expected[cw]; done {
			continue
		}
		expected[cw] = nil
		classes, _ := c10Ints(cw)
		used := map[int]bool{}
		var tbl []string
		for _, cl := range classes {
			if !used[cl] {
				used[cl] = true
				tbl = append(tbl, fmt.Sprintf("%d:%s", cl, c10Join(w.cpl[cl])))
			}
		}
		sort.Strings(tbl)
		l := fmt.Sprintf("disp run %s 0 %s c:%s", n, strings.Join(tbl, ";"), cw)
		for _, op := range ops {
			l += " " + op + " c:" + cw
		}
		mlines = append(mlines, l)
	}
	replies := c.Model(mlines)
	for i, l := range mlines {
		h, _ := c10Parse(l)
		cw := strings.TrimPrefix(strings.Fields(l)[5], "c:")
		expected[cw] = strings.Fields(c10Canon(h, replies[i]))[1:]
	}
	for _, rec := range strings.Fields(reply)[1:] {
		if strings.HasPrefix(rec, "X") {
			return "a defmethod failed: " + rec, calls
		}
		parts := strings.SplitN(rec, "|", 4)
		if len(parts) != 4 {
			return "malformed record " + rec, calls
		}
		calls++
		ci, _ := strconv.Atoi(parts[0])
		lo, _ := strconv.Atoi(parts[1])
		hi, _ := strconv.Atoi(parts[2])
		exp := expected[callers[ci]]
		okc := false
		for i := lo; i <= hi && i < len(exp); i++ {
			if exp[i] == parts[3] {
				okc = true
			}
		}
		if !okc {
			if len(exp) <= hi {
				hi = len(exp) - 1
			}
			return fmt.Sprintf("caller %s observed %s; admissible (after %d..%d definitions): %v", callers[ci], parts[3], lo, hi, exp[lo:hi+1]), calls
		}
	}
	return "", calls
}

func c10RunConcLines(c *lib.Ctx, lines []string) ([]string, error) {
	cmd := exec.Command(os.Args[0], "C10", "--root", c.Root)
	cmd.Env = append(os.Environ(), "VH_C10_WORKER=conc")
	return c10Pipe(cmd, lines)
}

// ---------------------------------------------------------------------------------------------
// race rounds (both tiers): many short rounds on one generic function. In each round 1–3
// goroutines call with argument class tuples that are NOT in the dispatch cache while another
// goroutine performs one mutation (a defmethod creating a new applicable specializer tuple, a
// defmethod replacing / adding a daemon in place, or a remove-method). Judged, never by timing:
//   * post-quiescence (deterministic): after all goroutines of the round have finished, sequential
//     calls with the same class tuples must produce exactly the specification's outcome on the table
//     after the mutation — a completed defmethod / remove-method is visible to the very next call;
//   * linearizability of the racing calls in rounds whose mutation creates a fresh specializer
//     tuple: each racing call's outcome is the specification's before or after the mutation.
//     (In-place rounds mutate a Combination the running call may be reading; their racing calls are
//     not judged, only what the generic function does once everything has finished.)
//
//   race <n> <spin-seed> <round>*      round = <mutation-op>/<tuple>[,<tuple>…]     tuple = class.class
//   reply: ok <racing outcomes joined by ;>/<post-quiescence outcomes joined by ;> …   (one word per round)

type c10RaceRound struct {
	mut    c10Op
	tuples [][]int
}

func c10ParseRace(line string) (n int, seed uint64, rounds []c10RaceRound, ok bool) {
	words := strings.Fields(line)
	if len(words) < 4 || words[0] != "race" {
		return
	}
	n, _ = strconv.Atoi(words[1])
	seed, _ = strconv.ParseUint(words[2], 10, 64)
	for _, rw := range words[3:] {
		parts := strings.SplitN(rw, "/", 2)
		if len(parts) != 2 {
			return
		}
		h, good := c10Parse("disp run " + words[1] + " 0 0:0 " + parts[0])
		if !good || len(h.ops) != 1 || h.ops[0].kind == 'c' {
			return
		}
		rd := c10RaceRound{mut: h.ops[0]}
		for _, tw := range strings.Split(parts[1], ",") {
			t, good := c10Ints(tw)
			if !good || len(t) != n {
				return
			}
			rd.tuples = append(rd.tuples, t)
		}
		rounds = append(rounds, rd)
	}
	return n, seed, rounds, true
}

var c10SpinSink atomic.Int64

func (w *c10World) runRace(line string) string {
	n, seed, rounds, ok := c10ParseRace(line)
	if !ok {
		return "bad-request race"
	}
	w.gensym++
	g := fmt.Sprintf("c10r%d", w.gensym)
	if o := lib.EvalString(w.scope, fmt.Sprintf("(defgeneric %s (%s))", g, strings.Join([]string{"x", "y", "z"}[:n], " "))); !o.Ok {
		return "ok Xdefgeneric:" + o.Class
	}
	// per racer slot: own instances of every instance class (events are attributed by identity)
	const slots = 3
	insts := []string{"c10a", "c10b", "c10c", "c10d"}
	scopes := make([]*slip.Scope, slots)
	first := make([]map[int]slip.Object, slots) // slot -> class id -> the object used as first argument
	for sl := 0; sl < slots; sl++ {
		scopes[sl] = slip.NewScope()
		first[sl] = map[int]slip.Object{}
		for _, cn := range insts {
			for pos := 0; pos < n; pos++ {
				o := lib.EvalString(w.scope, fmt.Sprintf("(make-instance '%s)", cn))
				if !o.Ok {
					return "bad-request race-instance"
				}
				scopes[sl].Let(slip.Symbol(fmt.Sprintf("q%d%s", pos, cn)), o.Value)
				if pos == 0 {
					first[sl][w.classID[cn]] = o.Value
				}
			}
		}
	}
	rng := lib.NewRng(seed)
	w.conc = map[slip.Object][]string{}
	defer func() { w.conc = nil }()
	callForm := func(sl int, t []int) (slip.Object, slip.Object, bool) {
		var as []string
		for pos, c := range t {
			as = append(as, fmt.Sprintf("q%d%s", pos, w.className[c]))
		}
		key, has := first[sl][t[0]]
		if !has {
			return nil, nil, false
		}
		return slip.ReadString(fmt.Sprintf("(%s %s)", g, strings.Join(as, " ")), scopes[sl])[0], key, true
	}
	doCall := func(sl int, form, key slip.Object) string {
		w.concMu.Lock()
		delete(w.conc, key)
		w.concMu.Unlock()
		o := lib.Protect(func() slip.Object { return scopes[sl].Eval(form, 0) })
		w.concMu.Lock()
		evs := append([]string{}, w.conc[key]...)
		w.concMu.Unlock()
		tr := "-"
		if 0 < len(evs) {
			tr = strings.Join(evs, ",")
		}
		switch {
		case o.Ok && o.Value == nil:
			return tr + "=nil"
		case o.Ok:
			if v, isFix := c10Fixnum(o.Value); isFix {
				return tr + "=" + strconv.FormatInt(v, 10)
			}
			return tr + "=?" + strings.ReplaceAll(o.Text, " ", "_")
		case o.Class == "no-applicable-method-error":
			return tr + "!na"
		}
		return tr + "!" + o.Class
	}
	spin := func(k int) {
		for i := 0; i < k; i++ {
			c10SpinSink.Add(1)
		}
	}
	mscope := slip.NewScope()
	out := []string{"ok"}
	for ri, rd := range rounds {
		mform := slip.ReadString(w.form(g, n, rd.mut), w.scope)[0]
		type racer struct {
			form, key slip.Object
			res       string
		}
		racers := make([]*racer, 0, len(rd.tuples))
		for sl, t := range rd.tuples {
			if slots <= sl {
				break
			}
			f, k, good := callForm(sl, t)
			if !good {
				return "bad-request race-tuple"
			}
			racers = append(racers, &racer{form: f, key: k})
		}
		begin := make(chan struct{})
		var wg sync.WaitGroup
		mutRes := ""
		dm := rng.Intn(60)
		wg.Add(1)
		go func() {
			defer wg.Done()
			<-begin
			spin(dm)
			if o := lib.Protect(func() slip.Object { return mscope.Eval(mform, 0) }); !o.Ok {
				mutRes = fmt.Sprintf("X%d:%s", ri, o.Class)
			}
		}()
		for sl, rc := range racers {
			wg.Add(1)
			dr := rng.Intn(60)
			go func(sl int, rc *racer, dr int) {
				defer wg.Done()
				<-begin
				spin(dr)
				rc.res = doCall(sl, rc.form, rc.key)
			}(sl, rc, dr)
		}
		close(begin)
		wg.Wait()
		// quiescence: every goroutine of the round has returned; now sequential calls
		if mutRes != "" {
			out = append(out, mutRes)
			break
		}
		var rres, pres []string
		for sl, rc := range racers {
			rres = append(rres, rc.res)
			pres = append(pres, doCall(sl, rc.form, rc.key))
		}
		out = append(out, strings.Join(rres, ";")+"/"+strings.Join(pres, ";"))
	}
	slip.CurrentPackage.Undefine(g)
	return strings.Join(out, " ")
}

// raceScenario draws one race line: a generic function with a few initial methods and `rounds`
// rounds. The racing tuples of a round are never the ones called in the previous round (those are
// in the cache after its post-quiescence calls unless the mutation of this round… clears it first),
// so a racing call normally has to build its effective method.
func (w *c10World) raceScenario(r *lib.Rng, rounds int) string {
	n := 1 + r.Intn(2)
	specs := []int{w.classID["c10a"], w.classID["c10b"], w.classID["c10c"], w.classID["c10d"], w.classID["standard-object"], 0}
	insts := []int{w.classID["c10a"], w.classID["c10b"], w.classID["c10c"], w.classID["c10d"]}
	randKey := func() []int {
		t := make([]int, n)
		for j := range t {
			t[j] = specs[r.Intn(len(specs))]
		}
		return t
	}
	type slot struct {
		q byte
		k string
	}
	table := map[slot][]int{}
	var words []string
	id := 300
	last := map[string]bool{}
	for i := 0; i < rounds; i++ {
		var op c10Op
		// mostly definitions under tuples that are not in the table at all (fresh), some in place,
		// some removals of what exists
		x := r.Intn(100)
		var existing []slot
		for sl := range table {
			existing = append(existing, sl)
		}
		sort.Slice(existing, func(a, b int) bool {
			if existing[a].k != existing[b].k {
				return existing[a].k < existing[b].k
			}
			return existing[a].q < existing[b].q
		})
		occupied := map[string]bool{}
		for sl := range table {
			occupied[sl.k] = true
		}
		pRemove := 15 + 12*len(occupied) // keep the table small so that fresh tuples stay available
		if 70 < pRemove {
			pRemove = 70
		}
		switch {
		case x < pRemove && 0 < len(existing): // remove
			sl := existing[r.Intn(len(existing))]
			op = c10Op{kind: 'r', qual: sl.q, key: table[sl]}
			delete(table, sl)
		case x < pRemove+12 && 0 < len(existing): // replace in place / add a qualifier to an existing tuple
			sl := existing[r.Intn(len(existing))]
			id++
			op = c10Op{kind: 'd', qual: "pbar"[r.Intn(4)], key: table[sl], id: id, mode: 's'}
		default: // a definition under a specializer tuple that holds nothing (a few tries), else anywhere
			key := randKey()
			for try := 0; try < 6 && occupied[c10Join(key)]; try++ {
				key = randKey()
			}
			id++
			op = c10Op{kind: 'd', qual: "pbarp"[r.Intn(5)], key: key, id: id, mode: 's'}
		}
		if op.kind == 'd' {
			if op.qual == 'r' {
				op.mode = "ggds"[r.Intn(4)]
			}
			table[slot{op.qual, c10Join(op.key)}] = op.key
		}
		// racing tuples: 1–3, not called in the previous round
		var tuples []string
		now := map[string]bool{}
		for k, want := 0, 3-r.Intn(3)/2; k < want; k++ { // 3 racers in two rounds out of three, else 2
			for try := 0; try < 8; try++ {
				t := make([]int, n)
				for j := range t {
					t[j] = insts[r.Intn(len(insts))]
				}
				if tj := c10Join(t); !last[tj] && !now[tj] {
					now[tj] = true
					tuples = append(tuples, tj)
					break
				}
			}
		}
		if len(tuples) == 0 {
			t := make([]int, n)
			for j := range t {
				t[j] = insts[i%len(insts)]
			}
			tuples = []string{c10Join(t)}
			now[tuples[0]] = true
		}
		last = now
		words = append(words, op.word()+"/"+strings.Join(tuples, ","))
	}
	return fmt.Sprintf("race %d %d %s", n, r.U64()%1000000, strings.Join(words, " "))
}

type c10RaceStats struct {
	rounds, fresh, racingCalls, sawBefore, sawAfter, postCalls int
}

// raceCheck judges the reply of one race line against the model. It returns the description of
// the first failing round (and a reduced race line ending with that round) or "".
func (w *c10World) raceCheck(c *lib.Ctx, line, reply string, st *c10RaceStats) (bad, aspect, upto string) {
	w.goBodies = true // the forms quoted in messages are the ones the race worker evaluated
	defer func() { w.goBodies = false }()
	n, _, rounds, ok := c10ParseRace(line)
	if !ok {
		return "unparsable race line", "machinery", line
	}
	// one model history: per round  c:T… (before)  mutation  c:T… (after)
	used := map[int]bool{}
	var ops []string
	for _, rd := range rounds {
		for _, t := range rd.tuples {
			ops = append(ops, "c:"+c10Join(t))
			for _, cl := range t {
				used[cl] = true
			}
		}
		ops = append(ops, c10ModelLine(rd.mut.word()))
		for _, t := range rd.tuples {
			ops = append(ops, "c:"+c10Join(t))
		}
	}
	var ids []int
	for cl := range used {
		ids = append(ids, cl)
	}
	sort.Ints(ids)
	var tbl []string
	for _, cl := range ids {
		tbl = append(tbl, fmt.Sprintf("%d:%s", cl, c10Join(w.cpl[cl])))
	}
	mline := fmt.Sprintf("disp run %d 0 %s %s", n, strings.Join(tbl, ";"), strings.Join(ops, " "))
	h, _ := c10Parse(mline)
	exp := strings.Fields(c10Canon(h, c.Model([]string{mline})[0]))[1:]
	rwords := strings.Fields(reply)[1:]
	words := strings.Fields(line)
	pos := 0
	present := map[string]int{} // specializer tuple -> number of daemons stored under it
	for ri, rd := range rounds {
		k := len(rd.tuples)
		before, after := exp[pos:pos+k], exp[pos+k:pos+2*k]
		pos += 2 * k
		fresh := rd.mut.kind == 'd' && present[c10Join(rd.mut.key)] == 0
		upto = strings.Join(words[:3+ri+1], " ")
		if len(rwords) <= ri {
			return "no reply for round " + strconv.Itoa(ri), "machinery", upto
		}
		if strings.HasPrefix(rwords[ri], "X") {
			return "the mutation failed: " + rwords[ri], "mutation-error", upto
		}
		parts := strings.SplitN(rwords[ri], "/", 2)
		racing, post := strings.Split(parts[0], ";"), strings.Split(parts[1], ";")
		st.rounds++
		for i := 0; i < k && i < len(post); i++ {
			st.postCalls++
			if post[i] != after[i] {
				return fmt.Sprintf("round %d: after %s and the racing calls had finished, a sequential call with classes %s gave %s; specification on the table after the mutation: %s (before it: %s)",
					ri, w.form("g", n, rd.mut), c10Join(rd.tuples[i]), post[i], after[i], before[i]), "post-quiescence", upto
			}
		}
		if fresh {
			st.fresh++
			for i := 0; i < k && i < len(racing); i++ {
				st.racingCalls++
				switch racing[i] {
				case after[i]:
					st.sawAfter++
				case before[i]:
					st.sawBefore++
				default:
					return fmt.Sprintf("round %d: a call with classes %s racing with %s gave %s; specification before: %s, after: %s",
						ri, c10Join(rd.tuples[i]), w.form("g", n, rd.mut), racing[i], before[i], after[i]), "not-linearizable", upto
				}
			}
		}
		// track which tuples hold daemons (for `fresh`)
		kk := c10Join(rd.mut.key)
		if rd.mut.kind == 'd' {
			present[kk] |= 1 << strings.IndexByte("pbar", rd.mut.qual)
		} else {
			present[kk] &^= 1 << strings.IndexByte("pbar", rd.mut.qual)
		}
	}
	return "", "", ""
}

func c10RunRaceLines(c *lib.Ctx, lines []string) ([]string, error) {
	cmd := exec.Command(os.Args[0], "C10", "--root", c.Root)
	cmd.Env = append(os.Environ(), "VH_C10_WORKER=race")
	return c10Pipe(cmd, lines)
}

// raceFacet runs `nlines` race lines of `rounds` rounds each in `procs` worker processes.
func (w *c10World) raceFacet(c *lib.Ctx, nlines, rounds, procs int) {
	var lines []string
	for i := 0; i < nlines; i++ {
		lines = append(lines, w.raceScenario(c.Rng, rounds))
	}
	replies := make([][]string, procs)
	errs := make([]error, procs)
	per := (len(lines) + procs - 1) / procs
	var wg sync.WaitGroup
	for p := 0; p < procs; p++ {
		lo, hi := p*per, (p+1)*per
		if len(lines) < hi {
			hi = len(lines)
		}
		if hi <= lo {
			continue
		}
		wg.Add(1)
		go func(p, lo, hi int) {
			defer wg.Done()
			replies[p], errs[p] = c10RunRaceLines(c, lines[lo:hi])
		}(p, lo, hi)
	}
	wg.Wait()
	st := &c10RaceStats{}
	reported := false
	for p := 0; p < procs; p++ {
		lo := p * per
		if errs[p] != nil {
			hi := lo + per
			if len(lines) < hi {
				hi = len(lines)
			}
			c.Report("facet=race aspect=worker-crash", false, map[string]any{"race_batch": lines[lo:hi],
				"observed": "the process running calls racing with defmethod / remove-method terminated: " + errs[p].Error(),
				"expected": "every call returns",
				"note":     "schedule dependent: --replay re-runs the batch 10 times"})
			continue
		}
		for i, r := range replies[p] {
			if strings.HasPrefix(r, "bad-request") {
				fmt.Fprintf(os.Stderr, "C10: race line rejected: %q %s\n", lines[lo+i], r)
				os.Exit(2)
			}
			bad, aspect, upto := w.raceCheck(c, lines[lo+i], r, st)
			if bad != "" {
				c.Ev.Count("race_lines_failed", 1)
			}
			if bad != "" && !reported {
				reported = true
				_, _, rds, _ := c10ParseRace(upto)
				kind := "in-place"
				if lastRd := rds[len(rds)-1]; lastRd.mut.kind == 'r' {
					kind = "remove"
				} else if strings.Contains(bad, "racing with") || aspect == "post-quiescence" {
					kind = "defmethod"
				}
				c.Report(fmt.Sprintf("facet=race mutation=%s aspect=%s", kind, aspect), false, map[string]any{"race": upto, "observed": bad,
					"expected": "a completed defmethod / remove-method is visible to the next call; a racing call sees the table before or after it",
					"note":     "schedule dependent: --replay re-runs the line 200 times"})
			}
		}
	}
	c.Ev.Coverage["race_rounds"] = st.rounds
	c.Ev.Coverage["race_rounds_fresh_tuple"] = st.fresh
	c.Ev.Coverage["race_post_quiescence_calls_checked"] = st.postCalls
	c.Ev.Coverage["race_racing_calls_judged"] = st.racingCalls
	c.Ev.Coverage["race_racing_calls_saw_table_before"] = st.sawBefore
	c.Ev.Coverage["race_racing_calls_saw_table_after"] = st.sawAfter
	if 0 < len(lines) && errs[0] == nil && 0 < len(replies[0]) {
		rw := strings.Fields(replies[0][0])
		if 5 < len(rw) {
			rw = rw[:5]
		}
		lw := strings.Fields(lines[0])
		if 7 < len(lw) {
			lw = lw[:7]
		}
		c.Ev.Sample(map[string]any{"family": "race-rounds", "race(first rounds)": strings.Join(lw, " "), "reply(racing/post-quiescence per round)": rw})
	}
}

// ---------------------------------------------------------------------------------------------
// redefinition facet (both tiers): the classes of the arguments are redefined during the history
// (other superclasses, directly or through a superclass) and instances made before and after a
// redefinition are used side by side. The dispatcher only ever sees Hierarchy() of the arguments;
// the worker reports it with every outcome and the model is asked with exactly those lists
// (`C:` / `M:` operations), so a cache entry that outlives the precedence list it was built for
// shows as a disagreement.
//
//   dyn <n> <op>*      k:<class>:<super.super|->   (defclass class (supers) ())
//                      n:<slot>:<class>            slot := (make-instance 'class)
//                      d… r…                       defmethod / remove-method as in histories
//                      c:<slot.slot> m:<slot.slot> call / compute-applicable-methods with the objects in the slots
//   reply: ok <hier>@<outcome> …   one word per c / m operation; hier = name.name/name.name
//          (X<i>:<class> for a failing other operation)

func (w *c10World) runDyn(line string) string {
	words := strings.Fields(line)
	if len(words) < 3 || words[0] != "dyn" {
		return "bad-request dyn"
	}
	n, err := strconv.Atoi(words[1])
	if err != nil || n < 1 || 3 < n {
		return "bad-request dyn-n"
	}
	w.gensym++
	g := fmt.Sprintf("c10y%d", w.gensym)
	out := []string{"ok"}
	if o := lib.EvalString(w.scope, fmt.Sprintf("(defgeneric %s (%s))", g, strings.Join([]string{"x", "y", "z"}[:n], " "))); !o.Ok {
		return "ok Xdefgeneric:" + o.Class
	}
	slots := map[int]slip.Object{}
	for i, word := range words[2:] {
		parts := strings.Split(word, ":")
		switch {
		case parts[0] == "k" && len(parts) == 3:
			cls, err := strconv.Atoi(parts[1])
			if err != nil || cls < 0 || len(w.className) <= cls {
				return "bad-request dyn-class"
			}
			var sups []string
			if parts[2] != "-" {
				ids, ok := c10Ints(parts[2])
				if !ok {
					return "bad-request dyn-supers"
				}
				for _, id := range ids {
					if id < 0 || len(w.className) <= id {
						return "bad-request dyn-supers"
					}
					sups = append(sups, w.className[id])
				}
			}
			if o := lib.EvalString(w.scope, fmt.Sprintf("(defclass %s (%s) ())", w.className[cls], strings.Join(sups, " "))); !o.Ok {
				out = append(out, fmt.Sprintf("X%d:%s", i, o.Class))
			}
		case parts[0] == "n" && len(parts) == 3:
			slot, err1 := strconv.Atoi(parts[1])
			cls, err2 := strconv.Atoi(parts[2])
			if err1 != nil || err2 != nil || cls < 0 || len(w.className) <= cls {
				return "bad-request dyn-new"
			}
			o := lib.EvalString(w.scope, fmt.Sprintf("(make-instance '%s)", w.className[cls]))
			if !o.Ok {
				out = append(out, fmt.Sprintf("X%d:%s", i, o.Class))
				continue
			}
			slots[slot] = o.Value
			w.scope.Let(slip.Symbol(fmt.Sprintf("c10s%d", slot)), o.Value)
		case (parts[0] == "c" || parts[0] == "m") && len(parts) == 2:
			ids, ok := c10Ints(parts[1])
			if !ok || len(ids) != n {
				return "bad-request dyn-call"
			}
			var hier, names []string
			for _, slot := range ids {
				obj, has := slots[slot]
				if !has {
					return "bad-request dyn-empty-slot"
				}
				var hs []string
				for _, h := range obj.Hierarchy() {
					hs = append(hs, strings.ToLower(string(h)))
				}
				hier = append(hier, strings.Join(hs, "."))
				names = append(names, fmt.Sprintf("c10s%d", slot))
			}
			if parts[0] == "m" {
				res := "M!"
				if o := lib.EvalString(w.scope, fmt.Sprintf("(compute-applicable-methods '%s (list %s))", g, strings.Join(names, " "))); o.Ok {
					res = c10MethodWord(o.Value)
				} else {
					res += o.Class
				}
				out = append(out, strings.Join(hier, "/")+"@"+res)
				continue
			}
			w.log = w.log[:0]
			o := lib.EvalString(w.scope, fmt.Sprintf("(%s %s)", g, strings.Join(names, " ")))
			out = append(out, strings.Join(hier, "/")+"@"+w.outcomeWord(o))
		default:
			h, ok := c10Parse(fmt.Sprintf("disp run %d 0 0:0 %s", n, word))
			if !ok || len(h.ops) != 1 || h.ops[0].observes() {
				return "bad-request dyn-op"
			}
			if o := lib.EvalString(w.scope, w.form(g, n, h.ops[0])); !o.Ok {
				out = append(out, fmt.Sprintf("X%d:%s", i, o.Class))
			}
		}
	}
	slip.CurrentPackage.Undefine(g)
	return strings.Join(out, " ")
}

// outcomeWord renders the logged trace and the result of a call in the model's format.
func (w *c10World) outcomeWord(o lib.Outcome) string {
	tr := "-"
	if 0 < len(w.log) {
		tr = strings.Join(w.log, ",")
	}
	switch {
	case o.Ok && o.Value == nil:
		tr += "=nil"
	case o.Ok:
		if n, isFix := c10Fixnum(o.Value); isFix {
			tr += "=" + strconv.FormatInt(n, 10)
		} else {
			tr += "=?" + strings.ReplaceAll(o.Text, " ", "_")
		}
	case o.Class == "no-applicable-method-error":
		tr += "!na"
	default:
		tr += "!" + o.Class
	}
	return tr
}

// dynModel turns a dyn line and the worker's reply into the model request (`C:` / `M:` operations
// with the reported hierarchies) and the implementation's outcome words. problem != "" when the
// reply cannot be used (a failing operation, a hierarchy that does not end in t).
func (w *c10World) dynModel(line, reply string) (mline string, impl []string, h c10Hist, problem string) {
	words := strings.Fields(line)
	rws := strings.Fields(reply)
	if len(rws) == 0 || rws[0] != "ok" {
		return "", nil, h, "worker: " + reply
	}
	rws = rws[1:]
	n, _ := strconv.Atoi(words[1])
	h.n = n
	var mw []string
	for _, word := range words[2:] {
		switch word[0] {
		case 'k', 'n':
			continue
		case 'c', 'm':
			if len(rws) == 0 {
				return "", nil, h, "missing outcome for " + word
			}
			if strings.HasPrefix(rws[0], "X") {
				return "", nil, h, "operation failed: " + rws[0]
			}
			at := strings.IndexByte(rws[0], '@')
			if at < 0 {
				return "", nil, h, "malformed outcome " + rws[0]
			}
			var precs []string
			for _, hs := range strings.Split(rws[0][:at], "/") {
				var ids []int
				names := strings.Split(hs, ".")
				if names[len(names)-1] != "t" {
					return "", nil, h, "Hierarchy() of an argument does not end in t: " + hs
				}
				for _, name := range names {
					ids = append(ids, w.intern(name))
				}
				precs = append(precs, c10Join(ids))
			}
			mw = append(mw, strings.ToUpper(word[:1])+":"+strings.Join(precs, "/"))
			impl = append(impl, rws[0][at+1:])
			rws = rws[1:]
		default:
			one, ok := c10Parse(fmt.Sprintf("disp run %d 0 0:0 %s", n, word))
			if !ok {
				return "", nil, h, "bad word " + word
			}
			h.ops = append(h.ops, one.ops...)
			mw = append(mw, c10ModelLine(word))
		}
	}
	if 0 < len(rws) {
		return "", nil, h, "operation failed: " + rws[0]
	}
	return fmt.Sprintf("disp run %d 0 0:0 %s", n, strings.Join(mw, " ")), impl, h, ""
}

// dynCheck compares one dyn line's reply with the model; returns "" or a description, the index
// (among the c / m operations) of the first disagreement, and the aspect.
func (w *c10World) dynCheck(c *lib.Ctx, line, reply string) (bad string, aspect string, calls int) {
	mline, impl, h, problem := w.dynModel(line, reply)
	if problem != "" {
		return problem, "unusable-reply", 0
	}
	return dynCompare(mline, impl, h, c.Model([]string{mline})[0])
}

func dynCompare(mline string, impl []string, h c10Hist, modelReply string) (bad string, aspect string, calls int) {
	model := strings.Fields(c10Canon(h, modelReply))[1:]
	if len(model) != len(impl) {
		return fmt.Sprintf("%d outcomes from the implementation, %d from the model", len(impl), len(model)), "unusable-reply", 0
	}
	for i := range impl {
		if impl[i] != model[i] {
			asp := "applicable-methods"
			if !strings.HasPrefix(model[i], "M") {
				hh := c10Hist{n: h.n, ops: append(append([]c10Op{}, h.ops...), c10Op{kind: 'c'})}
				asp = c10Aspect(hh, len(hh.ops)-1, impl[i], model[i])
			}
			return fmt.Sprintf("observation %d: observed %s expected %s (model request: %s)", i, impl[i], model[i], mline), asp, len(impl)
		}
	}
	return "", "", len(impl)
}

// the classes of the redefinition facet and the superclass lists they switch between
func (w *c10World) dynVariants() (cm, cl int, mSup, lSup [][]int) {
	p1, p2 := w.classID["c10p1"], w.classID["c10p2"]
	cm, cl = w.classID["c10m"], w.classID["c10l"]
	mSup = [][]int{{}, {p1}, {p2}, {p1, p2}, {p2, p1}}
	lSup = [][]int{{cm}, {cm, p1}, {cm, p2}, {p1}, {p2}}
	return
}

func c10SupWord(cls int, sup []int) string {
	if len(sup) == 0 {
		return fmt.Sprintf("k:%d:-", cls)
	}
	return fmt.Sprintf("k:%d:%s", cls, c10Join(sup))
}

func (w *c10World) dynPrologue(m, l []int) []string {
	cm, cl, _, _ := w.dynVariants()
	return []string{c10SupWord(w.classID["c10p1"], nil), c10SupWord(w.classID["c10p2"], nil), c10SupWord(cm, m), c10SupWord(cl, l)}
}

// dynSweep: seed-independent minimal cases — for every ordered pair of superclass lists of the
// redefined class: methods on both parents and on t, a call with an instance made before the
// redefinition (fills the cache), the redefinition, calls with an instance made after it, with the
// old one, and with an instance of the subclass (redefined through its superclass).
func (w *c10World) dynSweep() []string {
	cm, cl, mSup, lSup := w.dynVariants()
	p1, p2 := w.classID["c10p1"], w.classID["c10p2"]
	var out []string
	for _, a := range mSup {
		for _, b := range mSup {
			for _, q := range "pr" {
				mode := 's'
				if q == 'r' {
					mode = 'g'
				}
				ops := w.dynPrologue(a, lSup[0])
				ops = append(ops,
					fmt.Sprintf("dp:0:11:s"), fmt.Sprintf("d%c:%d:12:%c", q, p1, mode), fmt.Sprintf("d%c:%d:13:%c", q, p2, mode),
					fmt.Sprintf("n:0:%d", cm), fmt.Sprintf("n:2:%d", cl), "c:0", "c:2", "m:0",
					c10SupWord(cm, b),
					fmt.Sprintf("n:1:%d", cm), fmt.Sprintf("n:3:%d", cl), "c:1", "c:0", "c:3", "c:2", "m:1", "m:3")
				out = append(out, "dyn 1 "+strings.Join(ops, " "))
			}
		}
	}
	for _, a := range lSup {
		for _, b := range lSup {
			ops := w.dynPrologue(mSup[1], a)
			ops = append(ops,
				fmt.Sprintf("dp:0.0:11:s"), fmt.Sprintf("dp:%d.0:12:s", p1), fmt.Sprintf("dp:0.%d:13:s", p2), fmt.Sprintf("db:%d.%d:14:s", cm, cm),
				fmt.Sprintf("n:0:%d", cl), fmt.Sprintf("n:2:%d", cm), "c:0.0", "c:0.2", "c:2.0",
				c10SupWord(cl, b),
				fmt.Sprintf("n:1:%d", cl), "c:1.1", "c:0.0", "c:1.0", "c:0.1", "c:1.2", "m:1.0")
			out = append(out, "dyn 2 "+strings.Join(ops, " "))
		}
	}
	return out
}

// dynScenario: a random history with redefinitions and new instances in between
func (w *c10World) dynScenario(r *lib.Rng) string {
	cm, cl, mSup, lSup := w.dynVariants()
	p1, p2 := w.classID["c10p1"], w.classID["c10p2"]
	n := 1 + r.Intn(2)
	specs := []int{p1, p2, cm, cl, 0, w.classID["standard-object"]}
	ops := w.dynPrologue(mSup[r.Intn(len(mSup))], lSup[r.Intn(len(lSup))])
	ops = append(ops, fmt.Sprintf("n:0:%d", cm), fmt.Sprintf("n:1:%d", cl))
	filled := []int{0, 1}
	var tuples [][]int
	for i, k := 0, 3+r.Intn(5); i < k; i++ {
		t := make([]int, n)
		for j := range t {
			t[j] = specs[r.Intn(len(specs))]
		}
		tuples = append(tuples, t)
	}
	id := 300
	for i, k := 0, 2+r.Intn(3); i < k; i++ {
		id++
		op := c10Op{kind: 'd', qual: "pbarpp"[r.Intn(6)], key: tuples[r.Intn(len(tuples))], id: id, mode: 's'}
		if op.qual == 'r' {
			op.mode = 'g'
		}
		ops = append(ops, op.word())
	}
	slotsOf := func() string {
		t := make([]int, n)
		for j := range t {
			t[j] = filled[r.Intn(len(filled))]
		}
		return c10Join(t)
	}
	for i, k := 0, 10+r.Intn(25); i < k; i++ {
		switch x := r.Intn(100); {
		case x < 35:
			ops = append(ops, "c:"+slotsOf())
		case x < 40:
			ops = append(ops, "m:"+slotsOf())
		case x < 62:
			id++
			op := c10Op{kind: 'd', qual: "pbarrp"[r.Intn(6)], key: tuples[r.Intn(len(tuples))], id: id, mode: 's'}
			if op.qual == 'r' {
				op.mode = "ggds"[r.Intn(4)]
			}
			ops = append(ops, op.word())
		case x < 70:
			ops = append(ops, c10Op{kind: 'r', qual: "pbar"[r.Intn(4)], key: tuples[r.Intn(len(tuples))]}.word())
		case x < 85:
			if r.Chance(60) {
				ops = append(ops, c10SupWord(cm, mSup[r.Intn(len(mSup))]))
			} else {
				ops = append(ops, c10SupWord(cl, lSup[r.Intn(len(lSup))]))
			}
		default:
			slot := r.Intn(5)
			cls := cm
			if r.Chance(45) {
				cls = cl
			}
			ops = append(ops, fmt.Sprintf("n:%d:%d", slot, cls))
			seen := false
			for _, f := range filled {
				if f == slot {
					seen = true
				}
			}
			if !seen {
				filled = append(filled, slot)
			}
		}
	}
	ops = append(ops, "c:"+slotsOf())
	return fmt.Sprintf("dyn %d %s", n, strings.Join(ops, " "))
}

// dynShrink removes operations (never the class prologue) while the line still disagrees with the
// same aspect; runs in this process.
func (w *c10World) dynShrink(c *lib.Ctx, line, aspect string) string {
	fails := func(l string) bool {
		bad, asp, _ := w.dynCheck(c, l, w.runDyn(l))
		return bad != "" && asp == aspect
	}
	if !fails(line) {
		return line
	}
	words := strings.Fields(line)
	for changed := true; changed; {
		changed = false
		for i := len(words) - 1; 6 <= i; i-- {
			cand := append(append([]string{}, words[:i]...), words[i+1:]...)
			l := strings.Join(cand, " ")
			if r := w.runDyn(l); strings.HasPrefix(r, "bad-request") {
				continue
			}
			if fails(l) {
				words, changed = cand, true
			}
		}
	}
	return strings.Join(words, " ")
}

func (w *c10World) dynFacet(c *lib.Ctx, random int) {
	sweep := w.dynSweep()
	lines := append([]string{}, sweep...)
	for i := 0; i < random; i++ {
		lines = append(lines, w.dynScenario(c.Rng))
	}
	// sharded over single-threaded worker processes (class definitions are process-global: every
	// history starts by defining its four classes again)
	const chunk = 2500
	replies := make([]string, len(lines))
	type part struct{ from, to int }
	var parts []part
	for i := 0; i < len(lines); i += chunk {
		j := i + chunk
		if len(lines) < j {
			j = len(lines)
		}
		parts = append(parts, part{i, j})
	}
	errs := make([]error, len(parts))
	sem := make(chan struct{}, c.Scale(4, 10))
	var wg sync.WaitGroup
	for pi, pt := range parts {
		wg.Add(1)
		go func(pi int, pt part) {
			defer wg.Done()
			sem <- struct{}{}
			defer func() { <-sem }()
			cmd := exec.Command(os.Args[0], "C10", "--root", c.Root)
			cmd.Env = append(os.Environ(), "VH_C10_WORKER=1")
			rs, err := c10Pipe(cmd, lines[pt.from:pt.to])
			if err != nil {
				errs[pi] = err
				return
			}
			copy(replies[pt.from:pt.to], rs)
		}(pi, pt)
	}
	wg.Wait()
	for pi, err := range errs {
		if err == nil {
			continue
		}
		// a sequential single-threaded worker: a crash caused by a history is reproducible, find the line
		for _, l := range lines[parts[pi].from:parts[pi].to] {
			cmd := exec.Command(os.Args[0], "C10", "--root", c.Root)
			cmd.Env = append(os.Environ(), "VH_C10_WORKER=1")
			if _, err1 := c10Pipe(cmd, []string{l}); err1 != nil {
				c.Report("facet=redefinition aspect=worker-crash", false, map[string]any{"dyn": l,
					"observed": "the process evaluating the history terminated: " + err1.Error(), "expected": "every operation returns"})
				return
			}
		}
		fmt.Fprintf(os.Stderr, "C10: redefinition worker failed (not reproducible line by line): %v\n", err)
		os.Exit(2)
	}
	// one batch through the model driver
	type prepared struct {
		mline   string
		impl    []string
		h       c10Hist
		problem string
		mi      int
	}
	preps := make([]prepared, len(lines))
	var mlines []string
	for i, l := range lines {
		if strings.HasPrefix(replies[i], "bad-request") {
			fmt.Fprintf(os.Stderr, "C10: request rejected: %q worker=%q\n", l, replies[i])
			os.Exit(2)
		}
		p := &preps[i]
		p.mline, p.impl, p.h, p.problem = w.dynModel(l, replies[i])
		if p.problem == "" {
			p.mi = len(mlines)
			mlines = append(mlines, p.mline)
		}
	}
	mreplies := c.Model(mlines)
	seen := map[string]bool{}
	calls, redefs, disagreements, twoLists := 0, 0, 0, 0
	for i, l := range lines {
		bad, aspect, k := preps[i].problem, "unusable-reply", 0
		if bad == "" {
			bad, aspect, k = dynCompare(preps[i].mline, preps[i].impl, preps[i].h, mreplies[preps[i].mi])
		}
		calls += k
		redefs += strings.Count(l, " k:") - 4
		{
			// non-vacuity: one class name observed with two different precedence lists in this history
			byHead := map[string]string{}
			two := false
			for _, rw := range strings.Fields(replies[i])[1:] {
				if at := strings.IndexByte(rw, '@'); 0 < at {
					for _, hs := range strings.Split(rw[:at], "/") {
						head := strings.SplitN(hs, ".", 2)[0]
						if prev, ok := byHead[head]; ok && prev != hs {
							two = true
						}
						byHead[head] = hs
					}
				}
			}
			if two {
				twoLists++
			}
		}
		c.Ev.Case(l, true)
		c.Ev.Hist("family", map[bool]string{true: "sweep:redefinition", false: "random-redefinition"}[i < len(sweep)])
		if bad == "" {
			continue
		}
		disagreements++
		sig := fmt.Sprintf("facet=redefinition args=%s aspect=%s", strings.Fields(l)[1], aspect)
		if seen[sig] {
			continue
		}
		seen[sig] = true
		min := l
		if aspect != "unusable-reply" {
			min = w.dynShrink(c, l, aspect)
		}
		bad2, _, _ := w.dynCheck(c, min, w.runDyn(min))
		if bad2 == "" {
			min, bad2 = l, bad
		}
		c.Report(sig, i < len(sweep), map[string]any{"family": "redefinition", "dyn": min, "original": l, "observed_vs_expected": bad2,
			"classes":       fmt.Sprintf("0=t %d=standard-object %d=c10p1 %d=c10p2 %d=c10m %d=c10l", w.classID["standard-object"], w.classID["c10p1"], w.classID["c10p2"], w.classID["c10m"], w.classID["c10l"]),
			"expected_from": "model:disp.run", "relies_on": []string{"SlipVerif.Dispatch.dispatch_history_independent", "SlipVerif.Dispatch.class_redefinition_coherent"},
			"legend": "k:<class>:<supers> defclass (again); n:<slot>:<class> make-instance into the slot; c:/m: call / compute-applicable-methods with the objects in the slots"})
	}
	if 0 < disagreements {
		c.Ev.Count("disagreements", disagreements)
	}
	c.Ev.Coverage["redefinition_histories"] = len(lines)
	c.Ev.Coverage["redefinition_observations_compared"] = calls
	c.Ev.Coverage["redefinition_redefinitions"] = redefs
	c.Ev.Coverage["redefinition_histories_calling_one_class_name_with_two_precedence_lists"] = twoLists
	if 0 < len(lines) {
		c.Ev.Sample(map[string]any{"family": "redefinition", "dyn": lines[len(lines)-1], "reply": replies[len(lines)-1]})
	}
}

// ---------------------------------------------------------------------------------------------
// witness: locate the first disagreeing call, shrink the history, report

func (w *c10World) firstDiff(h c10Hist, impl, model string) (callIdx int, iw, mw string, ok bool) {
	iws, mws := strings.Fields(impl), strings.Fields(model)
	// words beyond "ok": call outcomes and X<i> markers; align by walking the ops
	ii, mi := 1, 1
	for i, op := range h.ops {
		// mutation error marker belongs to op i
		if ii < len(iws) && strings.HasPrefix(iws[ii], fmt.Sprintf("X%d:", i)) {
			return i, iws[ii], "(defined)", true
		}
		if !op.observes() {
			continue
		}
		var a, b string
		if ii < len(iws) {
			a = iws[ii]
		}
		if mi < len(mws) {
			b = mws[mi]
		}
		if a != b {
			return i, a, b, true
		}
		ii++
		mi++
	}
	if 1 < len(iws) && strings.HasPrefix(iws[1], "Xdefgeneric") {
		return 0, iws[1], "(defined)", true
	}
	return 0, "", "", false
}

// evaluate one history in-process against the model
func (w *c10World) check(c *lib.Ctx, h c10Hist) (impl, model string) {
	line := h.line(w)
	model = c10Canon(h, c.Model([]string{c10ModelLine(line)})[0])
	impl = w.runImpl(h)
	return
}

func (w *c10World) shrink(c *lib.Ctx, h c10Hist, callIdx int) (c10Hist, int) {
	h.ops = append([]c10Op{}, h.ops[:callIdx+1]...)
	fails := func(cand c10Hist) bool {
		impl, model := w.check(c, cand)
		idx, _, _, bad := w.firstDiff(cand, impl, model)
		return bad && idx == len(cand.ops)-1
	}
	if !h.ops[callIdx].observes() || !fails(h) {
		return h, callIdx
	}
	for changed := true; changed; {
		changed = false
		for i := 0; i < len(h.ops)-1; i++ {
			cand := c10Hist{n: h.n, implicit: h.implicit, inGeneric: h.inGeneric, optional: h.optional}
			if i < h.inGeneric {
				cand.inGeneric--
			}
			cand.ops = append(append([]c10Op{}, h.ops[:i]...), h.ops[i+1:]...)
			if cand.implicit && (len(cand.ops) == 0 || cand.ops[0].kind != 'd') {
				cand.implicit = false
			}
			if fails(cand) {
				h = cand
				changed = true
				break
			}
		}
	}
	return h, len(h.ops) - 1
}

func (w *c10World) report(c *lib.Ctx, seen map[string]bool, family string, sweep bool, m c10Mismatch) {
	h, ok := c10Parse(m.line)
	if !ok {
		return
	}
	if strings.HasPrefix(m.impl, "crash ") {
		c.Ev.Count("disagreements", 1)
		if !seen["aspect=worker-crash"] {
			seen["aspect=worker-crash"] = true
			c.Report(fmt.Sprintf("args=%d aspect=worker-crash", h.n), sweep, map[string]any{"family": family, "history": m.line, "input": w.forms("g", h),
				"observed": "the process evaluating this history terminated (three times in a row, then alone): " + m.impl, "expected": "every operation returns"})
		}
		return
	}
	idx, iw, mw, bad := w.firstDiff(h, m.impl, m.model)
	if !bad {
		return
	}
	aspect := "mutation-error"
	if h.ops[idx].observes() {
		aspect = c10Aspect(h, idx, iw, mw)
	}
	var sig string
	if h.ops[idx].observes() {
		sig = c10Signature(w, h, idx, aspect)
	} else {
		sig = fmt.Sprintf("args=%d op=%s aspect=%s:%s", h.n, strings.SplitN(h.ops[idx].word(), ":", 2)[0], aspect, iw)
	}
	c.Ev.Count("disagreements", 1)
	if seen[sig] {
		return
	}
	seen[sig] = true
	min, midx := h, idx
	if h.ops[idx].observes() && len(c.Violations) < 25 && len(seen) <= 40 { // only the first 25 violations get a replay file
		min, midx = w.shrink(c, h, idx)
	}
	impl, model := w.check(c, min)
	_, iw2, mw2, still := w.firstDiff(min, impl, model)
	if !still { // flaky: keep the original observation
		min, midx, iw2, mw2 = h, idx, iw, mw
	} else if min.ops[midx].observes() {
		// the signature is that of the minimal history (stable across seeds and families)
		sig = c10Signature(w, min, midx, c10Aspect(min, midx, iw2, mw2))
	}
	c.Report(sig, sweep, map[string]any{
		"family":        family,
		"history":       min.line(w),
		"input":         w.forms("g", min),
		"failing_op":    midx,
		"observed":      iw2,
		"expected":      mw2,
		"expected_from": "model:disp.run",
		"original":      m.line,
		"relies_on": func() []string {
			if min.ops[midx].kind == 'm' {
				return []string{"SlipVerif.Dispatch.methods_history_independent", "SlipVerif.Dispatch.compMethList_eq_spec"}
			}
			return []string{"SlipVerif.Dispatch.dispatch_history_independent", "SlipVerif.Dispatch.history_outcomes_eq_spec"}
		}(),
		"legend": "m<id> body ran; e<id>+/- :around body entered with next-method-p true/false; l<id> :around body left; =<id> value; !na no-applicable-method; !error other condition; M<q><id>,… the list of compute-applicable-methods (q: r around, b before, p primary, a after)",
	})
}

// ---------------------------------------------------------------------------------------------

func c10Replay(c *lib.Ctx, w *c10World) {
	var rec map[string]any
	if err := lib.ReadJSON(c.Replay, &rec); err != nil {
		fmt.Println("cannot read replay file:", err)
		return
	}
	if batch, _ := rec["scenarios"].([]any); 0 < len(batch) {
		var lines []string
		for _, b := range batch {
			if l, ok := b.(string); ok {
				lines = append(lines, l)
			}
		}
		crashes := 0
		for i := 0; i < 10; i++ {
			if _, err := c10RunConcLines(c, lines); err != nil {
				crashes++
			}
		}
		fmt.Printf("replay of the concurrent batch: the process terminated in %d of 10 runs\n", crashes)
		if 0 < crashes {
			c.Report("replay", false, map[string]any{"scenarios": batch})
		}
		return
	}
	if rl, _ := rec["race"].(string); rl != "" {
		lines := make([]string, 200)
		for i := range lines {
			lines[i] = rl
		}
		replies, err := c10RunRaceLines(c, lines)
		if err != nil {
			fmt.Println("replay: the race worker terminated:", err)
			c.Report("replay", false, map[string]any{"race": rl})
			return
		}
		fails := 0
		st := &c10RaceStats{}
		for i := range lines {
			if bad, _, _ := w.raceCheck(c, rl, replies[i], st); bad != "" {
				if fails == 0 {
					fmt.Printf("replay %s\n  %s\n", rl, bad)
				}
				fails++
			}
		}
		fmt.Printf("replay of the race line: %d of %d runs failed\n", fails, len(lines))
		if 0 < fails {
			c.Report("replay", false, map[string]any{"race": rl})
		}
		return
	}
	if batch, _ := rec["race_batch"].([]any); 0 < len(batch) {
		var lines []string
		for _, b := range batch {
			if l, ok := b.(string); ok {
				lines = append(lines, l)
			}
		}
		crashes := 0
		for i := 0; i < 10; i++ {
			if _, err := c10RunRaceLines(c, lines); err != nil {
				crashes++
			}
		}
		fmt.Printf("replay of the race batch: the process terminated in %d of 10 runs\n", crashes)
		if 0 < crashes {
			c.Report("replay", false, map[string]any{"race_batch": batch})
		}
		return
	}
	if dl, _ := rec["dyn"].(string); dl != "" {
		reply := w.runDyn(dl)
		bad, aspect, _ := w.dynCheck(c, dl, reply)
		fmt.Printf("replay %s\n  implementation: %s\n", dl, reply)
		if bad != "" {
			fmt.Printf("  %s (%s)\n", bad, aspect)
			c.Report("replay", false, map[string]any{"dyn": dl, "observed_vs_expected": bad})
		}
		return
	}
	if scen, _ := rec["scenario"].(string); scen != "" {
		lines := make([]string, 50)
		for i := range lines {
			lines[i] = scen
		}
		replies, err := c10RunConcLines(c, lines)
		if err != nil {
			fmt.Println("replay: the concurrent worker terminated:", err)
			c.Report("replay", false, map[string]any{"scenario": scen})
			return
		}
		fails := 0
		for i := range lines {
			if bad, _ := w.concCheck(c, scen, replies[i]); bad != "" {
				if fails == 0 {
					fmt.Printf("replay %s\n  %s\n", scen, bad)
				}
				fails++
			}
		}
		fmt.Printf("replay of the concurrent scenario: %d of %d runs had a call matching no admissible table\n", fails, len(lines))
		if 0 < fails {
			c.Report("replay", false, map[string]any{"scenario": scen})
		}
		return
	}
	line, _ := rec["history"].(string)
	h, ok := c10Parse(line)
	if !ok {
		fmt.Println("replay file has no usable history:", rec["history"])
		return
	}
	impl, model := w.check(c, h)
	fmt.Printf("replay %s\n", line)
	for _, f := range w.forms("g", h) {
		fmt.Printf("  %s\n", f)
	}
	fmt.Printf("  implementation: %s\n  model         : %s\n", impl, model)
	if idx, iw, mw, bad := w.firstDiff(h, impl, model); bad {
		fmt.Printf("  first difference at operation %d: observed %s expected %s\n", idx, iw, mw)
		c.Report("replay", false, map[string]any{"history": line, "observed": iw, "expected": mw})
	}
}

// a family of histories, generated on demand (index -> history) so that the large enumerations are
// never held in memory as a whole
type c10Family struct {
	name  string
	label string // histogram bucket
	sweep bool   // seed-independent, exhaustively enumerated
	count int
	gen   func(i int) c10Hist
}

func runC10(c *lib.Ctx) {
	if os.Getenv("VH_C10_WORKER") != "" {
		c10Worker()
		return
	}
	w := c10Init()
	if c.Replay != "" {
		c10Replay(c, w)
		return
	}
	c.Ev.Coverage["rule"] = "case = one history (defmethod / remove-method / call operations on a fresh generic function); every call of it is compared (trace of body ids with :around enter/leave, next-method-p values, value or condition class); non-trivial = at least one call after >= 2 mutations one of which came after an earlier call; distinct by history (enumeration index within its family, or the history line for random ones)"
	c.Ev.Coverage["traces_validated_against_impl"] = 0
	if p := w.chainProblem(); p != "" {
		c.ReportBroken("precondition: class precedence lists of the test classes", map[string]any{"observed": p,
			"expected": "Hierarchy() of the argument objects lists the class chain most specific first"})
		return
	}

	// --- families
	var fams []c10Family
	alphas := c10Alphabets()
	enum := func(label string, a c10Alphabet, length int) {
		fams = append(fams, c10Family{name: fmt.Sprintf("exhaustive:%s:len%d", a.name, length), label: label + ":" + a.name, sweep: true,
			count: c10EnumCount(a, length),
			gen:   func(i int) c10Hist { return w.instantiate(a, c10EnumDigits(a, length, i)) }})
	}
	// every reduced alphabet exhaustively: all histories of exactly this length that end in a call
	// (every shorter history ending in a call is a prefix of one of them, and all calls are compared)
	for _, a := range alphas {
		enum("exhaustive", a, c.Scale(5, 6))
	}
	if c.Thorough() {
		// deeper: the small alphabet two steps further, and a seeded sample of 400 000 of the
		// length-7 histories of one of the alphabets (by seed)
		enum("exhaustive-deep", c10DeepAlphabet(), 8)
		a := alphas[int(c.Seed)%len(alphas)]
		cnt := c10EnumCount(a, 7)
		idx := make([]int, 400000)
		for i := range idx {
			idx[i] = int(c.Rng.U64() % uint64(cnt))
		}
		fams = append(fams, c10Family{name: fmt.Sprintf("sampled:%s:len7", a.name), label: "sampled-len7:" + a.name, sweep: false,
			count: len(idx), gen: func(i int) c10Hist { return w.instantiate(a, c10EnumDigits(a, 7, idx[i])) }})
	} else {
		enum("exhaustive-deep", c10DeepAlphabet(), 6)
	}
	{
		// spelling sweep: t specializers written as bare parameters, every qualifier, 1 and 2 arguments
		var hs []c10Hist
		for n := 1; n <= 2; n++ {
			for _, q := range "pbar" {
				for _, implicit := range []bool{false, true} {
					key := make([]int, n)
					arg := make([]int, n)
					for i := range arg {
						arg[i] = w.classID["c10b"]
					}
					hs = append(hs, c10Hist{n: n, implicit: implicit, ops: []c10Op{
						{kind: 'd', qual: byte(q), key: key, id: 11, mode: 'g', bare: true},
						{kind: 'c', key: arg},
						{kind: 'd', qual: byte(q), key: key, id: 12, mode: 'g', bare: true},
						{kind: 'c', key: arg},
						{kind: 'r', qual: byte(q), key: key},
						{kind: 'c', key: arg},
					}})
				}
			}
		}
		fams = append(fams, c10Family{name: "sweep:bare-parameter", label: "sweep:bare-parameter", sweep: true, count: len(hs),
			gen: func(i int) c10Hist { return hs[i] }})
	}
	{
		// spelling sweep: methods given as :method options of defgeneric (each qualifier, two
		// specializer tuples, 1–3 arguments), then replaced by defmethod or from Go
		// (generic.DefCallerMethod) and removed; with and without an &optional parameter
		var hs []c10Hist
		for n := 1; n <= 3; n++ {
			for _, q := range "pbar" {
				for k := 1; k <= 6; k++ {
					optional := 3 < k
					k := (k-1)%3 + 1
					spec := make([]int, n)
					for i := range spec {
						spec[i] = w.classID["c10a"]
					}
					gen := make([]int, n) // all t
					arg := make([]int, n)
					for i := range arg {
						arg[i] = w.classID["c10c"]
					}
					hs = append(hs, c10Hist{n: n, inGeneric: k, optional: optional, ops: []c10Op{
						{kind: 'd', qual: byte(q), key: spec, id: 11, mode: 'g'},
						{kind: 'd', qual: 'p', key: gen, id: 12, mode: 's', bare: n == 2},
						{kind: 'd', qual: byte(q), key: gen, id: 13, mode: 'g'},
						{kind: 'c', key: arg},
						{kind: 'm', key: arg},
						{kind: 'd', qual: byte(q), key: spec, id: 14, mode: 'g', viaGo: k != 2},
						{kind: 'c', key: arg},
						{kind: 'r', qual: byte(q), key: spec},
						{kind: 'c', key: arg},
						{kind: 'm', key: arg},
					}})
				}
			}
		}
		fams = append(fams, c10Family{name: "sweep:defgeneric-method-option", label: "sweep:defgeneric-method-option", sweep: true, count: len(hs),
			gen: func(i int) c10Hist { return hs[i] }})
	}
	{
		// sweep: (defgeneric g …) evaluated again after calls with every argument tuple used later
		// (every qualifier, 1–3 arguments, explicit / implicit first definition, with / without
		// &optional, 0–2 :method options in the second form): directly afterwards nothing but the
		// options is applicable, then methods are defined anew
		var hs []c10Hist
		for n := 1; n <= 3; n++ {
			for _, q := range "pbar" {
				for v := 0; v < 12; v++ {
					opts, implicit, optional := v%3, (v/3)%2 == 1, v/6 == 1
					spec := make([]int, n)
					for i := range spec {
						spec[i] = w.classID["c10a"]
					}
					gen := make([]int, n) // all t
					arg, arg2 := make([]int, n), make([]int, n)
					for i := range arg {
						arg[i], arg2[i] = w.classID["c10c"], w.classID["fixnum"]
					}
					hs = append(hs, c10Hist{n: n, implicit: implicit, optional: optional, ops: []c10Op{
						{kind: 'd', qual: byte(q), key: spec, id: 11, mode: 'g'},
						{kind: 'd', qual: 'p', key: gen, id: 12, mode: 's', bare: n == 2},
						{kind: 'c', key: arg},
						{kind: 'c', key: arg2},
						{kind: 'G', opts: opts},
						{kind: 'd', qual: byte(q), key: gen, id: 13, mode: 'g'},
						{kind: 'd', qual: 'p', key: spec, id: 14, mode: 's'},
						{kind: 'c', key: arg},
						{kind: 'c', key: arg2},
						{kind: 'm', key: arg},
						{kind: 'G'},
						{kind: 'c', key: arg},
						{kind: 'c', key: arg2},
						{kind: 'm', key: arg2},
						{kind: 'd', qual: 'b', key: gen, id: 15, mode: 's', viaGo: true},
						{kind: 'c', key: arg},
					}})
				}
			}
		}
		fams = append(fams, c10Family{name: "sweep:defgeneric-again", label: "sweep:defgeneric-again", sweep: true, count: len(hs),
			gen: func(i int) c10Hist { return hs[i] }})
	}
	{
		var hs []c10Hist
		for i, n := 0, c.Scale(4000, 80000); i < n; i++ {
			hs = append(hs, w.randomHistory(c.Rng))
		}
		fams = append(fams, c10Family{name: "random-long", label: "random-long", sweep: false, count: len(hs),
			gen: func(i int) c10Hist { return hs[i] }})
	}
	if only := os.Getenv("VH_C10_ONLY"); only != "" { // development aid: restrict to matching families
		var keep []c10Family
		for _, f := range fams {
			if strings.Contains(f.name, only) {
				keep = append(keep, f)
			}
		}
		fams = keep
	}

	// --- run, sharded over worker processes
	type job struct{ fam, from, to int }
	var jobs []job
	total := 0
	for fi, f := range fams {
		total += f.count
		const chunk = 5000
		for i := 0; i < f.count; i += chunk {
			j := i + chunk
			if f.count < j {
				j = f.count
			}
			jobs = append(jobs, job{fi, i, j})
		}
	}
	workers := runtime.NumCPU() - 2
	if max := c.Scale(6, 12); max < workers {
		workers = max
	}
	if workers < 1 {
		workers = 1
	}
	results := make([][]c10Mismatch, len(jobs))
	var wg sync.WaitGroup
	var mu sync.Mutex // guards the evidence
	calls := 0
	next := make(chan int, len(jobs))
	for i := range jobs {
		next <- i
	}
	close(next)
	for k := 0; k < workers; k++ {
		wg.Add(1)
		go func() {
			defer wg.Done()
			for ji := range next {
				jb := jobs[ji]
				f := fams[jb.fam]
				lines := make([]string, 0, jb.to-jb.from)
				hists := make([]c10Hist, 0, jb.to-jb.from)
				for i := jb.from; i < jb.to; i++ {
					h := f.gen(i)
					hists = append(hists, h)
					lines = append(lines, h.line(w))
				}
				results[ji] = c10RunChunk(c, lines)
				mu.Lock()
				for i, h := range hists {
					key := lines[i]
					if f.sweep {
						key = fmt.Sprintf("%d:%d", jb.fam, jb.from+i)
					}
					c.Ev.Case(key, h.nontrivial())
					c.Ev.Hist("family", f.label)
					c.Ev.Hist("length", fmt.Sprintf("%02d", (len(h.ops)/5)*5))
					for _, op := range h.ops {
						switch op.kind {
						case 'd':
							c.Ev.Hist("op", "defmethod-"+string(op.qual))
						case 'r':
							c.Ev.Hist("op", "remove-"+string(op.qual))
						case 'G':
							c.Ev.Hist("op", "defgeneric-again")
						case 'm':
							c.Ev.Hist("op", "compute-applicable-methods")
							calls++
						default:
							c.Ev.Hist("op", "call")
							calls++
						}
					}
				}
				mu.Unlock()
			}
		}()
	}
	wg.Wait()
	seen := map[string]bool{}
	for i, ms := range results {
		for _, m := range ms {
			w.report(c, seen, fams[jobs[i].fam].name, fams[jobs[i].fam].sweep, m)
		}
	}
	// cross-check on a sample that the compiled driver's `run` and `spec` entries agree (theorem
	// history_outcomes_eq_spec, here only as a smoke test of the executable)
	{
		var a, b []string
		for _, f := range fams {
			for i := 0; i < f.count; i += 1 + f.count/200 {
				l := c10ModelLine(f.gen(i).line(w))
				a = append(a, l)
				b = append(b, strings.Replace(l, "disp run ", "disp spec ", 1))
			}
		}
		ra, rb := c.Model(a), c.Model(b)
		for i := range ra {
			if ra[i] != rb[i] {
				fmt.Fprintf(os.Stderr, "C10: model driver run/spec entries disagree on %q: %q vs %q\n", a[i], ra[i], rb[i])
				os.Exit(2)
			}
		}
		c.Ev.Coverage["model_run_vs_spec_sampled"] = len(ra)
	}
	if only := os.Getenv("VH_C10_ONLY"); only == "" || only == "redef" {
		w.dynFacet(c, c.Scale(1500, 40000))
	}
	if only := os.Getenv("VH_C10_ONLY"); only == "" || only == "race" {
		// quick: 240 generic functions x 250 rounds in 6 processes; thorough: 1200 x 300 in 10
		w.raceFacet(c, c.Scale(240, 1200), c.Scale(250, 300), c.Scale(6, 10))
	}
	if only := os.Getenv("VH_C10_ONLY"); c.Thorough() && (only == "" || only == "conc") {
		var lines []string
		for i := 0; i < 400; i++ {
			lines = append(lines, w.concScenario(c.Rng))
		}
		// batches of 50 scenarios per process: a Go fatal error inside the interpreter ends only that batch
		var replies []string
		var err error
		concCalls := 0
		for i := 0; i < len(lines) && err == nil; i += 50 {
			var rs []string
			if rs, err = c10RunConcLines(c, lines[i:i+50]); err != nil {
				c.Report("facet=concurrent aspect=worker-crash", false, map[string]any{"scenarios": lines[i : i+50],
					"observed": "the process running concurrent calls and defmethods terminated: " + err.Error(),
					"expected": "every call returns",
					"note":     "schedule dependent: --replay re-runs the batch 10 times"})
			}
			replies = append(replies, rs...)
		}
		if err == nil {
			for i, l := range lines {
				bad, n := w.concCheck(c, l, replies[i])
				concCalls += n
				if bad != "" {
					c.Report("facet=concurrent aspect=not-linearizable", false, map[string]any{"scenario": l, "observed": bad,
						"expected": "each call's outcome equals the specification on the table before or after each concurrently running defmethod",
						"note":     "schedule dependent: --replay re-runs the scenario 50 times"})
					break
				}
			}
		}
		if err == nil && 0 < len(lines) {
			overlapping := 0
			for _, r := range replies {
				for _, rec := range strings.Fields(r)[1:] {
					if parts := strings.SplitN(rec, "|", 4); len(parts) == 4 && parts[1] != parts[2] {
						overlapping++
					}
				}
			}
			c.Ev.Coverage["concurrent_calls_overlapping_a_defmethod"] = overlapping
			rw := strings.Fields(replies[0])
			if 6 < len(rw) {
				rw = rw[:6]
			}
			c.Ev.Sample(map[string]any{"family": "concurrent", "scenario": lines[0], "first_records(caller|lo|hi|outcome)": rw})
		}
		c.Ev.Coverage["concurrent_scenarios"] = len(lines)
		c.Ev.Coverage["concurrent_calls_checked"] = concCalls
	}
	for _, f := range fams {
		if 0 < f.count {
			h := f.gen(f.count / 2)
			impl, model := w.check(c, h)
			c.Ev.Sample(map[string]any{"family": f.name, "history": h.line(w), "impl": impl, "model": model})
		}
	}
	c.Ev.Coverage["traces_validated_against_impl"] = calls
	c.Ev.Coverage["histories"] = total
	c.Ev.Coverage["calls_compared"] = calls
	c.Ev.Coverage["worker_processes"] = workers
	fnames := []string{}
	for _, f := range fams {
		fnames = append(fnames, fmt.Sprintf("%s=%d", f.name, f.count))
	}
	c.Ev.Coverage["families"] = fnames
}
