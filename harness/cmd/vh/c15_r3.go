package main

// C15, extension round 3: sweep cells for the boundaries of the argument cursor (~* ~:* ~@* moving
// before the first / beyond the last argument, in the top-level control and in the argument lists of
// ~{ ~@{ ~:{ ~?), for the Common Lisp spellings of prefix parameters (V, a leading +) in every place a
// parameter is scanned (directives, block openers, the block scanners), and for colinc 0 of ~A / ~S.

import "strings"

type r3Cell struct {
	cell, ctrl string
	args       []fArg
	noErr      bool // the model's rejection is not compared (input outside the documented domain)
}

func c15CellsR3() []r3Cell {
	var out []r3Cell
	add := func(cell, ctrl string, args ...fArg) { out = append(out, r3Cell{cell: cell, ctrl: ctrl, args: args}) }
	ints := func(ns ...int64) []fArg {
		xs := make([]fArg, len(ns))
		for i, n := range ns {
			xs[i] = aInt(n)
		}
		return xs
	}
	// --- the cursor may stand on 0..len(args); every move outside is an error, also when nothing is consumed afterwards
	for _, follow := range []struct{ name, text string }{{"then-consume", "~a"}, {"then-nothing", "|"}, {"then-d", "~d"}, {"then-iteration", "~{~a~}"}, {"then-hash", "~#[a~;b~;c~]"}, {"then-v", "~v%"}} {
		add(cellKey("*", ":", "none", "-")+" ctx=before-first-"+follow.name, "~:*"+follow.text, ints(1)...)
		add(cellKey("*", ":", "n2", "-")+" ctx=before-first-"+follow.name, "~a~2:*"+follow.text, ints(1, 2)...)
		add(cellKey("*", "", "n2", "-")+" ctx=beyond-last-"+follow.name, "~2*"+follow.text, ints(1)...)
		add(cellKey("*", "", "none", "-")+" ctx=beyond-last-"+follow.name, "~a~*"+follow.text, ints(1)...)
		add(cellKey("*", "@", "n5", "-")+" ctx=beyond-last-"+follow.name, "~5@*"+follow.text, ints(1, 2)...)
		add(cellKey("*", "@", "n-len+1", "-")+" ctx=beyond-last-"+follow.name, "~3@*"+follow.text, ints(1, 2)...)
	}
	add(cellKey("*", "", "none", "-")+" ctx=exactly-to-end", "~a~*|", ints(1, 2)...)
	add(cellKey("*", "", "n2", "-")+" ctx=exactly-to-end", "~2*|", ints(1, 2)...)
	add(cellKey("*", "@", "n-len", "-")+" ctx=exactly-to-end", "~2@*|", ints(1, 2)...)
	add(cellKey("*", ":", "n2", "-")+" ctx=exactly-to-start", "~a~a~2:*~a", ints(1, 2)...)
	add(cellKey("*", "", "n0", "-")+" ctx=no-arguments", "~0*|")
	add(cellKey("*", "@", "none", "-")+" ctx=no-arguments", "~@*|")
	add(cellKey("*", "", "none", "-")+" ctx=no-arguments", "~*|")
	add(cellKey("*", ":", "none", "-")+" ctx=no-arguments", "~:*|")
	// a negative count: Common Lisp and slip's documentation do not define it (a relative move by -n stays
	// inside the arguments here), so only "no fault, no endless loop" is demanded; a negative absolute
	// position is outside the arguments and must be rejected
	for _, m := range []string{"", ":"} {
		out = append(out, r3Cell{cellKey("*", m, "negative", "-") + " ctx=middle", "~a~-1" + m + "*~a", ints(1, 2, 3), true})
		out = append(out, r3Cell{cellKey("*", m, "v-negative", "-") + " ctx=middle", "~a~v" + m + "*~a", ints(1, -1, 3), true})
	}
	add(cellKey("*", "@", "negative", "-")+" ctx=middle", "~a~-1@*~a", ints(1, 2, 3)...)
	add(cellKey("*", "@", "v-negative", "-")+" ctx=middle", "~a~v@*~a", ints(1, -1, 3)...)
	// inside the argument lists of blocks: the list of ~{ / the sublist of ~:{ / the list of ~? has its own bounds
	add(cellKey("*", ":", "n2", "-")+" ctx=before-first-in-{", "<~3{~a~2:*~a~}>", aList(ints(1, 2)...))
	add(cellKey("*", "", "n2", "-")+" ctx=beyond-last-in-{", "<~{~a~2*~}>", aList(ints(1, 2)...))
	add(cellKey("*", ":", "none", "-")+" ctx=before-first-in-:{", "<~:{~:*~a~}>", aList(aList(ints(1, 2)...)))
	add(cellKey("*", "", "n3", "-")+" ctx=beyond-last-in-:{", "<~:{~a~3*~}>", aList(aList(ints(1, 2)...)))
	add(cellKey("*", ":", "none", "-")+" ctx=before-first-in-?", "<~?>", aStr("~:*~a"), aList(ints(1)...))
	add(cellKey("*", "", "n2", "-")+" ctx=beyond-last-in-?", "<~?>~a", aStr("~2*"), aList(ints(1)...), aInt(9))
	add(cellKey("*", "@", "n3", "-")+" ctx=beyond-last-in-@{", "<~@{~a~3@*~}>", ints(1, 2)...)
	add(cellKey("*", ":", "n2", "-")+" ctx=before-first-in-@?", "~a<~@?>", aInt(1), aStr("~3:*~a"))
	add(cellKey("*", ":", "none", "-")+" ctx=back-in-{-legal", "<~{~a~:*~a~}>", aList(ints(1, 2)...))
	add(cellKey("p", ":", "none", "-")+" ctx=before-first", "~:p", ints(1)...)
	add(cellKey("p", ":@", "none", "-")+" ctx=before-first", "~:@p", ints(1)...)
	add(cellKey("p", ":", "none", "-")+" ctx=after-back-to-start", "~a~:*~:p", ints(1)...)
	// --- V and a leading + (Common Lisp spellings of prefix parameters)
	add(cellKey("a", "", "V", "string"), "~Va|", aInt(5), aStr("x"))
	add(cellKey("a", "@", "V,V", "string"), "~V,V@a|", aInt(5), aInt(2), aStr("x"))
	add(cellKey("d", "", "V,V", "fix+small"), "~V,Vd|", aInt(6), aChr('*'), aInt(42))
	add(cellKey("d", "", "plus", "fix+small"), "~+5d|", aInt(3))
	add(cellKey("d", ":", "plus-all", "fix+"), "~+9,'*,'_,+2:d|", aInt(12345))
	add(cellKey("a", "", "plus", "string"), "~+4,+2,+1a|", aStr("x"))
	add(cellKey("r", "", "plus-radix", "fix+small"), "~+2r|", aInt(5))
	add(cellKey("%", "", "V", "-"), "a~V%b", aInt(2))
	add(cellKey("%", "", "plus", "-"), "a~+2%b")
	add(cellKey("~", "", "V", "-"), "a~V~b", aInt(2))
	add(cellKey("*", "", "V", "-")+" ctx=skip", "~a~V*~a", ints(1, 1, 3, 4)...)
	add(cellKey("*", "@", "plus", "-")+" ctx=goto", "~a~a~+0@*~a", ints(1, 2)...)
	add(cellKey("t", "", "V,plus", "-")+" ctx=col3", "abc~V,+4t|", aInt(2))
	add(cellKey("[", "", "V", "int")+" ctx=selector-parameter", "<~V[a~;b~;c~]>", aInt(1))
	add(cellKey("[", "", "plus", "int")+" ctx=selector-parameter", "<~+2[a~;b~;c~]>")
	add(cellKey("{", "", "V", "list-int")+" ctx=maximum", "<~V{~a,~}>", aInt(2), aList(ints(1, 2, 3)...))
	add(cellKey("{", "@", "plus", "list-int")+" ctx=maximum", "<~+2@{~a,~}>", ints(1, 2, 3)...)
	// … inside blocks, where the block scanners have to skip the parameter
	add(cellKey("[", "", "none", "int")+" ctx=clause-with-V", "<~[a~Vd~;b~]>", aInt(0), aInt(4), aInt(7))
	add(cellKey("[", "", "none", "int")+" ctx=clause-with-plus", "<~[a~+3d~;b~]>", aInt(0), aInt(7))
	add(cellKey("[", "", "none", "int")+" ctx=clause-with-nested-V[", "<~[a~V[x~;y~]~;b~]>", aInt(0), aInt(1))
	add(cellKey("{", "", "none", "list-int")+" ctx=body-with-V", "<~{~Va~}>", aList(aInt(3), aInt(1), aInt(2), aInt(5)))
	add(cellKey("{", "", "none", "list-int")+" ctx=body-with-plus", "<~{~+3a~}>", aList(ints(1, 2)...))
	add(cellKey("{", "", "none", "list-int")+" ctx=body-with-nested-V{", "<~{~V{~a~}.~}>", aList(aInt(1), aList(ints(1, 2)...), aInt(2), aList(ints(3, 4, 5)...)))
	add(cellKey("(", "", "none", "-")+" ctx=body-with-V", "<~(A~Va~)>", aInt(3), aStr("X"))
	add(cellKey("(", "", "none", "-")+" ctx=body-with-nested-plus", "<~(A~:@(b~+3a~)c~)>", aStr("X"))
	// --- colinc 0: the increment must be at least 1 whether or not padding is needed
	for _, d := range []string{"a", "s"} {
		add(cellKey(d, "", "colinc0", "string")+" ctx=fits", "~2,0"+d+"|", aStr("abcdef"))
		add(cellKey(d, "", "colinc0", "string")+" ctx=needs-padding", "~8,0"+d+"|", aStr("abc"))
		add(cellKey(d, "@", "colinc0-v", "string")+" ctx=fits", "~2,v@"+d+"|", aInt(0), aStr("abcdef"))
	}
	// the argument-class field is marked so that no cell of this table shares a prefix with a piece of
	// the composite generator (a listed cell here must never remove a piece there)
	for i := range out {
		out[i].cell = strings.Replace(out[i].cell, " arg=", " arg=r3:", 1)
	}
	return out
}
