package main

// C04 part (i-h): HISTORIES. A function is defined, called, redefined with another lambda list of
// any shape (other key names, other counts, other defaults), called again; call sites are compiled
// before the function exists (forward reference), between two definitions and after; the same
// name is reached directly, through funcall/apply of its symbol and of (function f); lambda
// objects held in a variable are called repeatedly with different keyword sets and replaced.
// Every call is compared with the model's history entry point (`ll hist`, SlipVerif.Lambda.runHist:
// a call is bound by `bind` on the latest definition and by nothing else — theorems
// runHist_append_call, redefinition_replaces, calls_leave_no_trace).

import (
	"fmt"
	"io"
	"strings"

	"github.com/ohler55/slip"
	"verif/harness/lib"
)

type c04HStep struct {
	kind   string // def | defmac | call | defcaller | callcaller | defobj | setobj | callobj
	fn     string // role of the function / variable inside the history: f | v
	caller string // role of the caller: g0, g1, …
	sh     c04Shape
	args   []c04Arg
	via    string // direct | funcall-sym | funcall-function | apply-sym | apply-function | caller | funcall-obj | apply-obj
}

func (st c04HStep) judged() bool {
	return st.kind == "call" || st.kind == "callcaller" || st.kind == "callobj"
}

// c04Rename gives a shape other parameter names (variant 1: other key names; 2: all other names).
func c04Rename(sh c04Shape, variant int) c04Shape {
	if variant == 0 {
		return sh
	}
	out := c04Shape{rest: sh.rest, aok: sh.aok}
	ren := func(ps []c04Param, prefix string) []c04Param {
		var o []c04Param
		for i, p := range ps {
			o = append(o, c04Param{fmt.Sprintf("%s%d", prefix, i+1), p.defLisp, p.defWire})
		}
		return o
	}
	out.keys = ren(sh.keys, "j")
	if variant == 1 {
		out.req, out.opt, out.aux = sh.req, sh.opt, sh.aux
		return out
	}
	for i := range sh.req {
		out.req = append(out.req, fmt.Sprintf("c%d", i+1))
	}
	out.opt = ren(sh.opt, "d")
	out.aux = ren(sh.aux, "y")
	if sh.rest != "" {
		out.rest = "s"
	}
	return out
}

func c04KeyNames(sh c04Shape) []string {
	var n []string
	for _, p := range sh.keys {
		n = append(n, p.name)
	}
	return n
}

// c04PickArgs: an argument vector for a call of shape sh; stale = key names of earlier definitions
// of the same function (they may stand in key position too).
func c04PickArgs(rng *lib.Rng, sh c04Shape, stale []string) []c04Arg {
	sh.extraAlpha = stale
	vs := c04Vectors(sh, rng, false, 24)
	if (len(sh.keys) > 0 || sh.rest != "") && rng.Chance(75) {
		var with []([]c04Arg)
		for _, v := range vs {
			if len(v) > sh.npos() {
				with = append(with, v)
			}
		}
		if len(with) > 0 {
			return with[rng.Intn(len(with))]
		}
	}
	return vs[rng.Intn(len(vs))]
}

func c04GenHistory(rng *lib.Rng, all []c04Shape) []c04HStep {
	pick := func() c04Shape {
		for try := 0; ; try++ {
			sh := all[rng.Intn(len(all))]
			if len(sh.keys) > 0 || try > 3 || rng.Chance(25) {
				out := c04Rename(sh, rng.Intn(3))
				if rng.Chance(25) {
					out.mcase = 1 + rng.Intn(3) // markers re-spelled (&OPTIONAL, &Key, &aUx) in this definition
				}
				return out
			}
		}
	}
	vias := []string{"direct", "funcall-sym", "funcall-function", "apply-sym", "apply-function"}
	macro := rng.Chance(20) // the name is a macro throughout: direct calls only, self-evaluating arguments
	if macro {
		vias = []string{"direct"}
	}
	var steps []c04HStep
	var stale []string
	var callers []string
	ncaller := 0
	addCaller := func(sh c04Shape) {
		g := fmt.Sprintf("g%d", ncaller)
		ncaller++
		steps = append(steps, c04HStep{kind: "defcaller", fn: "f", caller: g, args: c04PickArgs(rng, sh, stale)},
			c04HStep{kind: "callcaller", fn: "f", caller: g, via: "caller"})
		callers = append(callers, g)
	}
	calls := func(sh c04Shape, n int) {
		for i := 0; i < n; i++ {
			if len(callers) > 0 && rng.Chance(30) {
				steps = append(steps, c04HStep{kind: "callcaller", fn: "f", caller: callers[rng.Intn(len(callers))], via: "caller"})
				continue
			}
			args := c04PickArgs(rng, sh, stale)
			for try := 0; macro && !c04SelfEvaluating(args) && try < 20; try++ {
				args = c04PickArgs(rng, sh, stale)
			}
			if macro && !c04SelfEvaluating(args) {
				args = nil
			}
			steps = append(steps, c04HStep{kind: "call", fn: "f", sh: sh, args: args, via: vias[rng.Intn(len(vias))]})
		}
	}
	ndefs := 2 + rng.Intn(2)
	shapes := make([]c04Shape, ndefs)
	for i := range shapes {
		shapes[i] = pick()
	}
	if !macro && rng.Chance(50) {
		addCaller(shapes[rng.Intn(ndefs)]) // compiled before the function exists
	}
	for i, sh := range shapes {
		if macro {
			steps = append(steps, c04HStep{kind: "defmac", fn: "f", sh: sh})
		} else {
			steps = append(steps, c04HStep{kind: "def", fn: "f", sh: sh})
		}
		if !macro && rng.Chance(45) {
			addCaller(sh)
		}
		calls(sh, 1+rng.Intn(3))
		for _, c := range callers { // every compiled call site sees the new definition
			if rng.Chance(60) || i > 0 {
				steps = append(steps, c04HStep{kind: "callcaller", fn: "f", caller: c, via: "caller"})
			}
		}
		stale = append(stale, c04KeyNames(sh)...)
	}
	if rng.Chance(40) {
		// a lambda object in a variable: several calls with different keyword sets, then replaced
		sh := pick()
		steps = append(steps, c04HStep{kind: "defobj", fn: "v", sh: sh})
		for i, n := 0, 2+rng.Intn(2); i < n; i++ {
			steps = append(steps, c04HStep{kind: "callobj", fn: "v", sh: sh, args: c04PickArgs(rng, sh, nil), via: []string{"funcall-obj", "apply-obj"}[rng.Intn(2)]})
		}
		sh2 := pick()
		steps = append(steps, c04HStep{kind: "setobj", fn: "v", sh: sh2})
		for i, n := 0, 1+rng.Intn(2); i < n; i++ {
			steps = append(steps, c04HStep{kind: "callobj", fn: "v", sh: sh2, args: c04PickArgs(rng, sh2, c04KeyNames(sh)), via: []string{"funcall-obj", "apply-obj"}[rng.Intn(2)]})
		}
	}
	return steps
}

// c04HistRequest builds the model request and, per judged step, the shape in force (zero shape and
// false when the function is not defined yet) and the arguments of the call.
type c04HCall struct {
	step    int
	sh      c04Shape
	defined bool
	args    []c04Arg
	after   string // forward | first-def | redef
	macro   bool
}

func c04HistPlan(steps []c04HStep) (request string, calls []c04HCall) {
	ops := []string{"ll", "hist"}
	cur := map[string]c04Shape{}
	ndef := map[string]int{}
	callerArgs := map[string][]c04Arg{}
	isMacro := map[string]bool{}
	for i, st := range steps {
		if st.kind == "defmac" {
			isMacro[st.fn] = true
		}
		switch st.kind {
		case "def", "defmac", "defobj", "setobj":
			ops = append(ops, "d:"+lib.Hex(st.fn)+":"+st.sh.llWire(true))
			cur[st.fn] = st.sh
			ndef[st.fn]++
		case "defcaller":
			callerArgs[st.caller] = st.args
		case "call", "callobj", "callcaller":
			args := st.args
			if st.kind == "callcaller" {
				args = callerArgs[st.caller]
			}
			ops = append(ops, "c:"+lib.Hex(st.fn)+":"+c04ArgsWire(args))
			sh, ok := cur[st.fn]
			after := "forward"
			if ndef[st.fn] == 1 {
				after = "first-def"
			} else if ndef[st.fn] > 1 {
				after = "redef"
			}
			calls = append(calls, c04HCall{step: i, sh: sh, defined: ok, args: args, after: after, macro: isMacro[st.fn]})
		}
	}
	return strings.Join(ops, " "), calls
}

// c04HistForms renders the steps as lisp forms with the names of history `tag`.
func c04HistForms(steps []c04HStep, tag string) []string {
	name := func(role string) string { return "c04h" + tag + role }
	body := func(sh c04Shape) string {
		names, _ := sh.params()
		if len(names) == 0 {
			return "(list)"
		}
		return "(list " + strings.Join(names, " ") + ")"
	}
	call := func(head string, args []c04Arg) string {
		if len(args) == 0 {
			return "(" + head + ")"
		}
		return "(" + head + " " + c04ArgsLisp(args) + ")"
	}
	forms := make([]string, len(steps))
	for i, st := range steps {
		f := name(st.fn)
		switch st.kind {
		case "def":
			forms[i] = "(defun " + f + " " + st.sh.llLisp() + " " + body(st.sh) + ")"
		case "defmac":
			forms[i] = "(defmacro " + f + " " + st.sh.llLisp() + " " + body(st.sh) + ")"
		case "defobj":
			forms[i] = "(defvar " + f + " (lambda " + st.sh.llLisp() + " " + body(st.sh) + "))"
		case "setobj":
			forms[i] = "(setq " + f + " (lambda " + st.sh.llLisp() + " " + body(st.sh) + "))"
		case "defcaller":
			forms[i] = "(defun " + name(st.caller) + " () " + call(f, st.args) + ")"
		case "callcaller":
			forms[i] = "(" + name(st.caller) + ")"
		case "call", "callobj":
			switch st.via {
			case "direct":
				forms[i] = call(f, st.args)
			case "funcall-sym":
				forms[i] = call("funcall '"+f, st.args)
			case "funcall-function":
				forms[i] = call("funcall (function "+f+")", st.args)
			case "apply-sym":
				forms[i] = "(apply '" + f + " " + call("list", st.args) + ")"
			case "apply-function":
				forms[i] = "(apply (function " + f + ") " + call("list", st.args) + ")"
			case "funcall-obj":
				forms[i] = call("funcall "+f, st.args)
			case "apply-obj":
				forms[i] = "(apply " + f + " " + call("list", st.args) + ")"
			default:
				panic(st.via)
			}
		}
	}
	return forms
}

// c04HistRun evaluates the forms in order; returns the canonical outcome of every form.
func c04HistRun(forms []string, judged map[int]bool) (outs, msgs []string) {
	outs, msgs = make([]string, len(forms)), make([]string, len(forms))
	for i, f := range forms {
		o := lib.EvalString(slip.NewScope(), f)
		if judged[i] {
			outs[i] = c04Outcome(o)
		} else if o.Ok {
			outs[i] = "ok"
		} else {
			outs[i] = "err setup:" + o.Class
		}
		msgs[i] = o.Msg
	}
	return
}

// c04HistModel turns one `ll hist` result ("undef" | "err X" | "ok/n=v/…") into the outcome format
// of c04ModelOutcome.
func c04HistModel(sh c04Shape, res string) string {
	if res == "undef" || strings.HasPrefix(res, "err") {
		return res
	}
	return c04ModelOutcome(sh, strings.ReplaceAll(res, "/", " "), true)
}

type c04HDis struct {
	call    int // index into calls
	sig     string
	impl    string
	expect  string
	from    string
	msg     string
	setupAt int // >= 0: a definition step failed
}

// c04HistJudge compares one evaluated history with the model replies. splitReplies[i] is the
// reply of the split request of calls[i] ("" when it does not apply).
func c04HistJudge(steps []c04HStep, calls []c04HCall, outs, msgs []string, reply string, splitReplies []string, splitRest [][]c04Arg, splitListed bool) []c04HDis {
	var dis []c04HDis
	for i, st := range steps {
		if !st.judged() && strings.HasPrefix(outs[i], "err setup:") {
			dis = append(dis, c04HDis{call: -1, setupAt: i, sig: "lambda-history step=" + st.kind + " aspect=definition-failed:" + strings.TrimPrefix(outs[i], "err setup:"),
				impl: outs[i], expect: "the definition evaluates", msg: msgs[i]})
		}
	}
	w := strings.SplitN(reply, " ", 2)
	if w[0] != "ok" {
		panic("harness bug: ll hist replied " + reply)
	}
	var results []string
	if len(w) > 1 && w[1] != "" {
		results = strings.Split(w[1], ";")
	}
	if len(results) != len(calls) {
		panic(fmt.Sprintf("harness bug: %d calls, %d model results", len(calls), len(results)))
	}
	for ci, cl := range calls {
		st := steps[cl.step]
		impl := outs[cl.step]
		model := c04HistModel(cl.sh, results[ci])
		if (model == "undef") == cl.defined {
			panic("harness bug: harness and model disagree about which definition is in force")
		}
		sigHead := fmt.Sprintf("lambda-history via=%s after=%s", st.via, cl.after)
		if cl.macro {
			sigHead = fmt.Sprintf("lambda-history via=macro-call after=%s", cl.after)
		}
		if model == "undef" {
			switch {
			case impl == "err go-fault":
				dis = append(dis, c04HDis{call: ci, setupAt: -1, sig: sigHead + " aspect=go-fault", impl: impl, expect: "an undefined-function error", msg: msgs[cl.step]})
			case strings.HasPrefix(impl, "ok"):
				dis = append(dis, c04HDis{call: ci, setupAt: -1, sig: sigHead + " aspect=undefined-function-ran", impl: impl, expect: "an undefined-function error", msg: msgs[cl.step]})
			}
			continue
		}
		expected, from := model, "model:ll.hist (runHist)"
		if splitReplies[ci] != "" {
			split := c04SplitOutcome(cl.sh, splitReplies[ci], splitRest[ci])
			if split != model && splitListed {
				expected, from = split, "model:ll.hist under the listed deviation "+c04SplitSig
			}
		}
		if aspect := c04Judge(cl.sh, "history", expected, impl); aspect != "" {
			dis = append(dis, c04HDis{call: ci, setupAt: -1, sig: fmt.Sprintf("%s shape=%s aspect=%s", sigHead, cl.sh.class(), aspect),
				impl: impl, expect: expected, from: from, msg: msgs[cl.step]})
		}
	}
	return dis
}

func c04StepsJSON(steps []c04HStep) []any {
	out := []any{}
	for _, st := range steps {
		out = append(out, map[string]any{"kind": st.kind, "fn": st.fn, "caller": st.caller, "via": st.via,
			"shape": c04ShapeJSON(st.sh), "argv": c04ArgsJSON(st.args)})
	}
	return out
}

func c04StepsFromJSON(v any) []c04HStep {
	var steps []c04HStep
	l, _ := v.([]any)
	for _, e := range l {
		m, _ := e.(map[string]any)
		st := c04HStep{}
		st.kind, _ = m["kind"].(string)
		st.fn, _ = m["fn"].(string)
		st.caller, _ = m["caller"].(string)
		st.via, _ = m["via"].(string)
		if sm, ok := m["shape"].(map[string]any); ok {
			st.sh = c04ShapeFromJSON(sm)
		}
		av, _ := m["argv"].([]any)
		for _, a := range av {
			t, _ := a.([]any)
			if len(t) == 2 {
				l, _ := t[0].(string)
				w, _ := t[1].(string)
				st.args = append(st.args, c04Arg{l, w})
			}
		}
		steps = append(steps, st)
	}
	return steps
}

var c04HistTag int

// c04HistEval runs one history end to end (fresh names) and returns its disagreements.
func c04HistEval(c *lib.Ctx, steps []c04HStep, splitListed bool) ([]c04HDis, []string, []c04HCall, string) {
	c04HistTag++
	request, calls := c04HistPlan(steps)
	reqs := []string{request}
	splitAt := make([]int, len(calls))
	splitRest := make([][]c04Arg, len(calls))
	for i, cl := range calls {
		splitAt[i] = -1
		if !cl.defined {
			continue
		}
		if rq, rp, ok := c04SplitRequest(c04Case{sh: cl.sh, args: cl.args}); ok {
			splitAt[i] = len(reqs)
			splitRest[i] = rp
			reqs = append(reqs, rq)
		}
	}
	rep := c.Model(reqs)
	splitReplies := make([]string, len(calls))
	for i := range calls {
		if splitAt[i] >= 0 {
			splitReplies[i] = rep[splitAt[i]]
		}
	}
	forms := c04HistForms(steps, fmt.Sprintf("r%d", c04HistTag))
	judged := map[int]bool{}
	for _, cl := range calls {
		judged[cl.step] = true
	}
	outs, msgs := c04HistRun(forms, judged)
	return c04HistJudge(steps, calls, outs, msgs, rep[0], splitReplies, splitRest, splitListed), forms, calls, request
}

// c04HistShrink removes steps greedily while a disagreement with the same signature remains.
func c04HistShrink(c *lib.Ctx, steps []c04HStep, sig string, splitListed bool) []c04HStep {
	has := func(st []c04HStep) bool {
		dis, _, _, _ := c04HistEval(c, st, splitListed)
		for _, d := range dis {
			if d.sig == sig {
				return true
			}
		}
		return false
	}
	cur := steps
	for changed := true; changed; {
		changed = false
		for i := len(cur) - 1; i >= 0; i-- {
			cand := append(append([]c04HStep{}, cur[:i]...), cur[i+1:]...)
			// a caller must stay defined for its calls
			ok := true
			defd := map[string]bool{}
			for _, st := range cand {
				if st.kind == "defcaller" {
					defd[st.caller] = true
				}
				if st.kind == "callcaller" && !defd[st.caller] {
					ok = false
				}
				if st.kind == "defobj" {
					defd["obj"] = true
				}
				if (st.kind == "callobj" || st.kind == "setobj") && !defd["obj"] {
					ok = false
				}
			}
			if ok && len(cand) > 0 && has(cand) {
				cur = cand
				changed = true
			}
		}
	}
	return cur
}

func c04Histories(c *lib.Ctx) {
	slip.ErrorOutput = &slip.OutputStream{Writer: io.Discard} // "WARNING: redefining …"
	all := c04AllShapes()
	splitListed := c.Findings.Match("C04", c04SplitSig) != nil
	var hists [][]c04HStep
	fixed := lib.NewRng(20260924) // the seed-independent part
	for i := 0; i < 150; i++ {
		hists = append(hists, c04GenHistory(fixed, all))
	}
	nFixed := len(hists)
	for i, n := 0, c.Scale(700, 6000); i < n; i++ {
		hists = append(hists, c04GenHistory(c.Rng, all))
	}
	// one model batch for everything
	var reqs []string
	type plan struct {
		calls     []c04HCall
		reqAt     int
		splitAt   []int
		splitRest [][]c04Arg
	}
	plans := make([]plan, len(hists))
	for h, steps := range hists {
		request, calls := c04HistPlan(steps)
		p := plan{calls: calls, reqAt: len(reqs), splitAt: make([]int, len(calls)), splitRest: make([][]c04Arg, len(calls))}
		reqs = append(reqs, request)
		for i, cl := range calls {
			p.splitAt[i] = -1
			if cl.defined {
				if rq, rp, ok := c04SplitRequest(c04Case{sh: cl.sh, args: cl.args}); ok {
					p.splitAt[i] = len(reqs)
					p.splitRest[i] = rp
					reqs = append(reqs, rq)
				}
			}
		}
		plans[h] = p
	}
	rep := c.Model(reqs)
	ncalls, agree, nredef, nforward := 0, 0, 0, 0
	for h, steps := range hists {
		p := plans[h]
		c04HistTag++
		forms := c04HistForms(steps, fmt.Sprint(c04HistTag))
		judged := map[int]bool{}
		for _, cl := range p.calls {
			judged[cl.step] = true
		}
		outs, msgs := c04HistRun(forms, judged)
		splitReplies := make([]string, len(p.calls))
		for i := range p.calls {
			if p.splitAt[i] >= 0 {
				splitReplies[i] = rep[p.splitAt[i]]
			}
		}
		dis := c04HistJudge(steps, p.calls, outs, msgs, rep[p.reqAt], splitReplies, p.splitRest, splitListed)
		ncalls += len(p.calls)
		agree += len(p.calls)
		for _, cl := range p.calls {
			st := steps[cl.step]
			if cl.macro {
				c.Ev.Hist("history_call", "macro-call "+cl.after)
			} else {
				c.Ev.Hist("history_call", st.via+" "+cl.after)
			}
			switch cl.after {
			case "redef":
				nredef++
			case "forward":
				nforward++
			}
			c.Ev.Case("hist "+reqs[p.reqAt]+" #"+fmt.Sprint(cl.step), cl.after != "first-def" || cl.sh.nkinds() >= 2)
		}
		if h%(len(hists)/3+1) == 1 {
			c.Ev.Sample(map[string]any{"history": forms, "model_request": reqs[p.reqAt], "model_reply": rep[p.reqAt]})
		}
		seenSig := map[string]bool{}
		for _, d := range dis {
			agree--
			if seenSig[d.sig] {
				continue
			}
			seenSig[d.sig] = true
			already := false
			for _, v := range c.Violations {
				if v.Signature == d.sig {
					already = true
				}
			}
			if already {
				continue
			}
			small := steps
			if d.call >= 0 {
				small = c04HistShrink(c, steps, d.sig, splitListed)
			}
			sdis, sforms, _, sreq := c04HistEval(c, small, splitListed)
			obs, exp, from, failing := d.impl+"  ; "+d.msg, d.expect, d.from, ""
			for _, sd := range sdis {
				if sd.sig == d.sig {
					obs, exp, from = sd.impl+"  ; "+sd.msg, sd.expect, sd.from
					if sd.call >= 0 {
						_, scalls := c04HistPlan(small)
						failing = sforms[scalls[sd.call].step]
					}
					break
				}
			}
			c.Report(d.sig, false, map[string]any{
				"part": "history", "sweep": false, "input": strings.Join(sforms, " "), "failing_call": failing,
				"request": sreq, "observed": obs, "expected": exp, "expected_from": from,
				"relies_on": []string{"SlipVerif.Theorems.C04.runHist_append_call", "SlipVerif.Theorems.C04.redefinition_replaces", "SlipVerif.Theorems.C04.bind_ok_iff"},
				"steps": c04StepsJSON(small), "seed_independent_part": h < nFixed})
		}
	}
	c.Ev.Coverage["history_count"] = len(hists)
	c.Ev.Coverage["history_seed_independent"] = nFixed
	c.Ev.Coverage["history_calls"] = ncalls
	c.Ev.Coverage["history_calls_after_redefinition"] = nredef
	c.Ev.Coverage["history_calls_before_definition"] = nforward
	c.Ev.Coverage["history_agreements"] = agree
	c.Ev.Count("traces_validated_against_impl", ncalls)
}

func c04ReplayHistory(c *lib.Ctx, rec map[string]any) {
	slip.ErrorOutput = &slip.OutputStream{Writer: io.Discard}
	steps := c04StepsFromJSON(rec["steps"])
	dis, forms, calls, request := c04HistEval(c, steps, c.Findings.Match("C04", c04SplitSig) != nil)
	fmt.Printf("replay history (%d steps)\n", len(steps))
	for i, f := range forms {
		fmt.Printf("  %2d %s\n", i, f)
	}
	fmt.Printf("  model request: %s\n", request)
	for _, d := range dis {
		at := "definition"
		if d.call >= 0 {
			at = forms[calls[d.call].step]
		}
		fmt.Printf("  DISAGREE at %s\n    observed (implementation): %s  ; %s\n    expected (%s): %s\n    signature: %s\n", at, d.impl, d.msg, d.from, d.expect, d.sig)
	}
	if len(dis) > 0 {
		c.Report("replay", false, map[string]any{"input": strings.Join(forms, " ")})
	}
}
