package main

// C15, extension round 3 — "no argument left": every directive that takes an argument (its own, a `v`
// parameter, the list of ~{ / ~:{, the control string and the list of ~?, the test value of ~[ ~:[ ~@[)
// must raise a condition when none remains — at the start of the arguments and after some were consumed,
// in the top-level control and in the argument lists of blocks.

func c15CellsNoArg() []r3Cell {
	var out []r3Cell
	type d struct{ name, text string }
	dirs := []d{{"a", "~a"}, {"s", "~s"}, {"d", "~d"}, {"b", "~b"}, {"o", "~o"}, {"x", "~x"}, {"r", "~r"}, {"r-radix", "~8r"}, {"r-roman", "~@r"}, {"c", "~c"}, {"p", "~p"},
		{"v-parameter", "~v%"}, {"v-parameter-a", "~va"}, {"[", "~[a~;b~]"}, {":[", "~:[a~;b~]"}, {"@[", "~@[a~]"}, {"{", "~{~a~}"}, {":{", "~:{~a~}"}, {"{-at-least-once", "~{x~:}"},
		{"?", "~?"}, {"@?", "~@?"}}
	for _, x := range dirs {
		out = append(out, r3Cell{cell: cellKey(x.name, "", "none", "r3:no-argument") + " ctx=none-at-all", ctrl: "<" + x.text + ">"})
		out = append(out, r3Cell{cell: cellKey(x.name, "", "none", "r3:no-argument") + " ctx=after-the-last", ctrl: "~a<" + x.text + ">", args: []fArg{aInt(1)}})
		out = append(out, r3Cell{cell: cellKey(x.name, "", "none", "r3:no-argument") + " ctx=in-{-list", ctrl: "<~{~a" + x.text + "~}>", args: []fArg{aList(aInt(1))}})
		out = append(out, r3Cell{cell: cellKey(x.name, "", "none", "r3:no-argument") + " ctx=in-?-list", ctrl: "<~?>", args: []fArg{aStr("~a" + x.text), aList(aInt(1))}})
	}
	// ~? with its control string but without the list
	out = append(out, r3Cell{cell: cellKey("?", "", "none", "r3:no-argument") + " ctx=control-without-list", ctrl: "<~?>", args: []fArg{aStr("x")}})
	// the legal neighbours: ~@{ and ~:@{ over no arguments, nil as the empty list
	out = append(out, r3Cell{cell: cellKey("{", "@", "none", "r3:no-argument") + " ctx=legal-empty", ctrl: "<~@{~a~}>"})
	out = append(out, r3Cell{cell: cellKey("{", ":@", "none", "r3:no-argument") + " ctx=legal-empty", ctrl: "<~:@{~a~}>"})
	out = append(out, r3Cell{cell: cellKey("{", "", "none", "r3:nil-list") + " ctx=legal-empty", ctrl: "<~{~a~}>", args: []fArg{aNil()}})
	out = append(out, r3Cell{cell: cellKey("?", "", "none", "r3:nil-list") + " ctx=legal-empty", ctrl: "<~?>", args: []fArg{aStr("x"), aNil()}})
	out = append(out, r3Cell{cell: cellKey("[", ":", "none", "r3:nil-list") + " ctx=legal-nil", ctrl: "<~:[a~;b~]>", args: []fArg{aNil()}})
	return out
}
