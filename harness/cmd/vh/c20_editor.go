package main

// C20, end to end through the REPL's own loop and its editor (extension round).
//
// `vh C20-ed` is a worker process: ONE REPL session. It installs a scripted terminal as
// *standard-input*/*standard-output*, calls repl.SetConfigDir and repl.Run exactly as cmd/slip does and
// types the forms of the session key by key into the editor (Enter inside an open form, Enter at the
// end, M-s to stash the form being edited, C-d to leave). Everything the property talks about then
// happens through the code paths a user drives: editor.addToHistory → TheHistory.Add, the set hook of
// *repl-history-limit* → SetLimit + config.lisp, (clear-history), (use-stash …), (clear-stash),
// stashAdd → TheStash.Add, and at the next start config.lisp → limit, Run → TheHistory.Load, initStash /
// use-stash → LoadExpanded through *stash-load-path*.
//
// Determinism: there are no sleeps and no timing. The scripted terminal releases the keys of the next
// form only when the editor has written a fresh prompt (a Write of exactly the prompt bytes, which
// follows the cursor query of editor.read), so the reply to the cursor query never races with typed
// keys; snapshots of TheHistory/TheStash are taken inside that Write, i.e. on the REPL's goroutine.
// The only clock is a distant backstop on the whole worker (retried alone before it is reported as a
// machinery error, never as a violation).

import (
	"bytes"
	"encoding/json"
	"fmt"
	"os"
	"os/exec"
	"path/filepath"
	"strconv"
	"strings"
	"sync"
	"time"

	"github.com/ohler55/slip"
	"github.com/ohler55/slip/pkg/repl"
	"verif/harness/lib"
)

func init() { props["C20-ed"] = c20EdWorker }

type c20EdAction struct {
	Kind  string   `json:"kind"` // form: type the lines, Enter; stash: type the lines, M-s, Enter
	Lines []string `json:"lines"`
}

type c20EdSnap struct {
	Hist  [][]string `json:"hist"`
	Stash [][]string `json:"stash"`
	Limit string     `json:"limit"`
}

type c20EdResult struct {
	Snaps []c20EdSnap `json:"snaps"`
	Done  bool        `json:"done"`
}

const c20EdPrompt = "c20> "

type c20Term struct {
	mu      sync.Mutex
	cond    *sync.Cond
	resp    [][]byte
	pending [][]byte
	actions []c20EdAction
	next    int
	eofSent bool
	snaps   []c20EdSnap
}

func (t *c20Term) String() string                               { return "c20-term" }
func (t *c20Term) Append(b []byte) []byte                       { return append(b, "c20-term"...) }
func (t *c20Term) Simplify() any                                { return nil }
func (t *c20Term) Equal(other slip.Object) bool                 { return false }
func (t *c20Term) Hierarchy() []slip.Symbol                     { return []slip.Symbol{slip.Symbol("c20-term")} }
func (t *c20Term) Eval(s *slip.Scope, depth int) slip.Object    { return nil }
func c20EdForms(n int, nth func(int) repl.Form) (out [][]string) {
	out = [][]string{}
	for i := n - 1; i >= 0; i-- {
		f := nth(i)
		lines := make([]string, len(f))
		for j, l := range f {
			lines[j] = string(l)
		}
		out = append(out, lines)
	}
	return
}

func c20EdKeys(a c20EdAction) (keys [][]byte) {
	for i, l := range a.Lines {
		if i > 0 {
			keys = append(keys, []byte{'\r'}) // Enter inside an open form: a new line
		}
		for _, r := range l {
			keys = append(keys, []byte(string(r)))
		}
	}
	if a.Kind == "stash" {
		keys = append(keys, []byte{0x1b, 's'})
	}
	return append(keys, []byte{'\r'})
}

func (t *c20Term) Write(p []byte) (int, error) {
	t.mu.Lock()
	defer t.mu.Unlock()
	if bytes.Contains(p, []byte("\x1b[6n")) {
		t.resp = append(t.resp, []byte("\x1b[5;1R"))
		t.cond.Broadcast()
	}
	if string(p) == c20EdPrompt && len(t.pending) == 0 && !t.eofSent {
		// the editor is idle at a fresh prompt: what do history and stash hold now?
		lim := slip.ObjectString(repl.GetScope().Get(slip.Symbol("*repl-history-limit*")))
		t.snaps = append(t.snaps, c20EdSnap{
			Hist:  c20EdForms(repl.TheHistory.Size(), repl.TheHistory.Nth),
			Stash: c20EdForms(repl.TheStash.Size(), repl.TheStash.Nth),
			Limit: lim,
		})
		if t.next < len(t.actions) {
			t.pending = c20EdKeys(t.actions[t.next])
			t.next++
		} else {
			t.pending = [][]byte{{0x04}} // C-d
			t.eofSent = true
		}
		t.cond.Broadcast()
	}
	return len(p), nil
}

func (t *c20Term) Read(p []byte) (int, error) {
	t.mu.Lock()
	defer t.mu.Unlock()
	for len(t.resp) == 0 && len(t.pending) == 0 {
		t.cond.Wait()
	}
	var k []byte
	if len(t.resp) > 0 {
		k, t.resp = t.resp[0], t.resp[1:]
	} else {
		k, t.pending = t.pending[0], t.pending[1:]
	}
	return copy(p, k), nil
}

// c20EdWorker: one REPL session; job on C20_ED_JOB (a JSON file), result as one line on stdout.
func c20EdWorker(c *lib.Ctx) {
	var job struct {
		Dir     string        `json:"dir"`
		Actions []c20EdAction `json:"actions"`
	}
	if err := lib.ReadJSON(os.Getenv("C20_ED_JOB"), &job); err != nil {
		fmt.Fprintln(os.Stderr, "C20-ed: no job:", err)
		os.Exit(2)
	}
	t := &c20Term{actions: job.Actions}
	t.cond = sync.NewCond(&t.mu)
	repl.SetSizer(repl.NewTermock(100, 200)) // the size only; the streams are the scripted terminal
	scope := repl.GetScope()
	scope.Set(slip.Symbol("*standard-output*"), t)
	scope.Set(slip.Symbol("*standard-input*"), t)
	repl.SetConfigDir(job.Dir)
	scope.Set(slip.Symbol("*repl-prompt*"), slip.String(c20EdPrompt))
	scope.Set(slip.Symbol("*repl-editor*"), slip.True)
	repl.Run()
	t.mu.Lock()
	res := c20EdResult{Snaps: t.snaps, Done: t.eofSent && len(t.pending) == 0}
	t.mu.Unlock()
	b, _ := json.Marshal(res)
	fmt.Printf("C20ED %s\n", b)
	os.Exit(0)
}

// ---------------------------------------------------------------------------------------------
// parent side

type c20EdCase struct {
	Cell     string          `json:"cell"`
	Sessions [][]c20EdAction `json:"sessions"`
	LoadPath bool            `json:"load_path"` // session 1 starts by pointing *stash-load-path* at a directory of its own
	UseStash bool            `json:"use_stash"` // every session starts with (use-stash …): the default stash stays empty
}

func (cs c20EdCase) request() string {
	b, _ := json.Marshal(cs)
	return "hist ed " + c20HexStr(string(b))
}

func (cs c20EdCase) show() string {
	var parts []string
	for _, ses := range cs.Sessions {
		var q []string
		for _, a := range ses {
			k := "type"
			if a.Kind == "stash" {
				k = "type+M-s"
			}
			q = append(q, k+" "+c20Form(a.Lines).show())
		}
		parts = append(parts, "session{"+strings.Join(q, "; ")+"}")
	}
	return strings.Join(parts, " restart ")
}

// what a typed form does besides being entered into the history
func c20EdEffect(f c20Form) (kind string, a, b int) {
	text := strings.Join(strings.Fields(strings.Join(f, " ")), " ")
	var n int
	if _, err := fmt.Sscanf(text, "(setq *repl-history-limit* %d)", &n); err == nil {
		return "L", n, 0
	}
	if text == "(clear-history)" {
		return "C", 0, -1
	}
	var x, y int
	if _, err := fmt.Sscanf(text, "(clear-history :start %d :end %d)", &x, &y); err == nil {
		return "C", x, y
	}
	if text == "(clear-stash)" {
		return "SC", 0, -1
	}
	return "", 0, 0
}

// c20EdRunSession starts one worker; a worker that does not finish is retried alone with a far
// longer limit and then reported as a machinery problem (exit 2), never as a verdict about slip.
func c20EdRunSession(c *lib.Ctx, base, dir, home string, actions []c20EdAction) (c20EdResult, string) {
	jobPath := filepath.Join(base, "job.json")
	jb, _ := json.Marshal(map[string]any{"dir": dir, "actions": actions})
	_ = os.WriteFile(jobPath, jb, 0o644)
	self, err := os.Executable()
	if err != nil {
		self, _ = filepath.Abs(os.Args[0])
	}
	cmd := exec.Command(self, "C20-ed", "--root", c.Root)
	cmd.Dir = home
	cmd.Env = []string{"HOME=" + home, "PATH=" + os.Getenv("PATH"), "TERM=dumb", "C20_ED_JOB=" + jobPath}
	var out, errb bytes.Buffer
	cmd.Stdout = &out
	cmd.Stderr = &errb
	if err := cmd.Start(); err != nil {
		fmt.Fprintln(os.Stderr, "c20: cannot start the editor worker:", err)
		os.Exit(2)
	}
	done := make(chan error, 1)
	go func() { done <- cmd.Wait() }()
	select {
	case <-done:
	case <-time.After(900 * time.Second):
		// a session is a few dozen keys (well under a second of CPU): not a verdict about slip
		_ = cmd.Process.Kill()
		<-done
		fmt.Fprintf(os.Stderr, "c20: the editor worker did not finish within 900 s (machine overloaded?): %s\n", lastLines(out.String()+errb.String(), 8))
		os.Exit(2)
	}
	for _, line := range strings.Split(out.String(), "\n") {
		if strings.HasPrefix(line, "C20ED ") {
			var res c20EdResult
			if json.Unmarshal([]byte(line[6:]), &res) == nil {
				return res, ""
			}
		}
	}
	// the REPL left its loop without the script being finished (a Go panic, os.Exit …)
	return c20EdResult{}, "the REPL process ended without finishing the session: " + lastLines(out.String()+errb.String(), 8)
}

func c20EdWire(fs [][]string) string {
	out := make([]c20Form, len(fs))
	for i, f := range fs {
		out[i] = c20Form(f)
	}
	return c20FormsWire(out)
}

type c20EdMark struct{ h, s int } // number of history / stash events completed at a snapshot

type c20EdPlan struct {
	sessions [][]c20EdAction
	hev, sev []c20Op
	marks    [][]c20EdMark
	reqs     []string
}

// c20EdMakePlan: the sessions as typed and the model's view of them (history events, stash events)
func c20EdMakePlan(base string, cs c20EdCase) c20EdPlan {
	var pl c20EdPlan
	stashDir := filepath.Join(base, "stashes")
	pl.sessions = make([][]c20EdAction, len(cs.Sessions))
	for i, s := range cs.Sessions {
		pl.sessions[i] = append([]c20EdAction{}, s...)
	}
	if cs.LoadPath && len(pl.sessions) > 0 {
		pl.sessions[0] = append([]c20EdAction{{Kind: "form", Lines: []string{fmt.Sprintf("(setq *stash-load-path* '(%q))", stashDir)}}}, pl.sessions[0]...)
	}
	limit := 1000
	for si, ses := range pl.sessions {
		if si > 0 {
			pl.hev = append(pl.hev, c20Op{Kind: "R", N: limit})
		}
		ms := []c20EdMark{{len(pl.hev), len(pl.sev)}}
		for _, a := range ses {
			f := c20Form(a.Lines)
			if a.Kind == "stash" {
				pl.sev = append(pl.sev, c20Op{Kind: "A", Form: f})
			}
			pl.hev = append(pl.hev, c20Op{Kind: "A", Form: f}) // addToHistory comes before the evaluation
			switch k, x, y := c20EdEffect(f); k {
			case "L":
				limit = x
				pl.hev = append(pl.hev, c20Op{Kind: "L", N: x})
			case "C":
				pl.hev = append(pl.hev, c20Op{Kind: "C", A: x, B: y})
			case "SC":
				pl.sev = append(pl.sev, c20Op{Kind: "C", A: x, B: y})
			}
			ms = append(ms, c20EdMark{len(pl.hev), len(pl.sev)})
		}
		pl.marks = append(pl.marks, ms)
	}
	hcase := c20Case{Limit: 1000, Events: pl.hev}
	sparts := []string{"hist", "stash", "~"}
	for _, e := range pl.sev {
		sparts = append(sparts, e.wire())
	}
	pl.reqs = []string{hcase.request(), strings.Join(sparts, " ")}
	return pl
}

func c20EdRunCase(c *lib.Ctx, base string, cs c20EdCase, pl c20EdPlan, replies []string) *c20Problem {
	_ = os.RemoveAll(base)
	dir := filepath.Join(base, "cfg")
	home := filepath.Join(base, "home")
	_ = os.MkdirAll(dir, 0o755)
	_ = os.MkdirAll(filepath.Join(home, ".config", "slip"), 0o755)
	_ = os.MkdirAll(filepath.Join(base, "stashes"), 0o755)
	sessions, hev, sev, marks := pl.sessions, pl.hev, pl.sev, pl.marks
	mem0, hexp := c20ParseReply(replies[0], len(hev))
	smem0, sexp, sok := c20ParseStashReply(replies[1], len(sev))
	if !sok {
		fmt.Fprintf(os.Stderr, "c20: unexpected model reply for the editor stash: %.200s\n", replies[1])
		os.Exit(2)
	}
	hmem := func(n int) (string, int) {
		if n == 0 {
			return mem0, 1000
		}
		return hexp[n-1].Mem, hexp[n-1].Lim
	}
	smem := func(n int) string {
		if n == 0 {
			return smem0
		}
		return sexp[n-1].Mem
	}
	universe := map[string]bool{}
	for _, ses := range sessions {
		for _, a := range ses {
			universe[c20Form(a.Lines).wire()] = true
		}
	}
	cell := ""
	if cs.Cell != "" {
		cell = "cell=" + cs.Cell + " "
	}
	req := cs.request()
	problem := func(op, step, aspect, at, observed, expected string, relies ...string) *c20Problem {
		return &c20Problem{vsModel: true, sig: fmt.Sprintf("%sop=%s step=%s aspect=%s vs=model", cell, op, step, aspect),
			replay: map[string]any{"input": cs.show(), "request": req, "at": at, "observed": observed, "expected": expected,
				"expected_from": "model (History.Add/Clear/SetLimit, Stash.Add/Clear driven through the REPL loop and its editor)", "relies_on": relies}}
	}
	for si, ses := range sessions {
		res, note := c20EdRunSession(c, base, dir, home, ses)
		if note != "" {
			return problem("editor-session", "run", "panic", fmt.Sprintf("session %d", si+1), note, "the REPL reads the typed forms and leaves at C-d")
		}
		if !res.Done || len(res.Snaps) != len(ses)+1 {
			return problem("editor-session", "run", "panic", fmt.Sprintf("session %d", si+1),
				fmt.Sprintf("%d prompts for %d typed forms (done=%v)", len(res.Snaps), len(ses), res.Done), "one fresh prompt per typed form")
		}
		for k, snap := range res.Snaps {
			m := marks[si][k]
			wantH, wantL := hmem(m.h)
			at := fmt.Sprintf("session %d, after %d typed forms", si+1, k)
			step := "memory"
			op := "editor-add"
			if k == 0 {
				step = "restart"
				op = "editor-start"
			} else if ses[k-1].Kind == "stash" {
				op = "editor-stash"
			}
			if got := c20EdWire(snap.Hist); got != wantH {
				asp := c20Aspect(c20ParseForms(got), c20ParseForms(wantH), universe)
				return problem(op, step, asp, at, "history "+c20ShowForms(c20ParseForms(got)), "history "+c20ShowForms(c20ParseForms(wantH)),
					"SlipVerif.History.restart_equals_memory", "SlipVerif.History.acknowledged_add_survives")
			}
			wantS := smem(m.s)
			if cs.UseStash && k == 0 {
				wantS = "." // the default stash, which these sessions never add to
			}
			if cs.UseStash && cs.LoadPath && si == 0 && k == 1 {
				wantS = "." // after the setq of *stash-load-path*, before (use-stash …)
			}
			if got := c20EdWire(snap.Stash); got != wantS {
				asp := c20Aspect(c20ParseForms(got), c20ParseForms(wantS), universe)
				return problem(strings.Replace(op, "editor-add", "editor-stash", 1), step, asp, at, "stash "+c20ShowForms(c20ParseForms(got)), "stash "+c20ShowForms(c20ParseForms(wantS)),
					"SlipVerif.History.stash_restart_equals_memory")
			}
			if snap.Limit != strconv.Itoa(wantL) {
				return problem("editor-setlimit", step, "setting", at, "*repl-history-limit* = "+snap.Limit, "*repl-history-limit* = "+strconv.Itoa(wantL),
					"SlipVerif.History.settings_restart")
			}
		}
		// the files after the process has ended: bytes as the model says, and a fresh Load = memory
		endH, _ := hmem(marks[si][len(ses)].h)
		file := c20ReadFile(filepath.Join(dir, "history"))
		var want *string
		if n := marks[si][len(ses)].h; n > 0 {
			want = hexp[n-1].Hist
		}
		h, pm := c20Fresh(filepath.Join(dir, "history"), 1000)
		if pm != "" {
			return problem("editor-add", "final", "panic", fmt.Sprintf("after session %d", si+1), "History.Load panics: "+pm, "the history file loads")
		}
		if got := c20FormsWire(c20HistForms(h)); got != endH {
			asp := c20Aspect(c20ParseForms(got), c20ParseForms(endH), universe)
			return problem("editor-add", "final", asp, fmt.Sprintf("after session %d", si+1), "a fresh Load gives "+c20ShowForms(c20ParseForms(got))+"; history file "+c20ShowContent(file),
				"what the session had in memory: "+c20ShowForms(c20ParseForms(endH)), "SlipVerif.History.restart_equals_memory")
		}
		if !c20Same(file, want) && !(want == nil && file != nil && *file == "") {
			return &c20Problem{noInput: true, sig: cell + "fs-bytes editor", replay: map[string]any{"input": cs.show(), "request": req,
				"observed": "history file " + c20ShowContent(file), "expected": "history file " + c20ShowContent(want)}}
		}
	}
	return nil
}

// forms a user types: every line but the last leaves a list open (Enter then starts a new line), no
// tabs (the tab key completes), first line without leading and last line without trailing blanks
func c20EdForm(r *lib.Rng, i int) c20Form {
	atoms := []string{"1", "22", "x", "nil", "\"a b\"", "\"é ☃\"", ":k", "'q", "3.5", "λ", "\"semi;colon\"", "\"  \""}
	atom := func() string { return atoms[r.Intn(len(atoms))] }
	switch r.Intn(6) {
	case 0:
		return c20Form{fmt.Sprintf("(list %d %s)", i, atom())}
	case 1:
		return c20Form{fmt.Sprintf("(list %d", i), "      " + atom() + ")"}
	case 2:
		return c20Form{fmt.Sprintf("(list (list %d %s)", i, atom()), "  (list " + atom(), "    " + atom() + "))"}
	case 3:
		return c20Form{fmt.Sprintf("(quote (%s  %d))", atom(), i)}
	case 4:
		return c20Form{fmt.Sprintf("(undefined-function-c20 %d)", i)} // an error: still entered into the history
	default:
		return c20Form{fmt.Sprintf("(list %d", i), "", "  " + atom() + ")"} // an empty line inside
	}
}

func c20EdCases(c *lib.Ctx, r *lib.Rng) []c20EdCase {
	F := func(lines ...string) c20EdAction { return c20EdAction{Kind: "form", Lines: lines} }
	S := func(lines ...string) c20EdAction { return c20EdAction{Kind: "stash", Lines: lines} }
	cases := []c20EdCase{
		{Cell: "editor/plain", Sessions: [][]c20EdAction{{F("(list 1 2)"), F("(list 1", "      3)"), F("\"héllo ☃\""), F("(list 1 2)")}, {F("(list 4)")}}},
		{Cell: "editor/repeat-and-error", Sessions: [][]c20EdAction{{F("(list 1)"), F("(list 1)"), F("(no-such-fn 1)"), F("unbound-c20"), F("(list 1)")}, {F("(list 1)"), F("(list 2)")}}},
		{Cell: "editor/limit-then-compaction", Sessions: [][]c20EdAction{
			{F("(setq *repl-history-limit* 3)"), F("(list 1)"), F("(list 2", "  3)"), F("(list 4)"), F("(list 5)")},
			{F("(list 6)"), F("(list 7)"), F("(list 8)"), F("(list 9)")}, {F("(list 10)")}}},
		{Cell: "editor/limit-shrinks-below-size", Sessions: [][]c20EdAction{
			{F("(list 1)"), F("(list 2)"), F("(list 3)"), F("(list 4)"), F("(list 5)"), F("(list 6)"), F("(setq *repl-history-limit* 2)")},
			{F("(list 7)"), F("(list 8)")}, {F("(list 9)")}}},
		{Cell: "editor/limit-zero", Sessions: [][]c20EdAction{{F("(list 1)"), F("(setq *repl-history-limit* 0)"), F("(list 2)")}, {F("(list 3)"), F("(setq *repl-history-limit* 5)"), F("(list 4)")}, {F("(list 5)")}}},
		{Cell: "editor/clear-history", Sessions: [][]c20EdAction{{F("(list 1)"), F("(list 2)"), F("(list 3)"), F("(clear-history :start 1 :end 2)"), F("(list 4)")}, {F("(clear-history)"), F("(list 5)")}, {F("(list 6)")}}},
		{Cell: "editor/default-stash", Sessions: [][]c20EdAction{{S("(list 1 2)"), F("(list 3)"), S("(list 4", "  (list 5", "    6))")}, {S("(list 7)")}, {F("(clear-stash)"), S("(list 8)")}, {F("(list 9)")}}},
		{Cell: "editor/use-stash", UseStash: true, Sessions: [][]c20EdAction{{F("(use-stash \"c20s\")"), S("(list 1", "  \"é\")"), S("(list 2)")}, {F("(use-stash \"c20s\")"), S("(list 3)")}, {F("(use-stash \"c20s\")")}}},
		{Cell: "editor/stash-load-path", LoadPath: true, UseStash: true, Sessions: [][]c20EdAction{{F("(use-stash \"c20p\")"), S("(list 1)"), S("(list 2", "  3)")}, {F("(use-stash \"c20p\")"), S("(list 4)")}, {F("(use-stash \"c20p\")")}}},
	}
	for n := c.Scale(8, 60); n > 0; n-- {
		useStash := r.Chance(50)
		cs := c20EdCase{UseStash: useStash, LoadPath: useStash && r.Chance(40)}
		i := 0
		for s := 1 + r.Intn(3); s > 0; s-- {
			var ses []c20EdAction
			if useStash {
				ses = append(ses, F("(use-stash \"c20r\")"))
			}
			for k := 1 + r.Intn(7); k > 0; k-- {
				i++
				switch x := r.Intn(20); {
				case x == 0:
					ses = append(ses, F(fmt.Sprintf("(setq *repl-history-limit* %d)", []int{0, 1, 2, 3, 5, 10, 11, 1000}[r.Intn(8)])))
				case x == 1:
					ses = append(ses, F("(clear-history)"))
				case x == 2:
					ses = append(ses, F(fmt.Sprintf("(clear-history :start %d :end %d)", r.Intn(3), r.Intn(4))))
				case x == 3:
					ses = append(ses, F("(clear-stash)"))
				case x < 8:
					f := c20EdForm(r, i)
					if len(f) == 3 && f[1] == "" { // an empty line is outside the stash guard
						f = c20Form{f[0], f[2]}
					}
					ses = append(ses, c20EdAction{Kind: "stash", Lines: f})
				default:
					ses = append(ses, c20EdAction{Kind: "form", Lines: c20EdForm(r, i)})
				}
			}
			cs.Sessions = append(cs.Sessions, ses)
		}
		cases = append(cases, cs)
	}
	return cases
}

func c20RunEditor(c *lib.Ctx) (int, int) {
	cases := c20EdCases(c, c20Rng)
	base := filepath.Join(c.Root, ".work", "c20", fmt.Sprintf("ed-%d", os.Getpid()))
	defer os.RemoveAll(base)
	plans := make([]c20EdPlan, len(cases))
	var reqs []string
	for i, cs := range cases {
		plans[i] = c20EdMakePlan(filepath.Join(base, fmt.Sprintf("case%d", i)), cs)
		reqs = append(reqs, plans[i].reqs...)
	}
	replies := c.Model(reqs)
	problems := make([]*c20Problem, len(cases))
	var wg sync.WaitGroup
	next := make(chan int)
	for w := 0; w < 6; w++ {
		wg.Add(1)
		go func() {
			defer wg.Done()
			for i := range next {
				dir := filepath.Join(base, fmt.Sprintf("case%d", i))
				problems[i] = c20EdRunCase(c, dir, cases[i], plans[i], replies[2*i:2*i+2])
				_ = os.RemoveAll(dir)
			}
		}()
	}
	for i := range cases {
		next <- i
	}
	close(next)
	wg.Wait()
	agree, typed, sessions := 0, 0, 0
	for i, cs := range cases {
		for _, s := range cs.Sessions {
			sessions++
			typed += len(s)
			for _, a := range s {
				c.Ev.Hist("event", "editor-"+a.Kind)
			}
		}
		c.Ev.Case(cs.request(), len(cs.Sessions) > 1)
		if i == 0 || i == len(cases)-1 {
			c.Ev.Sample(map[string]string{"case": cs.show(), "cell": cs.Cell})
		}
		if p := problems[i]; p != nil {
			c20Report(c, p, cs.Cell != "")
		} else {
			agree++
		}
	}
	c.Ev.Coverage["editor_sessions_real_processes"] = sessions
	c.Ev.Coverage["editor_forms_typed"] = typed
	return len(cases), agree
}

func c20ReplayEditor(c *lib.Ctx, req string) {
	var cs c20EdCase
	if err := json.Unmarshal([]byte(c20Unhex(strings.TrimPrefix(req, "hist ed "))), &cs); err != nil {
		fmt.Println("replay file has no usable request")
		return
	}
	base := filepath.Join(c.Root, ".work", "c20", fmt.Sprintf("replay-ed-%d", os.Getpid()))
	defer os.RemoveAll(base)
	pl := c20EdMakePlan(base, cs)
	p := c20EdRunCase(c, base, cs, pl, c.Model(pl.reqs))
	fmt.Printf("replay %s\n", cs.show())
	if p == nil {
		fmt.Println("  the REPL sessions agree with the model; every restart loads what the session had")
		return
	}
	fmt.Printf("  signature: %s\n  at       : %v\n  observed : %v\n  expected : %v\n", p.sig, p.replay["at"], p.replay["observed"], p.replay["expected"])
	if p.noInput {
		c.ReportBroken(p.sig, p.replay)
	} else {
		c.Report(p.sig, false, p.replay)
	}
}
