package main

// C03 — print then read gives back an equal object of the same type; pretty printing changes only
// white space.
//
// W (witness, no model in the loop): slip.Read(Printer.Append(x)) is Equal to x, has the same
//   type-of, and (arrays) the same element under every index tuple; the pretty and the flat text
//   read back to equal objects.
// K (correspondence): slip's flat text == model printFlat text byte for byte (float-free
//   universe); the model reader applied to slip's flat and pretty text gives back the object;
//   slip's reader and the model reader agree on every printed text.

import (
	"fmt"
	"math"
	"math/big"
	"os"
	"path/filepath"
	"sort"
	"strconv"
	"strings"
	"time"
	"unicode"
	"unicode/utf8"

	"github.com/ohler55/slip"
	"verif/harness/lib"
)

func init() { props["C03"] = runC03 }

// ---------------------------------------------------------------------------------------------
// printer configuration

type c3Cfg struct {
	base     int
	radix    bool
	cs       string // d u c n  (:downcase :upcase :capitalize nil)
	pretty   bool
	margin   int
	readably bool
	array    bool
}

func (cf c3Cfg) String() string {
	return fmt.Sprintf("base=%d radix=%v case=%s pretty=%v margin=%d readably=%v array=%v",
		cf.base, cf.radix, cf.cs, cf.pretty, cf.margin, cf.readably, cf.array)
}

// wire form for the model: base:radix:case:readably:array
func (cf c3Cfg) wire() string {
	b := func(x bool) string {
		if x {
			return "1"
		}
		return "0"
	}
	return fmt.Sprintf("%d:%s:%s:%s:%s", cf.base, b(cf.radix), cf.cs, b(cf.readably), b(cf.array))
}

func (cf c3Cfg) asMap() map[string]any {
	return map[string]any{"base": cf.base, "radix": cf.radix, "case": cf.cs, "pretty": cf.pretty,
		"margin": cf.margin, "readably": cf.readably, "array": cf.array}
}

func c3CfgFromMap(m map[string]any) c3Cfg {
	num := func(k string) int {
		f, _ := m[k].(float64)
		return int(f)
	}
	bl := func(k string) bool {
		b, _ := m[k].(bool)
		return b
	}
	cs, _ := m["case"].(string)
	return c3Cfg{base: num("base"), radix: bl("radix"), cs: cs, pretty: bl("pretty"), margin: num("margin"),
		readably: bl("readably"), array: bl("array")}
}

func (cf c3Cfg) printer() *slip.Printer {
	p := *slip.DefaultPrinter()
	p.Base = uint(cf.base)
	p.Radix = cf.radix
	switch cf.cs {
	case "d":
		p.Case = slip.Symbol(":downcase")
	case "u":
		p.Case = slip.Symbol(":upcase")
	case "c":
		p.Case = slip.Symbol(":capitalize")
	default:
		p.Case = nil
	}
	p.Pretty = cf.pretty
	p.RightMargin = uint(cf.margin)
	p.Readably = cf.readably
	p.Array = cf.array
	p.Escape = true
	return &p
}

// lispKeys renders the configuration as write-to-string keyword arguments.
func (cf c3Cfg) lispKeys() string {
	tn := func(x bool) string {
		if x {
			return "t"
		}
		return "nil"
	}
	cs := map[string]string{"d": ":downcase", "u": ":upcase", "c": ":capitalize", "n": "nil"}[cf.cs]
	return fmt.Sprintf(":base %d :radix %s :case %s :pretty %s :right-margin %d :readably %s :array %s :escape t",
		cf.base, tn(cf.radix), cs, tn(cf.pretty), cf.margin, tn(cf.readably), tn(cf.array))
}

// readBase is the *read-base* the text is read with: the standard 10 when the printer marks the
// base itself (*print-radix*); without the marker a number printed in another base is readable only
// when *read-base* is bound to the print base, so that is how it is read.
func (cf c3Cfg) readBase() int {
	if cf.radix {
		return 10
	}
	return cf.base
}

// ---------------------------------------------------------------------------------------------
// the implementation side

type c3Read struct {
	ok    bool
	obj   slip.Object
	count int
	class string // condition class when !ok
	msg   string
}

func c3Print(cf c3Cfg, x slip.Object) (text string, class string) {
	o := lib.Protect(func() slip.Object {
		return slip.String(cf.printer().Append(nil, x, 0))
	})
	if !o.Ok {
		return "", o.Class
	}
	return string(o.Value.(slip.String)), ""
}

func c3ReadText(text string, rbase int) c3Read {
	scope := slip.NewScope()
	if rbase != 10 {
		scope.Let(slip.Symbol("*read-base*"), slip.Fixnum(rbase))
	}
	var code slip.Code
	o := lib.Protect(func() slip.Object {
		code = slip.Read([]byte(text), scope)
		return nil
	})
	if !o.Ok {
		return c3Read{class: o.Class, msg: o.Msg}
	}
	r := c3Read{ok: true, count: len(code)}
	if len(code) > 0 {
		r.obj = code[0]
	}
	return r
}

func c3TypeOf(x slip.Object) string {
	if x == nil {
		return "null"
	}
	return strings.ToLower(string(x.Hierarchy()[0]))
}

// c3Compare is the property's relation between the original and the object read back:
// "" when it holds, else the aspect that fails.
func c3Compare(x, y slip.Object) string {
	if !slip.ObjectEqual(x, y) {
		if c3TypeOf(x) != c3TypeOf(y) {
			return "type:" + c3TypeOf(y)
		}
		return "not-equal"
	}
	return c3DeepTypes(x, y)
}

// c3DeepTypes checks type-of on every node of two Equal objects, and for arrays that every index
// tuple addresses the same element.
func c3DeepTypes(x, y slip.Object) string {
	if c3TypeOf(x) != c3TypeOf(y) {
		return "type:" + c3TypeOf(y)
	}
	switch tx := x.(type) {
	case slip.List:
		ty, _ := y.(slip.List)
		for i := range tx {
			if i < len(ty) {
				if a := c3DeepTypes(tx[i], ty[i]); a != "" {
					return a
				}
			}
		}
	case slip.Tail:
		if ty, ok := y.(slip.Tail); ok {
			return c3DeepTypes(tx.Value, ty.Value)
		}
	case *slip.Vector:
		ty, _ := y.(*slip.Vector)
		lx, ly := tx.AsList(), ty.AsList()
		for i := range lx {
			if i < len(ly) {
				if a := c3DeepTypes(lx[i], ly[i]); a != "" {
					return a
				}
			}
		}
	case *slip.Array:
		ty, _ := y.(*slip.Array)
		dims := tx.Dimensions()
		idx := make([]int, len(dims))
		total := 1
		for _, d := range dims {
			total *= d
		}
		for n := 0; n < total; n++ {
			r := n
			for i := len(dims) - 1; i >= 0; i-- {
				idx[i] = r % dims[i]
				r /= dims[i]
			}
			var ex, ey slip.Object
			o := lib.Protect(func() slip.Object {
				ex, ey = tx.Get(idx...), ty.Get(idx...)
				return nil
			})
			if !o.Ok || !slip.ObjectEqual(ex, ey) {
				return "array-index"
			}
			if a := c3DeepTypes(ex, ey); a != "" {
				return a
			}
		}
	}
	return ""
}

// c3Roundtrip prints x under cf, reads the text back and evaluates the property.
func c3Roundtrip(cf c3Cfg, x slip.Object) (text, aspect string, back c3Read) {
	text, class := c3Print(cf, x)
	if class != "" {
		return "", "print-condition:" + class, c3Read{}
	}
	back = c3ReadText(text, cf.readBase())
	switch {
	case !back.ok:
		aspect = "read-condition:" + back.class
	case back.count != 1:
		aspect = fmt.Sprintf("read-count:%d", minInt(back.count, 3))
	default:
		aspect = c3Compare(x, back.obj)
	}
	return
}

// c3WithGlobal runs f while the package-global printer (what *print-…* name when nothing is bound)
// is changed by set, and restores it.
func c3WithGlobal(set func(g *slip.Printer), f func()) {
	g := slip.DefaultPrinter()
	saved := *g
	defer func() { *g = saved }()
	set(g)
	f()
}

// c3AntiGlobal makes every setting of the global printer differ from cf.
func c3AntiGlobal(cf c3Cfg) func(g *slip.Printer) {
	return func(g *slip.Printer) {
		g.Base = uint(2 + (cf.base+15)%35)
		g.Radix = !cf.radix
		if cf.cs == "u" {
			g.Case = slip.Symbol(":capitalize")
		} else {
			g.Case = slip.Symbol(":upcase")
		}
		g.Pretty = !cf.pretty
		g.RightMargin = uint(cf.margin%200 + 7)
		g.Readably = !cf.readably
		g.Array = !cf.array
		g.Escape = false
		g.Length, g.Level, g.Lines = 1, 1, 1
		g.Prec = 3
	}
}

// c3PrintUnderAntiGlobal prints x with the scoped printer of cf (made from the standard global
// printer, as c3Print does) while the global printer holds the opposite of every setting.
func c3PrintUnderAntiGlobal(cf c3Cfg, x slip.Object) (text string) {
	p := cf.printer()
	c3WithGlobal(c3AntiGlobal(cf), func() {
		o := lib.Protect(func() slip.Object { return slip.String(p.Append(nil, x, 0)) })
		if o.Ok {
			text = string(o.Value.(slip.String))
		} else {
			text = "condition:" + o.Class
		}
	})
	return
}

// c3AltReadBases: the read bases a radix-marked text is read under besides the standard one.
func c3AltReadBases(base int) []int {
	if base == 36 {
		return []int{2, 36}
	}
	return []int{36, base}
}

func minInt(a, b int) int {
	if a < b {
		return a
	}
	return b
}

// ---------------------------------------------------------------------------------------------
// cases

type c3Case struct {
	obj   *c3Obj
	cf    c3Cfg
	sweep bool
	cell  string // sweep cell identity: "kind=… class=… var=…"
}

// inDomain: the settings documented to keep output readable — *print-readably* on, arrays printed
// (*print-array*) when the object has any; the base is either marked by *print-radix* (read under the
// standard *read-base* 10) or the text is read with *read-base* bound to *print-base*. In that second
// family an integer whose digits spell t or nil (29 in base 30.., 23b²+18b+21 in base 24..) is a
// listed finding and appears only in its own sweep cells.
func (cs c3Case) inDomain() bool {
	if !cs.cf.readably {
		return false
	}
	if !cs.cf.array && cs.obj.has(func(o *c3Obj) bool { return o.kind == "vec" || o.kind == "arr" }) {
		return false
	}
	return true
}

// c3SpellsConstant: the integer's digits in the base read as the token t or nil.
func c3SpellsConstant(n *big.Int, base int) string {
	switch n.Text(base) {
	case "t":
		return "t"
	case "nil":
		return "nil"
	}
	return ""
}

func (cs c3Case) key() string { return cs.cf.String() + " " + cs.obj.term() }

func (cs c3Case) replay() map[string]any {
	return map[string]any{"term": cs.obj.term(), "config": cs.cf.asMap(), "cell": cs.cell, "sweep": cs.sweep}
}

// nontrivial per DESIGN Appendix C: ≥ 1 container level or a boundary leaf.
func (cs c3Case) nontrivial() bool {
	return cs.obj.has(func(o *c3Obj) bool {
		switch o.kind {
		case "list", "vec", "arr":
			return true
		case "int":
			return o.n.BitLen() >= 31
		case "ratio", "sflt", "dflt", "lflt":
			return true
		case "chr":
			return !(o.r >= 'a' && o.r <= 'z' || o.r >= '0' && o.r <= '9')
		case "sym":
			return c3NeedsQuote(o.s)
		case "str":
			return strings.ContainsAny(o.s, "\"\\") || !c3PlainASCII(o.s)
		}
		return false
	})
}

func c3PlainASCII(s string) bool {
	for _, r := range s {
		if r < 0x20 || r > 0x7e {
			return false
		}
	}
	return true
}

// c3NeedsQuote: a symbol name that cannot be written as a bare token (harness-side
// classification for evidence only).
func c3NeedsQuote(name string) bool {
	if name == "" {
		return true
	}
	for _, r := range name {
		if !(r >= 'a' && r <= 'z' || r >= 'A' && r <= 'Z' || r == '-' || r == '*' || r == '_') {
			return true
		}
	}
	return false
}

// ---------------------------------------------------------------------------------------------

func c3Signature(cell, aspect string) string { return cell + " aspect=" + aspect }

// c3Shrink finds a minimal failing sub-object of a composite case (same configuration).
func c3Shrink(cs c3Case, fails func(c3Case) bool) c3Case {
	for {
		shrunk := false
		kids := append([]*c3Obj{}, cs.obj.elems...)
		if cs.obj.tail != nil {
			kids = append(kids, cs.obj.tail)
		}
		for _, k := range kids {
			sub := cs
			sub.obj = k
			if fails(sub) {
				cs, shrunk = sub, true
				break
			}
		}
		if !shrunk && len(cs.obj.elems) > 1 && cs.obj.kind != "arr" {
			// drop elements one at a time
			for i := range cs.obj.elems {
				sub := cs
				cp := *cs.obj
				cp.elems = append(append([]*c3Obj{}, cs.obj.elems[:i]...), cs.obj.elems[i+1:]...)
				sub.obj = &cp
				if fails(sub) {
					cs, shrunk = sub, true
					break
				}
			}
		}
		if !shrunk {
			return cs
		}
	}
}

func c3CellOfLeaf(o *c3Obj) string {
	switch o.kind {
	case "list":
		if o.tail != nil {
			return "kind=dotted-list"
		}
		return "kind=list"
	case "vec":
		return "kind=vector"
	case "arr":
		return fmt.Sprintf("kind=array rank=%d", len(o.dims))
	case "chr":
		return fmt.Sprintf("kind=character class=U+%04X", o.r)
	case "sym":
		return "kind=symbol class=" + c3SymClass(o.s)
	case "str":
		return "kind=string class=" + c3StrClass(o.s)
	case "int":
		return "kind=integer"
	case "sflt":
		return "kind=single-float"
	case "dflt":
		return "kind=double-float"
	case "lflt":
		return "kind=long-float class=" + c3LongClass(o.s)
	}
	return "kind=" + o.kind
}

// c3SymClass names the feature of a symbol name that matters for printing.
func c3SymClass(name string) string {
	if name == "" {
		return "empty"
	}
	if strings.Trim(name, ".") == "" {
		return "dots"
	}
	if c3NumberLike(name) {
		return "number-like"
	}
	if c3TimeLike(name) {
		return "time-like"
	}
	if c3CaseUnstable(name) {
		return "case-unstable"
	}
	var feats []string
	seen := map[string]bool{}
	for _, r := range name {
		var f string
		switch {
		case r >= 0x80:
			f = "non-ascii"
		case r < 0x20 || r == 0x7f:
			f = "control"
		case r >= 'a' && r <= 'z' || r >= 'A' && r <= 'Z' || r >= '0' && r <= '9':
			continue
		default:
			f = fmt.Sprintf("char-U+%04X", r)
		}
		if !seen[f] {
			seen[f] = true
			feats = append(feats, f)
		}
	}
	if len(feats) == 0 {
		return "plain"
	}
	sort.Strings(feats)
	return strings.Join(feats, "+")
}

// c3TimeLike: slip's reader takes @<RFC 3339 time or date> for a time literal.
func c3TimeLike(name string) bool {
	if len(name) < 2 || name[0] != '@' {
		return false
	}
	for _, layout := range []string{time.RFC3339Nano, time.RFC3339, "2006-01-02T15:04:05", "2006-01-02"} {
		if _, err := time.ParseInLocation(layout, name[1:], time.UTC); err == nil {
			return true
		}
	}
	return false
}

// c3CaseUnstable: the name has a letter whose upper or lower case form is not equal to it under
// simple case folding (U+0130, U+0131 …), so *print-case* turns it into another symbol.
func c3CaseUnstable(name string) bool {
	for _, r := range name {
		if r < 0x80 {
			continue
		}
		if !strings.EqualFold(string(r), strings.ToLower(string(r))) || !strings.EqualFold(string(r), strings.ToUpper(string(r))) {
			return true
		}
	}
	return false
}

// c3CasedNonASCII: the name has a non-ASCII letter with case; the model's caseName is ASCII only,
// such names are checked by the round trip (W) but not against the model text (K).
func c3CasedNonASCII(name string) bool {
	for _, r := range name {
		if r >= 0x80 && (unicode.ToLower(r) != r || unicode.ToUpper(r) != r || unicode.ToTitle(r) != r) {
			return true
		}
	}
	return false
}

// c3LongClass: a long float gets its precision from the number of characters of its digit string
// and is printed with the shortest digits for that precision, so whether it survives depends on
// the individual value; the sweep cells are the individual source texts.
func c3LongClass(text string) string { return text }

// c3NumberLike: the token would be taken for a number by a Common Lisp reader in base 10
// (integer with optional trailing dot, ratio, decimal or exponent float).
func c3NumberLike(name string) bool {
	s := strings.ToLower(name)
	if s == "" {
		return false
	}
	if s[0] == '+' || s[0] == '-' {
		s = s[1:]
	}
	digits := func(t string) bool {
		if t == "" {
			return false
		}
		for _, c := range t {
			if c < '0' || c > '9' {
				return false
			}
		}
		return true
	}
	if digits(strings.TrimSuffix(s, ".")) {
		return true
	}
	if n, d, ok := strings.Cut(s, "/"); ok && digits(n) && digits(strings.TrimPrefix(strings.TrimPrefix(d, "+"), "-")) {
		return true
	}
	// float: digits [. digits] [marker [sign] digits]
	mant, exp := s, ""
	if i := strings.IndexAny(s, "esfdl"); i >= 0 {
		mant, exp = s[:i], s[i+1:]
		exp = strings.TrimPrefix(strings.TrimPrefix(exp, "+"), "-")
		if !digits(exp) {
			return false
		}
	}
	ip, fp, hasDot := strings.Cut(mant, ".")
	if !digits(ip) {
		return false
	}
	if hasDot && fp != "" && !digits(fp) {
		return false
	}
	return hasDot || exp != ""
}

func c3StrClass(s string) string {
	seen := map[string]bool{}
	var feats []string
	for _, r := range s {
		var f string
		switch {
		case r == '"':
			f = "quote"
		case r == '\\':
			f = "backslash"
		case r == '\t' || r == '\n' || r == '\r':
			f = "blank-control"
		case r < 0x20 || r == 0x7f:
			f = "control"
		case r >= 0x80:
			f = "non-ascii"
		default:
			continue
		}
		if !seen[f] {
			seen[f] = true
			feats = append(feats, f)
		}
	}
	if len(feats) == 0 {
		return "plain"
	}
	sort.Strings(feats)
	return strings.Join(feats, "+")
}

// ---------------------------------------------------------------------------------------------
// generators

var c3Cases = []string{"d", "u", "c", "n"}

// c3BaseClass groups the bases by the form of their radix prefix: #b, #o, #x, the trailing point
// of base 10, #NNr for the others.
func c3BaseClass(b int) string {
	switch b {
	case 2, 8, 10, 16:
		return fmt.Sprint(b)
	}
	return "other"
}

func c3DefaultCfg() c3Cfg {
	return c3Cfg{base: 10, radix: false, cs: "d", pretty: false, margin: 80, readably: true, array: true}
}

func c3BoundaryInts() []*big.Int {
	p := func(e uint) *big.Int { return new(big.Int).Lsh(big.NewInt(1), e) }
	var vals []*big.Int
	add := func(n *big.Int) { vals = append(vals, n, new(big.Int).Neg(n)) }
	vals = append(vals, big.NewInt(0))
	for _, k := range []int64{1, 2, 7, 9, 10, 11, 35, 36, 37, 255, 256, 1000} {
		add(big.NewInt(k))
	}
	for _, e := range []uint{31, 32, 62, 63, 64, 127, 128} {
		add(new(big.Int).Sub(p(e), big.NewInt(1)))
		add(p(e))
		add(new(big.Int).Add(p(e), big.NewInt(1)))
	}
	g, _ := new(big.Int).SetString("123456789012345678901234567890123456789012345678901234567890", 10)
	add(g)
	return vals
}

// c3BoundaryMagnitudes: 2^e-1, 2^e, 2^e+1 around the machine word sizes.
func c3BoundaryMagnitudes() []*big.Int {
	var out []*big.Int
	for _, e := range []uint{31, 32, 62, 63, 64, 127, 128} {
		p := new(big.Int).Lsh(big.NewInt(1), e)
		out = append(out, new(big.Int).Sub(p, big.NewInt(1)), p, new(big.Int).Add(p, big.NewInt(1)))
	}
	return out
}

// c3CoprimeSmall returns a small integer ≥ 2 with no common factor with m.
func c3CoprimeSmall(m *big.Int) *big.Int {
	for _, k := range []int64{3, 2, 5, 7, 11, 13} {
		d := big.NewInt(k)
		if new(big.Int).GCD(nil, nil, new(big.Int).Abs(m), d).Cmp(big.NewInt(1)) == 0 {
			return d
		}
	}
	return big.NewInt(17)
}

// c3RandInt: an integer of one of the bit-size classes, or a word-size boundary ± a small offset.
func c3RandInt(r *lib.Rng) *big.Int {
	if r.Chance(25) {
		mags := c3BoundaryMagnitudes()
		n := new(big.Int).Add(mags[r.Intn(len(mags))], big.NewInt(int64(r.Intn(7)-3)))
		if r.Bool() {
			n.Neg(n)
		}
		return n
	}
	return r.BigBits([]int{4, 8, 31, 33, 62, 63, 64, 65, 100, 200}[r.Intn(10)])
}

var c3SymbolNames = []string{
	"abc", "foo-bar", "*special*", "a", "FooBar", "CAPS", "x1", "a.b", "a+b", "-", "+", "1+", "1-", "<=", "a_b", "a%b", "a$",
	"a:b", "&rest", "a~", "a^b", "a=b", "a<b>", "x*",
}

// names the reader would take for something else unless they are quoted
var c3NumberLikeNames = []string{
	"123", "-7", "+5", "12.", "1/2", "-3/4", "1.5", ".5x", "1e5", "1d0", "2.5s-3", "1f2", "3l4", "007", "1e", "e1",
	"1.5.2", "1/2/3", "12a",
}

var c3PipeNames = []string{
	"a b", "a(b", "a)b", "a\"b", "a'b", "a;b", "a,b", "a`b", "a#b", "#a", "a!b", "a&b", "a/b", "a[b]", "a{b}", "",
	"a\tb", "a\nb", " ", "(", ")", "hello world (x)",
}

const c3TokenPunct = "-*+/<>=_%$.~^"
const c3QuotePunct = " ()\"';,`#!&[]{}|\\?"

var c3Keywords = []string{":a", ":foo-bar", ":Key", ":x1", ":UP"}

func c3SampleRunes(r *lib.Rng, n int) []rune {
	fixed := []rune{0x80, 0x85, 0xa0, 0xe9, 0xff, 0x100, 0x130, 0x131, 0x17f, 0x3a3, 0x3c2, 0x7ff, 0x800, 0x2028, 0x2029,
		0x212a, 0x3042, 0xd7ff, 0xe000, 0xfeff, 0xfffd, 0xffff, 0x10000, 0x1f600, 0x10ffff}
	out := append([]rune{}, fixed...)
	for len(out) < len(fixed)+n {
		var c rune
		switch r.Intn(4) {
		case 0:
			c = rune(0x80 + r.Intn(0x800-0x80))
		case 1:
			c = rune(0x800 + r.Intn(0x10000-0x800))
		case 2:
			c = rune(0x10000 + r.Intn(0x110000-0x10000))
		default:
			c = rune(0xa0 + r.Intn(0x250-0xa0))
		}
		if c >= 0xd800 && c <= 0xdfff {
			continue
		}
		out = append(out, c)
	}
	return out
}

type c3Gen struct {
	c     *lib.Ctx
	cases []c3Case
	avoid c3Avoid
}

// c3Avoid lists the constructs the composite generators must not emit (known findings).
type c3Avoid struct {
	symClass  map[string]bool
	chars     map[rune]bool
	emptyObj  bool
	longFloat bool
}

func (g *c3Gen) add(o *c3Obj, cf c3Cfg, cell string) {
	g.cases = append(g.cases, c3Case{obj: o, cf: cf, sweep: cell != "", cell: cell})
}

// sweeps: finite, seed-independent single-cause cells.
func (g *c3Gen) sweeps() {
	def := c3DefaultCfg()
	thorough := g.c.Thorough()
	// S1 integers and S2 ratios: boundary values × every base × radix
	ints := c3BoundaryInts()
	for base := 2; base <= 36; base++ {
		for _, radix := range []bool{false, true} {
			cf := def
			cf.base, cf.radix = base, radix
			for _, n := range ints {
				g.add(c3Int(n), cf, fmt.Sprintf("kind=integer var=base:%s,radix:%v", c3BaseClass(base), radix))
			}
			for _, q := range [][2]int64{{1, 2}, {-1, 3}, {7, 36}, {-35, 37}, {1 << 40, 3}, {5, 1 << 40}} {
				g.add(c3Ratio(big.NewInt(q[0]), big.NewInt(q[1])), cf, fmt.Sprintf("kind=ratio var=base:%s,radix:%v", c3BaseClass(base), radix))
			}
			big1 := new(big.Int).Lsh(big.NewInt(1), 70)
			g.add(c3Ratio(new(big.Int).Add(big1, big.NewInt(1)), big1), cf, fmt.Sprintf("kind=ratio var=base:%s,radix:%v", c3BaseClass(base), radix))
			g.add(c3Ratio(big.NewInt(-3), new(big.Int).Add(big1, big.NewInt(1))), cf, fmt.Sprintf("kind=ratio var=base:%s,radix:%v", c3BaseClass(base), radix))
			// every word-size boundary (2^31 .. 2^128, ±1) as numerator (both signs) over a small
			// denominator and as denominator under a small numerator
			cell := fmt.Sprintf("kind=ratio class=boundary var=base:%s,radix:%v", c3BaseClass(base), radix)
			for _, m := range c3BoundaryMagnitudes() {
				d := c3CoprimeSmall(m)
				g.add(c3Ratio(m, d), cf, cell)
				g.add(c3Ratio(new(big.Int).Neg(m), d), cf, cell)
				g.add(c3Ratio(d, m), cf, cell)
				g.add(c3Ratio(new(big.Int).Neg(d), m), cf, cell)
			}
		}
	}
	// digit-count boundaries: b^18, b^19, b^20 (±1) — fixnums of 19, 20, 21 digits in the small bases,
	// bignums in the large ones — as integers and as the parts of ratios, with and without radix
	for base := 2; base <= 36; base++ {
		var vals []*big.Int
		for _, e := range []int64{18, 19, 20, 62, 63, 64} {
			pw := new(big.Int).Exp(big.NewInt(int64(base)), big.NewInt(e), nil)
			vals = append(vals, new(big.Int).Sub(pw, big.NewInt(1)), pw, new(big.Int).Add(pw, big.NewInt(1)))
		}
		for _, radix := range []bool{false, true} {
			cf := def
			cf.base, cf.radix = base, radix
			cellI := fmt.Sprintf("kind=integer class=digit-count var=base:%s,radix:%v", c3BaseClass(base), radix)
			cellR := fmt.Sprintf("kind=ratio class=digit-count var=base:%s,radix:%v", c3BaseClass(base), radix)
			for _, v := range vals {
				neg := new(big.Int).Neg(v)
				g.add(c3Int(v), cf, cellI)
				g.add(c3Int(neg), cf, cellI)
				g.add(c3List(c3Int(v), c3Int(neg)), cf, cellI+",in-list")
				d := c3CoprimeSmall(v)
				g.add(c3Ratio(v, d), cf, cellR)
				g.add(c3Ratio(neg, d), cf, cellR)
				g.add(c3Ratio(d, v), cf, cellR)
			}
		}
		// without radix: the digits of 29 are t from base 30 on, those of 23b²+18b+21 are nil from base 24 on
		cf := def
		cf.base = base
		if base >= 30 {
			g.add(c3I(29), cf, "kind=integer class=digits-spell-t var=radix:false,read-base:print-base")
			g.add(c3I(-29), cf, "kind=integer class=digits-spell-minus-t var=radix:false,read-base:print-base")
		}
		if base >= 24 {
			b := int64(base)
			g.add(c3I(23*b*b+18*b+21), cf, "kind=integer class=digits-spell-nil var=radix:false,read-base:print-base")
			g.add(c3I(-(23*b*b + 18*b + 21)), cf, "kind=integer class=digits-spell-minus-nil var=radix:false,read-base:print-base")
		}
	}
	// boundary numerator × boundary denominator, all pairs: under four configurations in the quick
	// tier, under every base × radix in the thorough tier
	pairCfgs := []c3Cfg{}
	for base := 2; base <= 36; base++ {
		for _, radix := range []bool{false, true} {
			if thorough || (base == 10 && !radix) || (radix && (base == 2 || base == 16 || base == 36)) {
				cf := def
				cf.base, cf.radix = base, radix
				pairCfgs = append(pairCfgs, cf)
			}
		}
	}
	mags := c3BoundaryMagnitudes()
	for _, cf := range pairCfgs {
		cell := fmt.Sprintf("kind=ratio class=boundary-pair var=base:%s,radix:%v", c3BaseClass(cf.base), cf.radix)
		for _, n := range mags {
			for _, d := range mags {
				if q := c3Ratio(n, d); q.kind == "ratio" {
					g.add(q, cf, cell)
					g.add(c3Ratio(new(big.Int).Neg(n), d), cf, cell)
				}
			}
		}
	}
	// S3 strings: one special character in the middle / at the ends; readably on and off
	var strRunes []rune
	for c := rune(0); c < 0x80; c++ {
		strRunes = append(strRunes, c)
	}
	strRunes = append(strRunes, c3SampleRunes(lib.NewRng(3), 40)...)
	for _, readably := range []bool{true, false} {
		cf := def
		cf.readably = readably
		for _, c := range strRunes {
			for _, s := range []string{string(c), "a" + string(c) + "b", string(c) + string(c)} {
				g.add(c3Str(s), cf, fmt.Sprintf("kind=string class=U+%04X var=readably:%v", c, readably))
			}
		}
		for _, s := range []string{"", "plain", "two words", `say "hi"`, `back\slash`, `\"`, `"`, `\`, "tab\there", "line\nbreak", "\x00\x01\x1f\x7f",
			"é∑😀", "a b c", "\\u0041", "\\n", "ends with \\"} {
			g.add(c3Str(s), cf, fmt.Sprintf("kind=string class=%s var=readably:%v", c3StrClass(s), readably))
		}
	}
	// size thresholds: strings, symbols and lists around buffer / block sizes, deep nesting
	for _, n := range []int{63, 64, 65, 255, 256, 257, 4095, 4096, 4097, 65535, 65536, 65537} {
		body := strings.Repeat("a", n)
		mid := body[:n/2] + "\"" + body[n/2+1:]
		uni := body[:n-1] + "é"
		for _, str := range []string{body, mid, uni} {
			g.add(c3Str(str), def, fmt.Sprintf("kind=string class=length-%d", n))
		}
		if n <= 4097 {
			for _, name := range []string{"s" + body[1:], "s " + body[2:], body[:n-1] + "é"} {
				g.add(c3Sym(name), def, fmt.Sprintf("kind=symbol class=length-%d var=top", n))
				g.add(c3List(c3Sym("x"), c3Sym(name)), def, fmt.Sprintf("kind=symbol class=length-%d var=in-list", n))
			}
		}
	}
	for _, n := range []int{100, 1000, 5000} {
		elems := make([]*c3Obj, n)
		for i := range elems {
			elems[i] = c3I(int64(i))
		}
		for _, pretty := range []bool{false, true} {
			cf := def
			cf.pretty = pretty
			g.add(c3List(elems...), cf, fmt.Sprintf("kind=list class=length-%d var=pretty:%v", n, pretty))
			g.add(c3Vec(elems...), cf, fmt.Sprintf("kind=vector class=length-%d var=pretty:%v", n, pretty))
			g.add(c3Dotted(c3I(-1), elems...), cf, fmt.Sprintf("kind=dotted-list class=length-%d var=pretty:%v", n, pretty))
		}
	}
	for _, depth := range []int{50, 150} {
		deepL := c3List(c3Sym("leaf"))
		for i := 0; i < depth; i++ {
			deepL = c3List(deepL)
		}
		// nested vectors: slip lays every nested vector out again from column 0 (and so does the
		// model, at a cost that doubles per level), so the vector nesting stays at 12
		deepV := c3Vec(c3Sym("leaf"))
		for i := 0; i < 12; i++ {
			deepV = c3Vec(c3I(int64(i)), deepV)
		}
		for _, pretty := range []bool{false, true} {
			cf := def
			cf.pretty = pretty
			g.add(deepL, cf, fmt.Sprintf("kind=list class=depth-%d var=pretty:%v", depth, pretty))
			if depth == 50 {
				g.add(deepV, cf, fmt.Sprintf("kind=vector class=depth-12 var=pretty:%v", pretty))
			}
		}
	}
	// adjacency: every ordered pair of leaf kinds next to each other in a list (reader or printer
	// state that leaks from one token into the next: escape buffer, temporary base, #-number)
	adj := []*c3Obj{
		c3Str("plain"), c3Str("q\"uote"), c3Str("ctl\x01\u2028"), c3Str(""),
		c3Sym("a b"), c3Sym("a|b\\c"), c3Sym("x\x02y"), c3Sym("bare"), c3Sym(":key"), c3Sym("123"), c3Sym(""),
		c3I(255), c3Int(new(big.Int).Lsh(big.NewInt(1), 70)), c3I(-1), c3Ratio(big.NewInt(-5), big.NewInt(7)),
		c3Chr('a'), c3Chr(' '), c3Chr(1), c3Chr('('), c3Chr(0x1f600),
		c3Vec(c3I(1), c3Sym("v")), c3Vec(), c3Arr([]int{1, 2}, []*c3Obj{c3Str("e"), c3I(2)}),
		c3Nil(), c3T(), c3Dotted(c3I(2), c3Sym("d")), c3List(c3Sym("n"), c3List(c3Str("s"))),
		c3Single(1.5), c3Double(-2.5e10),
	}
	adjKind := func(o *c3Obj) string {
		k := o.kind
		switch o.kind {
		case "str":
			k += ":" + c3StrClass(o.s)
		case "sym":
			k += ":" + c3SymClass(o.s)
		case "chr":
			k += fmt.Sprintf(":U+%04X", o.r)
		case "int":
			k += fmt.Sprintf(":%dbit", o.n.BitLen())
		}
		return k
	}
	for _, cfv := range []struct {
		base   int
		radix  bool
		pretty bool
	}{{10, false, false}, {16, true, false}, {7, true, true}} {
		cf := def
		cf.base, cf.radix, cf.pretty, cf.margin = cfv.base, cfv.radix, cfv.pretty, 20
		for _, a := range adj {
			for _, b := range adj {
				cell := fmt.Sprintf("kind=adjacent first=%s second=%s var=base:%s,radix:%v,pretty:%v", adjKind(a), adjKind(b), c3BaseClass(cfv.base), cfv.radix, cfv.pretty)
				g.add(c3List(a, b, a), cf, cell)
			}
		}
	}
	// S4 characters: every ASCII code, sampled and boundary Unicode scalars
	var chrRunes []rune
	for c := rune(0); c < 0x100; c++ {
		chrRunes = append(chrRunes, c)
	}
	chrRunes = append(chrRunes, c3SampleRunes(lib.NewRng(4), 100)[5:]...)
	for _, c := range chrRunes {
		g.add(c3Chr(c), def, fmt.Sprintf("kind=character class=U+%04X", c))
		// inside a list and a vector (the character is followed by a delimiter)
		g.add(c3List(c3Chr(c), c3Sym("x")), def, fmt.Sprintf("kind=character class=U+%04X var=in-list", c))
	}
	// S5 symbols
	for _, cs := range c3Cases {
		cf := def
		cf.cs = cs
		var names []string
		names = append(names, c3SymbolNames...)
		names = append(names, c3NumberLikeNames...)
		names = append(names, c3PipeNames...)
		names = append(names, c3Keywords...)
		names = append(names, ".", "..", "...", "a|b", "|", "a\\b", "\\", "a\\|b", "t2", "nil2", "@foo", "@2024-01-02", "é", "日本", "straße", "a?", "?",
			"İ", "ı", "ſ", "K", "ǅ", "ﬁ")
		for c := rune(0x21); c < 0x7f; c++ {
			names = append(names, "a"+string(c)+"b", string(c)+"a")
		}
		for _, name := range names {
			class := c3SymClass(name)
			top, inList := "kind=symbol class="+class+" var=top", "kind=symbol class="+class+" var=in-list"
			if class == "case-unstable" {
				top = "kind=symbol class=case-unstable var=case:" + cs
				inList = top
			}
			g.add(c3Sym(name), cf, top)
			g.add(c3List(c3Sym("x"), c3Sym(name), c3Sym("y")), cf, inList)
			pf := cf
			pf.pretty = true
			g.add(c3List(c3Sym("x"), c3Sym(name), c3Sym("y")), pf, inList)
		}
	}
	// number-like names in other bases (radix on: the reader uses base 10; radix off: the base)
	for base := 2; base <= 36; base++ {
		cf := def
		cf.base, cf.radix = base, true
		for _, name := range []string{"10", "abc", "zz", "1/2", "ff"} {
			g.add(c3Sym(name), cf, fmt.Sprintf("kind=symbol class=%s var=base:%s,radix:true", c3SymClass(name), c3BaseClass(base)))
		}
	}
	// S6 containers: shapes × pretty × every margin
	shapes := c3Shapes()
	margins := []int{1, 2, 3, 5, 8, 10, 20, 40, 80, 120, 200}
	if thorough {
		margins = margins[:0]
		for m := 1; m <= 200; m++ {
			margins = append(margins, m)
		}
	}
	for si, sh := range shapes {
		for _, pretty := range []bool{false, true} {
			for _, m := range margins {
				if !pretty && m != 80 {
					continue
				}
				cf := def
				cf.pretty, cf.margin = pretty, m
				g.add(sh, cf, fmt.Sprintf("kind=container shape=%d var=pretty:%v,margin:%d", si, pretty, m))
			}
		}
	}
	// the empty list object (what the reader makes of "()") as opposed to nil
	for _, pretty := range []bool{false, true} {
		cf := def
		cf.pretty = pretty
		g.add(&c3Obj{kind: "elist"}, cf, "kind=empty-list-object var=top")
		g.add(c3List(c3Sym("a"), &c3Obj{kind: "elist"}), cf, "kind=empty-list-object var=in-list")
	}
	// S7 arrays and vectors × base × radix × array
	arr2 := c3Arr([]int{2, 3}, []*c3Obj{c3I(1), c3I(2), c3I(3), c3I(4), c3I(5), c3I(6)})
	arr3 := c3Arr([]int{2, 1, 2}, []*c3Obj{c3Sym("a"), c3Str("b"), c3Chr('c'), c3I(4)})
	arrL := c3Arr([]int{2, 2}, []*c3Obj{c3List(c3I(1), c3I(2)), c3Nil(), c3Vec(c3I(3)), c3Dotted(c3I(5), c3I(4))})
	for base := 2; base <= 36; base++ {
		for _, radix := range []bool{false, true} {
			for _, array := range []bool{true, false} {
				cf := def
				cf.base, cf.radix, cf.array = base, radix, array
				v := fmt.Sprintf("var=base:%s,radix:%v,array:%v", c3BaseClass(base), radix, array)
				g.add(arr2, cf, "kind=array rank=2 "+v)
				g.add(arr3, cf, "kind=array rank=3 "+v)
				g.add(arrL, cf, "kind=array rank=2 elements=containers "+v)
				g.add(c3Vec(c3I(1), c3I(2)), cf, "kind=vector "+v)
				g.add(c3Vec(), cf, "kind=vector class=empty "+v)
			}
		}
	}
	big12 := make([]*c3Obj, 0, 12)
	for i := 0; i < 12; i++ {
		big12 = append(big12, c3I(int64(i)))
	}
	for _, pretty := range []bool{false, true} {
		cf := def
		cf.pretty = pretty
		g.add(c3Arr([]int{1, 1, 1, 1, 1, 1, 1, 1, 1, 1, 1, 12}, big12), cf, fmt.Sprintf("kind=array rank=12 var=pretty:%v", pretty))
		g.add(c3Arr([]int{3, 4}, big12), cf, fmt.Sprintf("kind=array rank=2 var=pretty:%v", pretty))
	}
	// arrays the reader or make-array can build but the grid above does not: rank 0 ((make-array '())),
	// a dimension of size 0 (#2A(() ())), rank 1 through #1A
	for _, pretty := range []bool{false, true} {
		cf := def
		cf.pretty = pretty
		g.add(c3Arr([]int{}, []*c3Obj{c3I(7)}), cf, "kind=array rank=0")
		g.add(c3List(c3Sym("x"), c3Arr([]int{}, []*c3Obj{c3I(7)})), cf, "kind=array rank=0 var=in-list")
		g.add(c3Arr([]int{2, 0}, nil), cf, "kind=array rank=2 class=empty-dimension:2x0")
		g.add(c3Arr([]int{0, 2}, nil), cf, "kind=array rank=2 class=empty-dimension:0x2")
	}
	// floats that are not finite (reachable: (exp 1000.0), (- (exp 1000.0) (exp 1000.0)))
	for _, f := range []float64{math.Inf(1), math.Inf(-1), math.NaN()} {
		name := strings.ToLower(strconv.FormatFloat(f, 'g', -1, 64))
		g.add(c3Single(float32(f)), def, "kind=single-float class=not-finite:"+name)
		g.add(c3Double(f), def, "kind=double-float class=not-finite:"+name)
	}
	// S8 floats of each format × readably
	for _, readably := range []bool{true, false} {
		cf := def
		cf.readably = readably
		v := fmt.Sprintf("var=readably:%v", readably)
		for _, f := range []float64{0, 1, -1, 0.5, 1.5, 0.1, 1e10, 1e21, 1e-7, 123456.789, 3.4028234663852886e38, 1.401298464324817e-45,
			16777216, 16777218, 2147483648, 4294967296, 9223372036854775808, 18446744073709551616, -9223372036854775808, 1e7, 1e-4, 99999.99} {
			g.add(c3Single(float32(f)), cf, "kind=single-float "+v)
		}
		for _, f := range []float64{0, 1, -1, 0.5, 1.5, 0.1, 1e10, 1e21, 1e22, 1e-7, 123456.789, 1.7976931348623157e308, 5e-324, 2.2250738585072014e-308, 9007199254740993,
			9007199254740992, 9007199254740994, 2147483648, 4294967296, 9223372036854775808, 18446744073709551616, -9223372036854775808, 9223372036854774784,
			1e15, 1e16, 1e17, 123456789012345678, 1e20, 1e-4, 1e-5, 0.001} {
			g.add(c3Double(f), cf, "kind=double-float "+v)
		}
		for _, s := range []string{"1.5L0", "1.0L0", "-2.25L3", "1.234567890123456789012345L10", "1.0L-5", "3.141592653589793238462643383279L0", "1L100",
			"0.5L3", "125L0", "12.5L0", "100.25L-3", "7L0", "-9.87654321L-20", "280.679680L12", "730.843434L8"} {
			g.add(c3Long(s), cf, "kind=long-float class="+c3LongClass(s)+" "+v)
		}
	}
}

func c3Shapes() []*c3Obj {
	a, b, cc := c3Sym("alpha"), c3Sym("beta"), c3Sym("gamma")
	long := []*c3Obj{}
	for i := 0; i < 30; i++ {
		long = append(long, c3I(int64(i*1000)))
	}
	deep := c3List(c3Sym("leaf"))
	for i := 0; i < 12; i++ {
		deep = c3List(c3Sym("d"), deep)
	}
	return []*c3Obj{
		c3List(a),
		c3List(a, b),
		c3List(a, b, cc),
		c3Dotted(b, a),
		c3Dotted(cc, a, b),
		c3List(c3List(a), c3List(b)),
		c3List(a, c3List(b, c3List(cc, c3Nil())), c3Nil()),
		c3List(c3Nil()),
		c3List(c3Nil(), c3Nil()),
		c3List(c3List(c3List(c3List(a)))),
		c3List(long...),
		deep,
		c3List(c3Sym("defun"), c3Sym("f"), c3List(c3Sym("x"), c3Sym("y")), c3Str("doc string here"), c3List(c3Sym("+"), c3Sym("x"), c3Sym("y"), c3I(1234567890))),
		c3List(c3Sym("quote"), a),
		c3List(c3Sym("quote"), c3List(a, b)),
		c3List(c3Sym("function"), a),
		c3Vec(a, b, cc),
		c3Vec(),
		c3Vec(c3Vec(a), c3List(b), c3Vec()),
		c3List(c3Vec(a, c3Dotted(cc, b)), c3Str("a string with  two spaces"), c3Chr(' '), c3Chr('x')),
		c3List(c3Str("multi\nline"), c3Str(" lead"), c3Sym("a b")),
		c3Arr([]int{2, 2}, []*c3Obj{a, b, cc, c3Nil()}),
		c3List(c3Arr([]int{2, 2}, []*c3Obj{a, b, cc, c3List(a, b)}), c3Vec(c3I(1))),
		c3List(c3T(), c3Nil(), c3Sym(":key"), c3Ratio(big.NewInt(1), big.NewInt(3)), c3I(-5)),
		c3Dotted(c3I(2), c3List(c3I(1))),
		c3Dotted(c3Str("tail"), c3Sym("a")),
		c3Dotted(c3Vec(c3I(1)), c3Sym("a")),
		// vectors in lists in arrays in vectors; arrays as array elements
		c3Arr([]int{1, 2}, []*c3Obj{c3List(c3Vec(c3I(1), c3List(c3Vec(b))), c3Sym("x")), c3Str("s")}),
		c3Vec(c3Arr([]int{2, 1}, []*c3Obj{c3Vec(a, c3Vec()), c3Dotted(c3Vec(cc), b)}), c3List(c3Vec(c3Vec(c3Vec(a))))),
		c3Arr([]int{2, 2}, []*c3Obj{c3Arr([]int{1, 2}, []*c3Obj{a, b}), c3Vec(), c3Nil(), c3Arr([]int{2, 1, 1}, []*c3Obj{c3I(1), c3I(2)})}),
		// atoms longer than any margin between short ones
		c3List(a, c3Str(strings.Repeat("long string ", 20)), b, c3Sym(strings.Repeat("long-symbol-", 18)), cc,
			c3Int(new(big.Int).Lsh(big.NewInt(1), 700)), c3Sym(strings.Repeat("bar red ", 26)), c3Ratio(new(big.Int).Lsh(big.NewInt(1), 400), big.NewInt(3))),
		c3List(c3List(c3List(c3Str(strings.Repeat("x", 210)), a), b), c3Vec(c3Str(strings.Repeat("y", 199)), cc)),
		// a Tail that holds a list: slip prints and reads (a . (b c)) as it is
		c3Dotted(c3List(b, cc), a),
		c3Dotted(c3List(c3List(b), cc), a, c3Dotted(c3List(a), b)),
		// floats of each format between other atoms
		c3List(a, c3Single(1.5), c3Double(-2.5e-10), c3Vec(c3Double(1e21), c3Single(3.4028235e38)), c3Dotted(c3Double(0.1), c3Single(0))),
	}
}

// random composite objects
func (g *c3Gen) randLeaf(floats bool) *c3Obj {
	r := g.c.Rng
	for {
		switch r.Intn(13) {
		case 0:
			return c3Nil()
		case 1:
			return c3T()
		case 2, 3:
			return c3Int(c3RandInt(r))
		case 4:
			// numerator and denominator each from the same size classes as the integers
			d := c3RandInt(r)
			d.Abs(d)
			if d.Sign() == 0 {
				d.SetInt64(7)
			}
			return c3Ratio(c3RandInt(r), d)
		case 5, 6:
			return c3Str(g.randString())
		case 7:
			c := g.randRune()
			if g.avoid.chars[c] {
				continue
			}
			return c3Chr(c)
		case 8, 9:
			name := g.randSymbol()
			if g.avoid.symClass[c3SymClass(name)] || g.avoidSymbol(name) {
				continue
			}
			return c3Sym(name)
		case 10:
			return c3Sym(c3Keywords[r.Intn(len(c3Keywords))])
		default:
			if !floats {
				continue
			}
			switch r.Intn(3) {
			case 0:
				return c3Single(float32(g.randFloat()))
			case 1:
				return c3Double(g.randFloat())
			default:
				if g.avoid.longFloat {
					continue // listed finding: long floats take their precision from the digit count
				}
				return c3Long(fmt.Sprintf("%d.%d%dL%d", 1+r.Intn(999), r.Intn(100000), 1+r.Intn(9), r.Intn(40)-20))
			}
		}
	}
}

// avoidSymbol: symbol names that are not "readable data" for this check: names that read as the
// constants t / nil, and every class listed as a known finding.
func (g *c3Gen) avoidSymbol(name string) bool {
	l := strings.ToLower(name)
	if l == "t" || l == "nil" {
		return true
	}
	for _, f := range strings.Split(c3SymClass(name), "+") {
		if g.avoid.symClass[f] {
			return true
		}
	}
	return false
}

func (g *c3Gen) randFloat() float64 {
	r := g.c.Rng
	switch r.Intn(4) {
	case 0:
		return float64(r.Intn(2000)-1000) / 8
	case 1:
		return float64(int64(r.U64()>>12)) * 1e-3
	case 2:
		return float64(r.Intn(1000)+1) * pow10(r.Intn(60)-30)
	default:
		return float64(r.Intn(100))
	}
}

func pow10(e int) float64 {
	f := 1.0
	for ; e > 0; e-- {
		f *= 10
	}
	for ; e < 0; e++ {
		f /= 10
	}
	return f
}

func (g *c3Gen) randRune() rune {
	r := g.c.Rng
	for {
		var c rune
		switch r.Intn(6) {
		case 0, 1:
			c = rune(0x21 + r.Intn(0x7f-0x21))
		case 2:
			c = rune(r.Intn(0x80))
		case 3:
			c = rune(0x80 + r.Intn(0x800-0x80))
		case 4:
			c = rune(0x800 + r.Intn(0x10000-0x800))
		default:
			c = rune(0x10000 + r.Intn(0x110000-0x10000))
		}
		if c >= 0xd800 && c <= 0xdfff {
			continue
		}
		return c
	}
}

func (g *c3Gen) randString() string {
	r := g.c.Rng
	n := r.Intn(12)
	var b strings.Builder
	for i := 0; i < n; i++ {
		switch r.Intn(10) {
		case 0:
			b.WriteByte('"')
		case 1:
			b.WriteByte('\\')
		case 2:
			b.WriteRune(rune(r.Intn(0x20)))
		case 3:
			b.WriteRune(g.randRune())
		case 4:
			b.WriteByte(' ')
		default:
			b.WriteByte(byte('a' + r.Intn(26)))
		}
	}
	return b.String()
}

func (g *c3Gen) randSymbol() string {
	r := g.c.Rng
	switch r.Intn(8) {
	case 0:
		return c3SymbolNames[r.Intn(len(c3SymbolNames))]
	case 1:
		return c3PipeNames[r.Intn(len(c3PipeNames))]
	case 2:
		return c3NumberLikeNames[r.Intn(len(c3NumberLikeNames))]
	}
	n := 1 + r.Intn(8)
	var b strings.Builder
	for i := 0; i < n; i++ {
		switch r.Intn(14) {
		case 0:
			b.WriteByte(byte('A' + r.Intn(26)))
		case 1:
			b.WriteByte(byte('0' + r.Intn(10)))
		case 2:
			b.WriteByte(c3TokenPunct[r.Intn(len(c3TokenPunct))])
		case 3:
			b.WriteByte(c3QuotePunct[r.Intn(len(c3QuotePunct))])
		case 4:
			if r.Chance(30) {
				b.WriteRune(g.randRune())
			} else {
				b.WriteByte('-')
			}
		default:
			b.WriteByte(byte('a' + r.Intn(26)))
		}
	}
	return b.String()
}

func (g *c3Gen) randObj(depth int, floats bool) *c3Obj {
	r := g.c.Rng
	if depth <= 0 || r.Chance(35) {
		return g.randLeaf(floats)
	}
	n := r.Intn(5)
	if r.Chance(10) {
		n = 5 + r.Intn(12)
	}
	elems := make([]*c3Obj, 0, n)
	for i := 0; i < n; i++ {
		elems = append(elems, g.randObj(depth-1, floats))
	}
	switch r.Intn(8) {
	case 0, 1:
		return c3Vec(elems...)
	case 2:
		if n == 0 {
			return c3Nil()
		}
		var tail *c3Obj
		for tail == nil || tail.kind == "nil" {
			tail = g.randLeaf(floats)
		}
		if r.Chance(15) {
			// a Tail holding a proper list (slip keeps (a . (b c)) as it is)
			tail = c3List(g.randLeaf(floats), tail)
		}
		return c3Dotted(tail, elems...)
	case 3:
		// a multi-dimensional array: rank 2..3, every dimension ≥ 1
		rank := 2 + r.Intn(2)
		dims := make([]int, rank)
		total := 1
		for i := range dims {
			dims[i] = 1 + r.Intn(3)
			total *= dims[i]
		}
		ae := make([]*c3Obj, total)
		for i := range ae {
			ae[i] = g.randObj(depth-2, floats)
		}
		return c3Arr(dims, ae)
	default:
		return c3List(elems...)
	}
}

func (g *c3Gen) randCfg() c3Cfg {
	r := g.c.Rng
	cf := c3Cfg{base: 2 + r.Intn(35), radix: r.Chance(60), cs: c3Cases[r.Intn(4)], pretty: r.Bool(), margin: 1 + r.Intn(200),
		readably: r.Chance(75), array: r.Chance(80)}
	if r.Chance(30) {
		cf.base = []int{2, 8, 10, 16, 36}[r.Intn(5)]
	}
	if r.Chance(25) {
		cf.margin = 1 + r.Intn(30)
	}
	return cf
}

// ---------------------------------------------------------------------------------------------
// evaluation of one case

type c3Result struct {
	flat, pretty         string // slip's texts (flat: cf with pretty off; pretty: cf with pretty on)
	wAspect              string // property failure (in-domain cases), "" when it holds
	prettyAspect         string // pretty vs flat read back differently
	flatRead, prettyRead c3Read
	leakAspect, leakText string // the text depends on the package-global printer (scoped printer in use)
	altAspect            string // radix-marked numbers read differently under another *read-base*
}

func c3Eval(cs c3Case) c3Result {
	var res c3Result
	x := cs.obj.object()
	ff, pf := cs.cf, cs.cf
	ff.pretty, pf.pretty = false, true
	var fa, pa string
	res.flat, fa, res.flatRead = c3Roundtrip(ff, x)
	res.pretty, pa, res.prettyRead = c3Roundtrip(pf, x)
	if cs.inDomain() {
		if cs.cf.pretty {
			res.wAspect = pa
		} else {
			res.wAspect = fa
		}
	}
	// the printer in use is the scoped one (a copy, as write-to-string / prin1 / format ~S / a let
	// binding / swank make it): its text must not depend on the package-global printer. Both texts are
	// printed again while the global printer holds the opposite of every setting.
	if !strings.HasPrefix(fa, "print-condition") {
		if t2 := c3PrintUnderAntiGlobal(ff, x); t2 != res.flat {
			res.leakAspect, res.leakText = "global-printer-leak:flat", t2
		}
	}
	if res.leakAspect == "" && !strings.HasPrefix(pa, "print-condition") {
		if t2 := c3PrintUnderAntiGlobal(pf, x); t2 != res.pretty {
			res.leakAspect, res.leakText = "global-printer-leak:pretty", t2
		}
	}
	// a number behind a radix prefix (#b #o #x #NNr) means the same under every *read-base*
	if cs.inDomain() && cs.cf.radix && cs.cf.base != 10 && fa == "" && cs.obj.altReadable() {
		for _, rb := range c3AltReadBases(cs.cf.base) {
			back := c3ReadText(res.flat, rb)
			a := ""
			switch {
			case !back.ok:
				a = "read-condition:" + back.class
			case back.count != 1:
				a = fmt.Sprintf("read-count:%d", minInt(back.count, 3))
			default:
				a = c3Compare(x, back.obj)
			}
			if a != "" {
				res.altAspect = fmt.Sprintf("read-base:%s:%s", c3BaseClass(rb), a)
				break
			}
		}
	}
	// pretty printing changes only white space: both texts read back to equal objects (or both
	// are unreadable in the same way); stated for readably printed objects only — with raw
	// strings (readably off) the text between two quotes is not a function of the object
	if !cs.inDomain() {
		return res
	}
	switch {
	case strings.HasPrefix(fa, "print-condition") || strings.HasPrefix(pa, "print-condition"):
		if fa != pa {
			res.prettyAspect = "pretty:" + pa + "/flat:" + fa
		}
	case res.flatRead.ok != res.prettyRead.ok:
		res.prettyAspect = fmt.Sprintf("pretty-readable:%v/flat-readable:%v", res.prettyRead.ok, res.flatRead.ok)
	case res.flatRead.ok:
		if res.flatRead.count != res.prettyRead.count {
			res.prettyAspect = "pretty-vs-flat:object-count"
		} else if res.flatRead.count > 0 {
			if a := c3Compare(res.flatRead.obj, res.prettyRead.obj); a != "" {
				res.prettyAspect = "pretty-vs-flat:" + a
			}
		}
	}
	return res
}

// c3LispVariants: the ways a Lisp program selects the printer settings. Every one makes a scoped
// printer (or, the last, sets the global one) and must write the text the Go-level scoped printer writes.
var c3LispVariants = []string{"write-keys", "let-prin1", "let-format", "let-stream", "let-write", "global-prin1"}

func (cf c3Cfg) lispLet() string {
	tn := func(x bool) string {
		if x {
			return "t"
		}
		return "nil"
	}
	cs := map[string]string{"d": ":downcase", "u": ":upcase", "c": ":capitalize", "n": "nil"}[cf.cs]
	return fmt.Sprintf("(let ((*print-base* %d) (*print-radix* %s) (*print-case* %s) (*print-pretty* %s) (*print-right-margin* %d) (*print-readably* %s) (*print-array* %s) (*print-escape* t))",
		cf.base, tn(cf.radix), cs, tn(cf.pretty), cf.margin, tn(cf.readably), tn(cf.array))
}

// c3LispRoundtrip prints the object (bound to a variable) through one of the Lisp-level ways and reads
// the text back with read-from-string; want is the text of the Go-level scoped printer.
func c3LispRoundtrip(cs c3Case, variant, want string) string {
	scope := slip.NewScope()
	x := cs.obj.object()
	scope.Let(slip.Symbol("c03-x"), x)
	var o lib.Outcome
	switch variant {
	case "write-keys":
		o = lib.EvalString(scope, fmt.Sprintf("(write-to-string c03-x %s)", cs.cf.lispKeys()))
	case "let-prin1":
		o = lib.EvalString(scope, cs.cf.lispLet()+" (prin1-to-string c03-x))")
	case "let-format":
		o = lib.EvalString(scope, cs.cf.lispLet()+" (format nil \"~S\" c03-x))")
	case "let-stream":
		o = lib.EvalString(scope, cs.cf.lispLet()+" (with-output-to-string (c03-s) (prin1 c03-x c03-s)))")
	case "let-write":
		o = lib.EvalString(scope, cs.cf.lispLet()+" (with-output-to-string (c03-s) (write c03-x :stream c03-s)))")
	default: // global-prin1: the settings are in the global printer itself (setq at top level)
		c3WithGlobal(func(g *slip.Printer) {
			p := cs.cf.printer()
			g.Base, g.Radix, g.Case, g.Pretty, g.RightMargin, g.Readably, g.Array = p.Base, p.Radix, p.Case, p.Pretty, p.RightMargin, p.Readably, p.Array
		}, func() { o = lib.EvalString(scope, "(prin1-to-string c03-x)") })
	}
	if !o.Ok {
		return "print-condition:" + o.Class
	}
	text, ok := o.Value.(slip.String)
	if !ok {
		return "print-result:" + c3TypeOf(o.Value)
	}
	if string(text) != want {
		return "text"
	}
	scope.Let(slip.Symbol("c03-text"), text)
	o = lib.EvalString(scope, fmt.Sprintf("(let ((*read-base* %d)) (read-from-string c03-text))", cs.cf.readBase()))
	if !o.Ok {
		return "condition:" + o.Class
	}
	y := o.Value
	if vs, ok := y.(slip.Values); ok && len(vs) > 0 {
		y = vs[0]
	}
	return c3Compare(x, y)
}

func c3WFails(cs c3Case) string {
	res := c3Eval(cs)
	for _, a := range []string{res.wAspect, res.prettyAspect, res.leakAspect, res.altAspect} {
		if a != "" {
			return a
		}
	}
	if cs.inDomain() {
		want := res.flat
		if cs.cf.pretty {
			want = res.pretty
		}
		for _, v := range c3LispVariants {
			if a := c3LispRoundtrip(cs, v, want); a != "" {
				return "lisp-level:" + v + ":" + a
			}
		}
	}
	return ""
}

// ---------------------------------------------------------------------------------------------

func c3LoadAvoid(c *lib.Ctx) c3Avoid {
	av := c3Avoid{symClass: map[string]bool{}, chars: map[rune]bool{}}
	for _, f := range c.Findings.Findings {
		if f.Property != "C03" {
			continue
		}
		for _, w := range strings.Fields(f.Signature) {
			if strings.HasPrefix(w, "class=") {
				cl := strings.TrimPrefix(w, "class=")
				if strings.HasPrefix(f.Signature, "kind=symbol") {
					av.symClass[cl] = true
				}
				if strings.HasPrefix(f.Signature, "kind=character") {
					var cp rune
					if _, err := fmt.Sscanf(cl, "U+%X", &cp); err == nil {
						av.chars[cp] = true
					}
				}
			}
		}
		if strings.HasPrefix(f.Signature, "kind=empty-list-object") {
			av.emptyObj = true
		}
		if strings.HasPrefix(f.Signature, "kind=long-float") {
			av.longFloat = true
		}
	}
	return av
}

func runC03(c *lib.Ctx) {
	if c.Replay != "" {
		c03Replay(c)
		return
	}
	g := &c3Gen{c: c, avoid: c3LoadAvoid(c)}
	g.sweeps()
	nSweep := len(g.cases)
	nRandom := c.Scale(12000, 150000)
	for i := 0; i < nRandom; i++ {
		floats := c.Rng.Chance(25)
		o := g.randObj(1+c.Rng.Intn(4), floats)
		cf := g.randCfg()
		for !cf.radix && o.has(func(x *c3Obj) bool { return x.kind == "int" && c3SpellsConstant(x.n, cf.base) != "" }) {
			o = g.randObj(1+c.Rng.Intn(4), floats) // listed finding: digits that spell t / nil
		}
		g.add(o, cf, "")
	}
	c03Run(c, g.cases, nSweep)
	c03Floats(c, g)
	c03Wire(c, g)
}

func c03Run(c *lib.Ctx, cases []c3Case, nSweep int) {
	// model requests for the float-free cases
	var reqs []string
	reqIdx := make([]int, len(cases))
	for i, cs := range cases {
		reqIdx[i] = -1
		if !c3InModel(cs.obj) {
			continue
		}
		reqIdx[i] = len(reqs)
		reqs = append(reqs, "print flat "+cs.cf.wire()+" "+cs.obj.modelTerm())
	}
	replies := c.Model(reqs)
	// the model's own pretty text (evidence only: the layout policy is not constrained by the property)
	var reqsP []string
	for i, cs := range cases {
		if reqIdx[i] >= 0 {
			reqsP = append(reqsP, fmt.Sprintf("print pretty %s %d %s", cs.cf.wire(), cs.cf.margin, cs.obj.modelTerm()))
		}
	}
	repliesP := c.Model(reqsP)
	// second round: the model reader applied to slip's texts
	var reqs2 []string
	type pending struct {
		idx  int
		what string // flat | pretty
	}
	var pend []pending
	results := make([]c3Result, len(cases))
	// the implementation is run on the cases in a seeded random order (all configurations interleaved
	// in one process), so that state kept between prints or reads — a cache keyed by too little —
	// shows up as a case that depends on its predecessors
	order := make([]int, len(cases))
	for i := range order {
		order[i] = i
	}
	for i := len(order) - 1; i > 0; i-- {
		j := c.Rng.Intn(i + 1)
		order[i], order[j] = order[j], order[i]
	}
	for _, i := range order {
		results[i] = c3Eval(cases[i])
	}
	for i, cs := range cases {
		if reqIdx[i] < 0 {
			continue
		}
		for _, what := range []string{"flat", "pretty"} {
			text := results[i].flat
			if what == "pretty" {
				text = results[i].pretty
			}
			if text == "" || !utf8.ValidString(text) {
				continue
			}
			reqs2 = append(reqs2, fmt.Sprintf("print read %d %s", cs.cf.readBase(), lib.Hex(text)))
			pend = append(pend, pending{i, what})
		}
	}
	replies2 := c.Model(reqs2)
	modelRead := map[[2]int]string{}
	for k, p := range pend {
		w := 0
		if p.what == "pretty" {
			w = 1
		}
		modelRead[[2]int{p.idx, w}] = replies2[k]
	}

	agree, inDomain, kText, kRead, prettySame, prettyDiff := 0, 0, 0, 0, 0, 0
	shrinkBudget := 40
	lispChecked := 0
	var pendingReports []c3Pending
	kindSeen := map[string]int{}
	for i, cs := range cases {
		res := results[i]
		c.Ev.Case(cs.key(), cs.nontrivial())
		c.Ev.Hist("kind", cs.obj.kind)
		c.Ev.Hist("base", fmt.Sprint(cs.cf.base))
		c.Ev.Hist("config", fmt.Sprintf("radix=%v,case=%s,pretty=%v,readably=%v,array=%v", cs.cf.radix, cs.cf.cs, cs.cf.pretty, cs.cf.readably, cs.cf.array))
		c.Ev.Hist("margin", fmt.Sprintf("%03d-%03d", (cs.cf.margin-1)/20*20+1, (cs.cf.margin-1)/20*20+20))
		c.Ev.Hist("depth", fmt.Sprint(cs.obj.depth()))
		if i%(len(cases)/12+1) == 0 {
			c.Ev.Sample(map[string]string{"object": cs.obj.term(), "config": cs.cf.String(), "flat": res.flat, "pretty": res.pretty})
		}
		bad := false
		report := func(aspect string, extra map[string]any) {
			bad = true
			rc := cs
			cell := cs.cell
			if !cs.sweep {
				// composite: shrink to a minimal failing sub-object (a bounded number of times per
				// run: every shrink step runs the implementation, K steps also the model); never excused
				cell = "composite (not shrunk) kind=" + cs.obj.kind
				if shrinkBudget > 0 {
					shrinkBudget--
					if strings.HasPrefix(aspect, "flat-text") || strings.HasPrefix(aspect, "model-") {
						rc = c3Shrink(cs, func(s c3Case) bool { return c3KFails(c, s) != "" })
					} else {
						rc = c3Shrink(cs, func(s c3Case) bool { return c3WFails(s) != "" })
					}
					cell = "composite " + c3CellOfLeaf(rc.obj)
				}
			}
			rp := rc.replay()
			rp["input"] = rc.obj.term() + "  under  " + rc.cf.String()
			for k, v := range extra {
				rp[k] = v
			}
			sig := c3Signature(cell, aspect)
			kind := strings.Join(strings.Fields(strings.TrimPrefix(sig, "composite "))[:1], " ")
			rank := kindSeen[kind]
			if strings.Contains(sig, "(not shrunk)") {
				rank += 1000
			}
			pendingReports = append(pendingReports, c3Pending{sig, cs.sweep, rp, kind, rank})
			kindSeen[kind]++
		}
		if cs.inDomain() {
			inDomain++
		}
		if res.wAspect != "" {
			text, back := res.flat, res.flatRead
			if cs.cf.pretty {
				text, back = res.pretty, res.prettyRead
			}
			obs := "read back: " + slip.ObjectString(back.obj)
			if !back.ok {
				obs = "reader condition " + back.class + ": " + back.msg
			}
			report(res.wAspect, map[string]any{"printed": text, "observed": obs, "expected": "an object equal to the original with the same type-of",
				"expected_from": "property statement (direct round trip on the implementation)"})
		}
		if res.prettyAspect != "" {
			report(res.prettyAspect, map[string]any{"flat": res.flat, "pretty": res.pretty,
				"observed": "the pretty and the flat text do not read back to equal objects", "expected": "equal objects",
				"expected_from": "property statement (pretty printing changes only white space)"})
		}
		if res.leakAspect != "" {
			want := res.flat
			if strings.HasSuffix(res.leakAspect, "pretty") {
				want = res.pretty
			}
			report(res.leakAspect, map[string]any{"printed": want, "observed": "with the opposite settings in the global printer the same scoped printer writes: " + res.leakText,
				"expected": "the text does not depend on the global printer when a scoped printer (write-to-string keys, let-bound *print-…*, prin1, swank) is in use",
				"expected_from": "property statement (under every setting of the printer control variables)"})
		}
		if res.altAspect != "" {
			report(res.altAspect, map[string]any{"printed": res.flat, "observed": "the radix-marked text read under another *read-base* does not give back the object",
				"expected": "#b #o #x #NNr fix the base of the number that follows, whatever *read-base* is", "expected_from": "property statement (read back equal)"})
		}
		// the same round trip at Lisp level on a sample: (read-from-string (write-to-string x …))
		if cs.inDomain() && res.wAspect == "" && i%13 == 0 {
			lispChecked++
			variant := c3LispVariants[(i/13)%len(c3LispVariants)]
			want := res.flat
			if cs.cf.pretty {
				want = res.pretty
			}
			if a := c3LispRoundtrip(cs, variant, want); a != "" {
				report("lisp-level:"+variant+":"+a, map[string]any{"observed": "printing through " + variant + " (" + cs.cf.lispKeys() + ") and read-from-string: " + a,
					"printed": want, "expected": "the text of the scoped printer and, read back, an object equal to x", "expected_from": "property statement"})
			}
		}
		if reqIdx[i] >= 0 {
			if w := strings.Fields(repliesP[reqIdx[i]]); len(w) == 2 && w[0] == "ok" && lib.Unhex(w[1]) == res.pretty {
				prettySame++
			} else if len(c.Ev.Coverage) >= 0 && prettyDiff < 3 {
				prettyDiff++
				c.Ev.Sample(map[string]string{"note": "model pretty layout differs from slip's (not a verdict)", "object": cs.obj.term(), "config": cs.cf.String(), "slip": res.pretty, "model": repliesP[reqIdx[i]]})
			} else {
				prettyDiff++
			}
			kText++
			if a, detail := c3KCompare(cs, res, replies[reqIdx[i]], modelRead[[2]int{i, 0}], modelRead[[2]int{i, 1}]); a != "" {
				detail["expected_from"] = "model:print (SlipVerif.Model.Printer)"
				detail["relies_on"] = []string{"SlipVerif.Theorems.C03.print_read_roundtrip"}
				report(a, detail)
			} else {
				kRead++
			}
		}
		if !bad {
			agree++
		}
	}
	// report one disagreement of every kind before the second of any (only the first 25 get a
	// replay file and a verdict line)
	sort.SliceStable(pendingReports, func(i, j int) bool { return pendingReports[i].rank < pendingReports[j].rank })
	for _, pr := range pendingReports {
		c.Report(pr.sig, pr.sweep, pr.rp)
	}
	c.Ev.Coverage["traces_validated_against_impl"] = kText
	c.Ev.Coverage["agreements"] = agree
	c.Ev.Coverage["sweep_cases"] = nSweep
	c.Ev.Coverage["random_cases"] = len(cases) - nSweep
	c.Ev.Coverage["in_readable_domain"] = inDomain
	c.Ev.Coverage["model_text_and_reader_agreements"] = kRead
	c.Ev.Coverage["lisp_level_roundtrips"] = lispChecked
	c.Ev.Coverage["model_pretty_layout_identical"] = prettySame
	c.Ev.Coverage["model_pretty_layout_different"] = prettyDiff
	c.Ev.Coverage["rule"] = "case = (object, printer configuration); sweeps = boundary integers/ratios x base 2..36 x radix, one-character strings/characters/symbols over all ASCII and sampled Unicode, number-like / quoted symbol names x case, container shapes x pretty x margins, arrays/vectors x base x radix x array, floats of each format x readably, Tail holding a list, package-prefixed symbols, rank-0 / empty-dimension arrays, non-finite floats, nested vector/list/array shapes and atoms longer than the margin (exhaustive, seed independent) + random nested objects x random configuration; every case is printed flat and pretty and read back (W); every case in the model universe (finite floats by their shortest decimal included) is also compared with the model text and the model reader (K); float family: boundary and random bit patterns of single and double floats and listed long-float texts: codec hypothesis (shortest e-format text canonical, ParseFloat of it gives the same bits) and slip round trip under each *read-default-float-format*; non-trivial = has a container level or a boundary leaf (|n| >= 2^31, ratio, float, char outside [a-z0-9], symbol needing quoting, string with quote/backslash/non-printing); distinct by (configuration, object term)"
}

type c3Pending struct {
	sig   string
	sweep bool
	rp    map[string]any
	kind  string
	rank  int
}

// c3InModel: the object is in the model's universe (finite floats by their shortest decimal; no
// NaN / infinity, no empty-list object, no symbol with cased non-ASCII letters, no Tail holding a
// list, no string or symbol that is not valid UTF-8, arrays of rank >= 2 without an empty dimension).
func c3InModel(o *c3Obj) bool {
	return !o.has(func(x *c3Obj) bool {
		if x.isFloat() {
			_, _, _, _, ok := x.decimal()
			return !ok
		}
		switch x.kind {
		case "elist", "raw":
			return true
		case "sym":
			return c3CasedNonASCII(x.s) || !utf8.ValidString(x.s)
		case "str":
			return !utf8.ValidString(x.s)
		case "list":
			return x.tail != nil && (x.tail.kind == "list" || x.tail.kind == "nil")
		case "arr":
			if len(x.dims) < 2 {
				return true
			}
			for _, d := range x.dims {
				if d == 0 {
					return true
				}
			}
		}
		return false
	})
}

// c3KCompare compares the implementation with the model on one float-free case.
func c3KCompare(cs c3Case, res c3Result, flatReply, readFlat, readPretty string) (string, map[string]any) {
	w := strings.Fields(flatReply)
	if len(w) < 2 || w[0] != "ok" {
		return "model-print:" + flatReply, map[string]any{"observed": res.flat, "expected": flatReply}
	}
	mtext := lib.Unhex(w[1])
	if res.flat != mtext {
		return "flat-text", map[string]any{"observed": res.flat, "expected": mtext}
	}
	if !cs.inDomain() || res.wAspect != "" || res.prettyAspect != "" {
		return "", nil
	}
	// in the readable domain the model reader must give the object back from both texts, and agree
	// with slip's reader
	for k, reply := range []string{readFlat, readPretty} {
		what := []string{"flat", "pretty"}[k]
		text := []string{res.flat, res.pretty}[k]
		if reply == "" {
			continue
		}
		if !strings.HasPrefix(reply, "ok ") {
			return "model-reader-rejects-" + what, map[string]any{"observed": text, "expected": "text the reference reader accepts", "model_reply": reply}
		}
		mo, err := c3ParseTerm(strings.TrimPrefix(reply, "ok "))
		if err != nil {
			return "model-reader-term", map[string]any{"observed": reply, "expected": "a term"}
		}
		if !c3SameTerm(mo, cs.obj) {
			return "model-reader-" + what, map[string]any{"observed": text, "model_read": mo.term(), "expected": cs.obj.term()}
		}
	}
	return "", nil
}

// c3KFails is used while shrinking: does the sub-case still disagree with the model?
func c3KFails(c *lib.Ctx, cs c3Case) string {
	if !c3InModel(cs.obj) {
		return ""
	}
	res := c3Eval(cs)
	reqs := []string{"print flat " + cs.cf.wire() + " " + cs.obj.modelTerm()}
	n := 1
	for _, t := range []string{res.flat, res.pretty} {
		if t != "" && utf8.ValidString(t) {
			reqs = append(reqs, fmt.Sprintf("print read %d %s", cs.cf.readBase(), lib.Hex(t)))
		} else {
			reqs = append(reqs, "print read 10 "+lib.Hex("nil"))
		}
		n++
	}
	rep := c.Model(reqs)
	a, _ := c3KCompare(cs, res, rep[0], rep[1], rep[2])
	return a
}

func c03Replay(c *lib.Ctx) {
	var rec map[string]any
	path := c.Replay
	if _, err := os.Stat(path); err != nil && !filepath.IsAbs(path) {
		path = filepath.Join(c.Root, path) // the check runs the harness in its run directory
	}
	if err := lib.ReadJSON(path, &rec); err != nil {
		fmt.Println("cannot read replay file:", err)
		return
	}
	term, _ := rec["term"].(string)
	if wire, _ := rec["wire"].(bool); wire {
		obj, err := c3ParseTerm(term)
		if err != nil {
			fmt.Println("replay file has no usable term:", err)
			return
		}
		var aspect, payload, observed string
		if gm, ok := rec["wire_global"].(map[string]any); ok {
			cf := c3CfgFromMap(gm)
			fmt.Printf("global printer set to %s\n", cf)
			c3WithGlobal(func(g *slip.Printer) {
				p := cf.printer()
				g.Base, g.Radix, g.Case, g.Pretty, g.RightMargin, g.Array = p.Base, p.Radix, p.Case, p.Pretty, p.RightMargin, p.Array
			}, func() { aspect, payload, observed = c3WireRoundtrip(obj) })
		} else {
			aspect, payload, observed = c3WireRoundtrip(obj)
		}
		fmt.Printf("replay swank wire message %s\n  payload: %q\n  result : %q %s\n  expected: the message read back is equal to the message written\n", term, payload, aspect, observed)
		if aspect != "" {
			c.Report("replay", false, map[string]any{"term": term, "wire": true})
		}
		return
	}
	if ff, _ := rec["float_family"].(bool); ff {
		obj, err := c3ParseTerm(term)
		if err != nil {
			fmt.Println("replay file has no usable term:", err)
			return
		}
		x := obj.object()
		text, class := c3Print(c3DefaultCfg(), x)
		fmt.Printf("replay float %s\n  printed readably: %q %s\n", term, text, class)
		bad := class != ""
		for _, rdff := range c3FloatFormats {
			back := c3ReadFloatText(text, rdff)
			a := "condition " + back.class
			if back.ok && back.count == 1 {
				a = c3Compare(x, back.obj)
			}
			fmt.Printf("  read under *read-default-float-format* %-12s: %s (%s) %q\n", rdff, slip.ObjectString(back.obj), c3TypeOf(back.obj), a)
			bad = bad || a != ""
		}
		fmt.Printf("  expected: the same float of type %s under every default format\n", c3TypeOf(x))
		if bad {
			c.Report("replay", false, map[string]any{"term": term, "float_family": true})
		}
		return
	}
	cfm, _ := rec["config"].(map[string]any)
	obj, err := c3ParseTerm(term)
	if err != nil || cfm == nil {
		fmt.Println("replay file has no usable term/config:", err)
		return
	}
	cs := c3Case{obj: obj, cf: c3CfgFromMap(cfm), cell: "replay"}
	res := c3Eval(cs)
	fmt.Printf("replay %s\n  under %s\n  flat text  : %q\n  pretty text: %q\n", term, cs.cf, res.flat, res.pretty)
	show := func(what string, r c3Read) {
		if r.ok {
			fmt.Printf("  %s read back: %s (%d object(s), type-of %s)\n", what, slip.ObjectString(r.obj), r.count, c3TypeOf(r.obj))
		} else {
			fmt.Printf("  %s read back: condition %s: %s\n", what, r.class, r.msg)
		}
	}
	show("flat  ", res.flatRead)
	show("pretty", res.prettyRead)
	fmt.Printf("  expected: an object equal to the original (type-of %s); in readable domain: %v\n", c3TypeOf(obj.object()), cs.inDomain())
	fmt.Printf("  round trip: %q   pretty vs flat: %q\n", res.wAspect, res.prettyAspect)
	k := c3KFails(c, cs)
	fmt.Printf("  model correspondence: %q\n", k)
	w := c3WFails(cs)
	fmt.Printf("  scoped vs global printer: %q %q   other read bases: %q   all implementation-side checks: %q\n", res.leakAspect, res.leakText, res.altAspect, w)
	if res.wAspect != "" || res.prettyAspect != "" || k != "" || w != "" {
		c.Report("replay", false, cs.replay())
	}
}
