package main

// C18 — case records (replayable), token parsing back into documents, difference location.

import (
	"encoding/json"
	"fmt"
	"math"
	"math/big"
	"strconv"
	"strings"
	"time"

	"verif/harness/lib"
)

type c18Op struct {
	Op    string `json:"op"`              // G A H W S R
	Path  string `json:"path"`            // path wire
	Value string `json:"value,omitempty"` // J wire (set)
	Mode  int    `json:"mode"`            // how the call is made (function / method, path as text / object, value native / bag)
}

type c18Opts struct {
	Pretty int  `json:"pretty"`
	Depth  int  `json:"depth"`
	JSON   int  `json:"json"`
	Margin int  `json:"margin"`
	Color  int  `json:"color"`
	Send   bool `json:"send"`
	// :time-format / :time-wrap keywords of the call ("" = not given): they apply to this call
	// only and must not leak into *bag-time-format* / *bag-time-wrap*
	TimeFormat string `json:"time_format,omitempty"`
	TimeWrap   string `json:"time_wrap,omitempty"`
}

func (o c18Opts) w() c18WriteOpts {
	return c18WriteOpts{pretty: o.Pretty, depth: o.Depth, json: o.JSON, margin: o.Margin, color: o.Color, viaSend: o.Send, timeFormat: o.TimeFormat, timeWrap: o.TimeWrap}
}

type c18Case struct {
	Family string    `json:"family"` // text native ops simplify multi scan
	Doc    string    `json:"doc,omitempty"`
	Layout string    `json:"layout,omitempty"` // text: model layout the document is written with first
	Via    int       `json:"via"`
	Opts   []c18Opts `json:"opts,omitempty"`
	Ops    []c18Op   `json:"ops,omitempty"`
	GoVal  string    `json:"go_value,omitempty"`
	// multi-document entry points (family multi) and scan (Strict = leaves only)
	Docs    []string `json:"docs,omitempty"`
	Seps    []string `json:"seps,omitempty"`
	Entry   string   `json:"entry,omitempty"`
	Channel bool     `json:"channel,omitempty"`
	Strict  bool     `json:"strict,omitempty"`
	Form    int      `json:"form,omitempty"` // 0 string 1 octets 2 stream 3 file
	// config family: the history of settings of *bag-time-format* / *bag-time-wrap* before the parse
	History []c18CfgStep `json:"history,omitempty"`
	// recover family: a text that does not parse, given to Entry; then Docs are parsed
	Bad    string    `json:"bad,omitempty"`
	// alias family: a history over several bags that look at one tree
	AOps   []c18AOp  `json:"alias_ops,omitempty"`
	Sweep  bool      `json:"sweep"`
	Cell   string    `json:"cell,omitempty"`
}

type c18CfgStep struct {
	Var    string `json:"var"`   // format | wrap
	Value  string `json:"value"` // "" = nil
	Symbol bool   `json:"symbol,omitempty"`
}

// a located disagreement
type c18Diff struct {
	sig      string
	observed string
	expected string
	from     string
	relies   []string
}

// ---------------------------------------------------------------------------------------------
// tokens -> jv / path / gv

func parseJV(ts []string) (*jv, []string, bool) {
	if len(ts) == 0 {
		return nil, nil, false
	}
	w, rest := ts[0], ts[1:]
	switch {
	case w == "n":
		return jNull(), rest, true
	case w == "T":
		return jBool(true), rest, true
	case w == "F":
		return jBool(false), rest, true
	case w == "[":
		a := &jv{kind: 'a'}
		for {
			if len(rest) == 0 {
				return nil, nil, false
			}
			if rest[0] == "]" {
				return a, rest[1:], true
			}
			var c *jv
			var ok bool
			c, rest, ok = parseJV(rest)
			if !ok {
				return nil, nil, false
			}
			a.arr = append(a.arr, c)
		}
	case w == "{":
		o := &jv{kind: 'o'}
		for {
			if len(rest) == 0 {
				return nil, nil, false
			}
			if rest[0] == "}" {
				return o, rest[1:], true
			}
			if rest[0][0] != 'k' {
				return nil, nil, false
			}
			k := lib.Unhex(rest[0][1:])
			var c *jv
			var ok bool
			c, rest, ok = parseJV(rest[1:])
			if !ok {
				return nil, nil, false
			}
			o.keys = append(o.keys, k)
			o.vals = append(o.vals, c)
		}
	case w[0] == 'i':
		n, ok := new(big.Int).SetString(w[1:], 10)
		return jBig(n), rest, ok
	case w[0] == 'd':
		f, err := strconv.ParseFloat(w[1:], 64)
		return jFlo(f), rest, err == nil
	case w[0] == 's':
		return jStr(lib.Unhex(w[1:])), rest, true
	case w[0] == 'm':
		return jTime(lib.Unhex(w[1:])), rest, true
	}
	return nil, nil, false
}

func parseDoc(s string) *jv {
	v, rest, ok := parseJV(strings.Fields(s))
	if !ok || len(rest) != 0 {
		return nil
	}
	return v
}

func parsePath(s string) ppath {
	var p ppath
	for _, w := range strings.Fields(s) {
		switch {
		case w == ";":
			return p
		case w == "*":
			p = append(p, pstep{kind: '*'})
		case w == "..":
			p = append(p, pstep{kind: 'd'})
		case w[0] == 'k':
			p = append(p, pstep{kind: 'k', key: lib.Unhex(w[1:])})
		case w[0] == 'x':
			n, _ := strconv.Atoi(w[1:])
			p = append(p, pstep{kind: 'x', idx: n})
		}
	}
	return p
}

// ---------------------------------------------------------------------------------------------
// Go values: wire, the real value, the result back as tokens

func (v *gv) wire() []string {
	switch v.kind {
	case 'n':
		return []string{"n"}
	case 'b':
		if v.b {
			return []string{"T"}
		}
		return []string{"F"}
	case 'i':
		return []string{"i" + strconv.Itoa(v.bits) + ":" + strconv.FormatInt(v.i, 10)}
	case 'u':
		return []string{"u" + strconv.Itoa(v.bits) + ":" + strconv.FormatUint(v.u, 10)}
	case 'f':
		return []string{"f" + fmtFloat(v.f)}
	case 'd':
		return []string{"d" + fmtFloat(v.f)}
	case 's':
		return []string{"s" + lib.Hex(v.s)}
	case 'm':
		return []string{"m" + v.time().Format(time.RFC3339Nano)}
	case '[':
		out := []string{"["}
		for _, c := range v.arr {
			out = append(out, c.wire()...)
		}
		return append(out, "]")
	default:
		out := []string{"{"}
		for i, k := range v.keys {
			out = append(out, "k"+lib.Hex(k))
			out = append(out, v.vals[i].wire()...)
		}
		return append(out, "}")
	}
}

func (v *gv) time() time.Time { return time.Unix(v.i, int64(v.u)).UTC() }

func (v *gv) value() any {
	switch v.kind {
	case 'n':
		return nil
	case 'b':
		return v.b
	case 'i':
		switch v.bits {
		case 8:
			return int8(v.i)
		case 16:
			return int16(v.i)
		case 32:
			return int32(v.i)
		case 64:
			return v.i
		}
		return int(v.i)
	case 'u':
		switch v.bits {
		case 8:
			return uint8(v.u)
		case 16:
			return uint16(v.u)
		case 32:
			return uint32(v.u)
		case 64:
			return v.u
		}
		return uint(v.u)
	case 'f':
		return float32(v.f)
	case 'd':
		return v.f
	case 's':
		return v.s
	case 'm':
		return v.time()
	case '[':
		out := make([]any, 0, len(v.arr))
		for _, c := range v.arr {
			out = append(out, c.value())
		}
		return out
	default:
		out := map[string]any{}
		for i, k := range v.keys {
			out[k] = v.vals[i].value()
		}
		return out
	}
}

func (v *gv) kindName() string {
	switch v.kind {
	case 'n':
		return "nil"
	case 'b':
		if v.b {
			return "true"
		}
		return "false"
	case 'i':
		return "int" + strconv.Itoa(v.bits)
	case 'u':
		name := "uint" + strconv.Itoa(v.bits)
		if v.u > math.MaxInt64 {
			name += "-above-int64"
		}
		return name
	case 'f':
		return "float32"
	case 'd':
		return "float64"
	case 's':
		return "string"
	case 'm':
		return "time"
	case '[':
		return "slice"
	}
	return "map"
}

func parseGV(ts []string) (*gv, []string, bool) {
	if len(ts) == 0 {
		return nil, nil, false
	}
	w, rest := ts[0], ts[1:]
	switch {
	case w == "n":
		return &gv{kind: 'n'}, rest, true
	case w == "T":
		return &gv{kind: 'b', b: true}, rest, true
	case w == "F":
		return &gv{kind: 'b'}, rest, true
	case w == "[":
		a := &gv{kind: '['}
		for {
			if len(rest) == 0 {
				return nil, nil, false
			}
			if rest[0] == "]" {
				return a, rest[1:], true
			}
			var c *gv
			var ok bool
			c, rest, ok = parseGV(rest)
			if !ok {
				return nil, nil, false
			}
			a.arr = append(a.arr, c)
		}
	case w == "{":
		o := &gv{kind: '{'}
		for {
			if len(rest) == 0 {
				return nil, nil, false
			}
			if rest[0] == "}" {
				return o, rest[1:], true
			}
			k := lib.Unhex(rest[0][1:])
			var c *gv
			var ok bool
			c, rest, ok = parseGV(rest[1:])
			if !ok {
				return nil, nil, false
			}
			o.keys = append(o.keys, k)
			o.vals = append(o.vals, c)
		}
	case w[0] == 'i' || w[0] == 'u':
		bits, val, _ := strings.Cut(w[1:], ":")
		b, _ := strconv.Atoi(bits)
		if w[0] == 'i' {
			n, err := strconv.ParseInt(val, 10, 64)
			return &gv{kind: 'i', bits: b, i: n}, rest, err == nil
		}
		n, err := strconv.ParseUint(val, 10, 64)
		return &gv{kind: 'u', bits: b, u: n}, rest, err == nil
	case w[0] == 'f' || w[0] == 'd':
		f, err := strconv.ParseFloat(w[1:], 64)
		return &gv{kind: w[0], f: f}, rest, err == nil
	case w[0] == 's':
		return &gv{kind: 's', s: lib.Unhex(w[1:])}, rest, true
	case w[0] == 'm':
		t, err := time.Parse(time.RFC3339Nano, w[1:])
		return &gv{kind: 'm', i: t.Unix(), u: uint64(t.Nanosecond())}, rest, err == nil
	}
	return nil, nil, false
}

// encGo renders a Go value that came back from Simplify as G tokens.
// encBagTree writes a bag's Go tree in the model's J tokens (an integer held as json.Number is an
// integer; a time is the token of its RFC 3339 text).
func encBagTree(v any) []string {
	switch t := v.(type) {
	case nil:
		return []string{"n"}
	case bool:
		if t {
			return []string{"T"}
		}
		return []string{"F"}
	case int64:
		return []string{"i" + strconv.FormatInt(t, 10)}
	case json.Number:
		return []string{"i" + string(t)}
	case float64:
		return []string{"d" + fmtFloat(t)}
	case string:
		return []string{"s" + lib.Hex(t)}
	case time.Time:
		return []string{"m" + lib.Hex(t.UTC().Format(time.RFC3339Nano))}
	case []any:
		out := []string{"["}
		for _, c := range t {
			out = append(out, encBagTree(c)...)
		}
		return append(out, "]")
	case map[string]any:
		out := []string{"{"}
		for _, k := range sortedKeys(t) {
			out = append(out, "k"+lib.Hex(k))
			out = append(out, encBagTree(t[k])...)
		}
		return append(out, "}")
	}
	return []string{fmt.Sprintf("?%T", v)}
}

func encGo(v any) []string {
	switch t := v.(type) {
	case nil:
		return []string{"n"}
	case bool:
		if t {
			return []string{"T"}
		}
		return []string{"F"}
	case int64:
		return []string{"i64:" + strconv.FormatInt(t, 10)}
	case int:
		return []string{"i0:" + strconv.Itoa(t)}
	case int8:
		return []string{"i8:" + strconv.Itoa(int(t))}
	case int16:
		return []string{"i16:" + strconv.Itoa(int(t))}
	case int32:
		return []string{"i32:" + strconv.Itoa(int(t))}
	case uint64:
		return []string{"u64:" + strconv.FormatUint(t, 10)}
	case uint:
		return []string{"u0:" + strconv.FormatUint(uint64(t), 10)}
	case uint8:
		return []string{"u8:" + strconv.Itoa(int(t))}
	case uint16:
		return []string{"u16:" + strconv.Itoa(int(t))}
	case uint32:
		return []string{"u32:" + strconv.FormatUint(uint64(t), 10)}
	case float32:
		return []string{"f" + fmtFloat(float64(t))}
	case float64:
		return []string{"d" + fmtFloat(t)}
	case string:
		return []string{"s" + lib.Hex(t)}
	case json.Number:
		return []string{"?json.Number:" + string(t)}
	case time.Time:
		return []string{"m" + t.UTC().Format(time.RFC3339Nano)}
	case []any:
		out := []string{"["}
		for _, c := range t {
			out = append(out, encGo(c)...)
		}
		return append(out, "]")
	case map[string]any:
		out := []string{"{"}
		for _, k := range sortedKeys(t) {
			out = append(out, "k"+lib.Hex(k))
			out = append(out, encGo(t[k])...)
		}
		return append(out, "}")
	}
	return []string{"?" + strings.ReplaceAll(strings.ReplaceAll(fmt.Sprintf("%T", v), " ", ""), "\n", "")}
}

// ---------------------------------------------------------------------------------------------
// where two trees differ: the kind of the guide's node at the first difference

// diffKind compares two Go trees with cmp on the leaves (and container shapes), guided by the
// document they both should equal; it returns "" when equal, else the guide's value kind there.
func diffKind(guide *jv, x, y any, leaf func(any) string) string {
	kind := "?"
	if guide != nil {
		kind = guide.leafKind()
	}
	switch tx := x.(type) {
	case []any:
		ty, ok := y.([]any)
		if !ok || len(tx) != len(ty) {
			return kind
		}
		for i := range tx {
			var g *jv
			if guide != nil && guide.kind == 'a' && i < len(guide.arr) {
				g = guide.arr[i]
			}
			if d := diffKind(g, tx[i], ty[i], leaf); d != "" {
				return d
			}
		}
		return ""
	case map[string]any:
		ty, ok := y.(map[string]any)
		if !ok || len(tx) != len(ty) {
			return kind
		}
		for _, k := range sortedKeys(tx) {
			cy, has := ty[k]
			if !has {
				return kind
			}
			var g *jv
			if guide != nil && guide.kind == 'o' {
				for i := len(guide.keys) - 1; i >= 0; i-- {
					if guide.keys[i] == k {
						g = guide.vals[i]
						break
					}
				}
			}
			if d := diffKind(g, tx[k], cy, leaf); d != "" {
				return d
			}
		}
		return ""
	}
	if leaf(x) != leaf(y) {
		return kind
	}
	return ""
}

// toAnyTree gives the Go tree the document denotes in canonical leaf types (used as the
// reference side of diffKind).
func (v *jv) toAnyTree() any {
	switch v.kind {
	case 'n':
		return nil
	case 'b':
		return v.b
	case 'i':
		if v.i.IsInt64() {
			return v.i.Int64()
		}
		return json.Number(v.i.String())
	case 'd':
		return v.f
	case 's':
		return v.s
	case 'a':
		out := make([]any, 0, len(v.arr))
		for _, c := range v.arr {
			out = append(out, c.toAnyTree())
		}
		return out
	default:
		out := map[string]any{}
		for i, k := range v.keys {
			out[k] = v.vals[i].toAnyTree()
		}
		return out
	}
}
