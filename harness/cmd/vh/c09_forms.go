package main

// C09, form sweeps (round 4): input classes no argument tuple over the pool reaches.
//
//   keys      every function documenting &key parameters x base argument tuples that the function
//             accepts x every single keyword over a value set and every pair of keywords over a
//             reduced value set (bounds such as :start / :end / :count beyond the length, negative,
//             start > end, wrong types, :from-end with and without bounds …)
//   defs      definition sequences: two definitions of the same family (defstruct, defclass,
//             defflavor) that are independent / one including the other / the second replacing the
//             first while an instance of the first is alive, with every slot count 0..3 on both
//             sides, then EVERY generated accessor, writer, copier, predicate, slot-value form
//             applied to the instances of BOTH definitions (accessor of one type on the instance of
//             another, stale accessors and stale instances after a redefinition)
//   contents  nested array contents: for every small dimension list the well-formed contents and
//             every one-node perturbation (one element short / long, empty, an atom, a vector, a
//             string, a dotted list at the first and the last child of every level) through the
//             reader (#nA), make-array and adjust-array :initial-contents
//
// Every case is one self-contained Lisp text (replayable alone).

import (
	"fmt"
	"os"
	"path/filepath"
	"sort"
	"strings"
	"time"
)

type c09FormCase struct{ sig, text string }

// runSigUnits explores units of (signature, text) cases and reports faults.
func (r *c09Run) runSigUnits(name, note string, units [][]c09FormCase) {
	c := r.c
	cu := make([][]c09Case, len(units))
	for i, u := range units {
		cu[i] = make([]c09Case, len(u))
		for k, fc := range u {
			cu[i][k] = c09Case{"E", fc.text}
		}
	}
	t0 := time.Now()
	obs := r.explore(cu, nil, func(u, k int, _ c09Result, kind string) string {
		return r.knownHow(units[u][k].sig + " kind=" + kind)
	})
	n := 0
	var dump []string
	for u := range obs {
		for k, ob := range obs[u] {
			n++
			r.countCase(ob.Res.Status == "V" || !(ob.Res.Class == "type-error" || ob.Res.Arity))
			c.Ev.Hist(name+"_outcome", c09OutcomeBucket(ob.Res))
			if ob.Res.Status == "V" && r.sample(name, 2) {
				c.Ev.Sample(map[string]string{"call": units[u][k].text, "outcome": ob.Res.Summary()})
			}
			if ob.Kind == "" {
				continue
			}
			sig := units[u][k].sig + " kind=" + ob.Kind
			if ob.How != "isolated" {
				sig += " how=" + ob.How
			}
			dump = append(dump, fmt.Sprintf("%s\t%s\t%s", sig, units[u][k].text, ob.Res.Summary()))
			r.report(sig, true, units[u][k].text, "E", ob, note)
		}
	}
	c.Ev.Coverage[name+"_cases"] = n
	c.Ev.Coverage[name+"_wall_s"] = time.Since(t0).Seconds()
	sort.Strings(dump)
	_ = os.WriteFile(filepath.Join(c.OutDir, name+"-faults.tsv"), []byte(strings.Join(dump, "\n")+"\n"), 0o644)
}

func (r *c09Run) sweepForms() {
	th := r.c.Thorough()
	r.runSigUnits("defs", "definition sequence", c09DefFamilies(th))
	r.runSigUnits("contents", "array contents shape", c09ContentsCases(th))
	r.sweepKeys(th)
}

// ---------------------------------------------------------------------------------------------
// definition sequences

type c09DefKind struct {
	name   string
	define func(name string, slots []string, parent string) string
	make   func(name string) string
	// slot probes: owner = the definition whose generated names are used
	slotProbes func(owner, slot, inst string) [][2]string
	// instance probes
	instProbes func(owner, inst string) [][2]string
}

var c09DefKinds = []c09DefKind{
	{
		name: "struct",
		define: func(name string, slots []string, parent string) string {
			head := name
			if parent != "" {
				head = "(" + name + " (:include " + parent + "))"
			}
			return "(defstruct " + head + " " + strings.Join(slots, " ") + ")"
		},
		make: func(name string) string { return "(make-" + name + ")" },
		slotProbes: func(owner, slot, inst string) [][2]string {
			acc := owner + "-" + slot
			return [][2]string{
				{"read", "(" + acc + " " + inst + ")"},
				{"write", "(setf (" + acc + " " + inst + ") 7)"},
				{"slot-value", "(slot-value " + inst + " '" + slot + ")"},
				{"set-slot-value", "(setf (slot-value " + inst + " '" + slot + ") 7)"},
			}
		},
		instProbes: func(owner, inst string) [][2]string {
			return [][2]string{
				{"copy", "(copy-" + owner + " " + inst + ")"},
				{"predicate", "(" + owner + "-p " + inst + ")"},
				{"print", "(format nil \"~s ~a\" " + inst + " " + inst + ")"},
				{"typep", "(typep " + inst + " '" + owner + ")"},
				{"equalp", "(equalp " + inst + " (make-" + owner + "))"},
				{"describe", "(describe " + inst + " (make-string-output-stream))"},
			}
		},
	},
	{
		name: "class",
		define: func(name string, slots []string, parent string) string {
			var b strings.Builder
			b.WriteString("(defclass " + name + " (" + parent + ") (")
			for i, s := range slots {
				fmt.Fprintf(&b, "(%s :accessor %s-%s :initarg :%s :initform %d)", s, name, s, s, i)
			}
			b.WriteString("))")
			return b.String()
		},
		make: func(name string) string { return "(make-instance '" + name + ")" },
		slotProbes: func(owner, slot, inst string) [][2]string {
			acc := owner + "-" + slot
			return [][2]string{
				{"read", "(" + acc + " " + inst + ")"},
				{"write", "(setf (" + acc + " " + inst + ") 7)"},
				{"slot-value", "(slot-value " + inst + " '" + slot + ")"},
				{"set-slot-value", "(setf (slot-value " + inst + " '" + slot + ") 7)"},
				{"slot-boundp", "(slot-boundp " + inst + " '" + slot + ")"},
				{"slot-makunbound", "(progn (slot-makunbound " + inst + " '" + slot + ") (format nil \"~s\" " + inst + "))"},
				{"slot-exists-p", "(slot-exists-p " + inst + " '" + slot + ")"},
			}
		},
		instProbes: func(owner, inst string) [][2]string {
			return [][2]string{
				{"change-class", "(progn (change-class " + inst + " '" + owner + ") (format nil \"~s\" " + inst + "))"},
				{"print", "(format nil \"~s ~a\" " + inst + " " + inst + ")"},
				{"typep", "(typep " + inst + " '" + owner + ")"},
				{"describe", "(describe " + inst + " (make-string-output-stream))"},
				{"reinitialize", "(reinitialize-instance " + inst + ")"},
			}
		},
	},
	{
		name: "flavor",
		define: func(name string, slots []string, parent string) string {
			return "(defflavor " + name + " (" + strings.Join(slots, " ") + ") (" + parent +
				") :gettable-instance-variables :settable-instance-variables :initable-instance-variables)"
		},
		make: func(name string) string { return "(make-instance '" + name + ")" },
		slotProbes: func(owner, slot, inst string) [][2]string {
			return [][2]string{
				{"read", "(send " + inst + " :" + slot + ")"},
				{"write", "(send " + inst + " :set-" + slot + " 7)"},
				{"slot-value", "(slot-value " + inst + " '" + slot + ")"},
				{"set-slot-value", "(setf (slot-value " + inst + " '" + slot + ") 7)"},
			}
		},
		instProbes: func(owner, inst string) [][2]string {
			return [][2]string{
				{"print", "(format nil \"~s ~a\" " + inst + " " + inst + ")"},
				{"typep", "(typep " + inst + " '" + owner + ")"},
				{"describe", "(describe " + inst + " (make-string-output-stream))"},
				{"inspect", "(send " + inst + " :inspect)"},
				{"which-operations", "(send " + inst + " :which-operations)"},
			}
		},
	},
}

func c09SlotNames(prefix string, n int) []string {
	out := make([]string, n)
	for i := range out {
		out[i] = fmt.Sprintf("%s%d", prefix, i)
	}
	return out
}

// c09DefFamilies: one unit per (kind, relation, slot counts).
func c09DefFamilies(thorough bool) [][]c09FormCase {
	maxSlots := 3
	if thorough {
		maxSlots = 4
	}
	var units [][]c09FormCase
	for _, dk := range c09DefKinds {
		for _, rel := range []string{"independent", "independent-other-names", "include", "redefine"} {
			for na := 0; na <= maxSlots; na++ {
				for nb := 0; nb <= maxSlots; nb++ {
					tag := fmt.Sprintf("c9%c%c%d%d", dk.name[0], rel[len(rel)-2], na, nb)
					A, B := tag+"a", tag+"b"
					sa, sb := c09SlotNames("s", na), c09SlotNames("s", nb)
					var wrap func(probe string) string
					// owners: definition name -> slot names whose generated accessors exist
					type owner struct {
						name  string
						slots []string
					}
					var owners []owner
					switch rel {
					case "independent":
						owners = []owner{{A, sa}, {B, sb}}
					case "independent-other-names":
						sb = c09SlotNames("u", nb)
						owners = []owner{{A, sa}, {B, sb}}
					case "include":
						sb = c09SlotNames("u", nb)
						owners = []owner{{A, sa}, {B, append(append([]string{}, sa...), sb...)}}
					case "redefine":
						B = A
						if na == nb {
							continue
						}
						long := sa
						if nb > na {
							long = sb
						}
						owners = []owner{{A, long}}
					}
					defA, defB := dk.define(A, sa, ""), dk.define(B, sb, "")
					if rel == "include" {
						defB = dk.define(B, sb, A)
					}
					if rel == "redefine" {
						wrap = func(p string) string {
							return "(progn " + defA + " (let ((a " + dk.make(A) + ")) " + defB + " (let ((b " + dk.make(B) + ")) " + p + ")))"
						}
					} else {
						wrap = func(p string) string {
							return "(progn " + defA + " " + defB + " (let ((a " + dk.make(A) + ") (b " + dk.make(B) + ")) " + p + "))"
						}
					}
					var u []c09FormCase
					for oi, o := range owners {
						on := "ab"[oi : oi+1]
						for _, inst := range []string{"a", "b"} {
							for k, s := range o.slots {
								for _, p := range dk.slotProbes(o.name, s, inst) {
									sig := fmt.Sprintf("defs=%s rel=%s slots=%d,%d op=%s of=%s:%d on=%s", dk.name, rel, na, nb, p[0], on, k, inst)
									u = append(u, c09FormCase{sig, wrap(p[1])})
								}
							}
							for _, p := range dk.instProbes(o.name, inst) {
								sig := fmt.Sprintf("defs=%s rel=%s slots=%d,%d op=%s of=%s on=%s", dk.name, rel, na, nb, p[0], on, inst)
								u = append(u, c09FormCase{sig, wrap(p[1])})
							}
						}
					}
					units = append(units, u)
				}
			}
		}
	}
	return units
}

// ---------------------------------------------------------------------------------------------
// array contents

type c09Tree struct {
	leaf string
	kids []*c09Tree
}

func (t *c09Tree) text() string {
	if t.kids == nil && t.leaf != "" {
		return t.leaf
	}
	parts := make([]string, len(t.kids))
	for i, k := range t.kids {
		parts[i] = k.text()
	}
	return "(" + strings.Join(parts, " ") + ")"
}

func c09FullTree(dims []int, next *int) *c09Tree {
	if len(dims) == 0 {
		*next++
		return &c09Tree{leaf: fmt.Sprint(*next)}
	}
	t := &c09Tree{kids: []*c09Tree{}}
	for i := 0; i < dims[0]; i++ {
		t.kids = append(t.kids, c09FullTree(dims[1:], next))
	}
	return t
}

// c09Perturb: the texts of the contents with the node at the given path changed.
func c09Perturb(dims []int, path []int) [][2]string {
	build := func(change func(n *c09Tree)) string {
		n := 0
		root := c09FullTree(dims, &n)
		node := root
		for _, p := range path {
			node = node.kids[p]
		}
		change(node)
		return root.text()
	}
	var out [][2]string
	isLeaf := len(path) == len(dims)
	if !isLeaf {
		out = append(out,
			[2]string{"short", build(func(n *c09Tree) {
				if len(n.kids) > 0 {
					n.kids = n.kids[:len(n.kids)-1]
				}
			})},
			[2]string{"long", build(func(n *c09Tree) {
				n.kids = append(n.kids, c09FullTree(dims[len(path)+1:], new(int)))
			})},
			[2]string{"empty", build(func(n *c09Tree) { n.kids = []*c09Tree{} })},
			[2]string{"vector", build(func(n *c09Tree) { n.leaf, n.kids = "#"+n.text(), nil })},
			[2]string{"dotted", build(func(n *c09Tree) { n.leaf, n.kids = "(1 . 2)", nil })},
		)
	} else {
		out = append(out, [2]string{"list-leaf", build(func(n *c09Tree) { n.leaf, n.kids = "(8 9)", nil })})
	}
	out = append(out,
		[2]string{"atom", build(func(n *c09Tree) { n.leaf, n.kids = "7", nil })},
		[2]string{"string", build(func(n *c09Tree) { n.leaf, n.kids = `"ab"`, nil })},
		[2]string{"nil", build(func(n *c09Tree) { n.leaf, n.kids = "nil", nil })},
	)
	return out
}

func c09ContentsCases(thorough bool) [][]c09FormCase {
	var dimLists [][]int
	m1, m2, m3 := 3, 2, 2
	if thorough {
		m1, m2, m3 = 4, 3, 3
	}
	for a := 0; a <= m1; a++ {
		dimLists = append(dimLists, []int{a})
	}
	for a := 0; a <= m2+1; a++ {
		for b := 0; b <= m2+1; b++ {
			dimLists = append(dimLists, []int{a, b})
		}
	}
	for a := 1; a <= m3; a++ {
		for b := 1; b <= m3; b++ {
			for c := 0; c <= m3; c++ {
				dimLists = append(dimLists, []int{a, b, c})
			}
		}
	}
	if thorough {
		dimLists = append(dimLists, []int{2, 2, 2, 2}, []int{1, 2, 1, 2})
	}
	var units [][]c09FormCase
	for _, dims := range dimLists {
		ds := make([]string, len(dims))
		for i, d := range dims {
			ds[i] = fmt.Sprint(d)
		}
		dimText, dimSig := "("+strings.Join(ds, " ")+")", strings.Join(ds, "x")
		// paths: the root, and at every level the first and the last child of the nodes on the
		// leftmost and the rightmost spine
		paths := [][]int{{}}
		var walk func(path []int, level int)
		walk = func(path []int, level int) {
			if level >= len(dims) || dims[level] == 0 {
				return
			}
			seen := map[int]bool{}
			for _, i := range []int{0, dims[level] - 1} {
				if seen[i] {
					continue
				}
				seen[i] = true
				p := append(append([]int{}, path...), i)
				paths = append(paths, p)
				walk(p, level+1)
			}
		}
		walk(nil, 0)
		var u []c09FormCase
		emit := func(at, change, contents string) {
			vias := [][2]string{
				{"reader", fmt.Sprintf("#%dA%s", len(dims), contents)},
				{"make-array", fmt.Sprintf("(make-array '%s :initial-contents '%s)", dimText, contents)},
				{"make-array-adjustable", fmt.Sprintf("(make-array '%s :adjustable t :element-type 'fixnum :initial-contents '%s)", dimText, contents)},
				{"adjust-array", fmt.Sprintf("(adjust-array (make-array '%s :adjustable t) '%s :initial-contents '%s)", dimText, dimText, contents)},
			}
			if len(dims) == 1 {
				vias = append(vias,
					[2]string{"vector", fmt.Sprintf("(make-array %d :initial-contents '%s)", dims[0], contents)},
					[2]string{"fill-vector", fmt.Sprintf("(make-array %d :fill-pointer t :initial-contents '%s)", dims[0], contents)})
			}
			for _, v := range vias {
				text := v[1]
				if v[0] != "reader" {
					// use the result: print it and read an element
					text = "(let ((x " + text + ")) (format nil \"~s\" x) (row-major-aref x 0))"
				}
				u = append(u, c09FormCase{fmt.Sprintf("contents via=%s dims=%s at=%s change=%s", v[0], dimSig, at, change), text})
			}
		}
		n := 0
		emit("-", "none", c09FullTree(dims, &n).text())
		for _, p := range paths {
			ps := make([]string, len(p))
			for i, x := range p {
				if x == 0 {
					ps[i] = "first"
				} else {
					ps[i] = "last"
				}
			}
			at := "root"
			if len(p) > 0 {
				at = strings.Join(ps, ".")
			}
			for _, pc := range c09Perturb(dims, p) {
				emit(at, pc[0], pc[1])
			}
		}
		units = append(units, u)
	}
	return units
}

// ---------------------------------------------------------------------------------------------
// keyword arguments

// values tried for every keyword alone
var c09KeyValues = []string{"nil", "t", "0", "1", "2", "3", "5", "-1", "maxfix", "1.5", "\"a\"", ":a", "sym", "#'car", "lambda", "(1 2 3)", "#\\a"}

// values tried for every pair of keywords
var c09KeyPairValuesQuick = []string{"0", "5", "t"}
var c09KeyPairValuesThorough = []string{"nil", "0", "2", "5", "t", "-1"}

// base objects for the required positions
var c09KeyBase2 = []string{"nil", "(1 2 3)", "#(1 2 3)", "\"a\"", "\"12\"", "fillvec", "#*101", "octets", "1", "#\\a", "sym", ":a", "#'car", "hash", "alist"}
var c09KeyBase3 = []string{"(1 2 3)", "#(1 2 3)", "\"12\"", "1", "#\\a", "#'car"}

func (r *c09Run) sweepKeys(thorough bool) {
	c := r.c
	byName := map[string]c09Obj{}
	for _, o := range c09Pool {
		byName[o.Name] = o
	}
	for _, n := range []string{"2", "5", "4"} {
		byName[n] = c09Self(n, "fixnum", n)
	}
	objs := func(names []string) []c09Obj {
		out := make([]c09Obj, len(names))
		for i, n := range names {
			o, ok := byName[n]
			if !ok {
				panic("c09: no pool object named " + n)
			}
			out[i] = o
		}
		return out
	}
	b2, b3 := objs(c09KeyBase2), objs(c09KeyBase3)
	var fns []*c09Fn
	for _, f := range r.fns {
		if len(f.Keys) > 0 && f.Req <= 3 {
			fns = append(fns, f)
		}
	}
	// phase 1: which base tuples does the function accept
	type base struct {
		objs  []c09Obj
		types string
	}
	bases := make([][]base, len(fns))
	probe := make([][]c09Case, len(fns))
	for i, f := range fns {
		var tuples [][]c09Obj
		switch f.Req {
		case 0:
			tuples = [][]c09Obj{{}}
		case 1:
			for _, o := range c09Pool {
				tuples = append(tuples, []c09Obj{o})
			}
		case 2:
			for _, x := range b2 {
				for _, y := range b2 {
					tuples = append(tuples, []c09Obj{x, y})
				}
			}
		case 3:
			for _, x := range b3 {
				for _, y := range b3 {
					for _, z := range b3 {
						tuples = append(tuples, []c09Obj{x, y, z})
					}
				}
			}
		}
		for _, t := range tuples {
			ts := make([]string, len(t))
			for k, o := range t {
				ts[k] = o.Type
			}
			bases[i] = append(bases[i], base{t, strings.Join(ts, ",")})
			probe[i] = append(probe[i], c09Case{"E", f.CallObjs(t...)})
		}
	}
	t0 := time.Now()
	pres := r.eng.RunUnits(probe, nil)
	maxBases := 10
	pairVals := c09KeyPairValuesQuick
	if thorough {
		maxBases = 40
		pairVals = c09KeyPairValuesThorough
	}
	var units [][]c09FormCase
	nb := 0
	for i, f := range fns {
		// accepted: a value, or a condition other than type / arity error; no fault. Values first,
		// one base per distinct type tuple first.
		var chosen []base
		seenTypes := map[string]bool{}
		for pass := 0; pass < 4 && len(chosen) < maxBases; pass++ {
			for k, b := range bases[i] {
				if len(chosen) >= maxBases {
					break
				}
				rs := pres[i][k]
				if c09FaultKind(rs) != "" || (rs.Status != "V" && rs.Status != "C") {
					continue
				}
				isV := rs.Status == "V"
				ok := rs.Status == "V" || !(rs.Class == "type-error" || rs.Arity)
				if !ok || (pass < 2) != isV {
					continue
				}
				first := !seenTypes[b.types]
				if (pass%2 == 0) != first {
					continue
				}
				if pass%2 == 1 {
					// second representative of a type tuple: only when it is a different object tuple
					dup := false
					for _, ch := range chosen {
						if f.CallObjs(ch.objs...) == f.CallObjs(b.objs...) {
							dup = true
						}
					}
					if dup {
						continue
					}
				}
				seenTypes[b.types] = true
				chosen = append(chosen, b)
			}
		}
		nb += len(chosen)
		var u []c09FormCase
		for _, b := range chosen {
			call := f.CallObjs(b.objs...)
			call = call[:len(call)-1]
			for _, k := range f.Keys {
				for _, vn := range c09KeyValues {
					v := byName[vn]
					u = append(u, c09FormCase{
						fmt.Sprintf("fn=%s base=%s keys=:%s vals=%s", f.Key(), b.types, k, vn),
						fmt.Sprintf("%s :%s %s)", call, k, v.Expr)})
				}
			}
			for x := 0; x < len(f.Keys); x++ {
				for y := x + 1; y < len(f.Keys); y++ {
					for _, vx := range pairVals {
						for _, vy := range pairVals {
							u = append(u, c09FormCase{
								fmt.Sprintf("fn=%s base=%s keys=:%s,:%s vals=%s,%s", f.Key(), b.types, f.Keys[x], f.Keys[y], vx, vy),
								fmt.Sprintf("%s :%s %s :%s %s)", call, f.Keys[x], byName[vx].Expr, f.Keys[y], byName[vy].Expr)})
						}
					}
				}
			}
		}
		if len(u) > 0 {
			units = append(units, u)
		}
	}
	c.Ev.Coverage["keys_functions"] = len(fns)
	c.Ev.Coverage["keys_bases"] = nb
	c.Ev.Coverage["keys_probe_wall_s"] = time.Since(t0).Seconds()
	r.runSigUnits("keys", "keyword arguments", units)
}
