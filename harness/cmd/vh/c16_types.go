package main

// C16, type family: typep / type-of / subtypep / coerce on a pool of objects of every built-in
// kind x every class known to the registry. The laws of the property are evaluated directly on the
// implementation; typep, the Hierarchy() lists, the class precedence and the coerce result types
// are compared with SlipVerif.Model.Types over the regenerated tables ("type row|classes|coerce").

import (
	"fmt"
	"sort"
	"strings"

	"github.com/ohler55/slip"
	"verif/harness/lib"
)

// expressions building the pool (evaluated once, in order; the value is bound to x)
var c16TypePool = []string{
	"5", "-1", "9223372036854775807", "18446744073709551616", "1/2", "-7/3", "1.5s0", "1.5d0", "0.0d0", "1.5L0", "#C(1 2)",
	"(coerce 5 'octet)", "(coerce 1 'bit)", "(coerce 5 'signed-byte)", "(coerce 5 'unsigned-byte)",
	`"abc"`, `""`, "'abc", ":key", `#\a`, `#\A`, "'(1 2)", "'(1 . 2)", "'(a (b c))", "nil", "#(1 2)", "#()", "(coerce '(1 2) 'octets)",
	"(coerce '(1 0 1) 'bit-vector)", "(make-array '(2 2))", "(make-hash-table)", "(now)", "*package*", "(find-package 'keyword)",
	"*standard-output*", "*standard-input*", "(make-string-output-stream)", `(make-string-input-stream "abc")`,
	"(lambda (x) x)", "#'car", "(find-class 'fixnum)", "(find-class 'vanilla-flavor)", "(make-condition 'error)",
	"(make-condition 'type-error)", "(make-condition 'division-by-zero)", "(make-instance 'vanilla-flavor)", "t",
}

// the target types of coerce.go:63-165 for which typep is meaningful
var c16CoerceTargets = []string{"list", "string", "vector", "character", "integer", "fixnum", "octet", "byte", "octets", "bignum",
	"float", "short-float", "single-float", "double-float", "long-float", "rational", "ratio", "complex", "symbol", "hash-table",
	"function", "bit-vector", "signed-byte", "unsigned-byte", "bit"}

func c16TypeOfText(scope *slip.Scope, v slip.Object) string {
	scope.Let(slip.Symbol("tv"), v)
	o := lib.EvalString(scope, "(type-of tv)")
	if !o.Ok {
		return "E:" + o.Class
	}
	return strings.ToLower(o.Text)
}

func c16TypeFamily(c *lib.Ctx) {
	scope := slip.NewScope()
	user := slip.FindPackage("common-lisp-user")
	var names []string
	meta := map[string]string{}
	for _, cl := range user.AllClasses() {
		n := strings.ToLower(cl.Name())
		if _, dup := meta[n]; dup {
			continue
		}
		names = append(names, n)
		meta[n] = strings.ToLower(string(cl.Metaclass()))
	}
	sort.Strings(names)
	c.Ev.Coverage["type_classes_in_registry"] = len(names)

	// --- subtypep on all pairs of registered classes: reflexive, transitive
	sub := map[string]map[string]bool{}
	for _, a := range names {
		sub[a] = map[string]bool{}
		for _, b := range names {
			scope.Let(slip.Symbol("ta"), slip.Symbol(a))
			scope.Let(slip.Symbol("tb"), slip.Symbol(b))
			o := lib.EvalString(scope, "(car (multiple-value-list (subtypep ta tb)))")
			c.Ev.Case("subtypep "+a+" "+b, a != b)
			if !o.Ok {
				c.Report(fmt.Sprintf("type-law=subtypep-total type=%s kind=%s aspect=condition:%s", b, a, o.Class), true,
					map[string]any{"family": "type", "input": fmt.Sprintf("(subtypep '%s '%s)", a, b), "observed": "err " + o.Class, "expected": "t or nil"})
				continue
			}
			sub[a][b] = o.Value != nil
		}
	}
	for _, a := range names {
		if !sub[a][a] {
			c.Report(fmt.Sprintf("type-law=subtypep-reflexive type=%s kind=%s aspect=nil", a, a), true,
				map[string]any{"family": "type", "input": fmt.Sprintf("(subtypep '%s '%s)", a, a), "observed": "nil", "expected": "t", "expected_from": "property statement"})
		}
		for _, b := range names {
			if !sub[a][b] {
				continue
			}
			for _, d := range names {
				if sub[b][d] && !sub[a][d] {
					c.Report(fmt.Sprintf("type-law=subtypep-transitive type=%s kind=%s aspect=via-%s", d, a, b), true,
						map[string]any{"family": "type", "input": fmt.Sprintf("(subtypep '%s '%s) (subtypep '%s '%s) (subtypep '%s '%s)", a, b, b, d, a, d),
							"observed": "t t nil", "expected": "transitive", "expected_from": "property statement"})
				}
			}
		}
	}
	// --- the class precedence of every built-in class against the regenerated class table
	modelPrec := map[string][]string{}
	reply := c.Model([]string{"type classes"})[0]
	for _, ent := range strings.Split(strings.TrimPrefix(reply, "ok "), ";") {
		nm, prec, _ := strings.Cut(ent, ":")
		modelPrec[nm] = strings.Split(prec, ",")
	}
	for _, a := range names {
		prec, has := modelPrec[a]
		if meta[a] != "built-in-class" {
			continue
		}
		if !has {
			c.Report(fmt.Sprintf("type-law=model-class type=%s kind=%s aspect=not-in-generated-table", a, a), true,
				map[string]any{"family": "type", "input": "(find-class '" + a + ")", "observed": "registered at run time", "expected": "listed in pkg/clos/built-in.go defBuiltIns", "expected_from": "Gen/Hierarchies.classes"})
			continue
		}
		inPrec := map[string]bool{}
		for _, p := range prec {
			inPrec[p] = true
		}
		for _, b := range names {
			if meta[b] == "built-in-class" && sub[a][b] != inPrec[b] {
				c.Report(fmt.Sprintf("type-law=model-subtypep type=%s kind=%s aspect=impl-%s", b, a, c16Bool(sub[a][b])), true,
					map[string]any{"family": "type", "input": fmt.Sprintf("(subtypep '%s '%s)", a, b), "observed": c16Bool(sub[a][b]), "expected": c16Bool(inPrec[b]), "expected_from": "model:type.classes",
						"relies_on": []string{"SlipVerif.Types.Gen.subtype_trans", "SlipVerif.Types.Gen.subtype_refl"}})
			}
		}
	}
	for a := range modelPrec {
		if _, has := meta[a]; !has {
			c.Report(fmt.Sprintf("type-law=model-class type=%s kind=%s aspect=not-registered", a, a), true,
				map[string]any{"family": "type", "input": "(find-class '" + a + ")", "observed": "nil", "expected": "a built-in class", "expected_from": "Gen/Hierarchies.classes"})
		}
	}

	// --- the pool
	nObj := 0
	for _, expr := range c16TypePool {
		o := lib.EvalString(scope, expr)
		if !o.Ok {
			fmt.Printf("c16: pool expression %s failed: %s %s\n", expr, o.Class, o.Msg)
			panic("c16 type pool")
		}
		nObj++
		x := o.Value
		scope.Let(slip.Symbol("x"), x)
		tau := c16TypeOfText(scope, x)
		c.Ev.Hist("type_pool_kind", tau)
		var hier []string
		if x != nil {
			for _, s := range x.Hierarchy() {
				hier = append(hier, strings.ToLower(string(s)))
			}
		}
		// type symbols are passed as objects (bound to a variable), not through the reader
		typep := func(sigma string) string {
			scope.Let(slip.Symbol("ty"), slip.Symbol(sigma))
			return c16Call(scope, "(typep x ty)")
		}
		rep := func(law, sigma, aspect, input, observed, expected, from string) {
			c.Report(fmt.Sprintf("type-law=%s type=%s kind=%s aspect=%s", law, sigma, tau, aspect), true,
				map[string]any{"family": "type", "expr": expr, "input": input, "observed": observed, "expected": expected, "expected_from": from})
		}
		// L1: every object satisfies typep of its own type-of
		if got := typep(tau); got != "t" {
			rep("typep-of-type-of", tau, "impl-"+got, fmt.Sprintf("(typep %s (type-of %s))", expr, expr), got, "t", "property statement")
		}
		// the model's view of this type
		row := c.Model([]string{"type row " + tau})[0]
		lit, subs, _ := strings.Cut(strings.TrimPrefix(row, "ok "), "|")
		var modelHier []string
		if lit != "-" {
			modelHier = strings.Split(lit, ",")
		}
		modelSubs := map[string]bool{}
		if subs != "-" {
			for _, s := range strings.Split(subs, ",") {
				modelSubs[s] = true
			}
		}
		if modelHier != nil && strings.Join(modelHier, ",") != strings.Join(hier, ",") {
			rep("model-hierarchy", tau, "lists-differ", expr+" Hierarchy()", strings.Join(hier, ","), lit, "model:type.row (Gen/Hierarchies)")
		}
		_, tauRegistered := meta[tau]
		for _, sigma := range names {
			got := typep(sigma)
			c.Ev.Case("typep "+expr+" "+sigma, true)
			if got != "t" && got != "n" {
				rep("typep-total", sigma, got, fmt.Sprintf("(typep %s '%s)", expr, sigma), got, "t or nil", "property statement")
				continue
			}
			if modelHier != nil {
				want := false
				for _, h := range modelHier {
					if h == sigma {
						want = true
					}
				}
				if (got == "t") != want {
					rep("model-typep", sigma, "impl-"+got, fmt.Sprintf("(typep %s '%s)", expr, sigma), got, c16Bool(want), "model:type.row (Gen/Hierarchies)")
				}
			}
			if tauRegistered {
				// L2: typep of every supertype of the type-of; L3: subtypep agrees with typep
				if sub[tau][sigma] && got != "t" {
					rep("supertype-typep", sigma, "impl-n", fmt.Sprintf("(subtypep '%s '%s) (typep %s '%s)", tau, sigma, expr, sigma), "t nil", "t t", "property statement")
				}
				if got == "t" && !sub[tau][sigma] {
					rep("typep-subtypep", sigma, "subtypep-n", fmt.Sprintf("(typep %s '%s) (subtypep '%s '%s)", expr, sigma, tau, sigma), "t nil", "t t", "property statement")
				}
			}
		}
		// --- coerce: a returned object is of the requested type
		for _, target := range c16CoerceTargets {
			scope.Let(slip.Symbol("ty"), slip.Symbol(target))
			r := lib.EvalString(scope, "(coerce x ty)")
			c.Ev.Case("coerce "+expr+" "+target, true)
			if !r.Ok {
				c.Ev.Hist("coerce_outcome", "condition")
				if r.GoFault {
					c.Report(fmt.Sprintf("type-law=coerce-total type=%s kind=%s aspect=go-fault", target, tau), true,
						map[string]any{"family": "type", "expr": expr, "input": fmt.Sprintf("(coerce %s '%s)", expr, target), "observed": "err " + r.Class + " " + r.Msg, "expected": "an object of the type or a condition"})
				}
				continue
			}
			c.Ev.Hist("coerce_outcome", "value")
			rt := c16TypeOfText(scope, r.Value)
			scope.Let(slip.Symbol("rv"), r.Value)
			got := c16Call(scope, "(typep rv ty)")
			input := fmt.Sprintf("(typep (coerce %s '%s) '%s)", expr, target, target)
			if got != "t" {
				c.Report(fmt.Sprintf("type-law=coerce-result type=%s result=%s aspect=typep-%s", target, rt, got), true,
					map[string]any{"family": "type", "expr": expr, "input": input, "observed": got + " (result " + r.Text + " of type " + rt + ")", "expected": "t", "expected_from": "property statement"})
				continue
			}
			allowed := strings.TrimPrefix(c.Model([]string{"type coerce " + target})[0], "ok ")
			if allowed != "-" && rt != "null" {
				// (an empty list is reported as null by type-of; typep.go special-cases it)
				ok := false
				for _, a := range strings.Split(allowed, ",") {
					if a == rt {
						ok = true
					}
				}
				if !ok {
					c.Report(fmt.Sprintf("type-law=model-coerce type=%s result=%s aspect=unexpected-result-type", target, rt), true,
						map[string]any{"family": "type", "expr": expr, "input": fmt.Sprintf("(type-of (coerce %s '%s))", expr, target), "observed": rt, "expected": "one of " + allowed, "expected_from": "model:type.coerce",
							"relies_on": []string{"SlipVerif.Types.Gen.coerce_result_type"}})
				}
			}
		}
	}
	c.Ev.Coverage["type_pool_objects"] = nObj
}
