package main

// C18 — the oflisp family: native Lisp data into a bag (bag.ObjectToBag behind make-bag, :set,
// bag-set with and without a path) for the whole universe of the model's Lisp objects: symbols
// in every letter case (`:false` is the boolean false in any case), octets, single floats,
// bignums, times, plain lists, dotted pairs with string and symbol keys, lists that only look
// like assoc lists, assoc lists with a bad item or key (a condition). Compared with the model's
// `ofLisp` (Model/JsonLisp.lean; tied to the source by GenC18 gen_objectToBag_*).

import (
	"fmt"
	"math/big"
	"strconv"
	"strings"
	"time"

	"github.com/ohler55/slip"
	"verif/harness/lib"
)

// decLispObj builds the Lisp object of an L token list (the inverse of encLisp).
func decLispObj(ts []string) (slip.Object, []string, bool) {
	if len(ts) == 0 {
		return nil, nil, false
	}
	w, rest := ts[0], ts[1:]
	switch {
	case w == "n":
		return nil, rest, true
	case w == "t":
		return slip.True, rest, true
	case w == "(":
		out := slip.List{}
		for {
			if len(rest) == 0 {
				return nil, nil, false
			}
			if rest[0] == ")" {
				return out, rest[1:], true
			}
			var o slip.Object
			var ok bool
			o, rest, ok = decLispObj(rest)
			if !ok {
				return nil, nil, false
			}
			out = append(out, o)
		}
	case w == ".":
		o, r, ok := decLispObj(rest)
		return slip.Tail{Value: o}, r, ok
	}
	body := w[1:]
	switch w[0] {
	case 'i':
		n, ok := new(big.Int).SetString(body, 10)
		if !ok {
			return nil, nil, false
		}
		if n.IsInt64() {
			return slip.Fixnum(n.Int64()), rest, true
		}
		return (*slip.Bignum)(n), rest, true
	case 'o':
		n, err := strconv.Atoi(body)
		return slip.Octet(n), rest, err == nil
	case 'f':
		f, err := strconv.ParseFloat(body, 64)
		return slip.SingleFloat(f), rest, err == nil
	case 'd':
		f, err := strconv.ParseFloat(body, 64)
		return slip.DoubleFloat(f), rest, err == nil
	case 's':
		return slip.String(lib.Unhex(body)), rest, true
	case 'y':
		return slip.Symbol(lib.Unhex(body)), rest, true
	case 'm':
		t, err := time.Parse(time.RFC3339Nano, body)
		return slip.Time(t), rest, err == nil
	}
	return nil, nil, false
}

func lw(o slip.Object) string { return strings.Join(encLisp(o), " ") }

func c18SweepLispValues() []slip.Object {
	pair := func(k, v slip.Object) slip.Object { return slip.List{k, slip.Tail{Value: v}} }
	s := func(x string) slip.Object { return slip.String(x) }
	y := func(x string) slip.Object { return slip.Symbol(x) }
	big1, _ := new(big.Int).SetString("18446744073709551616", 10)
	big2, _ := new(big.Int).SetString("-9223372036854775809", 10)
	tm := slip.Time(time.Date(2024, 1, 2, 3, 4, 5, 6000, time.UTC))
	return []slip.Object{
		nil, slip.True, slip.Fixnum(0), slip.Fixnum(-7), (*slip.Bignum)(big1), (*slip.Bignum)(big2), slip.Octet(0), slip.Octet(255),
		slip.SingleFloat(1.5), slip.SingleFloat(0.1), slip.DoubleFloat(-2.25), s(""), s("x y"), tm,
		y(":false"), y(":FALSE"), y(":False"), y(":fAlSe"), y("false"), y(":falsey"), y(":fals"), y("abc"), y(":key"), y("NIL"), y(":true"),
		slip.List{}, slip.List{slip.Fixnum(1)}, slip.List{slip.Fixnum(1), nil, slip.True}, slip.List{nil}, slip.List{y(":false"), y(":FALSE")},
		slip.List{pair(s("a"), slip.Fixnum(1))}, slip.List{pair(y("a"), slip.Fixnum(1))}, slip.List{pair(y(":k"), nil)},
		slip.List{pair(s("a"), slip.Fixnum(1)), pair(s("b"), y(":False"))}, slip.List{pair(s("a"), slip.Fixnum(1)), pair(s("a"), slip.Fixnum(2))},
		slip.List{pair(s("a"), slip.List{pair(s("b"), slip.List{slip.Fixnum(1), slip.Fixnum(2)})})},
		// lists that only look like assoc lists: a plain two element list first; three elements first
		slip.List{slip.List{s("a"), slip.Fixnum(1)}}, slip.List{slip.List{s("a"), slip.Fixnum(1)}, pair(s("b"), slip.Fixnum(2))},
		slip.List{slip.List{s("a"), slip.Fixnum(1), slip.Fixnum(2)}}, slip.List{slip.List{s("a")}},
		// (constructible from Go only) a tail in the middle of a longer list: no pair, its value's Simplify
		slip.List{slip.List{s("a"), slip.Tail{Value: slip.Fixnum(1)}, slip.Fixnum(2)}},
		slip.List{slip.Fixnum(0), slip.Tail{Value: y(":false")}, slip.Tail{Value: slip.List{pair(s("k"), slip.Fixnum(1))}}},
		// an assoc list with a bad item / a bad key: a condition
		slip.List{pair(s("a"), slip.Fixnum(1)), slip.Fixnum(2)}, slip.List{pair(s("a"), slip.Fixnum(1)), slip.List{s("b")}},
		slip.List{pair(slip.Fixnum(1), slip.Fixnum(2))}, slip.List{pair(s("a"), slip.Fixnum(1)), pair(nil, slip.Fixnum(2))},
		// the second element of a later pair is no tail: its value is taken as it is
		slip.List{pair(s("a"), slip.Fixnum(1)), slip.List{s("b"), slip.Fixnum(2)}},
	}
}

// c18NestedSingles: every nesting (depth 1..3) of one-element lists around a string, a symbol, nil, a
// number, the empty string — alone, as the first element before a second entry, and as a later
// element (a one-element list is what `(cons "a" nil)` is: it must stay an array, never an assoc entry;
// seeded C18-11)
func c18NestedSingles() []slip.Object {
	var out []slip.Object
	elems := []slip.Object{slip.String("a"), slip.Symbol("a"), nil, slip.Fixnum(1), slip.String(""), slip.Symbol(":k")}
	for _, e := range elems {
		cur := e
		for depth := 1; depth <= 3; depth++ {
			cur = slip.List{cur}
			out = append(out, cur,
				slip.List{cur, slip.List{slip.String("b"), slip.String("c")}},
				slip.List{cur, slip.Fixnum(5)},
				slip.List{slip.String("b"), cur},
				slip.List{cur, cur},
				slip.List{slip.List{slip.String("k"), slip.Tail{Value: cur}}})
		}
	}
	return out
}

func (r *c18Run) sweepOfLisp() []*c18Case {
	var out []*c18Case
	for _, o := range append(c18SweepLispValues(), c18NestedSingles()...) {
		for via := 0; via < 4; via++ {
			out = append(out, &c18Case{Family: "oflisp", GoVal: lw(o), Via: via, Sweep: true, Cell: "value"})
		}
	}
	return out
}

func (r *c18Run) randomLisp(depth int) slip.Object {
	g := r.g
	if depth <= 0 || g.r.Chance(45) {
		switch g.r.Intn(10) {
		case 0:
			return nil
		case 1:
			return slip.True
		case 2:
			return slip.Fixnum(int64(g.r.Intn(2000)) - 1000)
		case 3:
			return (*slip.Bignum)(bigOf(g.pick(c18BigInts)))
		case 4:
			return slip.Octet(g.r.Intn(256))
		case 5:
			return slip.SingleFloat(float32(g.r.Intn(1000)) / 8)
		case 6:
			return slip.DoubleFloat(float64(g.r.Intn(100000))/8 - 500)
		case 7:
			return slip.Symbol([]string{":false", ":FALSE", ":False", ":falSE", "abc", ":key", "false", ":falsey", "T", "nil"}[g.r.Intn(10)])
		default:
			return slip.String(g.str())
		}
	}
	n := 1 + g.r.Intn(4)
	if g.r.Chance(45) {
		out := slip.List{}
		seen := map[string]bool{}
		for i := 0; i < n; i++ {
			k := g.key()
			if seen[k] {
				continue
			}
			seen[k] = true
			var key slip.Object = slip.String(k)
			if g.r.Chance(30) {
				key = slip.Symbol(k)
			}
			out = append(out, slip.List{key, slip.Tail{Value: r.randomLisp(depth - 1)}})
		}
		return out
	}
	out := slip.List{}
	for i := 0; i < n; i++ {
		out = append(out, r.randomLisp(depth-1))
	}
	return out
}

func (r *c18Run) runOfLisp(cases []*c18Case) {
	reqs := make([]string, len(cases))
	for i, cs := range cases {
		reqs[i] = "json oflisp " + cs.GoVal
	}
	replies := r.c.Model(reqs)
	for i, cs := range cases {
		obj, rest, ok := decLispObj(strings.Fields(cs.GoVal))
		if !ok || len(rest) != 0 {
			fmt.Println("C18 harness bug: lisp value", cs.GoVal)
			continue
		}
		_, isList := obj.(slip.List)
		r.c.Ev.Case("oflisp "+cs.GoVal+strconv.Itoa(cs.Via), isList)
		r.c.Ev.Hist("family", "oflisp")
		via := cs.Via % 4
		if _, isStr := obj.(slip.String); isStr && via == 0 {
			via = 1 // make-bag parses a string argument as text (documented)
		}
		b := map[string]slip.Object{"c18-n": obj}
		var o lib.Outcome
		entry := []string{"make-bag", "init-set", "bag-set", "bag-set-path"}[via]
		switch via {
		case 0:
			o = r.impl.eval("(make-bag c18-n)", b)
		case 1:
			o = r.impl.eval("(make-instance 'bag-flavor :set c18-n)", b)
		case 2:
			o = r.impl.eval("(bag-set (make-bag \"0\") c18-n)", b)
		default:
			o = r.impl.eval("(bag-get (bag-set (make-bag \"{z:0}\") c18-n \"a\") \"a\" t)", b)
		}
		r.c.Ev.Hist("oflisp_entry", entry)
		exp := replies[i]
		got := "err"
		if o.Ok {
			if o.Value == nil && via == 3 {
				got = "ok n" // bag-get of a null leaf returns nil, not a bag
			} else if a, isBag := bagAny(o.Value); isBag {
				got = "ok " + canonTokenString(strings.Join(encBagTree(a), " "))
			} else {
				got = "?not-a-bag " + slip.ObjectString(o.Value)
			}
		}
		if strings.HasPrefix(exp, "ok ") {
			exp = "ok " + canonTokenString(exp[3:])
		} else if strings.HasPrefix(exp, "err") {
			exp = "err"
		}
		kind := lispKind(obj)
		r.check(cs, got == exp, c18Diff{sig: sig("oflisp", entry, kind, "wrong-bag"), observed: got + " " + o.Msg, expected: exp, from: "model:json.oflisp",
			relies: []string{"SlipVerif.Json.native_roundtrip", "SlipVerif.Json.GenTie.gen_objectToBag_symbol"}})
	}
}

// lispKind: the kind of a (one element) Lisp value for signatures.
func lispKind(o slip.Object) string {
	switch t := o.(type) {
	case nil:
		return "nil"
	case slip.Symbol:
		if strings.EqualFold(string(t), ":false") {
			if string(t) == ":false" {
				return "sym-false"
			}
			return "sym-false-other-case"
		}
		return "symbol"
	case slip.List:
		if len(t) == 0 {
			return "empty-list"
		}
		if p, ok := t[0].(slip.List); ok && len(p) == 2 {
			if _, ok := p[1].(slip.Tail); ok {
				return "assoc"
			}
			return "list-of-2-lists"
		}
		if len(t) == 1 {
			return "list-" + lispKind(t[0])
		}
		return "list"
	case slip.Fixnum:
		return "fixnum"
	case *slip.Bignum:
		return "bignum"
	case slip.Octet:
		return "octet"
	case slip.SingleFloat:
		return "single-float"
	case slip.DoubleFloat:
		return "double-float"
	case slip.String:
		return "string"
	case slip.Time:
		return "time"
	}
	if o == slip.True {
		return "t"
	}
	return "other"
}
