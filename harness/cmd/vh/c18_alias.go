package main

// C18 — alias family: several bags that look at one Go tree.
//
// (bag-get b path t), :get-all, bag-walk with as-bag and (bag-set outer inner-bag path) hand out /
// store the same Go map or slice. A case is a history over several bags: new bags, child bags,
// bags stored in bags, sets / removes through any of them, a bag given a new tree (parse / set
// without a path), and reads (get as bag, get as Lisp value, has, get-all, walk) through every bag.
// Every write is framed by the same read before and after it ("primer": whatever a read may have
// remembered about a bag must not survive a write made through another bag), followed by the trees
// of all bags and a read of the written location through every bag that encloses it. Expected
// values come from the model's heap of trees with bags as (root, path) views
// (Model/JsonAlias.lean, `json alias`); theorems alias_write_refines / alias_read_after_write.
//
// Go slices are (pointer, length) values: an operation that changes the length of an array some bag
// holds directly, or that replaces a subtree another bag sits in, detaches that bag. Those are
// outside the model's domain (`outside`) and the generator never makes them.

import (
	"fmt"
	"strings"

	"github.com/ohler55/slip"
	"github.com/ohler55/slip/pkg/flavors"
	"verif/harness/lib"
)

type c18AOp struct {
	Op    string `json:"op"` // new child set rem store reset trees G L A H W
	Bag   int    `json:"bag"`
	Path  string `json:"path,omitempty"`
	Value string `json:"value,omitempty"`
	Inner int    `json:"inner,omitempty"`
	Mode  int    `json:"mode"`
	Note  string `json:"note,omitempty"` // the route of the last write relative to this read (signature part)
}

type c18View struct {
	root int
	abs  ppath
}

type c18AliasState struct {
	bags  []*flavors.Instance
	views []c18View
	roots int
}

func pathHasPrefix(p, pre ppath) bool {
	if len(pre) > len(p) {
		return false
	}
	for i := range pre {
		if p[i] != pre[i] {
			return false
		}
	}
	return true
}

func joinPath(a, b ppath) ppath {
	out := make(ppath, 0, len(a)+len(b))
	out = append(out, a...)
	return append(out, b...)
}

// clearAt: no bag sits at or below abs in tree root.
func (st *c18AliasState) clearAt(root int, abs ppath) bool {
	for _, v := range st.views {
		if v.root == root && pathHasPrefix(v.abs, abs) {
			return false
		}
	}
	return true
}

func isContainerAny(a any) bool {
	switch a.(type) {
	case map[string]any, []any:
		return true
	}
	return false
}

func nodeAt(root any, p ppath) (any, bool) {
	cur := root
	for _, s := range p {
		switch s.kind {
		case 'k':
			m, ok := cur.(map[string]any)
			if !ok {
				return nil, false
			}
			c, has := m[s.key]
			if !has {
				return nil, false
			}
			cur = c
		case 'x':
			a, ok := cur.([]any)
			if !ok || s.idx < 0 || s.idx >= len(a) {
				return nil, false
			}
			cur = a[s.idx]
		default:
			return nil, false
		}
	}
	return cur, true
}

// execAlias performs one op of a history and returns the observation in the model's reply form.
func (r *c18Run) execAlias(st *c18AliasState, op c18AOp) (string, string) {
	bagOf := func(i int) *flavors.Instance {
		if i < 0 || i >= len(st.bags) {
			return nil
		}
		return st.bags[i]
	}
	send := op.Mode&1 == 1
	switch op.Op {
	case "new":
		doc := parseDoc(op.Value)
		b, o := r.impl.makeBag(doc.text(), op.Mode)
		if !o.Ok {
			return "err " + o.Class, o.Msg
		}
		st.bags = append(st.bags, b)
		st.views = append(st.views, c18View{root: st.roots})
		st.roots++
		return "ok", ""
	case "trees":
		var ts []string
		for _, b := range st.bags {
			ts = append(ts, canonAny(b.Any))
		}
		return "trees " + strings.Join(ts, " ; "), ""
	}
	b := bagOf(op.Bag)
	if b == nil {
		return "err no-bag", ""
	}
	p := parsePath(op.Path)
	pobj := pathObject(p, op.Mode&2 == 0, op.Mode&8 == 0)
	binds := map[string]slip.Object{"c18-b": b, "c18-p": pobj}
	switch op.Op {
	case "child":
		var o lib.Outcome
		var got slip.Object
		switch (op.Mode >> 4) & 3 {
		case 0:
			if len(p) == 0 && op.Mode&2 != 0 {
				o = r.impl.eval("(bag-get c18-b nil t)", binds)
			} else {
				o = r.impl.eval("(bag-get c18-b c18-p t)", binds)
			}
			got = o.Value
		case 1:
			o = r.impl.eval("(send c18-b :get c18-p t)", binds)
			got = o.Value
		case 2:
			o = r.impl.eval("(bag-get-all c18-b c18-p)", binds)
			if l, ok := o.Value.(slip.List); ok && len(l) == 1 {
				got = l[0]
			}
		default:
			o = r.impl.eval("(let ((c18-acc nil)) (bag-walk c18-b (lambda (x) (setq c18-acc (cons x c18-acc))) c18-p t) c18-acc)", binds)
			if l, ok := o.Value.(slip.List); ok && len(l) == 1 {
				got = l[0]
			}
		}
		if !o.Ok {
			return "err " + o.Class, o.Msg
		}
		inst, ok := got.(*flavors.Instance)
		if !ok || inst.Any == nil {
			// get-all / walk hand out a bag for a null node, bag-get returns nil: both are "no bag"
			return "absent", ""
		}
		st.bags = append(st.bags, inst)
		v := st.views[op.Bag]
		if isContainerAny(inst.Any) {
			st.views = append(st.views, c18View{root: v.root, abs: joinPath(v.abs, p)})
		} else {
			st.views = append(st.views, c18View{root: st.roots})
			st.roots++
		}
		return "ok", ""
	case "set":
		v := parseDoc(op.Value)
		var vobj slip.Object
		native := false
		if op.Mode&4 == 0 && !v.anyLeaf(func(x *jv) bool { return x.isBigInt() }) {
			vobj, native = lispValue(v)
		}
		if !native {
			vb, vo := r.impl.makeBag(v.text(), 0)
			if !vo.Ok {
				return "err value " + vo.Class, vo.Msg
			}
			vobj = vb
		}
		binds["c18-v"] = vobj
		src := "(bag-set c18-b c18-v c18-p)"
		if send {
			src = "(send c18-b :set c18-v c18-p)"
		}
		switch (op.Mode >> 4) & 7 {
		case 1:
			binds["c18-v"] = slip.String(v.text())
			src = "(bag-parse c18-b c18-v c18-p)"
			if send {
				src = "(send c18-b :parse c18-v c18-p)"
			}
		case 2:
			binds["c18-v"] = slip.String(v.text())
			src = "(bag-read c18-b (make-string-input-stream c18-v) c18-p)"
		case 3:
			// bag-modify with a function that returns the value: a set of an existing node
			if node, ok := nodeAt(b.Any, p); ok && node != nil {
				vb, vo := r.impl.makeBag(v.text(), 0)
				if vo.Ok {
					binds["c18-v"] = vb
					src = "(bag-modify c18-b (lambda (x) c18-v) c18-p)"
					if send {
						src = "(send c18-b :modify (lambda (x) c18-v) c18-p)"
					}
				}
			}
		}
		o := r.impl.eval(src, binds)
		if !o.Ok {
			return "err " + o.Class, o.Msg
		}
		return "ok", ""
	case "rem":
		src := "(bag-remove c18-b c18-p)"
		if send {
			src = "(send c18-b :remove c18-p)"
		}
		o := r.impl.eval(src, binds)
		if !o.Ok {
			return "err " + o.Class, o.Msg
		}
		return "ok", ""
	case "store":
		in := bagOf(op.Inner)
		if in == nil {
			return "err no-bag", ""
		}
		binds["c18-v"] = in
		src := "(bag-set c18-b c18-v c18-p)"
		if send {
			src = "(send c18-b :set c18-v c18-p)"
		}
		o := r.impl.eval(src, binds)
		if !o.Ok {
			return "err " + o.Class, o.Msg
		}
		if isContainerAny(in.Any) {
			vo, vi := st.views[op.Bag], st.views[op.Inner]
			for i, u := range st.views {
				if u.root == vi.root {
					st.views[i] = c18View{root: vo.root, abs: joinPath(joinPath(vo.abs, p), u.abs)}
				}
			}
		}
		return "ok", ""
	case "reset":
		v := parseDoc(op.Value)
		binds["c18-v"] = slip.String(v.text())
		var src string
		switch (op.Mode >> 4) & 3 {
		case 0:
			src = "(bag-parse c18-b c18-v)"
			if send {
				src = "(send c18-b :parse c18-v)"
			}
		case 1:
			src = "(bag-read c18-b (make-string-input-stream c18-v))"
			if send {
				src = "(send c18-b :read (make-string-input-stream c18-v))"
			}
		default:
			vb, vo := r.impl.makeBag(v.text(), 0)
			if !vo.Ok {
				return "err value " + vo.Class, vo.Msg
			}
			binds["c18-v"] = vb
			src = "(bag-set c18-b c18-v)"
			if send {
				src = "(send c18-b :set c18-v)"
			}
		}
		o := r.impl.eval(src, binds)
		if !o.Ok {
			return "err " + o.Class, o.Msg
		}
		st.views[op.Bag] = c18View{root: st.roots}
		st.roots++
		return "ok", ""
	}
	// reads: the same calls and canonical forms as the ops family
	ro := c18Op{Op: op.Op, Path: op.Path, Mode: op.Mode}
	if op.Op == "L" {
		ro.Op = "N"
	}
	ob := r.execOp(b, ro)
	return ob.result, ob.msg
}

func aliasWire(ops []c18AOp) string {
	parts := []string{"json", "alias"}
	for _, op := range ops {
		switch op.Op {
		case "new":
			parts = append(parts, "new", op.Value)
		case "trees":
			parts = append(parts, "trees")
		case "reset":
			parts = append(parts, "reset", fmt.Sprint(op.Bag), op.Value)
		case "set":
			parts = append(parts, "set", fmt.Sprint(op.Bag), op.Path, op.Value)
		case "store":
			parts = append(parts, "store", fmt.Sprint(op.Bag), op.Path, fmt.Sprint(op.Inner))
		case "child", "rem":
			parts = append(parts, op.Op, fmt.Sprint(op.Bag), op.Path)
		default:
			parts = append(parts, op.Op, fmt.Sprint(op.Bag), op.Path)
		}
	}
	return strings.Join(parts, " ")
}

func aliasOpName(op string) string {
	if n := opName(op); n != "" {
		return n
	}
	if op == "L" {
		return "get-native"
	}
	return op
}

// genAlias generates the history on the fly against the bags' real trees.
func (r *c18Run) genAlias(st *c18AliasState, emit func(c18AOp) string) {
	g := r.g
	pw := func(p ppath) string { return strings.Join(p.wire(), " ") }
	readMode := func() int {
		// mostly text paths (a bag-path object when the text form does not exist), function / method,
		// rooted / relative
		m := g.r.Intn(2)
		if g.r.Chance(15) {
			m |= 2
		}
		if g.r.Bool() {
			m |= 8
		}
		return m
	}
	doc := func() *jv {
		for {
			d := g.tameDoc(2 + g.r.Intn(3))
			if d.depth() >= 2 {
				return d
			}
		}
	}
	// an existing plain path below node, n steps at most; wantContainer: stop at containers only
	existing := func(node any, n int, wantContainer bool) ppath {
		var p ppath
		cur := node
		for i := 0; i < n; i++ {
			var next any
			var s pstep
			switch t := cur.(type) {
			case map[string]any:
				if len(t) == 0 {
					return p
				}
				ks := sortedKeys(t)
				k := ks[g.r.Intn(len(ks))]
				s, next = pstep{kind: 'k', key: k}, t[k]
			case []any:
				if len(t) == 0 {
					return p
				}
				i := g.r.Intn(len(t))
				s, next = pstep{kind: 'x', idx: i}, t[i]
			default:
				return p
			}
			if wantContainer && !isContainerAny(next) {
				return p
			}
			p = append(p, s)
			cur = next
		}
		return p
	}
	containerBags := func() []int {
		var out []int
		for i, b := range st.bags {
			if isContainerAny(b.Any) {
				out = append(out, i)
			}
		}
		return out
	}
	emit(c18AOp{Op: "new", Value: w(doc()), Mode: g.r.Intn(3)})
	emit(c18AOp{Op: "trees"})
	steps := 3 + g.r.Intn(6)
	for s := 0; s < steps && len(st.bags) < 7; s++ {
		cb := containerBags()
		if len(cb) == 0 {
			break
		}
		b := cb[g.r.Intn(len(cb))]
		switch n := g.r.Intn(100); {
		case n < 30: // child bag
			p := existing(st.bags[b].Any, g.r.Intn(4), g.r.Chance(80))
			emit(c18AOp{Op: "child", Bag: b, Path: pw(p), Mode: readMode() | g.r.Intn(4)<<4})
		case n < 40: // a new bag stored in a bag
			emit(c18AOp{Op: "new", Value: w(doc()), Mode: g.r.Intn(3)})
			in := len(st.bags) - 1
			p := existing(st.bags[b].Any, g.r.Intn(3), true)
			if node, ok := nodeAt(st.bags[b].Any, p); ok {
				if _, isMap := node.(map[string]any); isMap {
					p = append(p, pstep{kind: 'k', key: []string{"n", "in", "stored"}[g.r.Intn(3)]})
				} else if a, isArr := node.([]any); isArr && len(a) > 0 {
					p = append(p, pstep{kind: 'x', idx: g.r.Intn(len(a))})
				} else {
					continue
				}
			}
			if !st.clearAt(st.views[b].root, joinPath(st.views[b].abs, p)) || st.views[in].root == st.views[b].root {
				continue
			}
			emit(c18AOp{Op: "store", Bag: b, Path: pw(p), Inner: in, Mode: readMode()})
			emit(c18AOp{Op: "trees"})
		case n < 47: // the bag gets a tree of its own
			emit(c18AOp{Op: "reset", Bag: b, Value: w(doc()), Mode: g.r.Intn(2) | g.r.Intn(3)<<4})
			emit(c18AOp{Op: "trees"})
		default: // a write through bag b, framed by reads
			isSet := n < 85
			var p ppath
			ok := false
			for tries := 0; tries < 8 && !ok; tries++ {
				p = existing(st.bags[b].Any, 1+g.r.Intn(3), false)
				if len(p) == 0 {
					break
				}
				abs := joinPath(st.views[b].abs, p)
				if isSet {
					if node, has := nodeAt(st.bags[b].Any, p); has && g.r.Chance(25) {
						if _, isMap := node.(map[string]any); isMap {
							p = append(p, pstep{kind: 'k', key: []string{"fresh", "z9", "k"}[g.r.Intn(3)]})
							abs = joinPath(st.views[b].abs, p)
						}
					}
					ok = st.clearAt(st.views[b].root, abs)
				} else if p[len(p)-1].kind == 'k' {
					ok = st.clearAt(st.views[b].root, abs)
				} else {
					ok = len(p) >= 2 && st.clearAt(st.views[b].root, abs[:len(abs)-1])
				}
			}
			if !ok {
				continue
			}
			abs := joinPath(st.views[b].abs, p)
			// the primer: a read through a bag that encloses the location (another bag when there is one)
			type encl struct {
				bag int
				rel ppath
			}
			var encls []encl
			for i, v := range st.views {
				if v.root == st.views[b].root && pathHasPrefix(abs, v.abs) && len(abs) > len(v.abs) {
					encls = append(encls, encl{i, append(ppath{}, abs[len(v.abs):]...)})
				}
			}
			route := func(i int) string {
				switch {
				case i == b:
					return "same-bag"
				case len(st.views[i].abs) < len(st.views[b].abs):
					return "write-through-inner-bag"
				case len(st.views[i].abs) > len(st.views[b].abs):
					return "write-through-outer-bag"
				}
				return "write-through-twin-bag"
			}
			prim := encls[g.r.Intn(len(encls))]
			for _, e := range encls {
				if e.bag != b && g.r.Chance(70) {
					prim = e
					break
				}
			}
			q := prim.rel
			rop := []string{"G", "G", "G", "L", "H", "A", "W"}[g.r.Intn(7)]
			if g.r.Chance(30) && len(q) > 1 {
				q = q[:len(q)-1] // the parent of the written node
			}
			if (rop == "A" || rop == "W" || rop == "H") && g.r.Chance(25) {
				q = append(append(ppath{}, q[:len(q)-1]...), pstep{kind: '*'})
			}
			primer := c18AOp{Op: rop, Bag: prim.bag, Path: pw(q), Mode: readMode(), Note: route(prim.bag)}
			emit(primer)
			var res string
			if isSet {
				v := g.doc(2)
				if g.r.Chance(60) {
					v = g.scalar()
				}
				res = emit(c18AOp{Op: "set", Bag: b, Path: pw(p), Value: w(v), Mode: g.r.Intn(16) | []int{0, 0, 0, 1, 2, 3}[g.r.Intn(6)]<<4})
			} else {
				res = emit(c18AOp{Op: "rem", Bag: b, Path: pw(p), Mode: readMode()})
			}
			emit(primer)
			emit(c18AOp{Op: "trees"})
			if res != "ok" {
				continue
			}
			// the written location through every enclosing bag, and has / get-all / walk
			for _, e := range encls {
				emit(c18AOp{Op: []string{"G", "L", "H", "A", "W"}[g.r.Intn(5)], Bag: e.bag, Path: pw(e.rel), Mode: readMode(), Note: route(e.bag)})
			}
		}
	}
	emit(c18AOp{Op: "trees"})
}

func (r *c18Run) runAlias(cases []*c18Case) {
	type runT struct {
		cs  *c18Case
		obs []string
		msg []string
	}
	var runs []runT
	var reqs []string
	for _, cs := range cases {
		st := &c18AliasState{}
		var obs, msgs []string
		exec := func(op c18AOp) string {
			o, m := r.execAlias(st, op)
			obs = append(obs, o)
			msgs = append(msgs, m)
			r.c.Ev.Hist("alias_op", aliasOpName(op.Op))
			return o
		}
		if len(cs.AOps) > 0 {
			for _, op := range cs.AOps {
				exec(op)
			}
		} else {
			r.genAlias(st, func(op c18AOp) string {
				cs.AOps = append(cs.AOps, op)
				return exec(op)
			})
		}
		r.c.Ev.Case("alias "+fmt.Sprint(cs.AOps), len(st.bags) >= 2)
		r.c.Ev.Hist("family", "alias")
		r.c.Ev.Hist("alias_bags", fmt.Sprint(len(st.bags)))
		runs = append(runs, runT{cs, obs, msgs})
		reqs = append(reqs, aliasWire(cs.AOps))
	}
	replies := r.c.Model(reqs)
	for i, run := range runs {
		if !strings.HasPrefix(replies[i], "ok ") {
			fmt.Println("C18 harness bug: alias reply", replies[i], reqs[i])
			continue
		}
		parts := strings.Split(strings.TrimPrefix(replies[i], "ok "), " | ")
		lastWrite := "none"
		stop := false
		for k, op := range run.cs.AOps {
			if stop || k >= len(parts) || k >= len(run.obs) {
				break
			}
			m := strings.TrimSpace(parts[k])
			got := run.obs[k]
			one := *run.cs
			one.AOps = run.cs.AOps[:k+1]
			name := aliasOpName(op.Op)
			if m == "outside" || strings.HasPrefix(m, "err no-bag") || strings.HasPrefix(m, "err dangling") {
				fmt.Println("C18 harness bug: alias op outside the model's domain", m, reqs[i])
				break
			}
			route := op.Note
			if route == "" {
				route = "-"
			}
			switch op.Op {
			case "new", "child", "set", "rem", "store", "reset":
				exp := m
				okk := got == m || (strings.HasPrefix(m, "err") && strings.HasPrefix(got, "err"))
				aspect := "wrong-result"
				if strings.HasPrefix(got, "err") && !strings.HasPrefix(m, "err") {
					aspect = "condition"
				} else if strings.HasPrefix(m, "err") {
					aspect = "no-condition"
				}
				r.check(&one, okk, c18Diff{sig: sig("alias-"+name, "-", "-", aspect), observed: got + " " + run.msg[k], expected: exp, from: "model:json.alias"})
				if !okk {
					stop = true
				}
				if op.Op == "set" || op.Op == "rem" || op.Op == "store" || op.Op == "reset" {
					lastWrite = op.Op
				}
			case "trees":
				var exp []string
				for _, t := range strings.Split(strings.TrimPrefix(m, "trees "), " ; ") {
					exp = append(exp, canonTokenString(strings.TrimSpace(t)))
				}
				e := "trees " + strings.Join(exp, " ; ")
				r.check(&one, got == e, c18Diff{sig: sig("alias-trees", "after-"+lastWrite, "-", "wrong-tree"), observed: got, expected: e, from: "model:json.alias",
					relies: []string{"SlipVerif.Json.alias_write_refines", "SlipVerif.Json.alias_remove_refines", "SlipVerif.Json.store_bag_shares", "SlipVerif.Json.alias_other_tree"}})
				if got != e {
					stop = true
				}
			default:
				ro := c18Op{Op: op.Op, Path: op.Path, Mode: op.Mode}
				if op.Op == "L" {
					ro.Op = "N"
				}
				ob := c18OpObs{op: ro, path: parsePath(op.Path), result: got}
				exp, aspect, okk := r.compareOp(ob, m)
				r.check(&one, okk, c18Diff{sig: sig("alias-"+name, route, "after-"+lastWrite, aspect), observed: got + " " + run.msg[k], expected: exp, from: "model:json.alias",
					relies: []string{"SlipVerif.Json.alias_read_after_write", "SlipVerif.Json.view_read_refines"}})
			}
		}
	}
}

// sweepAlias: every sharing route x every read op x call forms, seed independent.
func (r *c18Run) sweepAlias() []*c18Case {
	k := func(s string) pstep { return pstep{kind: 'k', key: s} }
	x := func(i int) pstep { return pstep{kind: 'x', idx: i} }
	pa := func(s ...pstep) string { return strings.Join(ppath(s).wire(), " ") }
	base := jObj("a", jObj("k", jInt(1), "m", jObj("z", jInt(2)), "v", jArr(jInt(5), jInt(6))), "l", jArr(jObj("p", jInt(1)), jObj("p", jInt(2))), "s", jInt(7))
	inner := jObj("k", jArr(jInt(1), jInt(2)), "j", jNull())
	type scen struct {
		name   string
		setup  []c18AOp // after "new base"
		reader int      // bag the framed read goes through
		rpath  string
		write  c18AOp
		after  []c18AOp
	}
	var scens []scen
	for how := 0; how < 4; how++ {
		ch := func(b int, p string) c18AOp { return c18AOp{Op: "child", Bag: b, Path: p, Mode: how << 4} }
		scens = append(scens,
			scen{"child-set", []c18AOp{ch(0, pa(k("a")))}, 0, pa(k("a"), k("k")), c18AOp{Op: "set", Bag: 1, Path: pa(k("k")), Value: "i2"}, nil},
			scen{"child-set-new-key", []c18AOp{ch(0, pa(k("a")))}, 0, pa(k("a"), k("fresh")), c18AOp{Op: "set", Bag: 1, Path: pa(k("fresh")), Value: "[ i1 ]"}, nil},
			scen{"child-remove", []c18AOp{ch(0, pa(k("a")))}, 0, pa(k("a"), k("k")), c18AOp{Op: "rem", Bag: 1, Path: pa(k("k"))}, nil},
			scen{"child-array-element", []c18AOp{ch(0, pa(k("a"), k("v")))}, 0, pa(k("a"), k("v"), x(1)), c18AOp{Op: "set", Bag: 1, Path: pa(x(1)), Value: "s78"}, nil},
			scen{"grandchild-set", []c18AOp{ch(0, pa(k("a"))), ch(1, pa(k("m")))}, 0, pa(k("a"), k("m"), k("z")), c18AOp{Op: "set", Bag: 2, Path: pa(k("z")), Value: "T"}, []c18AOp{{Op: "G", Bag: 1, Path: pa(k("m"), k("z"))}}},
			scen{"grandchild-read-middle", []c18AOp{ch(0, pa(k("a"))), ch(1, pa(k("m")))}, 1, pa(k("m"), k("z")), c18AOp{Op: "set", Bag: 2, Path: pa(k("z")), Value: "n"}, nil},
			scen{"parent-set-child-reads", []c18AOp{ch(0, pa(k("a")))}, 1, pa(k("k")), c18AOp{Op: "set", Bag: 0, Path: pa(k("a"), k("k")), Value: "d2.5"}, nil},
			scen{"parent-remove-child-reads", []c18AOp{ch(0, pa(k("a")))}, 1, pa(k("m"), k("z")), c18AOp{Op: "rem", Bag: 0, Path: pa(k("a"), k("m"), k("z"))}, nil},
			scen{"element-child-set", []c18AOp{ch(0, pa(k("l"), x(1)))}, 0, pa(k("l"), x(1), k("p")), c18AOp{Op: "set", Bag: 1, Path: pa(k("p")), Value: "i9"}, nil},
			scen{"twin-set", []c18AOp{ch(0, pa())}, 0, pa(k("a"), k("k")), c18AOp{Op: "set", Bag: 1, Path: pa(k("a"), k("k")), Value: "i3"}, nil},
			scen{"siblings-set", []c18AOp{ch(0, pa(k("a"))), ch(0, pa(k("a")))}, 1, pa(k("k")), c18AOp{Op: "set", Bag: 2, Path: pa(k("k")), Value: "i4"}, nil},
			scen{"reset-parent", []c18AOp{ch(0, pa(k("a")))}, 1, pa(k("k")), c18AOp{Op: "reset", Bag: 0, Value: "{ k61 { k6b i8 } }", Mode: how << 4}, []c18AOp{{Op: "G", Bag: 0, Path: pa(k("a"), k("k"))}}},
			scen{"reset-child", []c18AOp{ch(0, pa(k("a")))}, 0, pa(k("a"), k("k")), c18AOp{Op: "reset", Bag: 1, Value: "{ k6b i8 }", Mode: how << 4}, []c18AOp{{Op: "G", Bag: 1, Path: pa(k("k"))}}},
		)
	}
	st := func(b int, p string, in int) c18AOp { return c18AOp{Op: "store", Bag: b, Path: p, Inner: in} }
	nw := c18AOp{Op: "new", Value: w(inner)}
	scens = append(scens,
		scen{"stored-bag-set", []c18AOp{nw, st(0, pa(k("a"), k("n")), 1)}, 0, pa(k("a"), k("n"), k("k"), x(0)), c18AOp{Op: "set", Bag: 1, Path: pa(k("k"), x(0)), Value: "i3"}, nil},
		scen{"stored-bag-new-key", []c18AOp{nw, st(0, pa(k("a"), k("n")), 1)}, 0, pa(k("a"), k("n"), k("q")), c18AOp{Op: "set", Bag: 1, Path: pa(k("q")), Value: "i4"}, nil},
		scen{"stored-bag-outer-set", []c18AOp{nw, st(0, pa(k("a"), k("n")), 1)}, 1, pa(k("k"), x(1)), c18AOp{Op: "set", Bag: 0, Path: pa(k("a"), k("n"), k("k"), x(1)), Value: "i5"}, nil},
		scen{"stored-bag-in-array", []c18AOp{nw, st(0, pa(k("l"), x(0)), 1)}, 0, pa(k("l"), x(0), k("j")), c18AOp{Op: "set", Bag: 1, Path: pa(k("j")), Value: "F"}, nil},
		scen{"stored-bag-child-of-inner", []c18AOp{nw, {Op: "child", Bag: 1, Path: pa(k("k"))}, st(0, pa(k("s")), 1)}, 0, pa(k("s"), k("k"), x(0)), c18AOp{Op: "set", Bag: 2, Path: pa(x(0)), Value: "i6"}, []c18AOp{{Op: "G", Bag: 1, Path: pa(k("k"), x(0))}}},
		scen{"stored-in-two-steps", []c18AOp{nw, st(0, pa(k("a"), k("n")), 1), {Op: "child", Bag: 0, Path: pa(k("a"))}}, 2, pa(k("n"), k("k"), x(0)), c18AOp{Op: "set", Bag: 1, Path: pa(k("k"), x(0)), Value: "i7"}, []c18AOp{{Op: "G", Bag: 0, Path: pa(k("a"), k("n"), k("k"), x(0))}}},
	)
	var out []*c18Case
	for si, sc := range scens {
		for ri, rop := range []string{"G", "L", "H", "A", "W"} {
			for _, mode := range []int{0, 1, 8, 9, 2, 3} {
				if mode&2 != 0 && (si+ri)%3 != 0 {
					continue // bag-path objects: a third of the cells
				}
				read := c18AOp{Op: rop, Bag: sc.reader, Path: sc.rpath, Mode: mode, Note: sc.name}
				ops := []c18AOp{{Op: "new", Value: w(base), Mode: si % 3}}
				ops = append(ops, sc.setup...)
				ops = append(ops, c18AOp{Op: "trees"}, read)
				wr := sc.write
				if wr.Op != "reset" {
					wr.Mode |= mode & 9
				} else {
					wr.Mode |= mode & 1
				}
				ops = append(ops, wr, read, c18AOp{Op: "trees"})
				for _, a := range sc.after {
					a.Mode = mode
					a.Note = sc.name
					ops = append(ops, a)
				}
				out = append(out, &c18Case{Family: "alias", Sweep: true, Cell: sc.name, AOps: ops})
			}
		}
	}
	return out
}
