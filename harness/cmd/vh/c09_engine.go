package main

// C09 engine: runs units of cases in worker subprocesses (see c09_worker.go). A unit is run in
// a fresh worker; cases are streamed to it and the replies are read back in order. The parent
// enforces the per-case deadline and the memory cap by killing the worker; a killed or dead
// worker is replaced by a fresh one that continues with the case after the culprit.

import (
	"bufio"
	"bytes"
	"encoding/hex"
	"fmt"
	"os"
	"os/exec"
	"path/filepath"
	"strconv"
	"strings"
	"sync"
	"sync/atomic"
	"syscall"
	"time"

	"verif/harness/lib"
)

type c09Case struct {
	Kind string // E | R
	Text string
}

// c09Result is the observation of one case.
type c09Result struct {
	Status  string // V value | C condition | P foreign Go panic | D worker died | H deadline | M memory cap
	Stage   string // read | eval | print (where the case ended)
	Class   string // type of the value / class of the condition
	Text    string // printed value / message (truncated)
	Micros  int64
	Arity   bool   // the condition is an argument count error (statistics only)
	Session int    // index (within the unit) of the first case run by the same worker process
	Stderr  string // for D: what the dying worker wrote (first lines)
	Exit    string // for D: exit status
}

type c09Engine struct {
	Root     string
	Self     string        // path of this executable
	Deadline time.Duration // per case
	RSSCap   int64         // bytes
	DropPriv bool          // run workers as nobody (when we are root)
	Par      int
	// KillBudget: after this many deadline / memory-cap kills within one unit the rest of the unit
	// is skipped (keeps the run time bounded when something hangs everywhere)
	KillBudget int
	// Expected: case texts of listed findings of kind unbounded (they run until the deadline or the
	// memory cap). Their kills do not count against the budget; with SkipExpected they are not run at
	// all (status K).
	Expected     map[string]bool
	SkipExpected bool
	KeepText     bool       // keep the value / message text of every result (default: faults and samples only)
	parent       *c09Engine // set in the confirming copy: workers are started through the parent
	jailSeq      atomic.Int64
	starts       atomic.Int64
	kills        atomic.Int64
}

func c09NewEngine(c *lib.Ctx) *c09Engine {
	self, err := os.Executable()
	if err != nil {
		self = os.Args[0]
	}
	e := &c09Engine{Root: c.Root, Self: self, Deadline: 5 * time.Second, RSSCap: 2 << 30, Par: 12, KillBudget: 8}
	if os.Geteuid() == 0 && os.Getenv("C09_KEEP_ROOT") == "" {
		e.DropPriv = true
	}
	if os.Getenv("C09_NOCAP") != "" {
		e.KillBudget = 1 << 30 // regenerating the findings: run every cell
	}
	if v, err := strconv.Atoi(os.Getenv("C09_PAR")); err == nil && v > 0 {
		e.Par = v
	}
	return e
}

type c09Proc struct {
	cmd    *exec.Cmd
	req    *os.File
	rep    *bufio.Reader
	repF   *os.File
	stderr *c09Ring
	jail   string
	done   chan struct{} // closed when Wait returned
	err    error
}

// c09Ring keeps the first 4 KiB written to it (the head of a Go crash report names the cause).
type c09Ring struct {
	mu  sync.Mutex
	buf bytes.Buffer
}

func (r *c09Ring) Write(p []byte) (int, error) {
	r.mu.Lock()
	if room := 4096 - r.buf.Len(); room > 0 {
		if len(p) < room {
			room = len(p)
		}
		r.buf.Write(p[:room])
	}
	r.mu.Unlock()
	return len(p), nil
}

func (r *c09Ring) String() string {
	r.mu.Lock()
	defer r.mu.Unlock()
	return r.buf.String()
}

func (e *c09Engine) start() (*c09Proc, error) {
	if e.parent != nil {
		return e.parent.startWith(e.Deadline)
	}
	return e.startWith(e.Deadline)
}

// c09JailBase: the directory that holds the jail directories of this harness process.
func c09JailBase(root string) string {
	return filepath.Join(root, ".work", "c09-jail", fmt.Sprintf("p%d", os.Getpid()))
}

func (e *c09Engine) startWith(_ time.Duration) (*c09Proc, error) {
	jail := filepath.Join(c09JailBase(e.Root), fmt.Sprintf("j%d", e.jailSeq.Add(1)))
	_ = os.RemoveAll(jail)
	if err := os.MkdirAll(jail, 0o777); err != nil {
		return nil, err
	}
	_ = os.Chmod(jail, 0o777)
	reqR, reqW, err := os.Pipe()
	if err != nil {
		return nil, err
	}
	repR, repW, err := os.Pipe()
	if err != nil {
		return nil, err
	}
	p := &c09Proc{jail: jail, stderr: &c09Ring{}, done: make(chan struct{})}
	mk := func(drop bool) *exec.Cmd {
		cmd := exec.Command(e.Self, "C09-worker", "--root", e.Root)
		cmd.Dir = jail
		cmd.Stdin = nil  // /dev/null
		cmd.Stdout = nil // /dev/null
		cmd.Stderr = p.stderr
		cmd.ExtraFiles = []*os.File{reqR, repW}
		cmd.Env = []string{"HOME=" + jail, "TMPDIR=" + jail, "PATH=/nonexistent", "GOMEMLIMIT=1536MiB", "GOMAXPROCS=2",
			"GOTRACEBACK=single", "LANG=C", "TZ=UTC"}
		cmd.SysProcAttr = &syscall.SysProcAttr{Setpgid: true}
		if drop {
			cmd.SysProcAttr.Credential = &syscall.Credential{Uid: 65534, Gid: 65534}
		}
		return cmd
	}
	p.cmd = mk(e.DropPriv)
	if err = p.cmd.Start(); err != nil && e.DropPriv {
		// the executable is not reachable for nobody (or we may not change uid): keep our uid
		e.DropPriv = false
		p.cmd = mk(false)
		err = p.cmd.Start()
	}
	_ = reqR.Close()
	_ = repW.Close()
	if err != nil {
		_ = reqW.Close()
		_ = repR.Close()
		return nil, err
	}
	e.starts.Add(1)
	p.req = reqW
	p.repF = repR
	p.rep = bufio.NewReaderSize(repR, 1<<16)
	go func() {
		p.err = p.cmd.Wait()
		close(p.done)
	}()
	return p, nil
}

func (p *c09Proc) kill() {
	if p.cmd.Process != nil {
		// the worker is its own process group: take children (if any) with it
		_ = syscall.Kill(-p.cmd.Process.Pid, syscall.SIGKILL)
		_ = p.cmd.Process.Kill()
	}
}

func (p *c09Proc) close() {
	_ = p.req.Close()
	select {
	case <-p.done:
	case <-time.After(2 * time.Second):
		p.kill()
		<-p.done
	}
	_ = p.repF.Close()
	_ = os.RemoveAll(p.jail)
}

// c09BlockedAfter: a worker that consumed no CPU time at all for this long (and owes a reply for longer
// than the deadline) is blocked, not starved. c09WallBackstop x deadline: the wall clock limit that
// applies whatever the CPU accounting says.
const (
	c09BlockedAfter = 4 * time.Second
	c09WallBackstop = 20
)

// allSleeping: every thread of the worker is in interruptible sleep (waiting on a futex, a pipe, a
// timer): nothing of it wants the CPU.
func (p *c09Proc) allSleeping() bool {
	dir := fmt.Sprintf("/proc/%d/task", p.cmd.Process.Pid)
	ents, err := os.ReadDir(dir)
	if err != nil || len(ents) == 0 {
		return true
	}
	for _, en := range ents {
		b, err := os.ReadFile(filepath.Join(dir, en.Name(), "stat"))
		if err != nil {
			continue
		}
		s := string(b)
		if i := strings.LastIndexByte(s, ')'); i >= 0 && i+2 < len(s) {
			if st := s[i+2]; st == 'R' || st == 'D' {
				return false
			}
		}
	}
	return true
}

// cpu: user + system time the worker process (all threads) has consumed.
func (p *c09Proc) cpu() (time.Duration, bool) {
	b, err := os.ReadFile(fmt.Sprintf("/proc/%d/stat", p.cmd.Process.Pid))
	if err != nil {
		return 0, false
	}
	s := string(b)
	i := strings.LastIndexByte(s, ')')
	if i < 0 {
		return 0, false
	}
	f := strings.Fields(s[i+1:])
	if len(f) < 13 {
		return 0, false
	}
	ut, e1 := strconv.ParseInt(f[11], 10, 64)
	st, e2 := strconv.ParseInt(f[12], 10, 64)
	if e1 != nil || e2 != nil {
		return 0, false
	}
	return time.Duration(ut+st) * (time.Second / 100), true // USER_HZ is 100 on Linux
}

func (p *c09Proc) rss() int64 {
	b, err := os.ReadFile(fmt.Sprintf("/proc/%d/statm", p.cmd.Process.Pid))
	if err != nil {
		return 0
	}
	f := strings.Fields(string(b))
	if len(f) < 2 {
		return 0
	}
	n, _ := strconv.ParseInt(f[1], 10, 64)
	return n * int64(os.Getpagesize())
}

func c09ParseReply(line string) (c09Result, bool) {
	f := strings.Fields(line)
	if len(f) != 5 {
		return c09Result{}, false
	}
	us, err := strconv.ParseInt(f[2], 10, 64)
	if err != nil {
		return c09Result{}, false
	}
	return c09Result{Status: f[0], Stage: f[1], Micros: us, Class: lib.Unhex(f[3]), Text: lib.Unhex(f[4])}, true
}

// RunUnit runs the cases in order. isolate: one fresh worker per case plus a grace period after
// it (used to confirm faults and by --replay).
func (e *c09Engine) RunUnit(cases []c09Case, isolate bool) []c09Result {
	res := make([]c09Result, len(cases))
	next, killed := 0, 0
	for next < len(cases) {
		if killed >= e.KillBudget && !isolate {
			// too many deadline / memory kills in one unit: the rest of the unit is not run
			// (status S); the caller reports the unit as abandoned
			for ; next < len(cases); next++ {
				res[next] = c09Result{Status: "S", Stage: "eval"}
			}
			break
		}
		if e.SkipExpected && !isolate && e.Expected[cases[next].Text] {
			res[next] = c09Result{Status: "K", Stage: "eval", Session: next}
			next++
			continue
		}
		end := len(cases)
		if isolate {
			end = next + 1
		} else if e.SkipExpected {
			for j := next; j < end; j++ {
				if e.Expected[cases[j].Text] {
					end = j
					break
				}
			}
		}
		n := e.runSome(cases[next:end], res[next:end], isolate)
		for i := next; i < next+n; i++ {
			res[i].Session = next
		}
		next += n
		if st := res[next-1].Status; (st == "H" || st == "M") && !e.Expected[cases[next-1].Text] {
			killed++
		}
	}
	return res
}

// runSome starts one worker, feeds it the cases and fills res; returns how many cases got a
// result (all of them, or up to and including the one that took the worker down).
func (e *c09Engine) runSome(cases []c09Case, res []c09Result, grace bool) int {
	p, err := e.start()
	if err != nil {
		fmt.Fprintf(os.Stderr, "C09: cannot start a worker: %v\n", err)
		os.Exit(2)
	}
	defer p.close()
	// writer
	go func() {
		w := bufio.NewWriterSize(p.req, 1<<16)
		for _, cs := range cases {
			_, _ = w.WriteString(cs.Kind + " " + hex.EncodeToString([]byte(cs.Text)) + "\n")
			// flush per case keeps at most a pipe buffer of requests ahead of the worker
			if w.Buffered() > 1<<15 {
				if w.Flush() != nil {
					return
				}
			}
		}
		if grace {
			_, _ = w.WriteString("Q\n")
		}
		_ = w.Flush()
		if !grace {
			_ = p.req.Close()
		}
	}()
	type rl struct {
		line string
		err  error
	}
	lines := make(chan rl, 256)
	go func() {
		for {
			l, err := p.rep.ReadString('\n')
			if err != nil {
				lines <- rl{"", err}
				close(lines)
				return
			}
			lines <- rl{strings.TrimRight(l, "\n"), nil}
		}
	}()
	got := 0
	tick := time.NewTicker(25 * time.Millisecond)
	defer tick.Stop()
	last := time.Now()
	verdict := "" // H | M once we decided to kill
	// load independence: the deadline is CPU time of the worker since its last reply (a busy case), or
	// wall clock while the worker consumes no CPU at all (a blocked case); plain wall clock is only a
	// distant backstop. A machine at load 100 stretches wall clock, not CPU time.
	var baseFor time.Time // the value of `last` the CPU base belongs to
	var cpuBase, cpuSeen time.Duration
	var cpuSeenAt time.Time
	for got < len(cases) {
		select {
		case l, ok := <-lines:
			if !ok || l.err != nil {
				// the worker is gone: the case it was working on is the culprit
				<-p.done
				r := c09Result{Status: "D", Stage: "eval", Stderr: c09Head(p.stderr.String()), Exit: fmt.Sprint(p.err)}
				if verdict != "" {
					r.Status = verdict
				}
				res[got] = r
				return got + 1
			}
			r, good := c09ParseReply(l.line)
			if !good {
				fmt.Fprintf(os.Stderr, "C09: malformed worker reply %q\n", l.line)
				os.Exit(2)
			}
			r.Arity = r.Status == "C" && (strings.HasPrefix(r.Text, "Too few arguments") || strings.HasPrefix(r.Text, "Too many arguments"))
			faulty := c09FaultKind(r) != ""
			if !faulty && !grace && !e.KeepText && got%512 != 0 {
				r.Text = "" // millions of results are kept: the text matters for faults and samples only
			}
			res[got] = r
			got++
			last = time.Now()
			if !grace && faulty {
				// an interpreter that has faulted is not trusted with further cases: the caller
				// continues with a fresh worker
				p.kill()
				return got
			}
		case <-tick.C:
			if verdict != "" {
				continue
			}
			now := time.Now()
			cpu, cpuOK := p.cpu()
			if baseFor != last {
				baseFor, cpuBase, cpuSeen, cpuSeenAt = last, cpu, cpu, now
			} else if cpu != cpuSeen {
				cpuSeen, cpuSeenAt = cpu, now
			}
			wall := now.Sub(last)
			hang := false
			switch {
			case wall <= e.Deadline:
			case !cpuOK:
				hang = true // no /proc: wall clock only
			case cpu-cpuBase > e.Deadline:
				hang = true // busy for more than the deadline
			case now.Sub(cpuSeenAt) > c09BlockedAfter:
				// no CPU consumed for seconds: blocked — unless a thread is runnable or in uninterruptible
				// sleep (starved / paging on an overloaded machine), then the idle window starts again
				if p.allSleeping() {
					hang = true
				} else {
					cpuSeenAt = now
				}
			case wall > c09WallBackstop*e.Deadline:
				hang = true
			}
			if hang {
				verdict = "H"
				e.kills.Add(1)
				p.kill()
			} else if p.rss() > e.RSSCap {
				verdict = "M"
				e.kills.Add(1)
				p.kill()
			}
		}
	}
	if grace {
		// the worker exits by itself after the grace period; a crash in it belongs to the last case.
		// A worker that we have to kill here (slow exit on a loaded machine) did not crash.
		killedHere := false
		select {
		case <-p.done:
		case <-time.After(c09WallBackstop * e.Deadline):
			killedHere = true
			p.kill()
			<-p.done
		}
		if p.err != nil && got > 0 && !killedHere {
			res[got-1] = c09Result{Status: "D", Stage: "after", Stderr: c09Head(p.stderr.String()), Exit: fmt.Sprint(p.err)}
		}
	}
	return got
}

func c09Head(s string) string {
	if len(s) > 600 {
		s = s[:600]
	}
	return s
}

// RunUnits runs the units on e.Par parallel runners and returns the results unit by unit.
func (e *c09Engine) RunUnits(units [][]c09Case, progress func(i int, res []c09Result)) [][]c09Result {
	return e.runUnits(units, false, progress)
}

// RunIsolated runs every case of every unit in its own fresh worker (with the grace period).
func (e *c09Engine) RunIsolated(units [][]c09Case) [][]c09Result {
	return e.runUnits(units, true, nil)
}

// Confirming returns a copy of the engine with the confirmation deadline (3x): a case counts as
// exceeding the time bound only when it does so again with the long deadline, so that machine
// load cannot produce a deadline verdict.
func (e *c09Engine) Confirming() *c09Engine {
	return &c09Engine{Root: e.Root, Self: e.Self, Deadline: 3 * e.Deadline, RSSCap: e.RSSCap, DropPriv: e.DropPriv,
		Par: e.Par, KillBudget: 1 << 30, parent: e, Expected: e.Expected}
}

func (e *c09Engine) runUnits(units [][]c09Case, isolate bool, progress func(i int, res []c09Result)) [][]c09Result {
	out := make([][]c09Result, len(units))
	var mu sync.Mutex
	var wg sync.WaitGroup
	var next atomic.Int64
	for w := 0; w < e.Par; w++ {
		wg.Add(1)
		go func() {
			defer wg.Done()
			for {
				i := int(next.Add(1)) - 1
				if i >= len(units) {
					return
				}
				r := e.RunUnit(units[i], isolate)
				mu.Lock()
				out[i] = r
				if progress != nil {
					progress(i, r)
				}
				mu.Unlock()
			}
		}()
	}
	wg.Wait()
	return out
}
