package main

// C09: the fixed pool of representative objects, the deny-list, and the enumeration of every
// exported function of every package at run time.

import (
	"fmt"
	"sort"
	"strings"

	"github.com/ohler55/slip"
)

// c09Obj is one pool object. Expr is Lisp text that evaluates to a fresh object (used in
// argument positions the function evaluates); Form is the text put in positions the function
// does not evaluate (macros / special forms): the literal datum itself, or for objects without a
// read syntax the constructor form. Type is the label used in signatures (stable, not computed).
type c09Obj struct {
	Name string
	Type string
	Expr string
	Form string
}

func c09Lit(name, typ, lit string) c09Obj   { return c09Obj{name, typ, "'" + lit, lit} }
func c09Self(name, typ, lit string) c09Obj  { return c09Obj{name, typ, lit, lit} }
func c09Ctor(name, typ, expr string) c09Obj { return c09Obj{name, typ, expr, expr} }

// The pool. Integers are chosen so that sizes stay sane (0, 1, 3) except the boundary fixnums
// and the one large-size probe 10^10 (any
// allocation proportional to it exceeds the worker's address-space cap at once, any loop over it
// exceeds the deadline by far: both outcomes are clear-cut, not timing dependent).
var c09Pool = []c09Obj{
	c09Self("nil", "null", "nil"),
	c09Self("t", "boolean", "t"),
	c09Self("0", "fixnum", "0"),
	c09Self("1", "fixnum", "1"),
	c09Self("-1", "fixnum", "-1"),
	c09Self("3", "fixnum", "3"),
	c09Self("maxfix", "fixnum", "9223372036854775807"),
	c09Self("minfix", "fixnum", "-9223372036854775808"),
	c09Self("1e10", "fixnum", "10000000000"),
	c09Self("2^64", "bignum", "18446744073709551616"),
	c09Self("1/2", "ratio", "1/2"),
	c09Self("1.5", "double-float", "1.5d0"),
	c09Self("2.5f0", "single-float", "2.5f0"),
	c09Self("1.5l0", "long-float", "1.5l0"),
	c09Self("#C(1 2)", "complex", "#C(1 2)"),
	c09Self("\"\"", "string", `""`),
	c09Self("\"a\"", "string", `"a"`),
	c09Self("\"12\"", "string", `"12"`),
	c09Lit("sym", "symbol", "c09-sym"),
	c09Lit("car", "symbol", "car"),
	c09Self(":a", "keyword", ":a"),
	c09Self(":test", "keyword", ":test"),
	c09Self("#\\a", "character", `#\a`),
	c09Self("#\\ü", "character", `#\ü`),
	c09Lit("(1 2 3)", "list", "(1 2 3)"),
	c09Lit("(a . b)", "dotted-list", "(a . b)"),
	c09Lit("alist", "alist", "((a . 1) (b . 2))"),
	c09Lit("nested", "nested-list", "(1 (2 (3)) \"x\")"),
	c09Self("#(1 2 3)", "vector", "#(1 2 3)"),
	c09Self("#()", "vector", "#()"),
	c09Ctor("array2x2", "array", "(make-array '(2 2))"),
	c09Ctor("fillvec", "fill-vector", "(make-array 3 :fill-pointer 1 :adjustable t)"),
	c09Self("#*101", "bit-vector", "#*101 "),
	c09Ctor("octets", "octets", "(make-octets 3)"),
	c09Ctor("hash", "hash-table", "(make-hash-table)"),
	c09Self("#'car", "built-in", "#'car"),
	c09Ctor("lambda", "lambda", "(lambda (x) x)"),
	c09Ctor("package", "package", "(find-package \"c09-pkg\")"),
	c09Ctor("out-stream", "output-stream", "(make-string-output-stream)"),
	c09Ctor("in-stream", "input-stream", "(make-string-input-stream \"abc (d) 12\")"),
	c09Self("stdin", "file-stream", "*standard-input*"),
	c09Ctor("instance", "instance", "(make-instance 'c09-class)"),
	c09Ctor("class", "class", "(find-class 'c09-class)"),
	c09Ctor("builtin-class", "built-in-class", "(find-class 'fixnum)"),
	c09Ctor("flavor-instance", "flavor-instance", "(make-instance 'c09-flavor)"),
	c09Ctor("flavor", "flavor", "(find-flavor 'c09-flavor)"),
	c09Ctor("struct", "struct", "(make-c09-struct :a 1)"),
	c09Ctor("channel", "channel", "(let ((c (make-channel 2))) (channel-push c 1) c)"),
	c09Ctor("time", "time", "(make-time 2024 1 2)"),
	c09Ctor("bag", "bag", "(make-bag \"{a:1 b:[1 2]}\")"),
	c09Ctor("condition", "condition", "(make-condition 'error)"),
}

// c09Deny: functions excluded from the sweep, each with the reason (printed in the evidence).
// Nothing is denied for being faulty — only for effects that would leave the jail, block by
// design, or make attribution impossible.
var c09Deny = map[string]string{
	"gi:send-signal":          "sends a signal to an arbitrary pid / process group (pool integers 0, -1 address every process)",
	"gi:signal-wait":          "blocks by design until a signal arrives",
	"gi:make-app":             "runs the Go tool chain in a subprocess (shell execution) and removes $TMPDIR/scratch",
	"common-lisp:do":          "iteration construct: running forever is the meaning of most argument tuples, not a fault",
	"common-lisp:do*":         "iteration construct: running forever is the meaning of most argument tuples, not a fault",
	"common-lisp:loop":        "iteration construct: running forever is the meaning of most argument tuples, not a fault",
	"common-lisp:sleep":       "blocks by design for the requested time",
	"common-lisp:load":        "loads and evaluates arbitrary files",
	"common-lisp:require":     "loads plugins / files from the load path",
	"common-lisp:delete-file": "file deletion",
	"swank:create-server":     "starts a network server (listener and goroutines that never end)",
	"swank:start-server":      "starts a network server (listener and goroutines that never end)",
	"swank:restart-server":    "starts a network server (listener and goroutines that never end)",
	"swank:setup-server":      "starts a network server (listener and goroutines that never end)",
	"swank:swank-server":      "starts a network server (listener and goroutines that never end)",
	"net:get-host-by-name":    "DNS lookup (network; blocks offline)",
	"net:get-host-by-address": "DNS lookup (network; blocks offline)",
	"net:graphql-query":       "HTTP client request (network)",
	"net:socket-connect":      "opens network connections",
	"net:socket-accept":       "blocks by design waiting for a connection",
	"net:socket-select":       "blocks by design waiting for socket events",
	"net:wait-for-input":      "blocks by design waiting for socket input",
}

// c09Fn is one exported function as found at run time.
type c09Fn struct {
	Pkg  string
	Name string
	Head string   // text used in the operator position
	Kind string   // "", macro, function, generic-function …
	Doc  int      // number of documented parameters
	Max  int      // documented maximum number of arguments, -1 = no maximum (&rest, &body, &key)
	Req  int      // documented required parameters (before the first lambda list keyword)
	Opt  int      // documented &optional parameters
	Keys []string // documented &key parameter names (without the colon)
	skip func(i int) bool
}

func (f *c09Fn) Key() string { return f.Pkg + ":" + f.Name }

// c09Functions enumerates every exported function of every package (FuncInfo registry).
func c09Functions() (fns []*c09Fn, denied []string) {
	for _, p := range slip.AllPackages() {
		var infos []*slip.FuncInfo
		p.EachFuncInfo(func(fi *slip.FuncInfo) {
			if fi.Pkg == p && fi.Export {
				infos = append(infos, fi)
			}
		})
		sort.Slice(infos, func(i, j int) bool { return infos[i].Name < infos[j].Name })
		for _, fi := range infos {
			f := &c09Fn{Pkg: p.Name, Name: fi.Name}
			if fi.Doc != nil {
				f.Kind = string(fi.Doc.Kind)
				f.Doc = len(fi.Doc.Args)
				section := ""
				for _, da := range fi.Doc.Args {
					switch {
					case strings.HasPrefix(da.Name, "&"):
						section = da.Name
					case section == "":
						f.Req++
					case section == slip.AmpOptional:
						f.Opt++
					case section == slip.AmpKey:
						f.Keys = append(f.Keys, strings.TrimPrefix(da.Name, ":"))
					}
					switch {
					case da.Name == slip.AmpRest || da.Name == slip.AmpBody || da.Name == slip.AmpKey || da.Name == slip.AmpAllowOtherKeys:
						f.Max = -1
					case strings.HasPrefix(da.Name, "&"):
					case f.Max >= 0:
						f.Max++
					}
				}
			} else {
				f.Max = -1
			}
			if why, no := c09Deny[f.Key()]; no {
				denied = append(denied, f.Key()+": "+why)
				continue
			}
			// operator text: the bare name when it resolves to this very function from the user
			// package, else package-qualified
			f.Head = fi.Name
			if got := c09Find(fi.Name); got != fi {
				f.Head = p.Name + ":" + fi.Name
				if got = c09Find(f.Head); got != fi {
					denied = append(denied, f.Key()+": cannot be named from the user package")
					continue
				}
			}
			// which argument positions are evaluated: ask a probe instance
			probe := func() (fk interface{ SkipArgEval(int) bool }) {
				defer func() { _ = recover() }()
				fk, _ = fi.Create(slip.List{nil, nil, nil, nil, nil, nil}).(interface{ SkipArgEval(int) bool })
				return
			}()
			if probe != nil {
				flags := make([]bool, 8)
				for i := range flags {
					flags[i] = probe.SkipArgEval(i)
				}
				f.skip = func(i int) bool {
					if i >= len(flags) {
						i = len(flags) - 1
					}
					return flags[i]
				}
			} else {
				f.skip = func(int) bool { return false }
			}
			fns = append(fns, f)
		}
	}
	sort.Strings(denied)
	return
}

// c09Reduced: the pool objects used for the fixed table of 3-tuples (indices into c09Pool).
var c09Reduced = c09PoolIndex("nil", "1", "-1", "\"a\"", "sym", ":a", "#\\a", "(1 2 3)", "#(1 2 3)", "lambda")

// c09Promoted: cells found by seeded tuples on the unchanged tree whose fault no cell of the fixed
// tables reaches (DESIGN §5: interaction defects are promoted to cells of the sweep table before
// they are recorded). Function key followed by pool object names; part of the tuple table in
// both tiers.
var c09Promoted = [][]string{
	// a non-symbol where a keyword is expected, behind the bag and the stream argument
	{"bag:bag-write", "bag", "nil", "1", "1"},
	{"bag:bag-write", "bag", "t", "1.5", "condition"},
}

func c09PoolIndex(names ...string) []int {
	var out []int
	for _, n := range names {
		found := false
		for i, o := range c09Pool {
			if o.Name == n {
				out = append(out, i)
				found = true
			}
		}
		if !found {
			panic("c09: no pool object named " + n)
		}
	}
	return out
}

func c09Find(name string) (fi *slip.FuncInfo) {
	defer func() { _ = recover() }()
	return slip.FindFunc(name)
}

// Call builds the Lisp text of the call of f on the pool objects with the given indices.
func (f *c09Fn) Call(idx ...int) string {
	var b strings.Builder
	b.WriteByte('(')
	b.WriteString(f.Head)
	for i, k := range idx {
		b.WriteByte(' ')
		if f.skip(i) {
			b.WriteString(c09Pool[k].Form)
		} else {
			b.WriteString(c09Pool[k].Expr)
		}
	}
	b.WriteByte(')')
	return b.String()
}

// CallObjs builds the call of f on arbitrary objects (pool or constructed).
func (f *c09Fn) CallObjs(objs ...c09Obj) string {
	var b strings.Builder
	b.WriteByte('(')
	b.WriteString(f.Head)
	for i, o := range objs {
		b.WriteByte(' ')
		if f.skip(i) {
			b.WriteString(o.Form)
		} else {
			b.WriteString(o.Expr)
		}
	}
	b.WriteByte(')')
	return b.String()
}

func c09Types(idx ...int) string {
	if len(idx) == 0 {
		return "-"
	}
	t := make([]string, len(idx))
	for i, k := range idx {
		t[i] = c09Pool[k].Type
	}
	return strings.Join(t, ",")
}

func c09Names(idx ...int) string {
	t := make([]string, len(idx))
	for i, k := range idx {
		t[i] = c09Pool[k].Name
	}
	return fmt.Sprint(t)
}
