package main

// C18 — op sequences (set / remove / get / has / get-all / walk) against the path model.

import (
	"fmt"
	"math/big"
	"os"
	"sort"
	"strings"

	"github.com/ohler55/slip"
	"github.com/ohler55/slip/pkg/flavors"
	"verif/harness/lib"
)

type c18OpObs struct {
	op       c18Op
	path     ppath
	steps    string // step kinds against the tree before the op
	valKind  string
	result   string // canonical observation
	msg      string
	hasAll   string // H: "T"/"F" from get-all, the direct has = (get-all non-empty) relation
	allList  string // G / H / W: what get-all returns for the same path (direct relations)
	getAfter string // S: (bag-get path) after a successful set
	frameQ   string // S/R: a path apart from the op's path …
	frameOld string // … and what get returned there before
	frameNew string // … and after
}

// lispValue builds the native Lisp argument for a set value; ok=false when the document has no
// native form that denotes it (empty containers) or must not take the native route.
func lispValue(v *jv) (slip.Object, bool) {
	switch v.kind {
	case 'n':
		return nil, true
	case 'b':
		if v.b {
			return slip.True, true
		}
		return slip.Symbol(":false"), true
	case 'i':
		if v.i.IsInt64() {
			return slip.Fixnum(v.i.Int64()), true
		}
		return (*slip.Bignum)(new(big.Int).Set(v.i)), true
	case 'd':
		return slip.DoubleFloat(v.f), true
	case 's':
		return slip.String(v.s), true
	case 'a':
		if len(v.arr) == 0 {
			return nil, false
		}
		out := make(slip.List, 0, len(v.arr))
		for _, c := range v.arr {
			o, ok := lispValue(c)
			if !ok {
				return nil, false
			}
			out = append(out, o)
		}
		return out, true
	default:
		if len(v.keys) == 0 {
			return nil, false
		}
		out := make(slip.List, 0, len(v.keys))
		for i, k := range v.keys {
			o, ok := lispValue(v.vals[i])
			if !ok {
				return nil, false
			}
			out = append(out, slip.List{slip.String(k), slip.Tail{Value: o}})
		}
		return out, true
	}
}

// apartPaths: the two definite paths diverge at a step that cannot address the same child.
// shifting=true (remove): a removed array element moves its later siblings, so diverging at
// two indices does not count.
func apartPaths(p, q ppath, shifting bool) bool {
	for i := 0; i < len(p) && i < len(q); i++ {
		a, b := p[i], q[i]
		if a.kind == '*' || a.kind == 'd' || b.kind == '*' || b.kind == 'd' {
			return false
		}
		if a.kind == b.kind && a.key == b.key && a.idx == b.idx {
			continue
		}
		if a.kind != b.kind {
			return true
		}
		if a.kind == 'k' {
			return a.key != b.key
		}
		return !shifting && a.idx != b.idx && (a.idx < 0) == (b.idx < 0)
	}
	return false
}

func (r *c18Run) getCanon(b *flavors.Instance, p ppath, mode int) (string, string) {
	src := "(bag-get c18-b c18-p t)"
	if mode&1 == 1 {
		src = "(send c18-b :get c18-p t)"
	}
	o := r.impl.eval(src, map[string]slip.Object{"c18-b": b, "c18-p": pathObject(p, mode&2 == 0, mode&8 == 0)})
	if !o.Ok {
		return "err " + o.Class, o.Msg
	}
	if a, ok := bagAny(o.Value); ok && a != nil {
		return canonAny(a), ""
	}
	return "nil", ""
}

func (r *c18Run) bagList(o lib.Outcome) string {
	if !o.Ok {
		return "err " + o.Class
	}
	list, _ := o.Value.(slip.List)
	var out []string
	for _, e := range list {
		if a, ok := bagAny(e); ok {
			out = append(out, canonAny(a))
		} else {
			out = append(out, "?"+slip.ObjectString(e))
		}
	}
	sort.Strings(out)
	return strings.TrimSpace("list " + strings.Join(out, " ; "))
}

// genOp chooses the next operation against the bag's current tree.
func (r *c18Run) genOp(root any) c18Op {
	g := r.g
	op := c18Op{Mode: g.r.Intn(16) + 16*g.r.Intn(8)}
	switch n := g.r.Intn(100); {
	case n < 6:
		op.Op = "M"
	case n < 30:
		op.Op = "S"
	case n < 45:
		op.Op = "R"
	case n < 65:
		op.Op = "G"
	case n < 80:
		op.Op = "H"
	case n < 90:
		op.Op = "A"
	default:
		op.Op = "W"
	}
	var p ppath
	switch op.Op {
	case "S", "R", "M":
		for tries := 0; ; tries++ {
			p = g.mutatePath(root, op.Op == "S")
			kinds := p.stepKinds(root)
			// a definite step on a node of the wrong kind is a listed single-cause cell
			if op.Op == "S" && strings.Contains(kinds, "@") && tries < 20 {
				continue
			}
			break
		}
	default:
		p = g.queryPath(root)
	}
	if op.Op == "G" && p.definite() && g.r.Chance(40) {
		op.Op = "N" // the Lisp-level result (slip.SimpleObject of the node) instead of a bag
	}
	op.Path = strings.Join(p.wire(), " ")
	if op.Op == "S" || op.Op == "M" {
		v := g.doc(2)
		if g.avoid.sharedValue && !p.definite() && (v.kind == 'a' || v.kind == 'o') {
			v = g.scalar()
		}
		if p.hasDescent() && (v.kind == 'a' || v.kind == 'o') {
			// ojg descends into the value it has just placed: with a container value the walk
			// does not end (the process runs out of memory); see the descent-value cell
			v = g.scalar()
		}
		op.Value = strings.Join(v.wire(), " ")
	}
	return op
}

// nodeKindAt: the kind of the node a definite path selects in a Go tree ("-" when the path is not
// definite, "absent" when it selects nothing).
func nodeKindAt(root any, p ppath) string {
	cur := root
	for _, s := range p {
		switch s.kind {
		case 'k':
			m, ok := cur.(map[string]any)
			if !ok {
				return "absent"
			}
			c, has := m[s.key]
			if !has {
				return "absent"
			}
			cur = c
		case 'x':
			a, ok := cur.([]any)
			if !ok {
				return "absent"
			}
			i := s.idx
			if i < 0 {
				i += len(a)
			}
			if i < 0 || i >= len(a) {
				return "absent"
			}
			cur = a[i]
		default:
			return "-"
		}
	}
	switch t := cur.(type) {
	case nil:
		return "null"
	case bool:
		if t {
			return "true"
		}
		return "false"
	case string:
		return "str"
	case []any:
		if len(t) == 0 {
			return "empty-arr"
		}
		return "arr"
	case map[string]any:
		if len(t) == 0 {
			return "empty-obj"
		}
		return "obj"
	}
	return "number"
}

// execOp performs one operation on the bag and observes it.
func (r *c18Run) execOp(b *flavors.Instance, op c18Op) c18OpObs {
	p := parsePath(op.Path)
	if os.Getenv("C18_TRACE") != "" {
		fmt.Fprintf(os.Stderr, "trace %s %s %s on %s\n", op.Op, p.show(), op.Value, canonAny(b.Any))
	}
	ob := c18OpObs{op: op, path: p, steps: p.stepKinds(b.Any), valKind: "-"}
	if op.Op == "H" || op.Op == "G" || op.Op == "N" || op.Op == "A" || op.Op == "W" {
		ob.valKind = nodeKindAt(b.Any, p) // what a definite query path points at (null is a value like any other)
	}
	pobj := pathObject(p, op.Mode&2 == 0, op.Mode&8 == 0)
	binds := map[string]slip.Object{"c18-b": b, "c18-p": pobj}
	send := op.Mode&1 == 1
	switch op.Op {
	case "G":
		ob.result, ob.msg = r.getCanon(b, p, op.Mode)
		ob.allList = r.bagList(r.impl.eval("(bag-get-all c18-b c18-p)", binds))
	case "N":
		src := "(bag-get c18-b c18-p)"
		if send {
			src = "(send c18-b :get c18-p)"
		}
		o := r.impl.eval(src, binds)
		if !o.Ok {
			ob.result, ob.msg = "err "+o.Class, o.Msg
		} else {
			ob.result = canonTokenString(strings.Join(encLisp(o.Value), " "))
		}
	case "H":
		src := "(bag-has c18-b c18-p)"
		if send {
			src = "(send c18-b :has c18-p)"
		}
		o := r.impl.eval(src, binds)
		switch {
		case !o.Ok:
			ob.result, ob.msg = "err "+o.Class, o.Msg
		case o.Value == nil:
			ob.result = "F"
		default:
			ob.result = "T"
		}
		ob.allList = r.bagList(r.impl.eval("(bag-get-all c18-b c18-p)", binds))
		ob.hasAll = "T"
		if ob.allList == "list" {
			ob.hasAll = "F"
		}
	case "A":
		src := "(bag-get-all c18-b c18-p)"
		if send {
			src = "(send c18-b :get-all c18-p :bag-list)"
		}
		ob.result = r.bagList(r.impl.eval(src, binds))
	case "W":
		src := "(let ((c18-acc nil)) (bag-walk c18-b (lambda (x) (setq c18-acc (cons x c18-acc))) c18-p t) c18-acc)"
		if send {
			src = "(let ((c18-acc nil)) (send c18-b :walk (lambda (x) (setq c18-acc (cons x c18-acc))) c18-p t) c18-acc)"
		}
		ob.result = r.bagList(r.impl.eval(src, binds))
		ob.allList = r.bagList(r.impl.eval("(bag-get-all c18-b c18-p)", binds))
	case "S", "R", "M":
		var q ppath
		if p.definite() {
			for tries := 0; tries < 6; tries++ {
				c := r.g.definitePath(b.Any, 3)
				if apartPaths(p, c, op.Op == "R") {
					q = c
					break
				}
			}
		}
		if q != nil {
			ob.frameQ = q.show()
			ob.frameOld, _ = r.getCanon(b, q, 2)
		}
		var o lib.Outcome
		if op.Op == "M" {
			// bag-modify with a function that ignores its argument and returns the value (a bag
			// instance, so that any document can be returned)
			v := parseDoc(op.Value)
			ob.valKind = v.leafKind()
			vb, vo := r.impl.makeBag(v.text(), 0)
			if !vo.Ok {
				ob.result, ob.msg = "err value "+vo.Class, vo.Msg
				return ob
			}
			binds["c18-v"] = vb
			asBag := ""
			if op.Mode&4 != 0 {
				asBag = " :as-bag t"
			}
			src := "(bag-modify c18-b (lambda (x) c18-v) c18-p" + asBag + ")"
			if send {
				src = "(send c18-b :modify (lambda (x) c18-v) c18-p" + asBag + ")"
			}
			o = r.impl.eval(src, binds)
		} else if op.Op == "S" {
			v := parseDoc(op.Value)
			ob.valKind = v.leafKind()
			var vobj slip.Object
			native := false
			if op.Mode&4 == 0 && !v.anyLeaf(func(x *jv) bool { return x.isBigInt() }) {
				vobj, native = lispValue(v)
			}
			if !native {
				vb, vo := r.impl.makeBag(v.text(), 0)
				if !vo.Ok {
					ob.result, ob.msg = "err value "+vo.Class, vo.Msg
					return ob
				}
				vobj = vb
			}
			binds["c18-v"] = vobj
			src := "(bag-set c18-b c18-v c18-p)"
			if send {
				src = "(send c18-b :set c18-v c18-p)"
			}
			// the value may also arrive as text: bag-parse / :parse / bag-read / :read with a path
			// set what they parse at the path
			switch (op.Mode >> 4) & 7 {
			case 1:
				binds["c18-v"] = slip.String(v.text())
				src = "(bag-parse c18-b c18-v c18-p)"
				if send {
					src = "(send c18-b :parse c18-v c18-p)"
				}
			case 2:
				binds["c18-v"] = slip.Octets([]byte(v.text()))
				src = "(bag-parse c18-b c18-v c18-p)"
			case 3:
				binds["c18-v"] = slip.String(v.text())
				src = "(bag-read c18-b (make-string-input-stream c18-v) c18-p)"
				if send {
					src = "(send c18-b :read (make-string-input-stream c18-v) c18-p)"
				}
			}
			o = r.impl.eval(src, binds)
			if o.Ok && p.definite() {
				ob.getAfter, _ = r.getCanon(b, p, 2)
			}
		} else {
			src := "(bag-remove c18-b c18-p)"
			if send {
				src = "(send c18-b :remove c18-p)"
			}
			o = r.impl.eval(src, binds)
		}
		if !o.Ok {
			ob.result, ob.msg = "err "+o.Class, o.Msg
		} else {
			ob.result = "ok " + canonAny(b.Any)
			if q != nil {
				ob.frameNew, _ = r.getCanon(b, q, 2)
			}
		}
	}
	return ob
}

func opName(op string) string {
	return map[string]string{"M": "modify", "G": "get", "N": "get-native", "H": "has", "A": "get-all", "W": "walk", "S": "set", "R": "remove"}[op]
}

func nilIfNull(c string) string {
	if c == "n" {
		return "nil"
	}
	return c
}

func (r *c18Run) runOps(cases []*c18Case) {
	type runT struct {
		cs  *c18Case
		obs []c18OpObs
	}
	var runs []runT
	var reqs []string
	for _, cs := range cases {
		doc := parseDoc(cs.Doc)
		if doc == nil {
			fmt.Println("C18 harness bug: ops doc", cs.Doc)
			continue
		}
		b, o := r.impl.makeBag(doc.text(), cs.Via)
		if !o.Ok {
			r.check(cs, false, c18Diff{sig: sig("parse", "-", doc.firstKind(), "condition"), observed: "err " + o.Class + " " + o.Msg, expected: "a bag", from: "property statement"})
			continue
		}
		fixed := len(cs.Ops) > 0
		n := len(cs.Ops)
		if !fixed {
			n = 1 + r.g.r.Intn(6)
		}
		var obs []c18OpObs
		req := []string{"json ops", cs.Doc}
		for i := 0; i < n; i++ {
			var op c18Op
			if fixed {
				op = cs.Ops[i]
			} else {
				op = r.genOp(b.Any)
				cs.Ops = append(cs.Ops, op)
			}
			ob := r.execOp(b, op)
			obs = append(obs, ob)
			mop := op.Op
			if mop == "G" && !ob.path.definite() {
				mop = "A"
			}
			req = append(req, mop, op.Path)
			if op.Op == "S" || op.Op == "M" {
				req = append(req, op.Value)
			}
			r.c.Ev.Hist("op", opName(op.Op))
			r.c.Ev.Hist("path_len", fmt.Sprint(len(ob.path)))
			for _, k := range strings.Split(ob.steps, ",") {
				r.c.Ev.Hist("step_kind", k)
			}
			if strings.HasPrefix(ob.result, "err") {
				break
			}
		}
		nontrivial := doc.depth() >= 2
		for _, ob := range obs {
			if len(ob.path) >= 2 {
				nontrivial = true
			}
		}
		r.c.Ev.Case("ops "+cs.Doc+fmt.Sprint(cs.Ops), nontrivial)
		r.c.Ev.Hist("family", "ops")
		r.c.Ev.Hist("ops_len", fmt.Sprint(len(obs)))
		runs = append(runs, runT{cs, obs})
		reqs = append(reqs, strings.Join(req, " "))
	}
	replies := r.c.Model(reqs)
	for i, run := range runs {
		parts := strings.Split(strings.TrimPrefix(replies[i], "ok "), " | ")
		if replies[i] == "ok " || replies[i] == "ok" {
			parts = nil
		}
		for k, ob := range run.obs {
			one := *run.cs
			one.Ops = run.cs.Ops[:k+1]
			name := opName(ob.op.Op)
			if k >= len(parts) {
				// the model stopped at an error the implementation did not raise: reported there
				break
			}
			m := strings.TrimSpace(parts[k])
			steps, valKind := ob.steps, ob.valKind
			trailing := len(ob.path) > 0 && ob.path[len(ob.path)-1].kind == 'd' && ob.op.Op != "S" && ob.op.Op != "R" && ob.op.Op != "N" && ob.op.Op != "M"
			if trailing {
				// a query path ending in a descent is outside JSONPath (RFC 9535); ojg accepts it:
				// only the relations between the implementation's own answers are checked
				steps = "desc-last"
			}
			for i := 0; i+1 < len(ob.path) && !trailing; i++ {
				if ob.path[i].kind == '*' && ob.path[i+1].kind == 'd' {
					steps = "wild-desc" // one cause (ojg loses matches below a wildcard that is followed by a descent)
				}
			}
			var exp, aspect string
			okk := true
			if !trailing {
				exp, aspect, okk = r.compareOp(ob, m)
			}
			if !okk && m == "err mismatch" && aspect == "no-condition" {
				// one cause whatever precedes or follows the step and whatever the value is
				for _, sk := range strings.Split(ob.steps, ",") {
					if strings.Contains(sk, "@") {
						steps, valKind, aspect = sk, "-", "silent-noop"
						break
					}
				}
			}
			sigOp := name
			if !okk && run.cs.Cell == "shared-value" && k >= 1 {
				// the cell's cause is the first op (one container placed at several nodes)
				sigOp, steps, valKind, aspect = "set", "multi-match", "container", "shared-value"
			}
			r.check(&one, okk, c18Diff{sig: sig(sigOp, steps, valKind, aspect), observed: ob.result + " " + ob.msg, expected: exp,
				from: "model:json.ops", relies: []string{"SlipVerif.Json.get_set_same", "SlipVerif.Json.get_set_disjoint", "SlipVerif.Json.has_iff_get", "SlipVerif.Json.walk_visits_exactly_getAll"}})
			if !okk {
				break
			}
			if strings.HasPrefix(ob.result, "err") {
				break
			}
			// the property's relations, directly on the implementation
			if ob.op.Op == "G" && !strings.HasPrefix(ob.allList, "err") {
				okg := false
				if ob.allList == "list" {
					okg = ob.result == "nil"
				} else {
					for _, c := range strings.Split(strings.TrimPrefix(ob.allList, "list "), " ; ") {
						if nilIfNull(c) == ob.result {
							okg = true
						}
					}
				}
				r.check(&one, okg, c18Diff{sig: sig("get", steps, "-", "get-vs-get-all"), observed: "get=" + ob.result + " get-all=" + ob.allList,
					expected: "get returns one of the nodes get-all returns (nil when there is none)", from: "impl:get-vs-get-all"})
			}
			if ob.op.Op == "W" {
				r.check(&one, ob.result == ob.allList, c18Diff{sig: sig("walk", steps, "-", "walk-vs-get-all"), observed: "walk=" + ob.result + " get-all=" + ob.allList,
					expected: "walk visits exactly the nodes get-all returns", from: "impl:walk-vs-get-all"})
			}
			if ob.op.Op == "H" {
				r.check(&one, ob.hasAll == ob.result, c18Diff{sig: sig("has", steps, "-", "has-vs-get-all"), observed: "has=" + ob.result + " get-all-non-empty=" + ob.hasAll,
					expected: "equal", from: "impl:has-vs-get-all"})
			}
			if ob.op.Op == "S" && ob.getAfter != "" {
				want := nilIfNull(parseDoc(ob.op.Value).canon())
				r.check(&one, ob.getAfter == want, c18Diff{sig: sig("set", ob.steps, ob.valKind, "get-after-set"), observed: "get after set: " + ob.getAfter,
					expected: want, from: "impl:get-after-set"})
			}
			if ob.frameQ != "" && ob.frameNew != "" {
				r.check(&one, ob.frameOld == ob.frameNew, c18Diff{sig: sig(name, ob.steps, ob.valKind, "frame"), observed: "get " + ob.frameQ + " was " + ob.frameOld + " now " + ob.frameNew,
					expected: "unchanged", from: "impl:frame"})
			}
		}
	}
}

// compareOp: expected canonical text, aspect of a disagreement, agreement.
func (r *c18Run) compareOp(ob c18OpObs, m string) (string, string, bool) {
	implErr := strings.HasPrefix(ob.result, "err")
	if strings.HasPrefix(m, "err ") {
		if implErr {
			return m, "", true // which condition is not compared
		}
		return m, "no-condition", false
	}
	if implErr {
		return m, "condition", false
	}
	switch ob.op.Op {
	case "N":
		exp := canonTokenString(m)
		return exp, "wrong-lisp-value", ob.result == exp
	case "H":
		return m, "wrong-answer", ob.result == m
	case "G":
		if ob.path.definite() {
			exp := "nil"
			if strings.HasPrefix(m, "some ") {
				exp = nilIfNull(canonTokenString(m[5:]))
			}
			return exp, "wrong-value", ob.result == exp
		}
		all := canonTokenList(strings.Fields(strings.TrimPrefix(m, "list")), true)
		if len(all) == 0 {
			return "nil", "wrong-value", ob.result == "nil"
		}
		for _, c := range all {
			if nilIfNull(c) == ob.result {
				return "one of the selected nodes", "", true
			}
		}
		return "one of: " + strings.Join(all, " ; "), "not-a-selected-node", false
	case "A", "W":
		all := canonTokenList(strings.Fields(strings.TrimPrefix(m, "list")), true)
		exp := strings.TrimSpace("list " + strings.Join(all, " ; "))
		aspect := "wrong-nodes"
		if len(all) != len(strings.Split(ob.result, " ; ")) || (len(all) == 0) != (ob.result == "list") {
			aspect = "wrong-count"
		}
		return exp, aspect, ob.result == exp
	default:
		exp := "ok " + canonTokenString(strings.TrimPrefix(m, "ok "))
		return exp, "wrong-result", ob.result == exp
	}
}
