package main

// C05 — histories: k calls in a row in ONE scope. Every operand and every numeric result is kept in
// a variable of its own (and as the Go object), later calls may take any kept value as an operand
// again, and after every call every kept value is read again — the object and the variable. "Never
// alter their operands" and "results are values" are observed across calls: a result that aliases
// pooled scratch, an operand whose big.Int/big.Rat was handed to a sync.Pool, an accumulator shared
// between calls all show up as a kept value that reads differently after a later call.
//
// Model side: `num hist <op> <arg>* ; <op> <arg>* ; …` (args: an operand or `$i` = i-th kept value);
// SlipVerif.Num.run executes it on immutable values; the reply carries the outcome of every call and
// the final store. Compared: every call's reply (c05Disagree), and the implementation's kept values
// after the last call against the model's store, position by position.
//
// Histories are composite cases (never excused): a call that contains a listed construct
// (c05Avoid) is not generated.

import (
	"fmt"
	"math/big"
	"os"
	"strconv"
	"strings"

	"github.com/ohler55/slip"
	"verif/harness/lib"
)

type c05HistArg struct {
	ref int        // index into the kept values, -1 for a new operand
	lit c05Operand // the new operand
}

type c05HistCall struct {
	op   c05Op
	args []c05HistArg
}

type c05Kept struct {
	obj    slip.Object
	show   string     // c05Show when it was stored
	opnd   c05Operand // its exact value and kind (for later use as an operand)
	origin string     // "operand of <op>" | "result of <op>"
	call   int        // index of the call that stored it
	exact  bool       // fixnum, bignum or ratio (usable by every operator)
}

// c05OperandOf describes a number object as an operand; ok is false for anything that is not a finite real.
func c05OperandOf(v slip.Object) (c05Operand, bool) {
	switch tv := v.(type) {
	case slip.Fixnum:
		return c05Big(big.NewInt(int64(tv))), true
	case *slip.Bignum:
		o := c05Big((*big.Int)(tv))
		if (*big.Int)(tv).IsInt64() {
			o.form = "B"
		}
		return o, true
	case *slip.Ratio:
		o := c05Operand{rat: new(big.Rat).Set((*big.Rat)(tv)), kind: "q"}
		if o.rat.IsInt() {
			o.form = "R"
		}
		return o, true
	case slip.DoubleFloat:
		f := float64(tv)
		if f != f || f > 1.7976931348623157e308 || f < -1.7976931348623157e308 {
			return c05Operand{}, false
		}
		return c05Double(f), true
	case slip.SingleFloat:
		f := float64(tv)
		if f != f || f > 3.4028234663852886e38 || f < -3.4028234663852886e38 {
			return c05Operand{}, false
		}
		return c05Single(float32(tv)), true
	case *slip.LongFloat:
		f := (*big.Float)(tv)
		if f.IsInf() {
			return c05Operand{}, false
		}
		r, _ := f.Rat(nil)
		return c05Operand{rat: r, kind: "l", prec: f.Prec()}, true
	}
	return c05Operand{}, false
}

// c05History is one executed history.
type c05History struct {
	calls   []c05HistCall
	cases   []c05Case // the calls with their operands resolved (for signatures and c05Disagree)
	replies []string  // implementation reply per call
	faults  []string  // go-fault message per call ("" = none)
	kept    []c05Kept
	// first kept value that read differently after a later call (-1: none)
	changedAt   int // call after which it was seen
	changedKept int
	changedNow  string
}

func (h *c05History) request() string {
	var b strings.Builder
	b.WriteString("num hist")
	for i, cl := range h.calls {
		if i > 0 {
			b.WriteString(" ;")
		}
		b.WriteString(" " + cl.op.name)
		for _, a := range cl.args {
			if a.ref >= 0 {
				b.WriteString(" $" + strconv.Itoa(a.ref))
			} else {
				b.WriteString(" " + a.lit.wire())
			}
		}
	}
	return b.String()
}

// lisp renders the history as a let* form a reader can paste (floats as bit patterns).
func (h *c05History) lisp() string {
	var b strings.Builder
	b.WriteString("(let* (")
	n := 0
	for i, cl := range h.calls {
		var names []string
		for _, a := range cl.args {
			if a.ref >= 0 {
				names = append(names, "v"+strconv.Itoa(a.ref))
			} else {
				one := c05Case{args: []c05Operand{a.lit}}
				txt := strings.TrimSuffix(strings.TrimPrefix(one.lisp(), "( "), ")")
				fmt.Fprintf(&b, "(v%d %s) ", n, txt)
				names = append(names, "v"+strconv.Itoa(n))
				n++
			}
		}
		nres := 0
		for _, k := range h.kept {
			if k.call == i && strings.HasPrefix(k.origin, "result") {
				nres++
			}
		}
		call := "(" + cl.op.name + " " + strings.Join(names, " ") + ")"
		if cl.op.domain == "place" {
			call = "(let ((p " + names[0] + ")) (" + cl.op.name + " p " + strings.Join(names[1:], " ") + "))"
		}
		switch nres {
		case 0:
			fmt.Fprintf(&b, "(_ %s) ", call)
		case 1:
			fmt.Fprintf(&b, "(v%d %s) ", n, call)
			n++
		default:
			fmt.Fprintf(&b, "((v%d v%d) %s) ", n, n+1, call)
			n += 2
		}
	}
	b.WriteString(") (list v0 …))")
	return b.String()
}

// c05ExecHistory runs a history on the implementation. next is asked for the call to make after
// `step` calls, seeing every value kept so far; it returns false to end the history.
func c05ExecHistory(next func(step int, kept []c05Kept) (c05HistCall, bool)) *c05History {
	h := &c05History{changedAt: -1, changedKept: -1}
	scope := slip.NewScope()
	keep := func(obj slip.Object, origin string, call int) {
		opnd, ok := c05OperandOf(obj)
		if !ok {
			// not a finite real (an infinity, a NaN, a complex): kept and re-read, never used again
			opnd = c05Operand{rat: new(big.Rat), kind: "x"}
		}
		exact := false
		switch obj.(type) {
		case slip.Fixnum, *slip.Bignum, *slip.Ratio:
			exact = true
		}
		scope.Let(slip.Symbol("v"+strconv.Itoa(len(h.kept))), obj)
		h.kept = append(h.kept, c05Kept{obj: obj, show: c05Show(obj), opnd: opnd, origin: origin, call: call, exact: exact})
	}
	for step := 0; ; step++ {
		cl, more := next(step, h.kept)
		if !more {
			break
		}
		cs := c05Case{op: cl.op}
		var names []string
		for _, a := range cl.args {
			if a.ref >= 0 {
				cs.args = append(cs.args, h.kept[a.ref].opnd)
				names = append(names, "v"+strconv.Itoa(a.ref))
			} else {
				cs.args = append(cs.args, a.lit)
				names = append(names, "v"+strconv.Itoa(len(h.kept)))
				keep(a.lit.object(), "operand of "+cl.op.name, step)
			}
		}
		var o lib.Outcome
		switch cl.op.domain {
		case "go":
			a, b := scope.Get(slip.Symbol(names[0])), scope.Get(slip.Symbol(names[1]))
			o = lib.Protect(func() slip.Object {
				if slip.LessThan(a, b) {
					return slip.List{slip.True}
				}
				return slip.List{nil}
			})
		case "place":
			// the place is a fresh variable bound to the SAME object as the kept value
			o = lib.EvalString(scope, "(multiple-value-list (let ((p "+names[0]+")) ("+cl.op.name+" p "+strings.Join(names[1:], " ")+")))")
		default:
			o = lib.EvalString(scope, "(multiple-value-list ("+cl.op.name+" "+strings.Join(names, " ")+"))")
		}
		reply, fault := "", ""
		if !o.Ok {
			reply = "err " + o.Class
			if o.GoFault {
				fault = o.Msg
			}
		} else {
			list, _ := o.Value.(slip.List)
			words := []string{"ok"}
			for _, v := range list {
				words = append(words, c05Show(v))
				switch v.(type) {
				case slip.Fixnum, *slip.Bignum, *slip.Ratio, slip.DoubleFloat, slip.SingleFloat, *slip.LongFloat:
					keep(v, "result of "+cl.op.name, step)
				}
			}
			reply = strings.Join(words, " ")
		}
		h.calls = append(h.calls, cl)
		h.cases = append(h.cases, cs)
		h.replies = append(h.replies, reply)
		h.faults = append(h.faults, fault)
		// read every kept value again: the object and the variable that holds it
		if h.changedAt < 0 {
			for i, k := range h.kept {
				now := c05Show(k.obj)
				if now == k.show {
					now = c05Show(scope.Get(slip.Symbol("v" + strconv.Itoa(i))))
				}
				if now != k.show {
					h.changedAt, h.changedKept, h.changedNow = step, i, now
					break
				}
			}
		}
	}
	return h
}

// c05ParseHistory rebuilds the plan of a history from its request line (for --replay).
func c05ParseHistory(req string) ([]c05HistCall, bool) {
	w := strings.Fields(req)
	if len(w) < 3 || w[0] != "num" || w[1] != "hist" {
		return nil, false
	}
	var calls []c05HistCall
	for _, part := range strings.Split(strings.Join(w[2:], " "), " ; ") {
		pw := strings.Fields(part)
		if len(pw) == 0 {
			return nil, false
		}
		var cl c05HistCall
		found := false
		for _, op := range c05Ops {
			if op.name == pw[0] {
				cl.op, found = op, true
			}
		}
		if !found {
			return nil, false
		}
		for _, a := range pw[1:] {
			if strings.HasPrefix(a, "$") {
				i, err := strconv.Atoi(a[1:])
				if err != nil {
					return nil, false
				}
				cl.args = append(cl.args, c05HistArg{ref: i})
				continue
			}
			one, ok := c05ParseRequest("num value " + a)
			if !ok || len(one.args) != 1 {
				return nil, false
			}
			cl.args = append(cl.args, c05HistArg{ref: -1, lit: one.args[0]})
		}
		calls = append(calls, cl)
	}
	return calls, true
}

func c05ReplayPlan(calls []c05HistCall) func(int, []c05Kept) (c05HistCall, bool) {
	return func(step int, kept []c05Kept) (c05HistCall, bool) {
		if step >= len(calls) {
			return c05HistCall{}, false
		}
		for _, a := range calls[step].args {
			if a.ref >= len(kept) {
				return c05HistCall{}, false // the recorded history no longer produces that value
			}
		}
		return calls[step], true
	}
}

// c05SplitHistReply splits the model's reply into the per-call replies and the store.
func c05SplitHistReply(reply string) (calls []string, store []string) {
	body := strings.TrimPrefix(reply, "ok ")
	cs, st, _ := strings.Cut(body, " ;;")
	for _, p := range strings.Split(cs, " ; ") {
		calls = append(calls, strings.TrimSpace(p))
	}
	return calls, strings.Fields(st)
}

// c05JudgeHistory compares an executed history with the model's reply and reports at most one
// disagreement (the earliest). It returns true when everything agrees.
func c05JudgeHistory(c *lib.Ctx, h *c05History, req, modelReply string) bool {
	mcalls, mstore := c05SplitHistReply(modelReply)
	replay := func(observed, expected string) map[string]any {
		return map[string]any{"input": h.lisp(), "request": req, "observed": observed, "expected": expected, "expected_from": "model:num hist",
			"relies_on": []string{"SlipVerif.Theorems.C05Hist", "SlipVerif.Theorems.C05"}}
	}
	if len(mcalls) != len(h.calls) {
		fmt.Fprintf(os.Stderr, "harness bug: %d calls, %d model outcomes for %q\n", len(h.calls), len(mcalls), req)
		os.Exit(2)
	}
	for i, cs := range h.cases {
		if h.changedAt >= 0 && h.changedAt == i {
			k := h.kept[h.changedKept]
			what := "earlier-" + strings.Fields(k.origin)[0] // earlier-operand | earlier-result
			if k.call == i {
				what = strings.Fields(k.origin)[0] + "-of-this-call"
			}
			sig := fmt.Sprintf("hist op=%s kept=%s:%s(%s) aspect=kept-value-changed", cs.op.name, what, strings.TrimPrefix(strings.TrimPrefix(k.origin, "operand of "), "result of "), k.opnd.rep())
			c.Report(sig, false, replay(fmt.Sprintf("after call %d %s the kept value v%d (%s of call %d) reads %s, it was %s", i, cs.lisp(), h.changedKept, k.origin, k.call, h.changedNow, k.show),
				"every kept operand and result reads the same after any later call (numbers are values)"))
			return false
		}
		if h.faults[i] != "" {
			c.Report("hist "+c05Signature(cs, mcalls[i], "go-fault"), false, replay(fmt.Sprintf("call %d %s: %s %s", i, cs.lisp(), h.replies[i], h.faults[i]), mcalls[i]))
			return false
		}
		if aspect := c05Disagree(cs, h.replies[i], mcalls[i]); aspect != "" {
			c.Report("hist "+c05Signature(cs, mcalls[i], aspect), false, replay(fmt.Sprintf("call %d %s => %s", i, cs.lisp(), h.replies[i]), mcalls[i]))
			return false
		}
	}
	// the final store: same number of kept values, same exact values
	if len(mstore) != len(h.kept) {
		c.Report("hist aspect=store-size", false, replay(fmt.Sprintf("%d kept values", len(h.kept)), fmt.Sprintf("%d kept values", len(mstore))))
		return false
	}
	for i, k := range h.kept {
		if k.opnd.kind == "x" {
			continue
		}
		_, mv, _ := strings.Cut(mstore[i], ":")
		_, iv, _ := strings.Cut(c05Show(k.obj), ":")
		if mv != iv {
			c.Report(fmt.Sprintf("hist kept=%s aspect=final-store-value", k.origin), false, replay(fmt.Sprintf("v%d = %s", i, c05Show(k.obj)), mstore[i]))
			return false
		}
	}
	return true
}

// ---------------------------------------------------------------------------------------------
// generators

// c05HistTuples: operand tuples per domain for the seed-independent histories. Chosen so that calls
// go through the bignum/ratio branches, return bignum and ratio RESULTS (huge common factors, exact
// bignum quotients), and mix in fixnum operands (converted through scratch).
func c05HistTuples(op c05Op) [][]c05Operand {
	p := func(e uint, mul int64) c05Operand {
		return c05Big(new(big.Int).Mul(new(big.Int).Lsh(big.NewInt(1), e), big.NewInt(mul)))
	}
	i := c05Int
	var out [][]c05Operand
	switch op.domain {
	case "int":
		out = [][]c05Operand{{p(70, 1), p(71, 1)}, {p(80, 1), i("6")}, {p(64, 3), p(64, 9), p(66, 1)}, {i("6"), i("4")},
			{i("-9223372036854775808"), p(64, 1)}, {i("18446744073709551617"), i("18446744073709551615")},
			{i("221360928884514619404"), i("332041393326771929106")}} // 12·(2^64+1), 18·(2^64+1)
	case "nat":
		out = [][]c05Operand{{p(128, 1)}, {p(130, 1)}, {i("1000000000000000000000000000002000000000000000000000000000001")}, {i("25")}, {p(64, 1)}}
	case "ash":
		out = [][]c05Operand{{p(70, 1), i("3")}, {p(70, 3), i("-5")}, {i("5"), i("64")}, {i("-18446744073709551617"), i("-1")}, {p(80, 1), i("0")}}
	case "bitp":
		out = [][]c05Operand{{i("70"), p(70, 1)}, {i("3"), p(64, 1)}, {i("64"), i("-1")}, {i("0"), i("5")}}
	case "expt":
		out = [][]c05Operand{{p(64, 1), i("2")}, {i("3"), i("70")}, {c05RatioS("18446744073709551617", "3"), i("2")}, {i("2"), i("3")}, {p(70, 1), i("1")}}
	case "cmp", "cmp1":
		out = [][]c05Operand{{c05Double(0.5), c05RatioS("1", "3")}, {i("1"), c05Double(2.5)}, {c05RatioS("1", "3"), c05Double(0.5)},
			{p(64, 1), i("18446744073709551617")}, {c05Double(0.1), c05RatioS("1", "2"), c05Double(0.9)},
			{c05Single(0.25), c05RatioS("18446744073709551617", "3"), c05Double(7.5)}, {c05RatioS("2", "3"), c05Double(0.25), i("2")}}
		if op.maxArg == 1 {
			out = [][]c05Operand{{c05RatioS("1", "3")}, {p(64, 1)}, {c05Double(0.5)}, {c05RatioS("-18446744073709551617", "3")}, {i("0")}}
		}
	case "real":
		out = [][]c05Operand{{c05Double(0.1)}, {c05Single(0.1)}, {c05RatioS("1", "3")}, {p(70, 1)}, {c05Double(1e300)}}
	default: // rat, place, go
		switch {
		case op.maxArg == 1:
			out = [][]c05Operand{{p(64, 1)}, {p(70, -1)}, {c05RatioS("7", "3")}, {i("5")}, {i("-9223372036854775808")}, {c05RatioS("18446744073709551617", "3")}}
		case op.maxArg == 2:
			out = [][]c05Operand{{p(64, 1), p(64, 1)}, {p(70, 1), i("3")}, {p(70, 7), p(65, -1)}, {c05RatioS("7", "3"), c05RatioS("5", "2")},
				{i("9223372036854775807"), i("2")}, {p(100, 1), p(30, 1)}, {c05RatioS("18446744073709551617", "3"), c05RatioS("1", "18446744073709551629")}}
		default:
			out = [][]c05Operand{{p(64, 1), p(64, 1)}, {p(70, 1), i("3")}, {i("1000000000000000000000000000000"), i("1000"), i("7")},
				{c05RatioS("7", "3"), c05RatioS("5", "2")}, {i("9223372036854775807"), i("1"), p(64, 1)}, {p(100, 1), p(30, 1), i("18446744073709551617")},
				{c05RatioS("18446744073709551617", "3"), c05RatioS("1", "18446744073709551629"), c05RatioS("2", "3")}}
		}
	}
	return out
}

func c05LitCall(op c05Op, tuple []c05Operand) c05HistCall {
	cl := c05HistCall{op: op}
	for _, a := range tuple {
		cl.args = append(cl.args, c05HistArg{ref: -1, lit: a})
	}
	return cl
}

// c05ResolvedCase is the call with its operands resolved against the kept values.
func c05ResolvedCase(cl c05HistCall, kept []c05Kept) c05Case {
	cs := c05Case{op: cl.op}
	for _, a := range cl.args {
		if a.ref >= 0 {
			cs.args = append(cs.args, kept[a.ref].opnd)
		} else {
			cs.args = append(cs.args, a.lit)
		}
	}
	return cs
}

// usable: may the kept value be an operand of op at all (exact values everywhere, finite floats only
// in comparisons, integers only where the operator wants integers, small shift counts/exponents)?
func c05Usable(op c05Op, pos int, k c05Kept) bool {
	if k.opnd.kind == "x" || k.opnd.form != "" {
		return false
	}
	if !k.exact {
		return op.isCmp() && op.maxArg == -1
	}
	switch op.domain {
	case "int":
		return k.opnd.rat.IsInt()
	case "nat":
		return k.opnd.rat.IsInt() && k.opnd.rat.Sign() >= 0
	case "ash":
		return k.opnd.rat.IsInt() && (pos == 0 || k.opnd.rat.Num().BitLen() <= 8)
	case "bitp":
		return k.opnd.rat.IsInt() && (pos == 1 || (k.opnd.rat.Num().BitLen() <= 8 && k.opnd.rat.Sign() >= 0))
	case "expt":
		return pos == 0 && k.opnd.rat.Num().BitLen() <= 128 && k.opnd.rat.Denom().BitLen() <= 128
	}
	// keep the operands within a few thousand bits (products of products grow)
	return k.opnd.rat.Num().BitLen() <= 4000 && k.opnd.rat.Denom().BitLen() <= 4000
}

// c05RunHistories generates, executes and judges the histories. Returns counts for the evidence.
func c05RunHistories(c *lib.Ctx, avoid c05Avoid, intPool, ratPool, floats []c05Operand) (nHist, nCalls, nAgree, nDet int) {
	var hs []*c05History
	arityOK := func(op c05Op, n int) bool {
		return n >= op.minArg && (op.maxArg == -1 || n <= op.maxArg)
	}
	// --- seed independent: per operator all ordered triples of calls over its operand tuples, then a
	// call of the same operator on the kept RESULTS of the first two calls
	for _, op := range c05Ops {
		var tuples [][]c05Operand
		for _, t := range c05HistTuples(op) {
			if arityOK(op, len(t)) && !avoid.listed(c05Case{op: op, args: t}) {
				tuples = append(tuples, t)
			}
		}
		for _, t1 := range tuples {
			for _, t2 := range tuples {
				for _, t3 := range tuples {
					plan := []c05HistCall{c05LitCall(op, t1), c05LitCall(op, t2), c05LitCall(op, t3)}
					hs = append(hs, c05ExecHistory(func(step int, kept []c05Kept) (c05HistCall, bool) {
						if step < 3 {
							return plan[step], true
						}
						if step > 3 {
							return c05HistCall{}, false
						}
						// results of call 0 and call 1 as operands
						var refs []int
						for _, want := range []int{0, 1} {
							for i, k := range kept {
								if k.call == want && strings.HasPrefix(k.origin, "result") && c05Usable(op, len(refs), k) {
									refs = append(refs, i)
									break
								}
							}
						}
						cl := c05HistCall{op: op}
						for _, r := range refs {
							if arityOK(op, len(cl.args)+1) {
								cl.args = append(cl.args, c05HistArg{ref: r})
							}
						}
						if len(cl.args) == 0 || !arityOK(op, len(cl.args)) || avoid.listed(c05ResolvedCase(cl, kept)) {
							return c05HistCall{}, false
						}
						return cl, true
					}))
				}
			}
		}
	}
	nDet = len(hs)
	// --- seeded: themed histories of 3..8 calls
	widthInts, ratioPool := c05WidthInts(), c05RatioPool()
	nSeeded := c.Scale(2500, 60000)
	for n := 0; n < nSeeded; n++ {
		theme := c.Rng.Intn(5)
		// the common factor of theme 0
		g := new(big.Int).Lsh(big.NewInt(int64(1+c.Rng.Intn(9))), uint(60+c.Rng.Intn(50)))
		if c.Rng.Chance(30) {
			g = new(big.Int).Abs(c.Rng.BigBits(64 + c.Rng.Intn(90)))
			if g.Sign() == 0 {
				g.SetInt64(1)
			}
		}
		themeInt := func() c05Operand {
			switch theme {
			case 0:
				if c.Rng.Chance(20) {
					return c05Big(big.NewInt(int64(c.Rng.Intn(50) - 10)))
				}
				v := new(big.Int).Mul(g, big.NewInt(int64(1+c.Rng.Intn(40))))
				if c.Rng.Chance(15) {
					v.Neg(v)
				}
				return c05Big(v)
			case 1:
				return intPool[c.Rng.Intn(len(intPool))]
			case 2:
				return widthInts[c.Rng.Intn(len(widthInts))]
			}
			return c05Big(c.Rng.BigBits([]int{8, 31, 33, 62, 63, 64, 65, 100, 200}[c.Rng.Intn(9)]))
		}
		themeRat := func() c05Operand {
			if c.Rng.Chance(60) {
				return themeInt()
			}
			switch theme {
			case 0:
				d := big.NewInt(int64(2 + c.Rng.Intn(40)))
				return c05Ratio(new(big.Int).Mul(g, big.NewInt(int64(1+c.Rng.Intn(40)))), d)
			case 1:
				return ratPool[c.Rng.Intn(len(ratPool))]
			case 2:
				return ratioPool[c.Rng.Intn(len(ratioPool))]
			}
			d := new(big.Int).Abs(c.Rng.BigBits([]int{4, 31, 33, 64, 100}[c.Rng.Intn(5)]))
			if d.Sign() == 0 {
				d.SetInt64(3)
			}
			return c05Ratio(c.Rng.BigBits([]int{8, 33, 64, 65, 150}[c.Rng.Intn(5)]), d)
		}
		themeFloat := func(near *big.Rat) c05Operand {
			if near != nil && c.Rng.Chance(60) {
				fs := c05FloatsNearRat(near)
				return fs[c.Rng.Intn(len(fs))]
			}
			return floats[c.Rng.Intn(len(floats))]
		}
		literal := func(op c05Op, pos int, prev *big.Rat) c05Operand {
			switch op.domain {
			case "int":
				return themeInt()
			case "nat":
				v := themeInt()
				return c05Big(new(big.Int).Abs(v.rat.Num()))
			case "ash":
				if pos == 1 {
					return c05Big(big.NewInt(int64(c.Rng.Intn(300) - 150)))
				}
				return themeInt()
			case "bitp":
				if pos == 0 {
					return c05Big(big.NewInt(int64(c.Rng.Intn(260))))
				}
				return themeInt()
			case "expt":
				if pos == 1 {
					return c05Big(big.NewInt(int64(c.Rng.Intn(12))))
				}
				return themeRat()
			case "real":
				if c.Rng.Bool() {
					return themeFloat(nil)
				}
				return themeRat()
			case "cmp", "cmp1":
				if op.maxArg == -1 && (theme == 4 || c.Rng.Chance(20)) && c.Rng.Chance(55) {
					return themeFloat(prev)
				}
				return themeRat()
			}
			return themeRat()
		}
		primary := c05Ops[c.Rng.Intn(len(c05Ops))]
		if theme == 4 {
			for !(primary.isCmp() && primary.maxArg == -1) {
				primary = c05Ops[c.Rng.Intn(len(c05Ops))]
			}
		}
		length := 3 + c.Rng.Intn(6)
		hs = append(hs, c05ExecHistory(func(step int, kept []c05Kept) (c05HistCall, bool) {
			if step >= length {
				return c05HistCall{}, false
			}
			for try := 0; try < 20; try++ {
				op := primary
				if c.Rng.Chance(35) {
					op = c05Ops[c.Rng.Intn(len(c05Ops))]
					if c.Rng.Bool() {
						// an operator of the same domain (shared helpers, shared scratch)
						for t := 0; t < 30 && op.domain != primary.domain; t++ {
							op = c05Ops[c.Rng.Intn(len(c05Ops))]
						}
					}
				}
				n := op.minArg
				if n == 0 {
					n = 1
				}
				if op.maxArg == -1 {
					n = 1 + c.Rng.Intn(5)
					if n < 2 && c.Rng.Chance(70) {
						n = 2 + c.Rng.Intn(3)
					}
				} else if op.maxArg > op.minArg {
					n += c.Rng.Intn(op.maxArg - op.minArg + 1)
				}
				cl := c05HistCall{op: op}
				var prev *big.Rat
				for pos := 0; pos < n; pos++ {
					if len(kept) > 0 && c.Rng.Chance(50) {
						// a kept value, results of recent calls preferred
						var idx []int
						for i, k := range kept {
							if c05Usable(op, pos, k) {
								idx = append(idx, i)
								if strings.HasPrefix(k.origin, "result") {
									idx = append(idx, i, i)
								}
							}
						}
						if len(idx) > 0 {
							r := idx[c.Rng.Intn(len(idx))]
							cl.args = append(cl.args, c05HistArg{ref: r})
							prev = kept[r].opnd.rat
							continue
						}
					}
					l := literal(op, pos, prev)
					cl.args = append(cl.args, c05HistArg{ref: -1, lit: l})
					prev = l.rat
				}
				if !avoid.listed(c05ResolvedCase(cl, kept)) {
					return cl, true
				}
			}
			return c05HistCall{}, false
		}))
	}
	// --- the model, in batches; join by index
	for lo := 0; lo < len(hs); lo += 20000 {
		hi := lo + 20000
		if hi > len(hs) {
			hi = len(hs)
		}
		var reqs []string
		var which []*c05History
		for _, h := range hs[lo:hi] {
			if len(h.calls) == 0 {
				continue
			}
			reqs = append(reqs, h.request())
			which = append(which, h)
		}
		replies := c.Model(reqs)
		for i, h := range which {
			nHist++
			nCalls += len(h.calls)
			c.Ev.Case(reqs[i], true)
			c.Ev.Hist("history_length", strconv.Itoa(len(h.calls)))
			nref := 0
			for _, cl := range h.calls {
				c.Ev.Hist("history_op", cl.op.name)
				for _, a := range cl.args {
					if a.ref >= 0 {
						nref++
					}
				}
			}
			c.Ev.Hist("history_refs", strconv.Itoa(nref))
			if nHist%4001 == 0 {
				c.Ev.Sample(map[string]string{"history": h.lisp(), "request": reqs[i], "model": replies[i]})
			}
			if c05JudgeHistory(c, h, reqs[i], replies[i]) {
				nAgree++
			}
		}
	}
	return
}

func c05ReplayHistory(c *lib.Ctx, req string) bool {
	calls, ok := c05ParseHistory(req)
	if !ok {
		return false
	}
	h := c05ExecHistory(c05ReplayPlan(calls))
	if len(h.calls) == 0 {
		fmt.Println("replay: the recorded history cannot be executed")
		return true
	}
	r := h.request()
	model := c.Model([]string{r})[0]
	mcalls, mstore := c05SplitHistReply(model)
	fmt.Printf("replay history %s\n", h.lisp())
	for i, cs := range h.cases {
		m := ""
		if i < len(mcalls) {
			m = mcalls[i]
		}
		fmt.Printf("  call %d %s\n    implementation: %s %s\n    model         : %s\n", i, cs.lisp(), h.replies[i], h.faults[i], m)
	}
	fmt.Printf("  kept values now : ")
	for i, k := range h.kept {
		fmt.Printf("v%d=%s ", i, c05Show(k.obj))
	}
	fmt.Printf("\n  model store     : %s\n", strings.Join(mstore, " "))
	if h.changedAt >= 0 {
		k := h.kept[h.changedKept]
		fmt.Printf("  after call %d the kept value v%d (%s of call %d) reads %s, it was %s\n", h.changedAt, h.changedKept, k.origin, k.call, h.changedNow, k.show)
	}
	c05JudgeHistory(c, h, r, model)
	return true
}
