package main

// C09 — ties of Model/ReaderStack.lean to the reader of code.go (extension round).
//
//   * object stack: sequences of reader operations (open / close, quote-like markers, comma,
//     comma-at, tokens, other values) are rendered as text, read by slip.Read in a worker (request
//     kind S) and the outcome — number of forms, PartialPanic depth, or which parse error at which
//     byte — is compared with `tot stack <ops>` (the model Theorems/C09Stack.stack_run_total is
//     about). Exhaustive up to a length, seeded beyond.
//   * sharp macro argument: `#<digits>A(1)` / `#<digits>r1` for digit strings around every machine
//     integer boundary against `tot sharp <digits> A|R`: where the model raises the implementation
//     must raise, where the model hands a radix to pushInteger the value is read.
//   * c09BoundaryNumbers: the class of inputs the seeded mutant C09-4 needed — decimal strings at
//     and next to 2^k and 10^k, and every 19 digit string whose first 18 digits are next to
//     MaxInt/10 — used in every numeric position of the reader table and as format parameters.

import (
	"fmt"
	"math/big"
	"sort"
	"strconv"
	"strings"

	"verif/harness/lib"
)

// c09BoundaryNumbers returns decimal digit strings (no sign), deterministic, sorted by value.
func c09BoundaryNumbers() []string {
	set := map[string]bool{}
	add := func(v *big.Int) {
		if v.Sign() >= 0 {
			set[v.String()] = true
		}
	}
	for i := int64(0); i <= 40; i++ {
		add(big.NewInt(i))
	}
	for _, k := range []uint{6, 7, 8, 10, 15, 16, 20, 24, 31, 32, 53, 62, 63, 64, 65, 127, 128} {
		p := new(big.Int).Lsh(big.NewInt(1), k)
		for d := int64(-2); d <= 2; d++ {
			add(new(big.Int).Add(p, big.NewInt(d)))
		}
	}
	ten := big.NewInt(10)
	p := big.NewInt(1)
	for k := 1; k <= 22; k++ {
		p = new(big.Int).Mul(p, ten)
		add(new(big.Int).Sub(p, big.NewInt(1)))
		add(p)
		add(new(big.Int).Add(p, big.NewInt(1)))
	}
	// guards of the form (Max-9)/10 < n before n*10+digit: all last digits next to Max/10
	for _, k := range []uint{31, 32, 63, 64} {
		for _, off := range []int64{0, 1} { // 2^k - 1 (signed max of k+1 bits / unsigned max of k bits) and 2^k
			m := new(big.Int).Sub(new(big.Int).Lsh(big.NewInt(1), k), big.NewInt(1-off))
			q := new(big.Int).Quo(m, ten)
			for e := int64(-2); e <= 2; e++ {
				base := new(big.Int).Mul(new(big.Int).Add(q, big.NewInt(e)), ten)
				for d := int64(0); d <= 9; d++ {
					add(new(big.Int).Add(base, big.NewInt(d)))
				}
			}
		}
	}
	for _, v := range []int64{36, 37, 61, 62, 63, 64, 100, 255, 256, 1023, 1024, 1025, 1026, 65535, 65536, 65537} {
		add(big.NewInt(v))
	}
	out := make([]string, 0, len(set))
	for s := range set {
		out = append(out, s)
	}
	sort.Slice(out, func(i, j int) bool {
		if len(out[i]) != len(out[j]) {
			return len(out[i]) < len(out[j])
		}
		return out[i] < out[j]
	})
	return out
}

// c09BoundaryReaderTable: the boundary numbers in every numeric position of the reader syntax.
func c09BoundaryReaderTable() []string {
	var out []string
	pos := []string{"#%sA(1)", "#%sA((1 2) (3 4))", "#%sa()", "#%sr1", "#%sR10", "#%sr-1/2", "#%s*1", "#%s(1)", "#%s=a", "#%s#", "#%s", "#%s ",
		"%s", "-%s", "%s.", "%s/1", "1/%s", "-%s/3", "1e%s", "1e-%s", "1.5d%s", "0.%s", "(a . %s)", "#C(%s 1)", "#(%s)", "'%s", "(%s)"}
	for _, n := range c09BoundaryNumbers() {
		for _, p := range pos {
			if strings.Contains(p, "e%s") || strings.Contains(p, "e-%s") || strings.Contains(p, "d%s") {
				if len(n) > 10 && len(n) != 19 && len(n) != 20 {
					continue // exponent positions: the int32 / int64 neighbourhoods only
				}
			}
			out = append(out, fmt.Sprintf(p, n))
		}
		v, _ := new(big.Int).SetString(n, 10)
		out = append(out, "#x"+v.Text(16), "#x-"+v.Text(16), "#o"+v.Text(8), "#b"+v.Text(2), "#36r"+v.Text(36))
		if v.BitLen() <= 40 {
			out = append(out, `"\u`+v.Text(16)+`"`, `#\u`+v.Text(16), `"\U`+fmt.Sprintf("%08s", v.Text(16))+`"`)
		}
	}
	return out
}

// c09BoundaryFormatTable: the boundary numbers as prefix parameters of directives that do not
// repeat or pad by them (those are the huge-count probes): argument navigation, clause selection,
// radix, iteration limit, comma interval, column increment.
func c09BoundaryFormatTable() []c09FmtCase {
	var out []c09FmtCase
	dirs := []struct{ label, ctl string }{
		{"*", "~a~%s*~a"}, {":*", "~a~a~%s:*~a"}, {"@*", "~%s@*~a"}, {"[", "~%s[a~;b~]"}, {"R", "~%sR"}, {"{", "~%s{~a~}"},
		{":D-interval", "~,,,%s:D"}, {"A-colinc", "~,%sa"}, {"-*", "~a~-%s*~a"}, {"-:*", "~a~-%s:*~a"}, {"-[", "~-%s[a~;b~]"},
	}
	for _, n := range c09BoundaryNumbers() {
		if len(n) < 3 {
			continue // small parameters are in the main table
		}
		for _, d := range dirs {
			ctl := fmt.Sprintf(d.ctl, n)
			lab := []string{fmt.Sprintf("boundary dir=%s n=%s", d.label, n)}
			out = append(out, c09FmtCase{segs: lab, ctl: ctl, args: []int{3, 10}, table: true})
		}
	}
	// cursor pairs: every way of moving the argument cursor followed by every kind of directive that
	// takes an argument (each directive checks the cursor on its own: the neighbours of nextArg)
	moves := []string{"~*", "~2*", "~9*", "~0*", "~-1*", "~-2*", "~:*", "~2:*", "~9:*", "~0:*", "~-1:*", "~@*", "~1@*", "~2@*", "~9@*", "~-1@*"}
	takers := []string{"~a", "~s", "~d", "~b", "~o", "~x", "~r", "~:r", "~@r", "~:@r", "~10r", "~c", "~:c", "~@c", "~p", "~:p", "~@p", "~:@p", "~e", "~f", "~g", "~$", "~w",
		"~[a~;b~]", "~:[a~;b~]", "~@[a~]", "~{~a~}", "~:{~a~}", "~@{~a~}", "~:@{~a~}", "~?", "~@?", "~va", "~vd", "~v%", "~#[a~;b~]", "~(~a~)", "~<~a~>", "~^", "~t", "~/print/"}
	for _, m := range moves {
		for _, t := range takers {
			for _, pre := range []string{"", "~a"} {
				lab := []string{fmt.Sprintf("cursor-pair move=%s%s then=%s", pre, m, t)}
				ctl := pre + m + t
				out = append(out, c09FmtCase{segs: lab, ctl: ctl, table: true},
					c09FmtCase{segs: lab, ctl: ctl, args: []int{3}, table: true},
					c09FmtCase{segs: lab, ctl: ctl, args: []int{3, 10}, table: true},
					c09FmtCase{segs: lab, ctl: ctl, args: []int{10, 3}, table: true})
			}
		}
	}
	return out
}

// ---------------------------------------------------------------------------------------------
// object stack

var c09StackOps = []byte("([)'F`,avn") // `@` only directly after `,`

// c09StackText renders an op string; offsets[i] is the byte offset of the byte that performs op i.
func c09StackText(ops string) (text string, offsets []int) {
	var b strings.Builder
	offsets = make([]int, len(ops))
	for i := 0; i < len(ops); i++ {
		if i > 0 && ops[i] != '@' {
			b.WriteByte(' ')
		}
		offsets[i] = b.Len()
		switch ops[i] {
		case '(', ')', '\'', '`', ',', '@':
			b.WriteByte(ops[i])
		case '[':
			b.WriteString("#(")
			offsets[i]++
		case 'F':
			b.WriteString("#'")
			offsets[i]++
		case 'a':
			b.WriteString("ab")
		case 'v':
			b.WriteString(`"s"`)
		case 'n':
			if i%2 == 0 {
				b.WriteString("nil")
			} else {
				b.WriteString("t")
			}
		}
	}
	return b.String(), offsets
}

func c09StackTable(maxLen int) []string {
	var out []string
	var rec func(prefix []byte)
	rec = func(prefix []byte) {
		if len(prefix) > 0 {
			out = append(out, string(prefix))
		}
		if len(prefix) >= maxLen {
			return
		}
		for _, o := range c09StackOps {
			rec(append(prefix, o))
		}
		if n := len(prefix); n > 0 && prefix[n-1] == ',' {
			rec(append(prefix, '@'))
		}
	}
	rec(nil)
	return out
}

func c09StackSeeded(rng *lib.Rng, n, maxLen int) []string {
	out := make([]string, 0, n)
	for len(out) < n {
		l := 5 + rng.Intn(maxLen-4)
		b := make([]byte, 0, l+8)
		depth, bq := 0, false
		wild := rng.Chance(25) // a quarter of the sequences: any operation anywhere
		for len(b) < l {
			var o byte
			switch {
			case len(b) > 0 && b[len(b)-1] == ',' && rng.Chance(40):
				o = '@'
			case rng.Chance(25) && depth > 0:
				o = ')'
			case rng.Chance(30):
				o = "(["[rng.Intn(2)]
			default:
				o = c09StackOps[rng.Intn(len(c09StackOps))]
			}
			if !wild {
				// mostly well formed: a comma only inside a backquote, no unmatched close
				if o == ',' && !bq && !rng.Chance(3) {
					o = '`'
				}
				if o == ')' && depth == 0 && !rng.Chance(3) {
					o = 'a'
				}
			}
			switch o {
			case '(', '[':
				depth++
			case ')':
				if depth > 0 {
					depth--
				}
			case '`':
				bq = true
			}
			b = append(b, o)
		}
		if !wild && rng.Chance(70) {
			if last := b[len(b)-1]; last == '\'' || last == '`' || last == 'F' || last == ',' || last == '@' {
				b = append(b, 'a')
			}
			for ; depth > 0; depth-- {
				b = append(b, ')')
			}
		}
		out = append(out, string(b))
	}
	return out
}

// c09StackExpect turns a model reply into what the worker's S request answers.
func c09StackExpect(rep string, offsets []int) (string, bool) {
	f := strings.Fields(rep)
	switch {
	case len(f) == 3 && f[0] == "ok" && f[1] == "forms":
		return "forms " + f[2], true
	case len(f) == 3 && f[0] == "ok" && f[1] == "partial":
		return "partial " + f[2], true
	case len(f) == 4 && f[0] == "ok" && f[1] == "raise":
		i, err := strconv.Atoi(f[3])
		if err != nil || i >= len(offsets) {
			return "", false
		}
		return fmt.Sprintf("raise %s %d", f[2], offsets[i]), true
	}
	return "", false
}

func (r *c09Run) sweepStack() {
	c := r.c
	table := c09StackTable(c.Scale(4, 5))
	nTable := len(table)
	all := append(table, c09StackSeeded(c.Rng, c.Scale(30000, 300000), c.Scale(16, 40))...)
	cases := make([]c09Case, len(all))
	offs := make([][]int, len(all))
	for i, ops := range all {
		var text string
		text, offs[i] = c09StackText(ops)
		cases[i] = c09Case{"S", text}
	}
	const unit = 4000
	units := c09Chunk(cases, unit)
	saved := r.eng
	r.eng = r.eng.Confirming() // a copy that keeps the text of every result
	r.eng.Deadline, r.eng.KeepText, r.eng.KillBudget = saved.Deadline, true, saved.KillBudget
	obs := r.explore(units, nil, nil)
	r.eng = saved
	var reqs []string
	for _, ops := range all {
		reqs = append(reqs, "tot stack "+ops)
	}
	var replies []string
	if c.ModelBin != "" {
		replies = c.Model(reqs)
	}
	agree, faults := 0, 0
	hist := map[string]int{}
	for i := range all {
		ob := obs[i/unit][i%unit]
		r.countCase(len(all[i]) >= 2)
		if ob.Kind != "" {
			faults++
			sig := fmt.Sprintf("reader-stack ops=%s kind=%s", c09Clip(all[i], 12), ob.Kind)
			r.report(sig, i < nTable, cases[i].Text, "S", ob, "reader operations "+all[i])
			continue
		}
		if replies == nil {
			continue
		}
		want, ok := c09StackExpect(replies[i], offs[i])
		got := strings.Trim(ob.Res.Text, `"`)
		if ob.Res.Status != "V" {
			got = ob.Res.Summary()
		}
		hist[strings.Fields(want + " ?")[0]]++
		if !ok || got != want {
			c.Report("reader-stack-model aspect=outcome", false, map[string]any{
				"input": map[string]any{"kind": "S", "text": cases[i].Text, "ops": all[i]}, "request": reqs[i],
				"observed": got, "expected": want + "   (model: " + replies[i] + ")", "expected_from": "model:tot.stack",
				"relies_on": []string{"SlipVerif.Theorems.C09Stack.stack_run_total"}})
			continue
		}
		agree++
		if i >= nTable && len(all[i]) > 8 && r.sample("stack", 2) {
			c.Ev.Sample(map[string]string{"reader_operations": all[i], "text": cases[i].Text, "outcome": got, "model": replies[i]})
		}
	}
	c.Ev.Coverage["stack_model_outcomes"] = hist
	c.Ev.Coverage["stack_table_cases"] = nTable
	c.Ev.Coverage["stack_seeded_cases"] = len(all) - nTable
	c.Ev.Coverage["stack_model_agree"] = agree
	c.Ev.Coverage["stack_faults"] = faults
}

// sweepSharp: `#<digits>A(1)` / `#<digits>r1` against `tot sharp`.
func (r *c09Run) sweepSharp() {
	c := r.c
	var cases []c09Case
	var reqs []string
	nums := c09BoundaryNumbers()
	for _, n := range nums {
		for _, lead := range []string{"", "00"} {
			cases = append(cases, c09Case{"R", "#" + lead + n + "A(1)"}, c09Case{"R", "#" + lead + n + "r1"})
			reqs = append(reqs, "tot sharp "+lead+n+" A", "tot sharp "+lead+n+" R")
		}
	}
	saved := r.eng
	r.eng = r.eng.Confirming()
	r.eng.Deadline, r.eng.KeepText, r.eng.KillBudget = saved.Deadline, true, saved.KillBudget
	obs := r.explore(c09Chunk(cases, 500), nil, nil)
	r.eng = saved
	var replies []string
	if c.ModelBin != "" {
		replies = c.Model(reqs)
		if rep := c.Model([]string{"tot sharpconsts"})[0]; !strings.HasPrefix(rep, "ok true ") {
			c.Ev.Coverage["sharp_consts"] = rep // SharpOK false: Theorems.GenC09.sharp_consts_ok is broken for this tree
		} else {
			c.Ev.Coverage["sharp_consts"] = rep
		}
	}
	agree := 0
	for i := range cases {
		ob := obs[i/500][i%500]
		r.countCase(true)
		if ob.Kind != "" {
			sig := c09ReaderSig(cases[i].Text, ob.Kind, ob.Res.Stage)
			r.report(sig, true, cases[i].Text, "R", ob, "sharp macro numeric argument")
			continue
		}
		if replies == nil {
			continue
		}
		rep := replies[i]
		bad := ""
		switch {
		case strings.HasPrefix(rep, "err"):
			// the model itself reaches its fault outcome (excluded by sharp_dispatch_total_now while
			// the obligation builds): the implementation is expected to fault here — it did not
			bad = "the model reaches the fault outcome for this argument; the implementation did not fault (guard constants extracted wrongly?)"
		case rep == "ok raise":
			if ob.Res.Status == "V" {
				bad = "the model raises (argument too large / rank / radix out of range), the implementation returned a value"
			}
		case strings.HasPrefix(rep, "ok radix"):
			if ob.Res.Status != "V" || ob.Res.Text != "(1)" {
				bad = "the model reads the integer with " + rep[3:] + ", the implementation did not return (1)"
			}
		}
		if bad != "" {
			c.Report("reader-sharp-model aspect=dispatch", false, map[string]any{
				"input": map[string]any{"kind": "R", "text": cases[i].Text, "text_hex": lib.Hex(cases[i].Text)}, "request": reqs[i],
				"observed": ob.Res.Summary(), "expected": rep + ": " + bad, "expected_from": "model:tot.sharp",
				"relies_on": []string{"SlipVerif.Theorems.C09Stack.sharp_dispatch_total"}})
			continue
		}
		agree++
	}
	c.Ev.Coverage["sharp_cases"] = len(cases)
	c.Ev.Coverage["sharp_model_agree"] = agree
}

// sweepCursor: control strings made of ~a and ~n* / ~n:* / ~n@* with the integers 0..len-1 as
// arguments against `tot cursor`: the digits printed are the argument indices the model's cursor
// takes; where the model raises the implementation raises.
func (r *c09Run) sweepCursor() {
	c := r.c
	nums := []string{"0", "1", "2", "3", "5", "9", "10", "11", "255", "4294967295", "4294967296", "9223372036854775806", "9223372036854775807"} // parameters are Go ints: a larger literal is a parse error of the directive
	n := c.Scale(6000, 60000)
	var cases []c09Case
	var reqs []string
	for i := 0; i < n; i++ {
		ln := c.Rng.Intn(8)
		var ctl, ops []string
		for k, m := 0, 1+c.Rng.Intn(7); k < m; k++ {
			if c.Rng.Chance(55) {
				ctl, ops = append(ctl, "~a"), append(ops, "a")
				continue
			}
			num := nums[c.Rng.Intn(6)]
			if c.Rng.Chance(15) {
				num = nums[c.Rng.Intn(len(nums))]
			}
			if c.Rng.Chance(12) {
				num = "-" + num
			}
			switch c.Rng.Intn(3) {
			case 0:
				ctl, ops = append(ctl, "~"+num+"*"), append(ops, "s"+num)
			case 1:
				ctl, ops = append(ctl, "~"+num+":*"), append(ops, "b"+num)
			default:
				ctl, ops = append(ctl, "~"+num+"@*"), append(ops, "g"+num)
			}
		}
		args := ""
		for a := 0; a < ln; a++ {
			args += " " + strconv.Itoa(a)
		}
		cases = append(cases, c09Case{"E", "(format nil " + c09LispString(strings.Join(ctl, "")) + args + ")"})
		reqs = append(reqs, fmt.Sprintf("tot cursor %d %s", ln, strings.Join(ops, ",")))
	}
	saved := r.eng
	r.eng = r.eng.Confirming()
	r.eng.Deadline, r.eng.KeepText, r.eng.KillBudget = saved.Deadline, true, saved.KillBudget
	obs := r.explore(c09Chunk(cases, 1000), nil, nil)
	r.eng = saved
	var replies []string
	if c.ModelBin != "" {
		replies = c.Model(reqs)
	}
	agree, raises := 0, 0
	for i := range cases {
		ob := obs[i/1000][i%1000]
		r.countCase(true)
		if ob.Kind != "" {
			r.report(fmt.Sprintf("format-cursor kind=%s", ob.Kind), false, cases[i].Text, "E", ob, reqs[i])
			continue
		}
		if replies == nil {
			continue
		}
		rep := replies[i]
		f := strings.Fields(rep)
		bad := ""
		switch {
		case strings.HasPrefix(rep, "err") || len(f) < 3:
			bad = "the model reaches its fault outcome"
		case f[1] == "raise":
			raises++
			if ob.Res.Status == "V" {
				bad = "the model's cursor leaves the arguments (raise), the implementation returned a value"
			}
		case f[1] == "done" && len(f) == 4:
			want := strings.ReplaceAll(strings.ReplaceAll(f[2], ".", ""), "-", "")
			if ob.Res.Status != "V" || ob.Res.Text != "\""+want+"\"" {
				bad = "the arguments printed differ from the indices the model's cursor takes (" + want + ")"
			}
		}
		if bad != "" {
			c.Report("format-cursor-model aspect=arguments", false, map[string]any{
				"input": map[string]any{"kind": "E", "text": cases[i].Text}, "request": reqs[i],
				"observed": ob.Res.Summary(), "expected": rep + ": " + bad, "expected_from": "model:tot.cursor",
				"relies_on": []string{"SlipVerif.Theorems.C09Stack.cursor_run_total"}})
			continue
		}
		agree++
	}
	c.Ev.Coverage["cursor_cases"] = len(cases)
	c.Ev.Coverage["cursor_model_agree"] = agree
	c.Ev.Coverage["cursor_model_raises"] = raises
}
