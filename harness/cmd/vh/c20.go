package main

// C20 — REPL history, stash and settings persist intact across restarts and crashes.
//
// The real pkg/repl code (History.Load/Add/Clear/SetLimit, Stash.LoadExpanded/Add/Clear,
// SetConfigDir/updateConfigFile) runs in scratch directories under <root>/.work/c20; the same event
// sequences go through the compiled model (lean/SlipVerif/Model/History.lean, entry `hist`).
// Compared: forms in memory after every event, the bytes of history / history.tmp / stash after
// every event, what a FRESH History.Load / Stash.LoadExpanded returns after every event (restart),
// and — with the verif hooks (c20_hooks.go) — the directory at every hook point of every operation
// (= the state a process death there leaves): bytes against the model's crashAt k, and a fresh load of
// it against the crash-consistency relation old / new / prefix-of-new (Clear only).
// Process deaths inside an event sequence (X events) put the directory into the state the model
// computes for the crash point (validated against the implementation's own snapshot when hooks are
// present) and restart from it, so later compactions meet a stale history.tmp.

import (
	"encoding/hex"
	"fmt"
	"os"
	"path/filepath"
	"strconv"
	"strings"

	"github.com/ohler55/slip/pkg/repl"
	"verif/harness/lib"
)

func init() { props["C20"] = runC20 }

// ---------------------------------------------------------------------------------------------
// wire encoding (must match lean/SlipVerif/Driver/History.lean)

type c20Form []string // lines

func c20HexStr(s string) string {
	if s == "" {
		return "-"
	}
	return hex.EncodeToString([]byte(s))
}

func c20Unhex(s string) string {
	if s == "-" {
		return ""
	}
	b, err := hex.DecodeString(s)
	if err != nil {
		fmt.Fprintf(os.Stderr, "c20: bad hex %q\n", s)
		os.Exit(2)
	}
	return string(b)
}

func (f c20Form) wire() string {
	if len(f) == 0 {
		return "~"
	}
	parts := make([]string, len(f))
	for i, l := range f {
		parts[i] = c20HexStr(l)
	}
	return strings.Join(parts, ",")
}

func c20ParseForm(s string) c20Form {
	if s == "~" {
		return c20Form{}
	}
	var f c20Form
	for _, p := range strings.Split(s, ",") {
		f = append(f, c20Unhex(p))
	}
	return f
}

func c20FormsWire(fs []c20Form) string {
	if len(fs) == 0 {
		return "."
	}
	parts := make([]string, len(fs))
	for i, f := range fs {
		parts[i] = f.wire()
	}
	return strings.Join(parts, "/")
}

func c20ParseForms(s string) []c20Form {
	if s == "." {
		return nil
	}
	var fs []c20Form
	for _, p := range strings.Split(s, "/") {
		fs = append(fs, c20ParseForm(p))
	}
	return fs
}

// human readable rendering for replay files
func (f c20Form) show() string {
	if len(f) == 0 {
		return "<no lines>"
	}
	return strconv.Quote(strings.Join(f, "\n"))
}

func c20ShowForms(fs []c20Form) string {
	parts := make([]string, len(fs))
	for i, f := range fs {
		parts[i] = f.show()
	}
	return "[" + strings.Join(parts, " ") + "]"
}

func c20ContentWire(p *string) string {
	if p == nil {
		return "~"
	}
	return c20HexStr(*p)
}

func c20ParseContent(s string) *string {
	if s == "~" {
		return nil
	}
	v := c20Unhex(s)
	return &v
}

func c20ShowContent(p *string) string {
	if p == nil {
		return "<absent>"
	}
	return strconv.Quote(*p)
}

func c20Fnv(p *string) string {
	if p == nil {
		return "~"
	}
	h := uint32(2166136261)
	for i := 0; i < len(*p); i++ {
		h = (h ^ uint32((*p)[i])) * 16777619
	}
	return strconv.FormatUint(uint64(h), 10)
}

func c20ToRepl(f c20Form) repl.Form {
	if len(f) == 0 {
		return repl.Form{}
	}
	rf := make(repl.Form, len(f))
	for i, l := range f {
		rf[i] = []rune(l)
	}
	return rf
}

func c20FromRepl(rf repl.Form) c20Form {
	f := make(c20Form, len(rf))
	for i, l := range rf {
		f[i] = string(l)
	}
	return f
}

// ---------------------------------------------------------------------------------------------
// events

type c20Op struct {
	Kind string // A add, C clear, L set-limit, R restart, X process death during Sub
	Form c20Form
	A, B int
	N    int // L: limit; R, X: limit after the restart
	K    int // X: number of completed file-system steps
	Sub  *c20Op
}

func (o c20Op) wire() string {
	switch o.Kind {
	case "A":
		return "A:" + o.Form.wire()
	case "C":
		return fmt.Sprintf("C:%d:%d", o.A, o.B)
	case "L":
		return fmt.Sprintf("L:%d", o.N)
	case "R":
		return fmt.Sprintf("R:%d", o.N)
	case "X":
		return fmt.Sprintf("X:%d:%d:%s", o.K, o.N, o.Sub.wire())
	}
	return "?"
}

func (o c20Op) show() string {
	switch o.Kind {
	case "A":
		return "Add(" + o.Form.show() + ")"
	case "C":
		return fmt.Sprintf("Clear(%d,%d)", o.A, o.B)
	case "L":
		return fmt.Sprintf("SetLimit(%d)", o.N)
	case "R":
		return fmt.Sprintf("Restart(limit=%d)", o.N)
	case "X":
		return fmt.Sprintf("DieAfterStep(%d of %s; restart limit=%d)", o.K, o.Sub.show(), o.N)
	}
	return "?"
}

func c20ParseOp(toks []string) (c20Op, bool) {
	atoi := func(s string) int { n, _ := strconv.Atoi(s); return n }
	switch {
	case len(toks) == 2 && toks[0] == "A":
		return c20Op{Kind: "A", Form: c20ParseForm(toks[1])}, true
	case len(toks) == 3 && toks[0] == "C":
		return c20Op{Kind: "C", A: atoi(toks[1]), B: atoi(toks[2])}, true
	case len(toks) == 2 && toks[0] == "L":
		return c20Op{Kind: "L", N: atoi(toks[1])}, true
	case len(toks) == 2 && toks[0] == "R":
		return c20Op{Kind: "R", N: atoi(toks[1])}, true
	case len(toks) >= 5 && toks[0] == "X":
		sub, ok := c20ParseOp(toks[3:])
		if !ok {
			return c20Op{}, false
		}
		return c20Op{Kind: "X", K: atoi(toks[1]), N: atoi(toks[2]), Sub: &sub}, true
	}
	return c20Op{}, false
}

type c20Case struct {
	Cell   string // sweep cell name, "" for composite cases
	Limit  int
	Hist0  *string
	Tmp0   *string
	Events []c20Op
}

func (cs c20Case) request() string {
	parts := []string{"hist", "run", "T", strconv.Itoa(cs.Limit), c20ContentWire(cs.Hist0), c20ContentWire(cs.Tmp0)}
	for _, e := range cs.Events {
		parts = append(parts, e.wire())
	}
	return strings.Join(parts, " ")
}

func (cs c20Case) show() string {
	parts := []string{fmt.Sprintf("limit=%d history=%s history.tmp=%s", cs.Limit, c20ShowContent(cs.Hist0), c20ShowContent(cs.Tmp0))}
	for _, e := range cs.Events {
		parts = append(parts, e.show())
	}
	return strings.Join(parts, "; ")
}

func c20ParseRequest(req string) (c20Case, bool) {
	toks := strings.Fields(req)
	if len(toks) < 6 || toks[0] != "hist" || toks[1] != "run" {
		return c20Case{}, false
	}
	cs := c20Case{}
	cs.Limit, _ = strconv.Atoi(toks[3])
	cs.Hist0 = c20ParseContent(toks[4])
	cs.Tmp0 = c20ParseContent(toks[5])
	for _, t := range toks[6:] {
		op, ok := c20ParseOp(strings.Split(t, ":"))
		if !ok {
			return c20Case{}, false
		}
		cs.Events = append(cs.Events, op)
	}
	return cs, true
}

// ---------------------------------------------------------------------------------------------
// model reply

type c20CrashExp struct {
	HistFnv, TmpFnv string
	Load            string // forms wire
}

type c20Exp struct {
	Mem, Load string // forms wire
	Omem      string // memory after the completed operation (also for an X event)
	Hist, Tmp *string
	Lim       int
	Steps     []string
	Crash     []c20CrashExp
}

func c20Fields(tok string) map[string]string {
	m := map[string]string{}
	for _, kv := range strings.Split(tok, "|") {
		if i := strings.IndexByte(kv, '='); i > 0 {
			m[kv[:i]] = kv[i+1:]
		}
	}
	return m
}

func c20ParseReply(reply string, nEvents int) (mem0 string, evs []c20Exp) {
	toks := strings.Fields(reply)
	if len(toks) != nEvents+2 || toks[0] != "ok" {
		fmt.Fprintf(os.Stderr, "c20: unexpected model reply (%d tokens for %d events): %.200s\n", len(toks), nEvents, reply)
		os.Exit(2)
	}
	mem0 = strings.TrimPrefix(toks[1], "mem=")
	for _, t := range toks[2:] {
		f := c20Fields(t)
		e := c20Exp{Mem: f["mem"], Omem: f["omem"], Load: f["load"], Hist: c20ParseContent(f["hist"]), Tmp: c20ParseContent(f["tmp"])}
		e.Lim, _ = strconv.Atoi(f["lim"])
		if f["steps"] != "." {
			e.Steps = strings.Split(f["steps"], ".")
		}
		prev := ""
		for _, ck := range strings.Split(f["crash"], ";") {
			p := strings.SplitN(ck, ":", 3)
			if len(p) != 3 {
				fmt.Fprintf(os.Stderr, "c20: bad crash token %q\n", ck)
				os.Exit(2)
			}
			if p[2] == "=" {
				p[2] = prev
			}
			prev = p[2]
			e.Crash = append(e.Crash, c20CrashExp{HistFnv: p[0], TmpFnv: p[1], Load: p[2]})
		}
		evs = append(evs, e)
	}
	return
}

// ---------------------------------------------------------------------------------------------
// running the implementation

type c20Snap struct {
	Point     string
	After     bool
	Hist, Tmp *string
}

func c20ReadFile(path string) *string {
	b, err := os.ReadFile(path)
	if err != nil {
		return nil
	}
	s := string(b)
	return &s
}

func c20PutFile(path string, content *string) {
	if content == nil {
		_ = os.Remove(path)
		return
	}
	if err := os.WriteFile(path, []byte(*content), 0o644); err != nil {
		fmt.Fprintf(os.Stderr, "c20: cannot write %s: %v\n", path, err)
		os.Exit(2)
	}
}

func c20Same(a, b *string) bool {
	if a == nil || b == nil {
		return a == nil && b == nil
	}
	return *a == *b
}

type c20Dir struct {
	dir, hist, tmp, snap string
}

func c20NewDir(c *lib.Ctx, name string) c20Dir {
	dir := filepath.Join(c.Root, ".work", "c20", fmt.Sprintf("%s-%d", name, os.Getpid()))
	_ = os.RemoveAll(dir)
	if err := os.MkdirAll(filepath.Join(dir, "snap"), 0o755); err != nil {
		fmt.Fprintf(os.Stderr, "c20: %v\n", err)
		os.Exit(2)
	}
	return c20Dir{dir: dir, hist: filepath.Join(dir, "history"), tmp: filepath.Join(dir, "history.tmp"), snap: filepath.Join(dir, "snap", "history")}
}

func c20HistForms(h *repl.History) []c20Form {
	n := h.Size()
	fs := make([]c20Form, 0, n)
	for i := n - 1; i >= 0; i-- {
		fs = append(fs, c20FromRepl(h.Nth(i)))
	}
	return fs
}

// c20Fresh is a restart: a new History, SetLimit, Load (what repl.Run does).
func c20Fresh(path string, limit int) (h *repl.History, panicMsg string) {
	h = &repl.History{}
	defer func() {
		if r := recover(); r != nil {
			panicMsg = fmt.Sprint(r)
		}
	}()
	h.SetLimit(limit)
	h.Load(path)
	return
}

// c20LoadContent: what a fresh Load returns for a history file with the given content.
func c20LoadContent(d c20Dir, content *string, limit int) (string, string) {
	c20PutFile(d.snap, content)
	h, msg := c20Fresh(d.snap, limit)
	return c20FormsWire(c20HistForms(h)), msg
}

// c20Scribble overwrites the runes of a form that was handed to Add.
func c20Scribble(rf repl.Form) {
	for _, l := range rf {
		for i := range l {
			l[i] = '#'
		}
	}
}

// c20Apply runs one operation on the implementation, snapshotting the directory at every hook point.
func c20Apply(d c20Dir, h *repl.History, op c20Op) (snaps []c20Snap, panicMsg string) {
	if c20HaveHooks {
		c20SetHook(func(point string) {
			snaps = append(snaps, c20Snap{Point: point, After: strings.Contains(point, ".after-"),
				Hist: c20ReadFile(d.hist), Tmp: c20ReadFile(d.tmp)})
		})
		defer c20SetHook(nil)
	}
	defer func() {
		if r := recover(); r != nil {
			panicMsg = fmt.Sprint(r)
		}
	}()
	switch op.Kind {
	case "A":
		rf := c20ToRepl(op.Form)
		h.Add(rf)
		c20Scribble(rf) // the caller (the editor) goes on changing its lines: the history must hold a copy
	case "C":
		// (clear-history) calls Clear of the embedded Stash, History.Clear is the method of the type
		// itself: both must do the same to memory and file
		if (op.A+op.B)%2 == 0 {
			h.Stash.Clear(op.A, op.B)
		} else {
			h.Clear(op.A, op.B)
		}
	case "L":
		h.SetLimit(op.N)
	}
	return
}

// ---------------------------------------------------------------------------------------------
// classification of a disagreement between an observed history and the expected one

func c20Count(fs []c20Form) map[string]int {
	m := map[string]int{}
	for _, f := range fs {
		m[f.wire()]++
	}
	return m
}

func c20IsSubseq(a, b []c20Form) bool {
	i := 0
	for _, x := range b {
		if i < len(a) && a[i].wire() == x.wire() {
			i++
		}
	}
	return i == len(a)
}

func c20IsPrefix(a, b string) bool { // forms wire
	if a == "." {
		return true
	}
	return a == b || strings.HasPrefix(b, a+"/")
}

// c20Aspect: observed history L against the reference R (what should be there); universe = every
// form entered or initially loaded in this case.
//
//	torn        a form that was never entered (split, merged, trimmed, glued)
//	resurrected a form that was entered but should be gone
//	duplicated  a form more often than it should be
//	lost        otherwise, when what is there is in order (something is missing)
//	reordered   otherwise
func c20Aspect(L, R []c20Form, universe map[string]bool) string {
	rc := c20Count(R)
	for _, f := range L {
		if !universe[f.wire()] {
			return "torn"
		}
	}
	for _, f := range L {
		if rc[f.wire()] == 0 {
			return "resurrected"
		}
	}
	for w, n := range c20Count(L) {
		if n > rc[w] {
			return "duplicated"
		}
	}
	if c20IsSubseq(L, R) {
		return "lost"
	}
	return "reordered"
}

func c20OpKind(ev c20Op, steps []string) string {
	op := ev
	pre := ""
	if ev.Kind == "X" {
		op = *ev.Sub
		pre = "crash-"
	}
	switch op.Kind {
	case "A":
		if len(steps) > 0 && strings.HasSuffix(steps[0], "t") {
			return pre + "compact"
		}
		if len(steps) == 0 {
			return pre + "add-skip"
		}
		return pre + "add"
	case "C":
		return pre + "clear"
	case "L":
		return pre + "setlimit"
	case "R":
		return "restart"
	}
	return "?"
}

// ---------------------------------------------------------------------------------------------
// one history case

type c20Stats struct {
	events, snapshots, snapStates, alignedOps, crashEvents, restarts, compactions int
}

type c20Problem struct {
	vsModel bool // implementation and model disagree (never excused by a finding); otherwise the property itself fails
	at      int  // index of the event at which the case failed (-1: the initial load)
	sig     string
	replay  map[string]any
	noInput bool // disagreement only on bytes the property does not constrain
}

func c20RunHistoryCase(c *lib.Ctx, d c20Dir, cs c20Case, reply string, st *c20Stats) *c20Problem {
	mem0, exps := c20ParseReply(reply, len(cs.Events))
	req := cs.request()
	cell := ""
	if cs.Cell != "" {
		cell = "cell=" + cs.Cell + " "
	}
	problem := func(i int, kind, step, aspect, observed, expected, from string) *c20Problem {
		evs := "initial load"
		if i >= 0 {
			evs = fmt.Sprintf("event %d: %s", i+1, cs.Events[i].show())
		}
		vs, suffix := strings.HasPrefix(from, "model:"), ""
		if vs {
			suffix = " vs=model"
		}
		return &c20Problem{vsModel: vs, at: i, sig: fmt.Sprintf("%sop=%s step=%s aspect=%s%s", cell, kind, step, aspect, suffix),
			replay: map[string]any{"input": cs.show(), "request": req, "at": evs, "observed": observed, "expected": expected,
				"expected_from": from, "relies_on": []string{"SlipVerif.History.restart_equals_memory", "SlipVerif.History.crash_consistent"}}}
	}
	c20PutFile(d.hist, cs.Hist0)
	c20PutFile(d.tmp, cs.Tmp0)
	limit := cs.Limit
	h, msg := c20Fresh(d.hist, limit)
	if msg != "" {
		return problem(-1, "restart", "final", "panic", "History.Load panicked: "+msg, "forms "+c20ShowForms(c20ParseForms(mem0)), "model:hist.run")
	}
	universe := map[string]bool{}
	for _, f := range c20HistForms(h) {
		universe[f.wire()] = true
	}
	for _, f := range c20ParseForms(mem0) {
		universe[f.wire()] = true
	}
	if cs.Tmp0 != nil {
		// what a stale history.tmp holds was entered in an earlier session: if it shows up it is resurrected
		for _, l := range strings.Split(*cs.Tmp0, "\n") {
			if l != "" {
				universe[c20Form(strings.Split(l, "\t")).wire()] = true
			}
		}
	}
	if got := c20FormsWire(c20HistForms(h)); got != mem0 {
		return problem(-1, "restart", "final", c20Aspect(c20HistForms(h), c20ParseForms(mem0), universe),
			"loaded "+c20ShowForms(c20HistForms(h)), "loaded "+c20ShowForms(c20ParseForms(mem0)), "model:hist.run (Load of the initial file)")
	}
	knownHit := false // a listed finding was hit in this sweep cell: memory and file differ from here on
	for i, ev := range cs.Events {
		e := exps[i]
		st.events++
		kind := c20OpKind(ev, e.Steps)
		switch ev.Kind {
		case "R":
			st.restarts++
			limit = ev.N
			before := c20HistForms(h)
			h, msg = c20Fresh(d.hist, limit)
			if msg != "" {
				return problem(i, kind, "final", "panic", "History.Load panicked: "+msg, "forms "+c20ShowForms(before), "property: restart loads what was in memory")
			}
			got := c20HistForms(h)
			if c20FormsWire(got) != e.Mem {
				return problem(i, kind, "final", c20Aspect(got, c20ParseForms(e.Mem), universe), "loaded "+c20ShowForms(got),
					"loaded "+c20ShowForms(c20ParseForms(e.Mem)), "model:hist.run")
			}
			continue
		}
		op := ev
		if ev.Kind == "X" {
			op = *ev.Sub
			st.crashEvents++
		}
		if op.Kind == "A" {
			universe[op.Form.wire()] = true
		}
		if kind == "compact" || kind == "crash-compact" {
			st.compactions++
		}
		before := c20HistForms(h)
		startHist, startTmp := c20ReadFile(d.hist), c20ReadFile(d.tmp)
		snaps, pmsg := c20Apply(d, h, op)
		if pmsg != "" {
			return problem(i, kind, "final", "panic", "the operation panicked: "+pmsg, "no panic", "model:hist.run")
		}
		after := c20HistForms(h)
		afterW := c20FormsWire(after)
		// the completed operation as the model sees it (for an X event the model's mem/load describe the
		// world after the restart, so the completed operation is its last crash state)
		expDone := e.Crash[len(e.Crash)-1]
		expMem := e.Omem
		if afterW != expMem {
			return problem(i, kind, "memory", c20Aspect(after, c20ParseForms(expMem), universe), "in memory "+c20ShowForms(after),
				"in memory "+c20ShowForms(c20ParseForms(expMem)), "model:hist.run")
		}
		// --- the completed operation: files, restart
		gotHist, gotTmp := c20ReadFile(d.hist), c20ReadFile(d.tmp)
		L, lmsg := c20LoadContent(d, gotHist, limit)
		if lmsg != "" {
			return problem(i, kind, "final", "panic", "History.Load after the operation panicked: "+lmsg, "forms "+c20ShowForms(after), "property: restart loads what is in memory")
		}
		if L != expDone.Load {
			return problem(i, kind, "final", c20Aspect(c20ParseForms(L), c20ParseForms(expDone.Load), universe),
				"a restart loads "+c20ShowForms(c20ParseForms(L))+" from history="+c20ShowContent(gotHist),
				"loads "+c20ShowForms(c20ParseForms(expDone.Load)), "model:hist.run")
		}
		// The property itself: a restart gives back what is in memory. Sweep cells always check it (a
		// failing cell is a listed finding or a violation). Composite sessions also contain forms outside
		// the guard `storable`; there the model mirrors what Load does to them (trimmed, split at tabs),
		// implementation and model were just compared, and the strict comparison is made whenever the
		// model says memory and file agree.
		if L != afterW && !knownHit && (cs.Cell != "" || expDone.Load == e.Omem) {
			// model and implementation agree, but a restart does not give back what is in memory:
			// the form is outside the guard of the encoding (SlipVerif.History.encode_decode_guard_exact)
			p := problem(i, kind, "final", c20Aspect(c20ParseForms(L), after, universe),
				"a restart loads "+c20ShowForms(c20ParseForms(L))+" from history="+c20ShowContent(gotHist),
				"what is in memory: "+c20ShowForms(after), "property: restart loads what is in memory (the model agrees with the implementation here: the input is outside the guard `storable` of encode_decode)")
			if cs.Cell == "" || c.Findings.Match(c.Prop, p.sig) == nil || c.Replay != "" {
				return p
			}
			// a listed finding: count it and go on comparing the rest of the cell with the model
			c20Report(c, p, true)
			knownHit = true
		}
		if c20Fnv(gotHist) != expDone.HistFnv || c20Fnv(gotTmp) != expDone.TmpFnv {
			return &c20Problem{noInput: true, sig: fmt.Sprintf("fs-bytes op=%s step=final", kind), replay: map[string]any{"input": cs.show(), "request": req,
				"observed": fmt.Sprintf("history=%s history.tmp=%s", c20ShowContent(gotHist), c20ShowContent(gotTmp)),
				"expected": "other file contents in the model (the loaded histories agree)"}}
		}
		// --- every hook point: the state a process death there leaves
		if c20HaveHooks {
			nAfter := 0
			for _, s := range snaps {
				if s.After {
					nAfter++
				}
			}
			aligned := nAfter == len(e.Steps)
			if aligned {
				st.alignedOps++
			} else if len(snaps) > 0 || len(e.Steps) > 0 {
				return &c20Problem{noInput: true, sig: fmt.Sprintf("hook-shape op=%s", kind), replay: map[string]any{"input": cs.show(), "request": req,
					"observed":    fmt.Sprintf("%d completed file-system steps reported by the verifFS hooks", nAfter),
					"expected":    fmt.Sprintf("%d steps %v in the model", len(e.Steps), e.Steps),
					"explanation": "the operation no longer performs the file-system steps the model describes; crash points cannot be matched"}}
			}
			k := 0
			var lastH, lastT *string = startHist, startTmp
			lastLoaded := false
			// what a restart loads from the files before and after the operation (for forms outside the
			// guard this is the normalised history, not what is in memory)
			loadStart, _ := c20LoadContent(d, startHist, limit)
			for si, s := range snaps {
				st.snapshots++
				if s.After {
					k++
				}
				if si > 0 || true {
					if c20Same(s.Hist, lastH) && c20Same(s.Tmp, lastT) && lastLoaded {
						continue
					}
				}
				lastH, lastT, lastLoaded = s.Hist, s.Tmp, true
				st.snapStates++
				L, lmsg := c20LoadContent(d, s.Hist, limit)
				step := strconv.Itoa(k)
				if lmsg != "" {
					return problem(i, kind, step, "panic", "History.Load of the directory left at "+s.Point+" panicked: "+lmsg, "old or new history", "SlipVerif.History.crash_consistent")
				}
				finalLoad := expDone.Load // == what the implementation loads after the operation (compared above)
				ok := L == loadStart || L == finalLoad || (op.Kind == "C" && c20IsPrefix(L, finalLoad))
				if !ok {
					ref := append(append(c20ParseForms(loadStart), c20ParseForms(finalLoad)...), append(before, after...)...)
					return problem(i, kind, step, c20Aspect(c20ParseForms(L), ref, universe),
						fmt.Sprintf("a restart after a process death at %s (history=%s history.tmp=%s) loads %s", s.Point, c20ShowContent(s.Hist), c20ShowContent(s.Tmp), c20ShowForms(c20ParseForms(L))),
						fmt.Sprintf("the old history %s, the new history %s or (Clear only) a prefix of the new one", c20ShowForms(before), c20ShowForms(after)),
						"property (relation of SlipVerif.History.crash_consistent on the implementation's own states)")
				}
				if aligned {
					x := e.Crash[k]
					if L != x.Load {
						return problem(i, kind, step, c20Aspect(c20ParseForms(L), c20ParseForms(x.Load), universe),
							fmt.Sprintf("after %d steps (%s) a restart loads %s", k, s.Point, c20ShowForms(c20ParseForms(L))),
							"loads "+c20ShowForms(c20ParseForms(x.Load)), "model:hist.run crashAt "+step)
					}
					if c20Fnv(s.Hist) != x.HistFnv || c20Fnv(s.Tmp) != x.TmpFnv {
						return &c20Problem{noInput: true, sig: fmt.Sprintf("fs-bytes op=%s step=%s", kind, step), replay: map[string]any{"input": cs.show(), "request": req,
							"observed": fmt.Sprintf("at %s history=%s history.tmp=%s", s.Point, c20ShowContent(s.Hist), c20ShowContent(s.Tmp)),
							"expected": "other file contents in the model after the same number of steps (the loaded histories agree)"}}
					}
				}
			}
		}
		if ev.Kind == "X" {
			// the process dies after ev.K steps: put the directory into that state and restart.
			// (with hooks and aligned steps the state was just validated against the implementation's own snapshot)
			c20PutFile(d.hist, e.Hist)
			c20PutFile(d.tmp, e.Tmp)
			limit = ev.N
			h, msg = c20Fresh(d.hist, limit)
			if msg != "" {
				return problem(i, kind, strconv.Itoa(ev.K), "panic", "History.Load panicked: "+msg, "loads "+c20ShowForms(c20ParseForms(e.Mem)), "model:hist.run")
			}
			got := c20HistForms(h)
			if c20FormsWire(got) != e.Mem {
				return problem(i, kind, strconv.Itoa(ev.K), c20Aspect(got, c20ParseForms(e.Mem), universe), "loaded "+c20ShowForms(got),
					"loaded "+c20ShowForms(c20ParseForms(e.Mem)), "model:hist.run")
			}
		}
	}
	return nil
}

// ---------------------------------------------------------------------------------------------
// generators

var c20Atoms = []string{"a", "b", "x", "foo", "bar", "(+ 1 2)", "(car '(1 2))", "λ", "é", "日本語", "ß→", "🙂", "\"str ing\"", ";c", "#\\a", "1.5", "(defun f (x)", "(let ((y 2))", "y)", "))", "'q", "`(,a)", "x y", "a  b", "naïve", "Ω"}

// blanks that bytes.TrimSpace removes (unicode.IsSpace)
var c20Blanks = []string{" ", "  ", " ", "　", " ", "\r", "\v", "\f", "\u0085", " "}

func c20Word(r *lib.Rng) string {
	n := 1 + r.Intn(3)
	parts := make([]string, n)
	for i := range parts {
		parts[i] = r.Pick(c20Atoms)
	}
	return strings.Join(parts, " ")
}

// c20Storable: a form inside the guard: no tab/newline in a line, first line starts and last line ends
// with a non-blank; interior blanks, blank-led continuation lines, empty interior lines, non-ASCII.
func c20Storable(r *lib.Rng) c20Form {
	n := 1
	if r.Chance(40) {
		n = 2 + r.Intn(3)
	}
	f := make(c20Form, n)
	for i := range f {
		f[i] = c20Word(r)
		if i > 0 && r.Chance(50) {
			f[i] = strings.Repeat(" ", 1+r.Intn(4)) + f[i]
		}
		if i > 0 && i < n-1 && r.Chance(10) {
			f[i] = ""
		}
		if i < n-1 && r.Chance(15) {
			f[i] += r.Pick(c20Blanks[:5])
		}
		if r.Chance(8) {
			f[i] += " " + r.Pick(c20Atoms) // interior no-break space
		}
	}
	return f
}

// form classes outside the guard (each is a sweep cell; composite cases use a class only when no
// known finding lists it)
type c20Class struct {
	name string
	form c20Form
}

func c20Classes() []c20Class {
	return []c20Class{
		{"leading-space", c20Form{"  (foo 1)"}},
		{"trailing-space", c20Form{"(foo 1)  "}},
		{"leading-nbsp", c20Form{" (foo 1)"}},
		{"trailing-ideographic-space", c20Form{"(foo 1)　"}},
		{"trailing-cr", c20Form{"(foo 1)\r"}},
		{"leading-space-multiline", c20Form{" (foo", "  1)"}},
		{"tab-in-line", c20Form{"(foo\t1)"}},
		{"tab-in-second-line", c20Form{"(foo", " \"a\tb\")"}},
		{"leading-empty-line", c20Form{"", "(foo 1)"}},
		{"trailing-empty-line", c20Form{"(foo 1)", ""}},
		{"nbsp-only", c20Form{" "}},
		{"tab-only", c20Form{"\t"}},
		{"newline-in-line", c20Form{"(foo\n1)"}},
	}
}

// c20OutOfGuard: a form outside the guard: one of the fixed class forms or a random storable form
// damaged in one of the ways the classes describe (blanks at the ends, a tab somewhere, an empty
// first/last line).
func c20OutOfGuard(r *lib.Rng, classes []c20Class) c20Form {
	if r.Chance(35) {
		return classes[r.Intn(len(classes))].form
	}
	f := append(c20Form{}, c20Storable(r)...)
	last := len(f) - 1
	switch r.Intn(7) {
	case 0:
		f[0] = r.Pick(c20Blanks) + f[0]
	case 1:
		f[last] += r.Pick(c20Blanks)
	case 2:
		i := r.Intn(len(f))
		rs := []rune(f[i])
		k := r.Intn(len(rs) + 1)
		f[i] = string(rs[:k]) + "\t" + string(rs[k:])
	case 3:
		f = append(c20Form{""}, f...)
	case 4:
		f = append(f, "")
	case 5:
		f[r.Intn(len(f))] = "\t" + f[r.Intn(len(f))] // tab indentation
	default:
		f = append(f, "\t")
	}
	return f
}

func c20A(f c20Form) c20Op    { return c20Op{Kind: "A", Form: f} }
func c20S(s ...string) c20Op  { return c20Op{Kind: "A", Form: c20Form(s)} }
func c20Str(s string) *string { return &s }

func c20Encode(fs []c20Form) string {
	var b strings.Builder
	for _, f := range fs {
		if len(f) > 0 {
			b.WriteString(strings.Join(f, "\t"))
			b.WriteByte('\n')
		}
	}
	return b.String()
}

// c20Sweep: the single-cause cells (finite, seed independent).
func c20Sweep(c *lib.Ctx) []c20Case {
	var cases []c20Case
	plain := func(i int) c20Form { return c20Form{fmt.Sprintf("(f%d)", i)} }
	// form classes: in the guard (must round-trip) and outside it
	inGuard := []c20Class{
		{"plain", c20Form{"(foo 1)"}},
		{"multi-line", c20Form{"(defun f (x)", "  (+ x 1))"}},
		{"non-ascii", c20Form{"(λ é 日本語 🙂)"}},
		{"interior-blanks", c20Form{"a  b   c"}},
		{"interior-empty-line", c20Form{"(a", "", "b)"}},
		{"blank-continuation", c20Form{"(a 　", "  b)"}},
		{"spaces-only", c20Form{"   "}},
		{"no-lines", c20Form{}},
		{"empty-lines-only", c20Form{"", ""}},
		{"long-line", c20Form{"(" + strings.Repeat("long-symbol ", 700) + ")"}},
	}
	for _, cl := range append(inGuard, c20Classes()...) {
		cases = append(cases, c20Case{Cell: "form/" + cl.name, Limit: 10,
			Events: []c20Op{c20A(plain(0)), c20A(cl.form), c20A(plain(1)), {Kind: "R", N: 10}}})
	}
	// the initial file: absent, empty, blank lines, unterminated tail, junk
	for _, in := range []struct {
		name string
		c    *string
	}{{"absent", nil}, {"empty", c20Str("")}, {"blank-lines", c20Str("\n \n\t\n")}, {"terminated", c20Str("(a)\n(b\t c)\n")},
		{"blanks-around", c20Str("  (a) \n\t(b)\t\n")}, {"unterminated", c20Str("(a)\n(b")}, {"crlf", c20Str("(a)\r\n(b)\r\n")}} {
		cases = append(cases, c20Case{Cell: "init/" + in.name, Limit: 10, Hist0: in.c,
			Events: []c20Op{c20A(plain(0)), {Kind: "R", N: 10}, {Kind: "C", A: 0, B: -1}, c20A(plain(1))}})
	}
	// Clear(start, end) on a history of five forms
	five := []c20Op{}
	for i := 0; i < 5; i++ {
		five = append(five, c20A(plain(i)))
	}
	for _, a := range []int{-2, 0, 1, 2, 4, 5, 9} {
		for _, b := range []int{-1, 0, 1, 2, 3, 4, 7} {
			evs := append(append([]c20Op{}, five...), c20Op{Kind: "C", A: a, B: b}, c20A(plain(9)), c20Op{Kind: "R", N: 100})
			cases = append(cases, c20Case{Cell: fmt.Sprintf("clear/%d,%d", a, b), Limit: 100, Events: evs})
		}
	}
	cases = append(cases, c20Case{Cell: "clear/empty-history", Limit: 10, Events: []c20Op{{Kind: "C", A: 0, B: -1}, {Kind: "C", A: 1, B: 2}, c20A(plain(0))}})
	cases = append(cases, c20Case{Cell: "clear/middle-makes-neighbours", Limit: 10, Events: []c20Op{c20S("a"), c20S("b"), c20S("a"), {Kind: "C", A: 1, B: 1}, c20S("a"), {Kind: "R", N: 10}}})
	// limits: fill past the compaction threshold twice, repeat, empty, lower the limit, restart
	for _, lim := range []int{0, 1, 2, 3, 5, 9, 10, 11, 12, 20, 25} {
		var evs []c20Op
		mx := lim + lim/10
		for i := 0; i < 2*mx+3; i++ {
			evs = append(evs, c20A(plain(i)))
			if i%4 == 1 {
				evs = append(evs, c20A(plain(i))) // immediate repetition
			}
			if i%5 == 2 {
				evs = append(evs, c20S("  ")) // empty form
			}
		}
		evs = append(evs, c20Op{Kind: "R", N: lim}, c20Op{Kind: "L", N: lim / 2}, c20A(plain(100)), c20A(plain(101)), c20Op{Kind: "R", N: lim / 2},
			c20Op{Kind: "L", N: lim + 3}, c20A(plain(102)), c20Op{Kind: "R", N: lim + 3})
		for _, tmp := range []*string{nil, c20Str("(stale 1)\n(f1)\n")} {
			name := fmt.Sprintf("limit/%d", lim)
			if tmp != nil {
				name += "-stale-tmp"
			}
			cases = append(cases, c20Case{Cell: name, Limit: lim, Tmp0: tmp, Events: evs})
		}
	}
	// a process death at every step of every kind of operation, then on to the next compaction
	for k := 0; k <= 7; k++ {
		x := func(sub c20Op, lim int) c20Op { return c20Op{Kind: "X", K: k, N: lim, Sub: &sub} }
		tail := []c20Op{c20A(plain(6)), c20A(plain(7)), c20A(plain(8)), c20A(plain(9)), {Kind: "R", N: 3}}
		cases = append(cases,
			c20Case{Cell: fmt.Sprintf("crash/append-%d", k), Limit: 3, Events: append([]c20Op{c20A(plain(0)), x(c20A(plain(1)), 3)}, tail...)},
			c20Case{Cell: fmt.Sprintf("crash/first-append-%d", k), Limit: 3, Events: append([]c20Op{x(c20A(plain(1)), 3)}, tail...)},
			c20Case{Cell: fmt.Sprintf("crash/compact-%d", k), Limit: 3, Events: append([]c20Op{c20A(plain(0)), c20A(plain(1)), x(c20A(plain(2)), 3)}, tail...)},
			c20Case{Cell: fmt.Sprintf("crash/compact-stale-tmp-%d", k), Limit: 3, Tmp0: c20Str("(gone 1)\n(gone 2)\n"),
				Events: append([]c20Op{c20A(plain(0)), c20A(plain(1)), x(c20A(plain(2)), 3)}, tail...)},
			c20Case{Cell: fmt.Sprintf("crash/clear-all-%d", k), Limit: 5, Events: append([]c20Op{c20A(plain(0)), c20A(plain(1)), x(c20Op{Kind: "C", A: 0, B: -1}, 5)}, tail...)},
			c20Case{Cell: fmt.Sprintf("crash/clear-recent-%d", k), Limit: 9, Events: append([]c20Op{c20A(plain(0)), c20A(plain(1)), c20A(plain(2)), c20A(plain(3)), x(c20Op{Kind: "C", A: 0, B: 0}, 3)}, tail...)},
		)
	}
	// two process deaths in a row: the first inside a compaction (every step), the second inside the
	// compaction the restarted process runs next (every step) — it meets whatever the first left behind
	for k1 := 0; k1 <= 6; k1++ {
		for k2 := 0; k2 <= 6; k2++ {
			s1, s2 := c20A(plain(2)), c20A(plain(3))
			evs := []c20Op{c20A(plain(0)), c20A(plain(1)), {Kind: "X", K: k1, N: 3, Sub: &s1}, {Kind: "X", K: k2, N: 3, Sub: &s2},
				c20A(plain(4)), c20A(plain(5)), {Kind: "R", N: 3}, c20A(plain(6)), {Kind: "R", N: 3}}
			cases = append(cases, c20Case{Cell: fmt.Sprintf("crash2/compact-%d-then-%d", k1, k2), Limit: 3, Events: evs})
		}
	}
	// the next start has a lower limit than the history file has entries (no SetLimit in between)
	for _, lim := range []int{0, 1, 3, 7} {
		var evs []c20Op
		for i := 0; i < 8; i++ {
			evs = append(evs, c20A(plain(i)))
		}
		evs = append(evs, c20Op{Kind: "R", N: lim}, c20A(plain(20)), c20Op{Kind: "R", N: lim}, c20A(plain(21)), c20A(plain(22)), c20Op{Kind: "R", N: lim},
			c20Op{Kind: "R", N: 10}, c20A(plain(23)), c20Op{Kind: "R", N: 10})
		cases = append(cases, c20Case{Cell: fmt.Sprintf("restart/limit-10-to-%d", lim), Limit: 10, Events: evs})
	}
	// a compaction at a three digit limit (max = 110)
	{
		var evs []c20Op
		for i := 0; i < 225; i++ {
			evs = append(evs, c20A(plain(i)))
		}
		cases = append(cases, c20Case{Cell: "limit/100", Limit: 100, Events: append(evs, c20Op{Kind: "R", N: 100})})
	}
	// LineReader reads 4096 bytes at a time: a newline, a tab and a multi-byte character exactly at, before
	// and after the end of the first and second buffer
	for _, off := range []int{4094, 4095, 4096, 4097, 8191, 8192, 8193} {
		for _, kind := range []string{"nl", "tab", "rune"} {
			var first string
			switch kind {
			case "nl": // the newline of the first line is byte number off
				first = strings.Repeat("x", off-1) + "\n"
			case "tab":
				first = strings.Repeat("x", off-1) + "\t(y)\n"
			default: // the second byte of é is byte number off
				first = strings.Repeat("x", off-2) + "é z\n"
			}
			content := first + "(second é)\n(third\t 3)\n"
			cases = append(cases, c20Case{Cell: fmt.Sprintf("linereader/%s-at-%d", kind, off), Limit: 10, Hist0: &content,
				Events: []c20Op{{Kind: "R", N: 10}, c20A(plain(0)), {Kind: "R", N: 10}}})
		}
	}
	// more than one LineReader buffer (4096 bytes) of history
	var long []c20Op
	for i := 0; i < 340; i++ {
		long = append(long, c20S(fmt.Sprintf("(entry %d \"%s\")", i, strings.Repeat("x", i%37))))
	}
	long = append(long, c20Op{Kind: "R", N: 300})
	cases = append(cases, c20Case{Cell: "long/340-entries", Limit: 300, Events: long})
	return cases
}

// c20Composite: a random session of at most 60 events.
func c20Composite(c *lib.Ctx, r *lib.Rng, classes []c20Class) c20Case {
	cs := c20Case{}
	switch r.Intn(10) {
	case 0:
		cs.Limit = 0
	case 1:
		cs.Limit = 20 + r.Intn(15)
	default:
		cs.Limit = 1 + r.Intn(12)
	}
	pool := make([]c20Form, 4+r.Intn(8))
	for i := range pool {
		pool[i] = c20Storable(r)
		if len(classes) > 0 && r.Chance(14) {
			pool[i] = c20OutOfGuard(r, classes)
		}
	}
	form := func() c20Form {
		if r.Chance(70) {
			return pool[r.Intn(len(pool))]
		}
		return c20Storable(r)
	}
	switch r.Intn(4) {
	case 0:
		cs.Hist0 = c20Str("")
	case 1:
		var fs []c20Form
		for i := r.Intn(6); i > 0; i-- {
			fs = append(fs, form())
		}
		s := c20Encode(fs)
		if r.Chance(30) {
			s = "\n" + s + " \n"
		}
		if r.Chance(10) {
			s += "(tail without newline" // hand edited: the next Add glues onto it (mirrored by the model)
		}
		cs.Hist0 = &s
	}
	if r.Chance(40) {
		var fs []c20Form
		for i := 1 + r.Intn(4); i > 0; i-- {
			fs = append(fs, form())
		}
		s := c20Encode(fs)
		cs.Tmp0 = &s
	}
	partialClear := !c.Findings.Listed("C20", "cell=clear/")
	var last c20Form
	limit := cs.Limit
	newLimit := func() int {
		if r.Chance(15) {
			return 0
		}
		return 1 + r.Intn(14)
	}
	mkOp := func() c20Op {
		switch p := r.Intn(100); {
		case p < 6:
			if last != nil {
				return c20A(last) // repetition of the last form
			}
			return c20A(form())
		case p < 9:
			return c20A(c20Form{strings.Repeat(" ", r.Intn(3))}) // empty form
		case p < 10:
			return c20A(c20Form{})
		case p < 17:
			switch q := r.Intn(10); {
			case q < 4 || !partialClear:
				return c20Op{Kind: "C", A: 0, B: -1}
			case q < 6:
				return c20Op{Kind: "C", A: 0, B: r.Intn(4)}
			case q < 8:
				return c20Op{Kind: "C", A: r.Intn(4), B: -1}
			default:
				return c20Op{Kind: "C", A: r.Intn(5) - 1, B: r.Intn(7) - 1}
			}
		case p < 23:
			return c20Op{Kind: "L", N: newLimit()}
		default:
			f := form()
			last = f
			return c20A(f)
		}
	}
	n := 5 + r.Intn(56)
	for i := 0; i < n; i++ {
		switch p := r.Intn(100); {
		case p < 6:
			if r.Chance(30) {
				limit = newLimit()
			}
			cs.Events = append(cs.Events, c20Op{Kind: "R", N: limit})
		case p < 18:
			sub := mkOp()
			if r.Chance(20) {
				limit = newLimit()
			} else if sub.Kind == "L" {
				// the limit is a setting of the session: after the restart it is what it was
			}
			cs.Events = append(cs.Events, c20Op{Kind: "X", K: r.Intn(10), N: limit, Sub: &sub})
		default:
			op := mkOp()
			if op.Kind == "L" {
				limit = op.N
			}
			cs.Events = append(cs.Events, op)
		}
	}
	return cs
}

func c20Nontrivial(cs c20Case, exps []c20Exp) bool {
	for i, ev := range cs.Events {
		op := ev
		if ev.Kind == "X" {
			op = *ev.Sub
			if ev.K > 0 && ev.K < len(exps[i].Steps) {
				return true // crash index inside a multi-step operation
			}
		}
		if op.Kind == "C" || op.Kind == "L" {
			return true
		}
		if len(exps[i].Steps) > 0 && strings.HasSuffix(exps[i].Steps[0], "t") {
			return true // compaction
		}
	}
	return false
}

// ---------------------------------------------------------------------------------------------

func c20Replay(c *lib.Ctx) {
	var rec map[string]any
	if err := lib.ReadJSON(c.Replay, &rec); err != nil {
		fmt.Println("cannot read replay file:", err)
		return
	}
	req, _ := rec["request"].(string)
	switch {
	case strings.HasPrefix(req, "hist run "):
		cs, ok := c20ParseRequest(req)
		if !ok {
			fmt.Println("replay file has no usable request")
			return
		}
		if sig, _ := rec["signature"].(string); strings.HasPrefix(sig, "cell=") {
			cs.Cell = strings.TrimPrefix(strings.Fields(sig)[0], "cell=")
		}
		reply := c.Model([]string{req})[0]
		d := c20NewDir(c, "replay")
		defer os.RemoveAll(d.dir)
		st := &c20Stats{}
		p := c20RunHistoryCase(c, d, cs, reply, st)
		fmt.Printf("replay %s\n", cs.show())
		if p == nil {
			fmt.Println("  implementation and model agree, restarts load what is in memory, every crash point is consistent")
			return
		}
		fmt.Printf("  signature: %s\n  at       : %v\n  observed : %v\n  expected : %v\n", p.sig, p.replay["at"], p.replay["observed"], p.replay["expected"])
		c.Report(p.sig, false, p.replay)
	case strings.HasPrefix(req, "hist stash "):
		c20ReplayStash(c, req, rec)
	case strings.HasPrefix(req, "hist cfg "):
		c20ReplayCfg(c, req, rec)
	case strings.HasPrefix(req, "hist cfgw "):
		c20ReplayCfgDirs(c, req, rec)
	case strings.HasPrefix(req, "hist ed "):
		c20ReplayEditor(c, req)
	default:
		fmt.Println("replay file has no usable request")
	}
}

// c20Shrink: delta debugging on the events of a failing composite session: cut after the failing event,
// then drop events one at a time as long as the same signature is reported.
func c20Shrink(c *lib.Ctx, d c20Dir, cs c20Case, p *c20Problem) *c20Problem {
	try := func(evs []c20Op) *c20Problem {
		t := cs
		t.Events = evs
		reply := c.Model([]string{t.request()})[0]
		q := c20RunHistoryCase(c, d, t, reply, &c20Stats{})
		if q != nil && !q.noInput && q.sig == p.sig {
			return q
		}
		return nil
	}
	best := p
	evs := cs.Events
	if p.at >= 0 && p.at+1 < len(evs) {
		if q := try(evs[:p.at+1]); q != nil {
			best, evs = q, evs[:p.at+1]
		}
	}
	for i, tries := len(evs)-2, 0; i >= 0 && tries < 70; i, tries = i-1, tries+1 {
		cand := append(append([]c20Op{}, evs[:i]...), evs[i+1:]...)
		if q := try(cand); q != nil {
			best, evs = q, cand
		}
	}
	best.replay["shrunk_from_events"] = len(cs.Events)
	if ex, _ := c.Ev.Coverage["shrunk_failing_sessions"].([]map[string]any); len(ex) < 4 {
		c.Ev.Coverage["shrunk_failing_sessions"] = append(ex, map[string]any{"signature": best.sig, "input": best.replay["input"],
			"events_before": len(cs.Events), "events_after": len(evs)})
	}
	return best
}

var c20Family = map[string]int{}

type c20Pending struct {
	p     *c20Problem
	sweep bool
	rank  int
}

var c20Buf []c20Pending

// c20Report buffers a disagreement; c20Flush reports them so that every family of the property gets
// replay files among the first 25 violations: history sweep cells, settings, stash, then composites.
func c20Report(c *lib.Ctx, p *c20Problem, sweep bool) {
	rank := 3
	switch {
	case strings.Contains(p.sig, "op=setq") || strings.Contains(p.sig, "config-bytes"):
		rank = 1
	case strings.Contains(p.sig, "stash"):
		rank = 2
	case strings.HasPrefix(p.sig, "cell="):
		rank = 0
	}
	c20Buf = append(c20Buf, c20Pending{p, sweep, rank})
}

func c20Flush(c *lib.Ctx) {
	for rank := 0; rank <= 3; rank++ {
		for _, b := range c20Buf {
			if b.rank == rank {
				c20Emit(c, b.p, b.sweep)
			}
		}
	}
	c20Buf = nil
}

func c20Emit(c *lib.Ctx, p *c20Problem, sweep bool) {
	if p.vsModel {
		sweep = false // only a failure of the property itself in a sweep cell can be a listed finding
	}
	// at most three replays per sweep family (cell=clear/…, cell=limit/…): the first 25 violations get
	// replay files and one defect should not use them all up; the others are counted
	if strings.HasPrefix(p.sig, "cell=") && !p.noInput && (!sweep || c.Findings.Match(c.Prop, p.sig) == nil) {
		fam := p.sig[:strings.IndexAny(p.sig+"/", "/")]
		c20Family[fam]++
		// (grids only: in the form/, stash/ and init/ families every cell is a construct of its own)
		grid := map[string]bool{"cell=clear": true, "cell=limit": true, "cell=crash": true, "cell=crash2": true, "cell=stash-clear": true, "cell=setq": true, "cell=setq-with": true}
		if grid[fam] && c20Family[fam] > 3 {
			c.Ev.Count("violations_not_reported_same_sweep_family", 1)
			return
		}
	}
	if p.noInput {
		for _, v := range c.Violations {
			if v.Signature == "broken="+p.sig {
				return
			}
		}
		c.ReportBroken(p.sig, p.replay)
		return
	}
	c.Report(p.sig, sweep, p.replay)
}

var c20Rng *lib.Rng

// c20Mix: the splitmix64 finaliser
func c20Mix(x uint64) uint64 {
	x += 0x9E3779B97F4A7C15
	x = (x ^ (x >> 30)) * 0xBF58476D1CE4E5B9
	x = (x ^ (x >> 27)) * 0x94D049BB133111EB
	return x ^ (x >> 31)
}

func runC20(c *lib.Ctx) {
	if c.Replay != "" {
		c20Replay(c)
		return
	}
	st := &c20Stats{}
	d := c20NewDir(c, "hist")
	defer os.RemoveAll(d.dir)
	// lib.NewRng(seed+1) is lib.NewRng(seed) shifted by one draw, so adjacent seeds would explore
	// nearly the same sessions: the generators of this slice draw from a stream whose start is a
	// well-mixed function of VERIF_SEED instead of c.Rng
	c20Rng = lib.NewRng(c20Mix(c.Seed))

	// Composite sessions use every form class, inside and outside the guard of the encoding: the model
	// mirrors what Load does to the forms outside it (each class is also a sweep cell whose failure of
	// the property itself is a listed finding), so everything the implementation does today is compared.
	free := c20Classes()
	cases := c20Sweep(c)
	nSweep := len(cases)
	nRandom := c.Scale(260, 3000)
	for i := 0; i < nRandom; i++ {
		cases = append(cases, c20Composite(c, c20Rng, free))
	}
	reqs := make([]string, len(cases))
	for i, cs := range cases {
		reqs[i] = cs.request()
	}
	replies := c.Model(reqs)
	agree := 0
	seen := map[string]bool{}
	for i, cs := range cases {
		_, exps := c20ParseReply(replies[i], len(cs.Events))
		c.Ev.Case(reqs[i], c20Nontrivial(cs, exps))
		for j, ev := range cs.Events {
			c.Ev.Hist("event", c20OpKind(ev, exps[j].Steps))
		}
		c.Ev.Hist("events_per_case", fmt.Sprintf("%02d-%02d", len(cs.Events)/10*10, len(cs.Events)/10*10+9))
		if i == 0 || i == nSweep || i == nSweep+1 {
			c.Ev.Sample(map[string]string{"case": cs.show(), "cell": cs.Cell})
		}
		p := c20RunHistoryCase(c, d, cs, replies[i], st)
		if p == nil {
			agree++
			continue
		}
		if cs.Cell == "" && !p.noInput && !seen[p.sig] && len(seen) < 8 {
			seen[p.sig] = true
			p = c20Shrink(c, d, cs, p)
		}
		c20Report(c, p, cs.Cell != "")
	}
	c.Ev.Coverage["history_cases"] = len(cases)
	c.Ev.Coverage["history_sweep_cells"] = nSweep
	c.Ev.Coverage["history_composite_cases"] = nRandom
	c.Ev.Coverage["history_cases_in_agreement"] = agree
	c.Ev.Coverage["history_events"] = st.events
	c.Ev.Coverage["restarts_after_operations"] = st.events - st.restarts
	c.Ev.Coverage["explicit_restart_events"] = st.restarts
	c.Ev.Coverage["process_death_events"] = st.crashEvents
	c.Ev.Coverage["compactions"] = st.compactions
	c.Ev.Coverage["hooks_present"] = c20HaveHooks
	c.Ev.Coverage["hook_snapshots"] = st.snapshots
	c.Ev.Coverage["hook_snapshot_states_loaded"] = st.snapStates
	c.Ev.Coverage["operations_with_steps_matching_model"] = st.alignedOps
	c.Ev.Coverage["form_classes_outside_guard_used_by_composites"] = len(free)

	nStash, nStashAgree := c20RunStash(c)
	nCfg, nCfgAgree := c20RunCfg(c)
	nCw, nCwAgree := c20RunCfgDirs(c)
	nCfg, nCfgAgree = nCfg+nCw, nCfgAgree+nCwAgree
	c.Ev.Coverage["settings_cases_several_directories_in_one_process"] = nCw
	nEd, nEdAgree := c20RunEditor(c)
	c20Flush(c)
	c.Ev.Coverage["editor_cases"] = nEd
	c.Ev.Coverage["editor_cases_in_agreement"] = nEdAgree
	c.Ev.Coverage["stash_cases"] = nStash
	c.Ev.Coverage["stash_cases_in_agreement"] = nStashAgree
	c.Ev.Coverage["settings_cases"] = nCfg
	c.Ev.Coverage["settings_cases_in_agreement"] = nCfgAgree
	c.Ev.Coverage["traces_validated_against_impl"] = len(cases) + nStash + nCfg + nEd
	c.Ev.Coverage["agreements"] = agree + nStashAgree + nCfgAgree + nEdAgree
	c.Ev.Coverage["rule"] = "case = one session: initial history/history.tmp files + <=60 events (Add/Clear/SetLimit, restart, process death after k file-system steps of an operation); " +
		"sweep cells (form classes in/outside the encoding guard, initial files, Clear(start,end) grid, limits 0..25 past two compactions with and without a stale tmp, a death at every step of every operation kind, >4096 bytes) are seed independent; composite sessions are random; " +
		"after every event: memory vs model, file bytes vs model, fresh Load vs model and vs memory; with hooks every hook point's directory is loaded and checked against old/new/prefix-of-new and the model's crashAt k; " +
		"non-trivial = the session crosses the compaction threshold, contains Clear/SetLimit, or dies inside a multi-step operation; distinct by request line. Stash and settings sessions likewise (restart after every operation)."
}
