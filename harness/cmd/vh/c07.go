package main

// C07 — non-local exits reach their target and run every cleanup exactly once.
//
// Single-cause sweep: every (intervening form kind, position) context of c07Ctx × every exit kind
// of c07Exits, exactly one intervening form between the exit and its target, enumerated
// exhaustively and independently of the seed. Known findings are keyed on the cells of this table
// (findings/C07.json). Composite programs (the typed generator of evalgen.go with the control
// forms switched on) only place an exit where every intervening cell passes on the unchanged tree,
// so a composite disagreement is never excused.

import (
	"fmt"
	"sort"
	"strings"

	"verif/harness/lib"
)

func init() { props["C07"] = runC07 }

// contexts: @ marks the hole (an integer-valued position), @L a list-valued position,
// # is replaced by a unique number (global function names).
var c07Ctx = []struct{ name, tmpl, prelude string }{
	{"direct", "@", ""},
	{"progn.body", "(progn (vtr 90) @ (vtr 91))", ""},
	{"progn.last", "(progn (vtr 90) @)", ""},
	{"prog1.first", "(prog1 @ (vtr 91))", ""},
	{"prog1.body", "(prog1 (vtr 90) @ (vtr 91))", ""},
	{"if.test", "(if @ (vtr 91) (vtr 92))", ""},
	{"if.then", "(if (vtr 90) @ (vtr 92))", ""},
	{"if.else", "(if (not (vtr 90)) (vtr 91) @)", ""},
	{"when.test", "(when @ (vtr 91))", ""},
	{"when.body", "(when (vtr 90) @ (vtr 91))", ""},
	{"when.last", "(when (vtr 90) @)", ""},
	{"unless.test", "(unless @ (vtr 91))", ""},
	{"unless.body", "(unless (not (vtr 90)) @ (vtr 91))", ""},
	{"unless.last", "(unless (not (vtr 90)) @)", ""},
	{"cond.test", "(cond (@ (vtr 91)) (t (vtr 92)))", ""},
	{"cond.body", "(cond ((vtr 90) @ (vtr 91)) (t (vtr 92)))", ""},
	{"cond.last", "(cond ((vtr 90) @) (t (vtr 92)))", ""},
	{"case.key", "(case @ (5 (vtr 91)) (t (vtr 92)))", ""},
	{"case.body", "(case (vtr 90) (90 @ (vtr 91)) (t (vtr 92)))", ""},
	{"case.last", "(case (vtr 90) (90 @) (t (vtr 92)))", ""},
	{"and.first", "(and @ (vtr 91))", ""},
	{"and.last", "(and (vtr 90) @)", ""},
	{"or.first", "(or @ (vtr 91))", ""},
	{"or.last", "(or (not (vtr 90)) @)", ""},
	{"let.init", "(let ((va1 (vtr 90)) (va2 @) (va3 (vtr 91))) (vtr 92))", ""},
	{"let.body", "(let ((va1 (vtr 90))) @ (vtr 91))", ""},
	{"let.last", "(let ((va1 (vtr 90))) @)", ""},
	{"let*.init", "(let* ((va1 (vtr 90)) (va2 @) (va3 (vtr 91))) (vtr 92))", ""},
	{"let*.body", "(let* ((va1 (vtr 90))) @ (vtr 91))", ""},
	{"let*.last", "(let* ((va1 (vtr 90))) @)", ""},
	{"setq.value", "(setq vgs1 @ vgs2 (vtr 91))", ""},
	{"call.arg", "(+ (vtr 90) @ (vtr 91))", ""},
	{"ucall.arg", "(c07id# (vtr 90) @ (vtr 91))", "(defun c07id# (va vb vc) (vtr 93) vb)"},
	{"funcall.arg", "(funcall (function +) (vtr 90) @ (vtr 91))", ""},
	{"apply.arg", "(apply (function +) (vtr 90) @ (list (vtr 91)))", ""},
	{"mapcar.list", "(mapcar (function vtr) @L)", ""},
	{"mapcar-lambda.body", "(mapcar (lambda (vz) (vtr vz) @ (vtr 91)) (quote (1 2)))", ""},
	{"mapcar-lambda.last", "(mapcar (lambda (vz) (vtr vz) @) (quote (1 2)))", ""},
	{"lambda.body", "(funcall (lambda (vz) (vtr 90) @ (vtr 91)) 1)", ""},
	{"lambda.last", "(funcall (lambda (vz) (vtr 90) @) 1)", ""},
	{"dlambda.arg", "((lambda (vy vz) (vtr 92)) (vtr 90) @)", ""},
	{"dlambda.body", "((lambda (vz) (vtr 90) @ (vtr 91)) 1)", ""},
	{"dlambda.last", "((lambda (vz) (vtr 90) @) 1)", ""},
	{"defun.body", "(c07fb# 1)", "(defun c07fb# (vz) (vtr 90) @ (vtr 91))"},
	{"defun.last", "(c07fl# 1)", "(defun c07fl# (vz) (vtr 90) @)"},
	{"dolist.list", "(dolist (vx @L) (vtr 91))", ""},
	{"dolist.body", "(dolist (vx (quote (1 2))) (vtr vx) @ (vtr 91))", ""},
	{"dolist.result", "(dolist (vx (quote (1)) @) (vtr vx))", ""},
	{"dotimes.count", "(dotimes (vi @) (vtr 91))", ""},
	{"dotimes.body", "(dotimes (vi 2) (vtr vi) @ (vtr 91))", ""},
	{"dotimes.result", "(dotimes (vi 1 @) (vtr vi))", ""},
	{"do.init", "(do ((vi 0 (+ vi 1)) (va @)) ((>= vi 1) (vtr 92)) (vtr 91))", ""},
	{"do.step", "(do ((vi 0 (+ vi 1)) (va 0 @)) ((>= vi 2) (vtr 92)) (vtr 91))", ""},
	{"do.test", "(do ((vi 0 (+ vi 1))) (@ (vtr 92)) (vtr 91))", ""},
	{"do.result", "(do ((vi 0 (+ vi 1))) ((>= vi 1) (vtr 90) @) (vtr 91))", ""},
	{"do.body", "(do ((vi 0 (+ vi 1))) ((>= vi 2) (vtr 92)) (vtr vi) @ (vtr 91))", ""},
	{"do*.init", "(do* ((vi 0 (+ vi 1)) (va @)) ((>= vi 1) (vtr 92)) (vtr 91))", ""},
	{"do*.step", "(do* ((vi 0 (+ vi 1)) (va 0 @)) ((>= vi 2) (vtr 92)) (vtr 91))", ""},
	{"do*.test", "(do* ((vi 0 (+ vi 1))) (@ (vtr 92)) (vtr 91))", ""},
	{"do*.result", "(do* ((vi 0 (+ vi 1))) ((>= vi 1) (vtr 90) @) (vtr 91))", ""},
	{"do*.body", "(do* ((vi 0 (+ vi 1))) ((>= vi 2) (vtr 92)) (vtr vi) @ (vtr 91))", ""},
	{"mvb.values", "(multiple-value-bind (vm1 vm2) @ (vtr 91))", ""},
	{"mvb.body", "(multiple-value-bind (vm1) (vtr 90) @ (vtr 91))", ""},
	{"mvb.last", "(multiple-value-bind (vm1) (vtr 90) @)", ""},
	{"mvl.arg", "(multiple-value-list @)", ""},
	{"values.arg", "(values (vtr 90) @ (vtr 91))", ""},
	{"block.body", "(block vother (vtr 90) @ (vtr 91))", ""},
	{"block.last", "(block vother (vtr 90) @)", ""},
	{"tagbody.body", "(tagbody (vtr 90) @ (vtr 91))", ""},
	{"unwind-protect.protected", "(unwind-protect @ (vtr 91))", ""},
	{"unwind-protect.cleanup", "(unwind-protect (vtr 90) @ (vtr 91))", ""},
	{"ignore-errors.body", "(ignore-errors (vtr 90) @ (vtr 91))", ""},
	{"ignore-errors.last", "(ignore-errors (vtr 90) @)", ""},
	{"with-mutex-lock.body", "(with-mutex-lock vmx0 (vtr (vheld vmx0)) @ (vtr 91))", ""},
	{"with-mutex-lock.last", "(with-mutex-lock vmx0 (vtr 90) @)", ""},
	{"return-from.value", "(block vother (vtr 90) (return-from vother @) (vtr 91))", ""},
	// gi:recover — (recover sym on-recover form…)
	{"recover.body", "(recover vr (vtr 93) (vtr 90) @ (vtr 91))", ""},
	{"recover.last", "(recover vr (vtr 93) (vtr 90) @)", ""},
	{"recover.on-recover", "(recover vr @ (vtr 90) (car (vtr 4)) (vtr 91))", ""},
	// with-open-file — the stream is kept in a global so that it can be probed after the form was left
	{"with-open-file.body", "(with-open-file (vs \"/dev/null\") (setq vgf# vs) (vtr (vopen vs)) @ (vtr 91))", ""},
	{"with-open-file.last", "(with-open-file (vs \"/dev/null\") (setq vgf# vs) (vtr 90) @)", ""},
	// the same two positions with the other states the stream can be in when the body is left: closed by the body
	// itself (once / twice: closing a closed stream is a no-op), opened with :direction :probe (bound closed). The
	// close that with-open-file performs on the way out must not change the outcome in any of them. (Same cell
	// names: the stream state is a second dimension of the cell, not a new intervening form.)
	{"with-open-file.body", "(with-open-file (vs \"/dev/null\") (setq vgf# vs) (vtr (close vs)) (vtr (vopen vs)) @ (vtr 91))", ""},
	{"with-open-file.last", "(with-open-file (vs \"/dev/null\") (setq vgf# vs) (vtr (close vs)) (vtr (close vs)) @)", ""},
	{"with-open-file.body", "(with-open-file (vs \"/dev/null\" :direction :probe) (setq vgf# vs) (vtr (vopen vs)) @ (vtr 91))", ""},
	{"with-open-file.last", "(with-open-file (vs \"/dev/null\" :direction :probe) (setq vgf# vs) (vtr (close vs)) @)", ""},
	{"with-open-file.last", "(with-open-file (vs \"/dev/null\" :direction :output :if-exists :append) (setq vgf# vs) (vtr (close vs)) @)", ""},
}

// c07Post: a last top-level form appended to the programs of a context (probes of what the form must have released)
var c07Post = map[string]string{
	"with-open-file.body": "(vtr (vopen vgf#))",
	"with-open-file.last": "(vtr (vopen vgf#))",
}

// exit kinds: the hole and the program around the context (% marks the context)
var c07Exits = []struct{ name, hole, holeL, outer string }{
	{"normal", "(vtr 5)", "(vtr (quote (5 6)))", "(vtr 1) %"},
	{"ret-from", "(return-from vb (vtr 5))", "", "(block vb (vtr 1) % (vtr 2))"},
	{"ret-nil", "(return (vtr 5))", "", "(block nil (vtr 1) % (vtr 2))"},
	{"go-fwd", "(go 7)", "", "(tagbody (vtr 1) % (vtr 2) 7 (vtr 3))"},
	{"go-back", "(go 7)", "", "(tagbody (go 8) 7 (vtr 1) (go 9) 8 (vtr 2) % (vtr 3) 9 (vtr 4))"},
	{"err-error", "(error \"boom\")", "", "(vtr 1) % (vtr 2)"},
	{"err-type", "(car (vtr 5))", "", "(vtr 1) % (vtr 2)"},
	{"err-caught", "(car (vtr 5))", "", "(multiple-value-list (ignore-errors (vtr 1) % (vtr 2)))"},
}

// further single cells that are not (context × exit) products
var c07Extra = []struct{ name, exit, prog string }{
	{"tagbody.symbol-tag", "go-fwd", "(tagbody (vtr 1) (go vta) (vtr 2) vta (vtr 3))"},
	{"tagbody.symbol-tag", "normal", "(tagbody (vtr 1) vta (vtr 3))"},
	{"tagbody.nested-inner-first", "go-fwd", "(tagbody (vtr 1) (tagbody (vtr 2) (go 7) (vtr 3) 7 (vtr 4)) (vtr 5) 7 (vtr 6))"},
	{"block.shadow-inner-first", "ret-from", "(block vb (vtr 1) (block vb (vtr 2) (return-from vb (vtr 3)) (vtr 4)) (vtr 5))"},
	{"block.closure-lexical-target", "ret-from", "(block vb (vtr 1) (let ((vf (lambda (vz) (return-from vb (vtr vz))))) (block vb (vtr 2) (funcall vf 3) (vtr 4)) (vtr 5)) (vtr 6))"},
	{"return-from.value-same-block", "ret-from", "(block vb (vtr 1) (return-from vb (return-from vb (vtr 5))) (vtr 2))"},
	{"return-from.value-same-block", "ret-nil", "(block nil (vtr 1) (return (return (vtr 5))) (vtr 2))"},
	{"return-from.value-outer-block", "ret-from", "(block vb (vtr 1) (block vc (vtr 2) (return-from vb (return-from vc (vtr 5))) (vtr 3)) (vtr 4))"},
	{"return-from.value-outer-block", "go-fwd", "(block vb (tagbody (vtr 1) (return-from vb (go 7)) (vtr 2) 7 (vtr 3)) (vtr 4))"},
	{"return-from.value-outer-block", "go-back", "(block vb (tagbody (go 8) 7 (vtr 1) (go 9) 8 (vtr 2) (return-from vb (go 7)) (vtr 3) 9 (vtr 4)) (vtr 5))"},
	{"return-from.value-outer-block", "ret-nil", "(block vb (vtr 1) (dolist (vx (quote (1 2))) (vtr vx) (return-from vb (return (vtr 5))) (vtr 3)) (vtr 4))"},
	{"do.body-in-let", "ret-from", "(block vb (vtr 1) (let ((va1 0)) (do ((vi 0 (+ vi 1))) ((>= vi 2) (vtr 92)) (vtr vi) (return-from vb (vtr 5)) (vtr 91))) (vtr 2))"},
	{"unwind-protect.nested", "ret-from", "(block vb (unwind-protect (unwind-protect (progn (vtr 1) (return-from vb (vtr 2))) (vtr 3)) (vtr 4)) (vtr 5))"},
	{"unwind-protect.nested", "err-type", "(unwind-protect (unwind-protect (car (vtr 1)) (vtr 3)) (vtr 4))"},
	{"unwind-protect.nested", "normal", "(unwind-protect (unwind-protect (vtr 1) (vtr 3)) (vtr 4))"},
	{"unwind-protect.cleanup-error-replaces", "err-type", "(unwind-protect (error \"boom\") (car (vtr 5)))"},
	{"with-mutex-lock.nested", "err-type", "(ignore-errors (with-mutex-lock vmx0 (with-mutex-lock vmx1 (vtr (vheld vmx1)) (car (vtr 5))))) (vtr (vheld vmx0)) (vtr (vheld vmx1))"},
	{"with-mutex-lock.nested", "ret-from", "(block vb (with-mutex-lock vmx0 (let ((va 1)) (with-mutex-lock vmx1 (return-from vb (vtr 5)))))) (vtr (vheld vmx0)) (vtr (vheld vmx1))"},
	{"return-from.unknown-block", "err-control", "(vtr 1) (return-from vnoblock (vtr 2))"},
	{"return.no-nil-block", "err-control", "(block vb (vtr 1) (return (vtr 2)))"},
	{"go.unknown-tag", "err-control", "(tagbody (vtr 1) (go 9) 7 (vtr 2))"},
	{"go.outside-tagbody", "err-control", "(vtr 1) (go 7)"},
	{"defun.implicit-block", "ret-from", "(defun c07ib# (vz) (vtr 1) (return-from c07ib# (vtr vz)) (vtr 2)) (c07ib# 5)"},
	{"loop.implicit-nil-block", "ret-nil", "(block vb (dolist (vx (quote (1 2 3))) (vtr vx) (if (= vx 2) (return (vtr 9)))) (vtr 5))"},
	// re-entry: the form that produced an exit is evaluated again (recursion from a cleanup form) while the exit
	// is still on its way to its target; every function is called more than once (slip compiles a body lazily and
	// shares the compiled forms between activations only after the first complete call)
	{"reentry.cleanup-recursion.defun-block", "ret-from", "(defun c07re# (vn) (unwind-protect (return-from c07re# (vtr vn)) (if (> vn 0) (c07re# (- vn 1))))) (vtr (list (c07re# 1) (c07re# 2) (c07re# 2)))"},
	{"reentry.cleanup-recursion.inner-block", "ret-from", "(defun c07re# (vn) (block vb (unwind-protect (return-from vb (vtr vn)) (if (> vn 0) (c07re# (- vn 1)))) (vtr 99))) (vtr (list (c07re# 1) (c07re# 2) (c07re# 2)))"},
	{"reentry.cleanup-recursion.let", "ret-from", "(defun c07re# (vn) (let ((va (* vn 10))) (unwind-protect (return-from c07re# (vtr (+ va vn))) (if (> vn 0) (c07re# (- vn 1))) (vtr va)))) (vtr (list (c07re# 1) (c07re# 2) (c07re# 2)))"},
	{"reentry.cleanup-recursion.dolist-return", "ret-nil", "(defun c07re# (vn) (dolist (vx (quote (1 2))) (unwind-protect (return (vtr (+ vn vx))) (if (> vn 0) (c07re# (- vn 1)))))) (vtr (list (c07re# 1) (c07re# 2) (c07re# 2)))"},
	{"reentry.cleanup-recursion.dotimes-return", "ret-nil", "(defun c07re# (vn) (dotimes (vi 2) (unwind-protect (return (vtr (+ vn vi))) (if (> vn 0) (c07re# (- vn 1)))))) (vtr (list (c07re# 1) (c07re# 2) (c07re# 2)))"},
	{"reentry.cleanup-recursion.do-return", "ret-nil", "(defun c07re# (vn) (do ((vi 0 (+ vi 1))) ((>= vi 2) 77) (unwind-protect (return (vtr (+ vn vi))) (if (> vn 0) (c07re# (- vn 1)))))) (vtr (list (c07re# 1) (c07re# 2) (c07re# 2)))"},
	{"reentry.cleanup-recursion.nested-cleanups", "ret-from", "(defun c07re# (vn) (unwind-protect (unwind-protect (return-from c07re# (vtr vn)) (vtr (+ vn 100))) (if (> vn 0) (c07re# (- vn 1))) (vtr (+ vn 200)))) (vtr (list (c07re# 1) (c07re# 2) (c07re# 2)))"},
	{"reentry.cleanup-recursion.multiple-values", "ret-from", "(defun c07re# (vn) (unwind-protect (return-from c07re# (values (vtr vn) (vtr (+ vn 10)))) (if (> vn 0) (c07re# (- vn 1))))) (vtr (list (multiple-value-list (c07re# 1)) (multiple-value-list (c07re# 2)) (multiple-value-list (c07re# 2))))"},
	{"reentry.cleanup-recursion.go", "go-fwd", "(defun c07re# (vn) (let ((vr 0)) (tagbody (unwind-protect (go 7) (if (> vn 0) (c07re# (- vn 1)))) (vtr 98) 7 (setq vr (vtr vn))) vr)) (vtr (list (c07re# 1) (c07re# 2) (c07re# 2)))"},
	{"reentry.cleanup-recursion.error", "err-caught", "(defun c07re# (vn) (unwind-protect (car (vtr vn)) (if (> vn 0) (ignore-errors (c07re# (- vn 1)))) (vtr (+ vn 100)))) (vtr (multiple-value-list (ignore-errors (c07re# 1)))) (vtr (multiple-value-list (ignore-errors (c07re# 2))))"},
	{"reentry.lambda-recursion", "ret-from", "(defun c07re# (vn vf) (block vb (unwind-protect (return-from vb (vtr vn)) (if (> vn 0) (funcall vf (- vn 1) vf))))) (vtr (list (c07re# 1 (function c07re#)) (c07re# 2 (function c07re#)) (c07re# 2 (function c07re#))))"},
	{"reentry.mapcar-same-form", "ret-from", "(defun c07re# (vn) (block vb (vtr 0) (return-from vb (vtr vn)) (vtr 99))) (vtr (mapcar (function c07re#) (quote (1 2 3)))) (vtr (mapcar (function c07re#) (quote (4 5))))"},
	{"reentry.value-form-recursion", "ret-from", "(defun c07re# (vn) (if (< vn 1) 0 (return-from c07re# (+ (vtr vn) (c07re# (- vn 1)))))) (vtr (list (c07re# 2) (c07re# 3)))"},
	// multiple values carried by an exit
	{"mv.return-from", "ret-from", "(multiple-value-list (block vb (vtr 1) (return-from vb (values (vtr 2) (vtr 3))) (vtr 4)))"},
	{"mv.return-from-through-let", "ret-from", "(multiple-value-list (block vb (vtr 1) (let ((va 1)) (return-from vb (values (vtr 2) (vtr 3)))) (vtr 4)))"},
	{"mv.return-from-through-unwind-protect", "ret-from", "(multiple-value-list (block vb (unwind-protect (return-from vb (values (vtr 2) (vtr 3))) (vtr 4))))"},
	{"mv.return-nil-block-dolist", "ret-nil", "(multiple-value-list (dolist (vx (quote (1 2))) (vtr vx) (return (values (vtr 2) (vtr 3)))))"},
	{"mv.return-from-defun", "ret-from", "(defun c07mv# (vz) (return-from c07mv# (values (vtr vz) (vtr 3))) (vtr 4)) (multiple-value-bind (va vb) (c07mv# 2) (vtr (list va vb)))"},
	{"mv.return-from-no-values", "ret-from", "(multiple-value-list (block vb (return-from vb (values))))"},
	{"mv.block-normal-last", "normal", "(multiple-value-list (block vb (vtr 1) (values (vtr 2) (vtr 3))))"},
	{"mv.unwind-protect-normal", "normal", "(multiple-value-list (unwind-protect (values (vtr 2) (vtr 3)) (vtr 4)))"},
	// recover / with-open-file beyond the product cells
	{"recover.no-error", "normal", "(recover vr (vtr 93) (vtr 1) (vtr 2))"},
	{"recover.no-forms", "normal", "(recover vr (vtr 93))"},
	{"recover.symbol-bound", "err-type", "(recover vr (vtr (if vr 1 2)) (vtr 1) (car (vtr 5)) (vtr 2))"},
	{"recover.symbol-scope", "err-type", "(let ((vr 7)) (list (recover vr (vtr 3) (car (vtr 5))) (vtr vr)))"},
	{"recover.error-in-on-recover", "err-type", "(recover vr (/ (vtr 1) 0) (car (vtr 5)))"},
	{"recover.nested-inner-first", "err-type", "(recover vr (vtr 1) (recover vq (vtr 2) (car (vtr 5))) (vtr 3))"},
	{"recover.cleanup-before-handler", "err-type", "(recover vr (vtr 3) (unwind-protect (car (vtr 5)) (vtr 2)))"},
	{"recover.mutex-released", "err-type", "(recover vr (vtr (vheld vmx0)) (with-mutex-lock vmx0 (vtr (vheld vmx0)) (car (vtr 5))))"},
	{"recover.class.division-by-zero", "err-type", "(recover vr (vtr 3) (/ (vtr 1) 0))"},
	{"recover.class.error", "err-error", "(recover vr (vtr 3) (error \"boom\"))"},
	{"with-open-file.closed-after-normal", "normal", "(with-open-file (vs \"/dev/null\") (setq vgf# vs) (vtr (vopen vs))) (vtr (vopen vgf#))"},
	{"with-open-file.closed-after-error", "err-caught", "(ignore-errors (with-open-file (vs \"/dev/null\") (setq vgf# vs) (car (vtr 5)))) (vtr (vopen vgf#))"},
	{"with-open-file.closed-after-error", "err-type", "(recover vr (vtr 3) (with-open-file (vs \"/dev/null\") (setq vgf# vs) (car (vtr 5)))) (vtr (vopen vgf#))"},
	{"with-open-file.closed-after-return-from", "ret-from", "(block vb (with-open-file (vs \"/dev/null\") (setq vgf# vs) (return-from vb (vtr 5)))) (vtr (vopen vgf#))"},
	{"with-open-file.closed-after-return-through-let", "ret-from", "(block vb (with-open-file (vs \"/dev/null\") (setq vgf# vs) (let ((va 1)) (return-from vb (vtr 5))))) (vtr (vopen vgf#))"},
	{"with-open-file.nested", "err-caught", "(ignore-errors (with-open-file (vs \"/dev/null\") (setq vgf# vs) (with-open-file (vt \"/dev/null\") (setq vgh# vt) (vtr (list (vopen vs) (vopen vt))) (car (vtr 5))))) (vtr (list (vopen vgf#) (vopen vgh#)))"},
	{"with-open-file.path-exit", "ret-from", "(block vb (vtr 1) (with-open-file (vs (return-from vb (vtr 5))) (vtr 91)) (vtr 2))"},
	{"with-open-file.path-exit", "err-type", "(vtr 1) (with-open-file (vs (car (vtr 5))) (vtr 91)) (vtr 2)"},
	{"with-open-file.variable-scope", "normal", "(let ((vs 7)) (with-open-file (vs \"/dev/null\") (vtr (vopen vs))) (vtr vs))"},
	{"with-open-file.options-evaluated-in-order", "normal", "(with-open-file (vs (vtr \"/dev/null\") (vtr :direction) (vtr :input)) (vtr (vopen vs)))"},
	{"with-open-file.multiple-values-of-body", "normal", "(multiple-value-list (with-open-file (vs \"/dev/null\") (values (vtr 1) (vtr 2))))"},
	// the body closed the stream (or it was a probe): every condition class surfaces unchanged, through enclosing
	// cleanups, ignore-errors and recover; the value of a normally left body is the value of the form
	{"with-open-file.closed-in-body.class", "err-type", "(with-open-file (vs \"/dev/null\") (vtr (close vs)) (/ (vtr 1) 0))"},
	{"with-open-file.closed-in-body.class", "err-type", "(with-open-file (vs \"/dev/null\") (vtr (close vs)) (vtr vunboundvar))"},
	{"with-open-file.closed-in-body.class", "err-type", "(with-open-file (vs \"/dev/null\") (vtr (close vs)) (vundefinedfn))"},
	{"with-open-file.closed-in-body.class", "err-error", "(with-open-file (vs \"/dev/null\" :direction :probe) (vtr (vopen vs)) (error \"boom\"))"},
	{"with-open-file.closed-in-body.unwound", "err-type", "(unwind-protect (with-open-file (vs \"/dev/null\") (setq vgf# vs) (unwind-protect (progn (vtr (close vs)) (/ (vtr 1) 0)) (vtr 2))) (vtr (vopen vgf#)))"},
	{"with-open-file.closed-in-body.recovered", "err-type", "(recover vr (vtr 3) (with-open-file (vs \"/dev/null\") (vtr (close vs)) (car (vtr 5))))"},
	{"with-open-file.closed-in-body.caught", "err-caught", "(multiple-value-list (ignore-errors (with-open-file (vs \"/dev/null\" :direction :probe) (/ (vtr 1) 0))))"},
	{"with-open-file.closed-in-body.nested", "err-type", "(with-open-file (vs \"/dev/null\") (setq vgf# vs) (with-open-file (vt \"/dev/null\") (vtr (close vt)) (vtr (list (vopen vs) (vopen vt))) (car (vtr 5))))"},
	{"with-open-file.closed-in-body.value", "normal", "(vtr (with-open-file (vs \"/dev/null\") (vtr (close vs)) (vtr (close vs)) (vtr 7))) (vtr (with-open-file (vs \"/dev/null\" :direction :probe) (vtr (vopen vs)) 8))"},
	{"with-open-file.closed-in-body.closure", "err-type", "(with-open-file (vs \"/dev/null\") (funcall (lambda () (vtr (close vs)))) (dolist (vx (quote (1))) (car (vtr vx))))"},
	{"error.class.division-by-zero", "err-type", "(vtr 1) (/ (vtr 1) 0)"},
	{"error.class.unbound-variable", "err-type", "(vtr 1) (vtr vunboundvar)"},
	{"error.class.undefined-function", "err-type", "(vtr 1) (vundefinedfn)"},
	{"error.class.unwound", "err-type", "(unwind-protect (let ((va 1)) (dolist (vx (quote (1))) (/ vx 0))) (vtr 2))"},
}

func c07SweepCases() []evCase {
	var out []evCase
	n := 0
	for _, cx := range c07Ctx {
		for _, ex := range c07Exits {
			n++
			uniq := fmt.Sprintf("%d", n)
			hole := ex.hole
			tmpl := cx.tmpl
			if strings.Contains(tmpl, "@L") {
				if ex.holeL != "" {
					hole = ex.holeL
				}
				tmpl = strings.Replace(tmpl, "@L", "@", 1)
			}
			body := strings.Replace(tmpl, "@", hole, 1)
			prog := strings.Replace(ex.outer, "%", body, 1)
			if cx.prelude != "" {
				pre := strings.Replace(cx.prelude, "@", hole, 1)
				if strings.Contains(cx.prelude, "@") {
					// the hole is inside the function body: the outer program surrounds the call
					prog = strings.Replace(ex.outer, "%", cx.tmpl, 1)
				}
				prog = pre + " " + prog
			}
			if post := c07Post[cx.name]; post != "" {
				prog += " " + post
			}
			prog = strings.ReplaceAll(prog, "#", uniq)
			out = append(out, evNewCase(prog, cx.name, ex.name, "sweep"))
		}
	}
	for _, x := range c07Extra {
		n++
		out = append(out, evNewCase(strings.ReplaceAll(x.prog, "#", fmt.Sprintf("%d", n)), x.name, x.exit, "sweep"))
	}
	return out
}

var c07Relies = []string{
	"SlipVerif.Theorems.C07",
}

func runC07(c *lib.Ctx) {
	if c.Replay != "" {
		evReplay(c, c07Relies)
		return
	}
	known := map[string]bool{}
	for _, cx := range c07Ctx {
		known[cx.name] = true
	}
	for _, x := range c07Extra {
		known[x.name] = true
	}
	unknown := map[string]int{}
	avoid := func(cell, exit string) bool {
		if exit == "c01" { // a construct listed as a C01 finding
			return c.Findings.Listed("C01", "cell="+cell+" ")
		}
		if !known[cell] {
			unknown[cell]++
			return true
		}
		return c.Findings.Listed("C07", "cell="+cell+" exit="+exit+" ")
	}
	sweep := c07SweepCases()
	evRun(c, sweep, c.Scale(15000, 150000), true, avoid, c07Relies)
	keys := make([]string, 0, len(unknown))
	for k := range unknown {
		keys = append(keys, k)
	}
	sort.Strings(keys)
	c.Ev.Coverage["generator_cells_without_sweep_cell"] = keys
	c.Ev.Coverage["rule"] = "cases = programs; sweep = every (intervening form, position) context x exit kind with one intervening form (exhaustive, seed independent) + extra single cells; composite = typed generator with control forms, exits only through sweep cells that pass; compared: outcome kind, printed primary value or condition class, ordered trace, final lock states; non-trivial = nesting >= 2, trace length >= 2, no generator-induced type error; distinct by program text"
}
