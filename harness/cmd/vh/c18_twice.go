package main

// C18 — the twice family: state surviving between parse calls. The same text is parsed twice
// (same entry point, or two different ones), the first bag is edited at depth 1, 2 or 3 (set,
// remove, modify), then the second bag and a THIRD parse of the same text are looked at: both
// must still hold the document the text denotes. No model in the loop: the relation is "a bag
// equals its own source", against parsers that cache, pool or share what they return.

import (
	"fmt"
	"os"
	"path/filepath"
	"strings"

	"github.com/ohler55/slip"
	"github.com/ohler55/slip/pkg/flavors"
	"verif/harness/lib"
)

var c18TwiceEntries = []string{"make-bag", "make-bag-octets", "init-parse", "send-parse", "bag-parse", "bag-parse-octets", "bag-parse-path",
	"bag-read", "send-read", "init-read", "load-bag", "json-parse", "json-parse-strict", "json-parse-channel", "each-bag", "discover-json"}

// parseVia parses text through an entry point and returns the bag that holds the document.
func (r *c18Run) parseVia(entry, text string) (*flavors.Instance, lib.Outcome) {
	b := map[string]slip.Object{"c18-text": slip.String(text), "c18-oct": slip.Octets([]byte(text))}
	var src string
	switch entry {
	case "make-bag":
		src = "(make-bag c18-text)"
	case "make-bag-octets":
		src = "(make-bag c18-oct)"
	case "init-parse":
		src = "(make-instance 'bag-flavor :parse c18-text)"
	case "send-parse":
		src = "(send (make-instance 'bag-flavor) :parse c18-text)"
	case "bag-parse":
		src = "(bag-parse (make-instance 'bag-flavor) c18-text)"
	case "bag-parse-octets":
		src = "(bag-parse (make-instance 'bag-flavor) c18-oct)"
	case "bag-parse-path":
		src = "(bag-get (bag-parse (make-bag \"{q:1}\") c18-text \"p\") \"p\" t)"
	case "bag-read":
		src = "(bag-read (make-instance 'bag-flavor) (make-string-input-stream c18-text))"
	case "send-read":
		src = "(send (make-instance 'bag-flavor) :read (make-string-input-stream c18-text))"
	case "init-read":
		src = "(make-instance 'bag-flavor :read (make-string-input-stream c18-text))"
	case "load-bag":
		path := filepath.Join(r.c.OutDir, fmt.Sprintf("c18-twice-%d.sen", r.total))
		_ = os.WriteFile(path, []byte(text), 0o644)
		defer os.Remove(path)
		b["c18-file"] = slip.String(path)
		src = "(load-bag c18-file)"
	case "json-parse":
		src = "(let ((c18-acc nil)) (json-parse (lambda (b) (setq c18-acc b)) c18-text) c18-acc)"
	case "json-parse-strict":
		src = "(let ((c18-acc nil)) (json-parse (lambda (b) (setq c18-acc b)) c18-oct t) c18-acc)"
	case "json-parse-channel":
		src = "(let ((c18-ch (make-channel 4))) (json-parse c18-ch c18-text) (channel-pop c18-ch))"
	case "each-bag":
		src = "(let ((c18-acc nil)) (each-bag (make-string-input-stream c18-text) (lambda (b) (setq c18-acc b))) c18-acc)"
	default:
		src = "(let ((c18-acc nil)) (discover-json (lambda (b) (setq c18-acc b)) c18-text) c18-acc)"
	}
	o := r.impl.eval(src, b)
	if !o.Ok {
		return nil, o
	}
	inst, ok := o.Value.(*flavors.Instance)
	if !ok {
		o.Ok = false
		o.Class = "not-a-bag"
		o.Msg = slip.ObjectString(o.Value)
		return nil, o
	}
	return inst, o
}

func (r *c18Run) sweepTwice() []*c18Case {
	k := func(s string) pstep { return pstep{kind: 'k', key: s} }
	x := func(i int) pstep { return pstep{kind: 'x', idx: i} }
	pa := func(s ...pstep) string { return strings.Join(ppath(s).wire(), " ") }
	type td struct {
		doc   *jv
		paths []string // an edit at depth 1, 2, 3
	}
	long := jStr("a string that makes the text of this document longer than any small-text limit could be")
	docs := []td{
		{jObj("a", jObj("b", jObj("c", jInt(1), "d", jInt(2)), "e", jInt(3)), "f", jInt(4)), []string{pa(k("f")), pa(k("a"), k("e")), pa(k("a"), k("b"), k("c"))}},
		{jArr(jArr(jArr(jInt(1), jInt(2)), jInt(3)), jInt(4)), []string{pa(x(1)), pa(x(0), x(1)), pa(x(0), x(0), x(1))}},
		{jObj("a", jArr(jObj("b", jInt(1), "c", jInt(2)), jInt(3)), "d", jInt(4)), []string{pa(k("d")), pa(k("a"), x(1)), pa(k("a"), x(0), k("b"))}},
		{jArr(jObj("a", jArr(jInt(1), jInt(2)), "b", jInt(3)), jInt(4)), []string{pa(x(1)), pa(x(0), k("b")), pa(x(0), k("a"), x(0))}},
		{jObj("a", jObj("b", jObj("c", jInt(1), "d", jInt(2)), "e", jInt(3)), "f", long), []string{pa(k("f")), pa(k("a"), k("e")), pa(k("a"), k("b"), k("c"))}},
		// neighbouring arrays of different lengths: a removed element makes the reported difference an
		// index that exists on one side only (bag-compare with that index ignored: see c18_compare.go)
		{jArr(jArr(jInt(1)), jArr(jInt(1), jInt(2)), jArr(jArr(jInt(1)), jArr(jInt(1), jInt(2)), jArr(jArr(jInt(7)), jArr(jInt(7), jInt(8))))),
			[]string{pa(x(0)), pa(x(2), x(0)), pa(x(2), x(2), x(0))}},
	}
	var out []*c18Case
	for di, d := range docs {
		for ei, e := range c18TwiceEntries {
			for depth, p := range d.paths {
				for oi, op := range []c18Op{{Op: "S", Path: p, Value: "i99"}, {Op: "R", Path: p}, {Op: "S", Path: p, Value: "[ s6e6577 ]"}} {
					cs := &c18Case{Family: "twice", Doc: w(d.doc), Entry: e, Sweep: true, Cell: fmt.Sprintf("depth-%d", depth+1), Ops: []c18Op{op},
						Layout: []string{"c", "i2"}[(di+ei)%2], Via: (di + ei + depth + oi) % 2}
					out = append(out, cs)
				}
			}
		}
	}
	return out
}

func (r *c18Run) randomTwiceCase() *c18Case {
	g := r.g
	doc := g.tameDoc(2 + g.r.Intn(3))
	cs := &c18Case{Family: "twice", Doc: strings.Join(doc.wire(), " "), Entry: c18TwiceEntries[g.r.Intn(len(c18TwiceEntries))], Via: g.r.Intn(2),
		Layout: []string{"c", "i2"}[g.r.Intn(2)]}
	p := g.definitePath(doc.toAnyTree(), 3)
	if len(p) == 0 {
		p = ppath{{kind: 'k', key: "zz"}}
	}
	cs.Cell = fmt.Sprintf("depth-%d", len(p))
	pw := strings.Join(p.wire(), " ")
	switch g.r.Intn(3) {
	case 0:
		cs.Ops = []c18Op{{Op: "S", Path: pw, Value: "i99"}}
	case 1:
		cs.Ops = []c18Op{{Op: "R", Path: pw}}
	default:
		cs.Ops = []c18Op{{Op: "S", Path: pw, Value: "{ k6e [ i1 ] }"}}
	}
	return cs
}

func (r *c18Run) runTwice(cases []*c18Case) {
	for _, cs := range cases {
		doc := parseDoc(cs.Doc)
		if doc == nil || len(cs.Ops) != 1 {
			fmt.Println("C18 harness bug: twice case", cs.Doc)
			continue
		}
		text := doc.text()
		if cs.Layout == "i2" {
			text = indentJSON(text)
		}
		r.c.Ev.Case("twice "+cs.Entry+cs.Doc+cs.Ops[0].Path+cs.Ops[0].Op+cs.Layout, true)
		r.c.Ev.Hist("family", "twice")
		r.c.Ev.Hist("twice_entry", cs.Entry)
		r.c.Ev.Hist("twice_edit_depth", cs.Cell)
		if len(text) <= 48 {
			r.c.Ev.Hist("twice_text", "short")
		} else {
			r.c.Ev.Hist("twice_text", "long")
		}
		second := cs.Entry
		if cs.Via == 1 {
			// the second and third parse go through another entry point
			for i, e := range c18TwiceEntries {
				if e == cs.Entry {
					second = c18TwiceEntries[(i+5)%len(c18TwiceEntries)]
				}
			}
		}
		want := canonAny(doc.toAnyTree())
		b1, o1 := r.parseVia(cs.Entry, text)
		b2, o2 := r.parseVia(second, text)
		if !o1.Ok || !o2.Ok {
			r.check(cs, false, c18Diff{sig: sig("parse-twice", cs.Entry, cs.Cell, "condition"), observed: "err " + o1.Class + o1.Msg + " / " + o2.Class + o2.Msg,
				expected: "two bags", from: "property statement"})
			continue
		}
		if canonAny(b1.Any) != want || canonAny(b2.Any) != want {
			r.check(cs, false, c18Diff{sig: sig("parse-twice", cs.Entry, cs.Cell, "wrong-document"), observed: canonAny(b1.Any) + " / " + canonAny(b2.Any),
				expected: want, from: "impl:bag=source"})
			continue
		}
		// edit the first
		op := cs.Ops[0]
		p := parsePath(op.Path)
		binds := map[string]slip.Object{"c18-b": b1, "c18-p": pathObject(p, true, true)}
		var eo lib.Outcome
		if op.Op == "R" {
			eo = r.impl.eval("(bag-remove c18-b c18-p)", binds)
		} else {
			v := parseDoc(op.Value)
			vb, _ := r.impl.makeBag(v.text(), 0)
			binds["c18-v"] = vb
			eo = r.impl.eval("(bag-set c18-b c18-v c18-p)", binds)
		}
		if !eo.Ok {
			continue // the edit itself is the ops family's business
		}
		changed := canonAny(b1.Any) != want
		r.c.Ev.Hist("twice_edit_changed_first", fmt.Sprint(changed))
		// bag-compare of the edited and the untouched bag: nil when the edit changed nothing; a path it
		// reports leads to nodes that really differ (soundness of the difference it names; that it
		// finds every difference is not demanded: ojg treats a null member and a missing one alike)
		co := r.impl.eval("(bag-compare c18-b c18-o)", map[string]slip.Object{"c18-b": b1, "c18-o": b2})
		if co.Ok {
			if !changed {
				r.check(cs, co.Value == nil, c18Diff{sig: sig("compare", cs.Entry, cs.Cell, "differs-for-equal-bags"),
					observed: slip.ObjectString(co.Value), expected: "nil", from: "impl:compare-vs-trees"})
			} else if l, isList := co.Value.(slip.List); isList {
				var cp ppath
				for _, e := range l {
					switch te := e.(type) {
					case slip.String:
						cp = append(cp, pstep{kind: 'k', key: string(te)})
					case slip.Fixnum:
						cp = append(cp, pstep{kind: 'x', idx: int(te)})
					}
				}
				n1, n2 := treeAt(b1.Any, cp), treeAt(b2.Any, cp)
				r.check(cs, n1 != n2, c18Diff{sig: sig("compare", cs.Entry, cs.Cell, "path-does-not-differ"),
					observed: fmt.Sprintf("(bag-compare edited untouched) => %s where both hold %s", slip.ObjectString(co.Value), n1), expected: "a path to a difference", from: "impl:compare-vs-trees"})
				r.c.Ev.Hist("compare_result", "path")
				if n1 != n2 {
					r.checkCompareIgnores(cs, b1, b2, cp, len(cs.Doc)+len(cs.Entry)+len(cs.Layout)+cs.Via+len(cp), cs.Entry, cs.Cell)
				}
			} else {
				r.c.Ev.Hist("compare_result", "nil-for-different-bags")
			}
		}
		// the second bag is untouched
		r.check(cs, canonAny(b2.Any) == want, c18Diff{sig: sig("parse-twice", cs.Entry, cs.Cell, "second-bag-changed"),
			observed: fmt.Sprintf("after editing the first bag at %s the second (%s) holds %s", p.show(), second, canonAny(b2.Any)), expected: want, from: "impl:bag=source"})
		// a third parse of the same text gives the document again
		b3, o3 := r.parseVia(second, text)
		got3 := "err " + o3.Class + " " + o3.Msg
		if o3.Ok {
			got3 = canonAny(b3.Any)
		}
		r.check(cs, got3 == want, c18Diff{sig: sig("parse-twice", cs.Entry, cs.Cell, "third-parse-differs"),
			observed: fmt.Sprintf("after editing the first bag at %s a new parse (%s) of the same text holds %s", p.show(), second, got3), expected: want, from: "impl:bag=source"})
		// … and editing the third does not reach the second either
		if o3.Ok {
			binds["c18-b"] = b3
			if op.Op == "R" {
				r.impl.eval("(bag-remove c18-b c18-p)", binds)
			} else {
				r.impl.eval("(bag-set c18-b c18-v c18-p)", binds)
			}
			r.check(cs, canonAny(b2.Any) == want, c18Diff{sig: sig("parse-twice", cs.Entry, cs.Cell, "second-bag-changed"),
				observed: fmt.Sprintf("after editing the third bag at %s the second (%s) holds %s", p.show(), second, canonAny(b2.Any)), expected: want, from: "impl:bag=source"})
		}
	}
}

func indentJSON(t string) string {
	var sb strings.Builder
	depth := 0
	inStr := false
	for i := 0; i < len(t); i++ {
		c := t[i]
		if inStr {
			sb.WriteByte(c)
			if c == '\\' && i+1 < len(t) {
				i++
				sb.WriteByte(t[i])
			} else if c == '"' {
				inStr = false
			}
			continue
		}
		switch c {
		case '"':
			inStr = true
			sb.WriteByte(c)
		case '{', '[':
			sb.WriteByte(c)
			if i+1 < len(t) && (t[i+1] == '}' || t[i+1] == ']') {
				continue
			}
			depth++
			sb.WriteString("\n" + strings.Repeat("  ", depth))
		case '}', ']':
			if i > 0 && (t[i-1] == '{' || t[i-1] == '[') {
				sb.WriteByte(c)
				continue
			}
			depth--
			sb.WriteString("\n" + strings.Repeat("  ", depth))
			sb.WriteByte(c)
		case ',':
			sb.WriteString(",\n" + strings.Repeat("  ", depth))
		case ':':
			sb.WriteString(": ")
		default:
			sb.WriteByte(c)
		}
	}
	return sb.String()
}

// treeAt: the canonical form of the node a definite path selects ("absent" when there is none).
func treeAt(root any, p ppath) string {
	cur := root
	for _, s := range p {
		switch s.kind {
		case 'k':
			m, ok := cur.(map[string]any)
			if !ok {
				return "absent"
			}
			c, has := m[s.key]
			if !has {
				return "absent"
			}
			cur = c
		case 'x':
			a, ok := cur.([]any)
			if !ok || s.idx < 0 || s.idx >= len(a) {
				return "absent"
			}
			cur = a[s.idx]
		}
	}
	return canonAny(cur)
}
