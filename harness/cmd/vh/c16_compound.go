package main

// C16, compound type specifiers: the List branch of slip.Coerce (`(integer lo hi)`, `(single-float lo hi)`,
// `(float * *)`, `(vector elem n)`, `(bit-vector n)`, `(signed-byte n)`, `(unsigned-byte n)`) and the
// two-element specifiers `(base elem)` of subtypep. typep accepts symbols only (documented), so
// "the result is of the requested type" is evaluated as: typep of the head on the implementation,
// the restriction (bounds / length / size) on the exact value of the returned object, the same type-of
// and value as the conversion to the head alone, and agreement with SlipVerif.Model.Types.coerceSpec
// ("type cspec") / specSub ("type specsub").

import (
	"fmt"
	"math"
	"os"
	"math/big"
	"sort"
	"strings"

	"github.com/ohler55/slip"
	"verif/harness/lib"
)

var c16NumericHeads = []string{"integer", "fixnum", "bignum", "float", "short-float", "single-float", "double-float", "long-float", "rational", "ratio"}

// source objects of the compound coerce sweep (evaluated afresh for every case: coerce to a vector
// specifier sets the element type of its argument)
var c16CompoundSources = []string{
	"12", "-3", "0", "9007199254740993", "16777217", "18446744073709551617", "1/2", "25/2", "12.0d0", "12.5d0", "12.0s0", "0.1s0",
	"9007199254740992.0d0", "12.0L0", `#\a`, "(coerce 12 'octet)", "(coerce 12 'signed-byte)", "(coerce 200 'unsigned-byte)", "(coerce 1 'bit)",
}

type c16Bound struct {
	obj  slip.Object // nil: the bound is absent; Symbol("*"): star
	rat  *big.Rat    // exact value when a number
	kind string      // "-", "*", or the number kind
}

func c16BoundOf(o slip.Object) c16Bound {
	if s, ok := o.(slip.Symbol); ok && s == "*" {
		return c16Bound{obj: o, kind: "*"}
	}
	return c16Bound{obj: o, rat: c16RatOf(o), kind: strings.ToLower(string(o.Hierarchy()[0]))}
}

func (b c16Bound) wire() string {
	if b.rat == nil {
		return "*"
	}
	return b.rat.Num().String() + "/" + b.rat.Denom().String()
}

// c16NumberIn returns v as an object of a representation chosen by pick among those that hold it exactly.
func c16NumberIn(v *big.Rat, pick int) slip.Object {
	var reps []slip.Object
	if v.IsInt() {
		if v.Num().IsInt64() {
			reps = append(reps, slip.Fixnum(v.Num().Int64()))
		} else {
			reps = append(reps, (*slip.Bignum)(new(big.Int).Set(v.Num())))
		}
	} else {
		reps = append(reps, (*slip.Ratio)(new(big.Rat).Set(v)))
	}
	if f, exact := v.Float64(); exact {
		reps = append(reps, slip.DoubleFloat(f))
	}
	if f, exact := v.Float32(); exact {
		reps = append(reps, slip.SingleFloat(f))
	}
	return reps[pick%len(reps)]
}

type c16CompoundCase struct {
	src   string      // expression of the source object
	x     slip.Object // or the object itself (composite cases)
	head  string
	mods  []c16Bound // numeric heads: lo, hi (possibly fewer); sized heads: n; vector: elem, n
	sweep bool
}

func (cs c16CompoundCase) spec() slip.List {
	l := slip.List{slip.Symbol(cs.head)}
	for _, m := range cs.mods {
		l = append(l, m.obj)
	}
	return l
}

func (cs c16CompoundCase) shape() string {
	var ks []string
	for _, m := range cs.mods {
		ks = append(ks, m.kind)
	}
	return "(" + strings.Join(append([]string{cs.head}, ks...), " ") + ")"
}

// model wire term of the specifier
func (cs c16CompoundCase) modelSpec() string {
	get := func(i int) string {
		if i < len(cs.mods) {
			return cs.mods[i].wire()
		}
		return "*"
	}
	switch cs.head {
	case "vector":
		e := "*"
		if len(cs.mods) > 0 && cs.mods[0].kind != "*" {
			e = string(cs.mods[0].obj.(slip.Symbol))
		}
		n := "*"
		if len(cs.mods) > 1 && cs.mods[1].rat != nil {
			n = cs.mods[1].rat.Num().String()
		}
		return "v:" + e + ":" + n
	case "bit-vector", "signed-byte", "unsigned-byte":
		n := "*"
		if len(cs.mods) > 0 && cs.mods[0].rat != nil {
			n = cs.mods[0].rat.Num().String()
		}
		return "z:" + cs.head + ":" + n
	}
	h := cs.head
	if h == "short-float" {
		h = "single-float"
	}
	return "r:" + h + ":" + get(0) + ":" + get(1)
}

type c16ObsT struct {
	ty  string
	val *big.Rat
	n   int // length, -1 if not a sequence
}

func c16Observe(scope *slip.Scope, v slip.Object) c16ObsT {
	o := c16ObsT{ty: c16TypeOfText(scope, v), val: c16RatOf(v), n: -1}
	switch tv := v.(type) {
	case *slip.SignedByte:
		o.val = c16RatOf(tv.AsFixOrBig())
	case *slip.UnsignedByte:
		o.val = c16RatOf(tv.AsFixOrBig())
	case slip.Octet:
		o.val = new(big.Rat).SetInt64(int64(tv))
	case slip.Bit:
		o.val = new(big.Rat).SetInt64(int64(tv))
	case slip.List:
		o.n = len(tv)
	case slip.String:
		o.n = len([]rune(string(tv)))
	case *slip.BitVector:
		o.n = int(tv.Len)
	case slip.Octets:
		o.n = len(tv)
	case *slip.Vector:
		o.n = tv.Length()
	}
	return o
}

func (o c16ObsT) wire() string {
	v, l := "-", "-"
	if o.val != nil {
		v = o.val.Num().String() + "/" + o.val.Denom().String()
	}
	if o.n >= 0 {
		l = fmt.Sprint(o.n)
	}
	return o.ty + " " + v + " " + l
}

func (o c16ObsT) same(p c16ObsT) bool {
	if o.ty != p.ty || o.n != p.n || (o.val == nil) != (p.val == nil) {
		return false
	}
	return o.val == nil || o.val.Cmp(p.val) == 0
}

// c16BoundRounded: the bound is violated by the exact value v but not once the rational one of the
// two is converted to the float format of the other (how slip.LessThan compared before the exact
// comparison): lower says which bound it is.
func c16BoundRounded(v *big.Rat, vKind string, b c16Bound, lower bool) bool {
	if v == nil || b.rat == nil {
		return false
	}
	violated := (lower && v.Cmp(b.rat) < 0) || (!lower && v.Cmp(b.rat) > 0)
	vf, bf := strings.HasSuffix(vKind, "-float"), strings.HasSuffix(b.kind, "-float")
	if violated && ((vKind == "bignum" && b.kind == "ratio") || (vKind == "ratio" && b.kind == "bignum")) {
		// a bignum beyond the fixnum range and a ratio were compared as long-floats, the ratio (and in
		// one argument order the bignum too) through float64: rounded when one of these comparisons
		// does not show the violation
		shows := func(x, y *big.Rat) bool { return (lower && x.Cmp(y) < 0) || (!lower && x.Cmp(y) > 0) }
		f64 := func(r *big.Rat) *big.Rat {
			f, _ := r.Float64()
			if fr := new(big.Rat).SetFloat64(f); fr != nil {
				return fr
			}
			return r
		}
		if vKind == "bignum" {
			return !shows(v, f64(b.rat)) || !shows(f64(v), f64(b.rat))
		}
		return !shows(f64(v), b.rat) || !shows(f64(v), f64(b.rat))
	}
	if !violated || vf == bf {
		return false
	}
	fk := vKind
	if bf {
		fk = b.kind
	}
	if fk == "single-float" {
		x, _ := v.Float32()
		y, _ := b.rat.Float32()
		return x == y
	}
	x, _ := v.Float64()
	y, _ := b.rat.Float64()
	return x == y
}

func (cs c16CompoundCase) roundedBound(o c16ObsT) bool {
	for i, m := range cs.mods {
		if i < 2 && c16BoundRounded(o.val, o.ty, m, i == 0) {
			return true
		}
	}
	return false
}

// c16RunCompound evaluates one case: the conversion to the head alone, then to the specifier.
func c16RunCompound(c *lib.Ctx, cs c16CompoundCase) {
	scope := slip.NewScope()
	fresh := func() (slip.Object, bool) {
		if cs.src == "" {
			return cs.x, true
		}
		o := lib.EvalString(scope, cs.src)
		return o.Value, o.Ok
	}
	x, ok := fresh()
	if !ok {
		panic("c16 compound source " + cs.src)
	}
	srcText := cs.src
	if srcText == "" {
		srcText = slip.ObjectString(x)
	}
	spec := cs.spec()
	input := fmt.Sprintf("(coerce %s '%s)", srcText, spec.String())
	c.Ev.Case("coerce-compound "+input, true)
	c.Ev.Hist("compound_head", cs.head)
	scope.Let(slip.Symbol("x"), x)
	// short-float is an alias of single-float in coerce.go; no object is typep short-float (known
	// finding of the atomic target), so the head law is evaluated for single-float
	lawHead := cs.head
	if lawHead == "short-float" {
		lawHead = "single-float"
	}
	scope.Let(slip.Symbol("hd"), slip.Symbol(cs.head))
	scope.Let(slip.Symbol("lawhd"), slip.Symbol(lawHead))
	atomic := lib.EvalString(scope, "(coerce x hd)")
	if !cs.sweep && atomic.Ok && c.Findings.Listed("C16", "type-law=coerce-compound aspect=outside-restriction:float-rounding") && cs.roundedBound(c16Observe(scope, atomic.Value)) {
		// composite cases do not contain the construct of a listed finding
		c.Ev.Hist("compound_outcome", "avoided-listed-construct")
		return
	}
	x2, _ := fresh()
	scope.Let(slip.Symbol("x"), x2)
	scope.Let(slip.Symbol("ty"), spec)
	r := lib.EvalString(scope, "(coerce x ty)")
	xk := c16TypeOfText(scope, x)
	report := func(aspect, observed, expected, from string, rt string) {
		c.Report(fmt.Sprintf("type-law=coerce-compound type=%s kind=%s result=%s aspect=%s", cs.shape(), xk, rt, aspect), cs.sweep,
			map[string]any{"family": "compound", "src": cs.src, "input": input, "observed": observed, "expected": expected, "expected_from": from,
				"relies_on": []string{"SlipVerif.Types.coerceSpec_result_member", "SlipVerif.Types.member_implies_typep_head", "SlipVerif.Types.Gen.coerce_result_type"}})
	}
	if !r.Ok {
		if r.GoFault {
			report("go-fault", "err "+r.Class+" "+r.Msg, "an object of the type or a condition", "property statement", "-")
			return
		}
		c.Ev.Hist("compound_outcome", "condition")
		if atomic.Ok {
			// not constrained by the property (coerce may refuse); recorded only
			ao := c16Observe(scope, atomic.Value)
			if c.Model([]string{"type cspec " + cs.modelSpec() + " " + ao.wire()})[0] == "ok accept" {
				c.Ev.Hist("compound_outcome", "refused-although-member")
				if os.Getenv("C16_DUMP") != "" {
					fmt.Fprintln(os.Stderr, "refused-although-member:", input, r.Class, r.Msg)
				}
			}
		}
		return
	}
	c.Ev.Hist("compound_outcome", "value")
	ro := c16Observe(scope, r.Value)
	scope.Let(slip.Symbol("rv"), r.Value)
	// (1) typep of the head, on the implementation
	if got := c16Call(scope, "(typep rv lawhd)"); got != "t" {
		report("head-typep-"+got, fmt.Sprintf("%s of type %s; (typep result '%s) = %s", r.Text, ro.ty, cs.head, got), "a "+cs.head, "property statement", ro.ty)
		return
	}
	// (2) the restriction of the specifier holds for the returned object, and the model accepts it
	if m := c.Model([]string{"type cspec " + cs.modelSpec() + " " + ro.wire()})[0]; m != "ok accept" {
		if cs.roundedBound(ro) {
			c.Report("type-law=coerce-compound aspect=outside-restriction:float-rounding", cs.sweep,
				map[string]any{"family": "compound", "src": cs.src, "input": input, "observed": fmt.Sprintf("%s of type %s", r.Text, ro.ty), "expected": "an object within " + spec.String() + " or a condition", "expected_from": "property statement + model:type.cspec"})
			return
		}
		report("outside-restriction", fmt.Sprintf("%s of type %s", r.Text, ro.ty), "an object within "+spec.String()+" or a condition", "property statement + model:type.cspec", ro.ty)
		return
	}
	// (3) the specifier only restricts: same type-of and value as the conversion to the head alone
	if atomic.Ok {
		ao := c16Observe(scope, atomic.Value)
		if !ao.same(ro) {
			report("differs-from-head-conversion", fmt.Sprintf("%s of type %s", r.Text, ro.ty), fmt.Sprintf("%s of type %s as (coerce x '%s)", atomic.Text, ao.ty, cs.head), "model:type.cspec (coerceSpec returns the converted object)", ro.ty)
		}
	} else {
		report("value-although-head-conversion-fails", r.Text, "condition "+atomic.Class, "model:type.cspec", ro.ty)
	}
}

func c16CompoundFamily(c *lib.Ctx) {
	// own stream (a function of the seed only) so that a replay regenerates the same composite cases
	rng := lib.NewRng(c.Seed*7919 + 16)
	star := c16BoundOf(slip.Symbol("*"))
	num := func(v *big.Rat, pick int) c16Bound { return c16BoundOf(c16NumberIn(v, pick)) }
	add := func(v *big.Rat, d int64) *big.Rat { return new(big.Rat).Add(v, big.NewRat(d, 1)) }
	var cases []c16CompoundCase
	scope := slip.NewScope()
	// --- sweep: numeric heads x bound patterns around the converted value
	for si, src := range c16CompoundSources {
		for hi, head := range c16NumericHeads {
			o := lib.EvalString(scope, src)
			if !o.Ok {
				panic("c16 compound source " + src)
			}
			scope.Let(slip.Symbol("x"), o.Value)
			scope.Let(slip.Symbol("hd"), slip.Symbol(head))
			a := lib.EvalString(scope, "(coerce x hd)")
			v := big.NewRat(12, 1)
			if a.Ok {
				if av := c16Observe(scope, a.Value).val; av != nil {
					v = av
				}
			}
			p := si + hi
			pats := [][]c16Bound{
				{}, {star}, {star, star}, {num(v, p), num(v, p+1)}, {num(add(v, -1), p+1), num(add(v, 1), p+2)}, {star, num(v, p+2)}, {num(v, p), star},
				{num(add(v, 1), p), star}, {star, num(add(v, -1), p+1)}, {num(add(v, 1), p+2), num(add(v, 5), p)}, {num(add(v, -1), p)},
				{num(new(big.Rat).Add(v, big.NewRat(-1, 2)), p), num(new(big.Rat).Add(v, big.NewRat(1, 2)), p+1)},
			}
			// float bounds next to a value beyond the float precision: the nearest double/single below and above
			if f, exact := v.Float64(); !exact {
				lo, hi := f, f
				fr := new(big.Rat).SetFloat64(f)
				if fr.Cmp(v) > 0 {
					lo = nextDown64(f)
				} else {
					hi = nextUp64(f)
				}
				pats = append(pats, []c16Bound{star, c16BoundOf(slip.DoubleFloat(lo))}, []c16Bound{c16BoundOf(slip.DoubleFloat(hi)), star},
					[]c16Bound{c16BoundOf(slip.DoubleFloat(lo)), c16BoundOf(slip.DoubleFloat(hi))})
			}
			for _, mods := range pats {
				cases = append(cases, c16CompoundCase{src: src, head: head, mods: mods, sweep: true})
			}
		}
	}
	// --- sweep: sized heads
	for _, src := range []string{"0", "1", "12", "-12", "127", "128", "200", "255", "256", "-255", "-256", "65535", "65536", "18446744073709551615", "18446744073709551616", "(coerce 200 'unsigned-byte)", "(coerce -12 'signed-byte)", "(coerce '(1 0 1) 'bit-vector)"} {
		for _, head := range []string{"signed-byte", "unsigned-byte"} {
			cases = append(cases, c16CompoundCase{src: src, head: head, mods: nil, sweep: true}, c16CompoundCase{src: src, head: head, mods: []c16Bound{star}, sweep: true})
			for _, n := range []int64{1, 4, 7, 8, 16, 64} {
				cases = append(cases, c16CompoundCase{src: src, head: head, mods: []c16Bound{c16BoundOf(slip.Fixnum(n))}, sweep: true})
			}
		}
	}
	// --- sweep: vector and bit-vector specifiers
	for _, src := range []string{"'(1 2 3)", "'(1 0 1)", `"abc"`, "#(1 2)", "#()", "'abc", "(coerce '(1 0 1) 'bit-vector)", "(coerce '(1 2) 'octets)", "'(a)"} {
		o := lib.EvalString(scope, src)
		n := int64(c16Observe(scope, o.Value).n)
		for _, e := range []slip.Object{slip.Symbol("*"), slip.TrueSymbol, slip.Symbol("fixnum"), slip.Symbol("character")} {
			eb := c16Bound{obj: e, kind: string(e.(slip.Symbol))}
			if eb.kind == "*" {
				eb = star
			}
			cases = append(cases, c16CompoundCase{src: src, head: "vector", mods: []c16Bound{eb}, sweep: true}, c16CompoundCase{src: src, head: "vector", mods: []c16Bound{eb, star}, sweep: true})
			for _, k := range []int64{n, n + 1, n - 1, 0} {
				if k >= 0 {
					cases = append(cases, c16CompoundCase{src: src, head: "vector", mods: []c16Bound{eb, c16BoundOf(slip.Fixnum(k))}, sweep: true})
				}
			}
		}
		cases = append(cases, c16CompoundCase{src: src, head: "vector", sweep: true}, c16CompoundCase{src: src, head: "bit-vector", sweep: true})
		for _, k := range []int64{n, n + 1, n - 1} {
			if k >= 0 {
				cases = append(cases, c16CompoundCase{src: src, head: "bit-vector", mods: []c16Bound{c16BoundOf(slip.Fixnum(k))}, sweep: true})
			}
		}
	}
	nSweep := len(cases)
	// --- composite: random numbers x random numeric head x random bounds
	nRandom := c.Scale(1500, 60000)
	for i := 0; i < nRandom; i++ {
		var v *big.Rat
		switch rng.Intn(5) {
		case 0:
			v = big.NewRat(int64(rng.Intn(2001)-1000), 1)
		case 1:
			v = big.NewRat(int64(rng.Intn(2001)-1000), []int64{2, 3, 4, 8, 10}[rng.Intn(5)])
		case 2:
			v = new(big.Rat).SetInt(rng.BigBits([]int{24, 25, 53, 54, 63, 64, 65, 70}[rng.Intn(8)]))
		case 3:
			// next to a power of two beyond the float precision
			n := new(big.Int).Lsh(big.NewInt(1), uint([]int{24, 53, 63, 64}[rng.Intn(4)]))
			v = new(big.Rat).SetInt(n.Add(n, big.NewInt(int64(rng.Intn(5)-2))))
		default:
			v = big.NewRat(int64(rng.Intn(1<<20))-(1<<19), 1<<uint(rng.Intn(6)))
		}
		x := c16NumberIn(v, rng.Intn(6))
		if rng.Chance(10) {
			if f, exact := v.Float64(); exact {
				x = (*slip.LongFloat)(new(big.Float).SetFloat64(f))
			}
		}
		bound := func() c16Bound {
			switch rng.Intn(6) {
			case 0:
				return star
			case 1:
				return num(v, rng.Intn(6))
			case 2:
				return num(add(v, int64(rng.Intn(7)-3)), rng.Intn(6))
			case 3:
				// the float nearest to the value (possibly on the wrong side of it)
				f, _ := v.Float64()
				if rng.Bool() {
					f32, _ := v.Float32()
					return c16BoundOf(slip.SingleFloat(f32))
				}
				return c16BoundOf(slip.DoubleFloat(f))
			default:
				return num(new(big.Rat).Add(v, big.NewRat(int64(rng.Intn(21)-10), int64(1+rng.Intn(4)))), rng.Intn(6))
			}
		}
		var mods []c16Bound
		for k := rng.Intn(3); k > 0; k-- {
			mods = append(mods, bound())
		}
		cases = append(cases, c16CompoundCase{x: x, head: c16NumericHeads[rng.Intn(len(c16NumericHeads))], mods: mods})
	}
	for _, cs := range cases {
		c16RunCompound(c, cs)
	}
	c.Ev.Coverage["compound_coerce_sweep_cases"] = nSweep
	c.Ev.Coverage["compound_coerce_random_cases"] = nRandom
	c16CompoundSubtypep(c)
}

func nextUp64(f float64) float64   { return math.Nextafter(f, math.Inf(1)) }
func nextDown64(f float64) float64 { return math.Nextafter(f, math.Inf(-1)) }

// c16CompoundSubtypep: subtypep on (base elem) specifiers over the built-in classes: total,
// reflexive, transitive, and equal to the model's specSub.
func c16CompoundSubtypep(c *lib.Ctx) {
	reply := c.Model([]string{"type classes"})[0]
	var bases []string
	for _, ent := range strings.Split(strings.TrimPrefix(reply, "ok "), ";") {
		nm, _, _ := strings.Cut(ent, ":")
		bases = append(bases, nm)
	}
	sort.Strings(bases)
	elems := []string{"", "fixnum", "integer", "number", "float", "character", "string"}
	type tspec struct{ base, elem string }
	var specs []tspec
	for _, b := range bases {
		for _, e := range elems {
			specs = append(specs, tspec{b, e})
		}
	}
	obj := func(s tspec) slip.Object {
		if s.elem == "" {
			return slip.Symbol(s.base)
		}
		return slip.List{slip.Symbol(s.base), slip.Symbol(s.elem)}
	}
	wire := func(s tspec) string {
		if s.elem == "" {
			return s.base
		}
		return s.base + "/" + s.elem
	}
	scope := slip.NewScope()
	n := len(specs)
	res := make([][]int8, n) // 1 t, 0 nil, -1 condition
	var reqs []string
	for i, a := range specs {
		res[i] = make([]int8, n)
		scope.Let(slip.Symbol("ta"), obj(a))
		for j, b := range specs {
			scope.Let(slip.Symbol("tb"), obj(b))
			o := lib.EvalString(scope, "(car (multiple-value-list (subtypep ta tb)))")
			reqs = append(reqs, "type specsub "+wire(a)+" "+wire(b))
			c.Ev.Case("subtypep-compound "+wire(a)+" "+wire(b), a.elem != "" || b.elem != "")
			switch {
			case !o.Ok:
				res[i][j] = -1
				aspect := "condition:" + o.Class
				if o.GoFault {
					aspect = "go-fault"
				}
				// one signature per (elem present?, elem present?) shape
				c.Report(fmt.Sprintf("type-law=subtypep-compound-total shape=%s aspect=%s", c16SpecShape(a.elem, b.elem), aspect), true,
					map[string]any{"family": "compound", "input": fmt.Sprintf("(subtypep '%s '%s)", slip.ObjectString(obj(a)), slip.ObjectString(obj(b))), "observed": "err " + o.Class + " " + o.Msg, "expected": "t or nil", "expected_from": "property statement"})
			case o.Value != nil:
				res[i][j] = 1
			}
		}
	}
	replies := c.Model(reqs)
	for i, a := range specs {
		for j, b := range specs {
			if res[i][j] < 0 {
				continue
			}
			want := replies[i*n+j] == "ok t"
			if (res[i][j] == 1) != want {
				c.Report(fmt.Sprintf("type-law=model-subtypep-compound type=%s kind=%s aspect=impl-%s", wire(b), wire(a), c16Bool(res[i][j] == 1)), true,
					map[string]any{"family": "compound", "input": fmt.Sprintf("(subtypep '%s '%s)", slip.ObjectString(obj(a)), slip.ObjectString(obj(b))), "observed": c16Bool(res[i][j] == 1), "expected": c16Bool(want), "expected_from": "model:type.specsub",
						"relies_on": []string{"SlipVerif.Types.Gen.specSub_trans_gen", "SlipVerif.Types.Gen.specSub_refl_gen"}})
			}
		}
		if res[i][i] == 0 {
			c.Report(fmt.Sprintf("type-law=subtypep-compound-reflexive type=%s kind=%s aspect=nil", wire(a), wire(a)), true,
				map[string]any{"family": "compound", "input": fmt.Sprintf("(subtypep '%s '%s)", slip.ObjectString(obj(a)), slip.ObjectString(obj(a))), "observed": "nil", "expected": "t", "expected_from": "property statement"})
		}
	}
	for i := range specs {
		for j := range specs {
			if res[i][j] != 1 {
				continue
			}
			for k := range specs {
				if res[j][k] == 1 && res[i][k] == 0 {
					c.Report(fmt.Sprintf("type-law=subtypep-compound-transitive type=%s kind=%s aspect=via-%s", wire(specs[k]), wire(specs[i]), wire(specs[j])), true,
						map[string]any{"family": "compound", "input": fmt.Sprintf("subtypep %s %s %s", wire(specs[i]), wire(specs[j]), wire(specs[k])), "observed": "t t nil", "expected": "transitive", "expected_from": "property statement"})
				}
			}
		}
	}
	c.Ev.Coverage["compound_subtypep_specs"] = n
}

func c16SpecShape(ea, eb string) string {
	f := func(e string) string {
		if e == "" {
			return "base"
		}
		return "(base elem)"
	}
	return f(ea) + "," + f(eb)
}
