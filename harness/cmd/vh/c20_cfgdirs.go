package main

// C20, settings over SEVERAL configuration directories in ONE process (round 4, seeded mutant C20-10).
//
// The settings family of c20_stash.go runs every session in a process of its own on one directory
// whose config.lisp only slip writes. What the process keeps between two sessions (modifiedVars,
// configFilename, the values of the variables, anything a change adds next to them) is then never
// exercised. Here a case is a sequence of events over 2–3 directories:
//
//	B d z   a session starts: [ZeroMods;] SetConfigDir(d)   (cmd/slip zeroes, (repl "dir") does not)
//	S k v   (setq k v) evaluated in the REPL scope
//	E d c   somebody else removes / recreates (header only) / replaces d/config.lisp
//	X       the process ends; the next event runs in a new process
//
// `vh C20-cfgw` is the worker: one process, it executes the events up to the next X and reports
// config.lisp of every directory after every event. The parent compares, after EVERY event, every
// directory's file with the model (`hist cfgw`, CfgProc in Model/History.lean) and — without the
// model — that after a setq in a session on d the file of d holds `(setq k v)` for that variable
// and for everything else the user saved in d (theorem settings_per_directory); when a process has
// ended, a NEW process is started on every directory and must have every saved setting (real restart).

import (
	"bytes"
	"encoding/json"
	"fmt"
	"os"
	"os/exec"
	"path/filepath"
	"sort"
	"strconv"
	"strings"
	"sync"
	"time"

	"github.com/ohler55/slip"
	"github.com/ohler55/slip/pkg/repl"
	"verif/harness/lib"
)

func init() { props["C20-cfgw"] = c20CwWorker }

const c20CfgHeader = ";;;; slip REPL configuration file. For help type: (help 'configuration)\n\n"

type c20CwEvent struct {
	Kind string       `json:"kind"` // B S E X, and C (worker only: is variable k equal to v?)
	D    int          `json:"d,omitempty"`
	Zero bool         `json:"zero,omitempty"`
	K    string       `json:"k,omitempty"`
	V    string       `json:"v,omitempty"`
	Gone bool         `json:"gone,omitempty"` // E: the file is removed
	File []c20Setting `json:"file,omitempty"` // E: the header and these setqs
}

func (e c20CwEvent) wire() string {
	switch e.Kind {
	case "B":
		z := "0"
		if e.Zero {
			z = "1"
		}
		return fmt.Sprintf("B:%d:%s", e.D, z)
	case "S":
		return "S:" + c20HexStr(e.K) + ":" + c20HexStr(e.V)
	case "E":
		if e.Gone {
			return fmt.Sprintf("E:%d:N", e.D)
		}
		s := fmt.Sprintf("E:%d:F", e.D)
		for _, kv := range e.File {
			s += "," + c20HexStr(kv.Var) + "=" + c20HexStr(kv.Lit)
		}
		return s
	}
	return "X"
}

func (e c20CwEvent) show() string {
	switch e.Kind {
	case "B":
		if e.Zero {
			return fmt.Sprintf("ZeroMods+SetConfigDir(d%d)", e.D)
		}
		return fmt.Sprintf("SetConfigDir(d%d)", e.D)
	case "S":
		return fmt.Sprintf("(setq %s %s)", e.K, e.V)
	case "E":
		if e.Gone {
			return fmt.Sprintf("rm d%d/config.lisp", e.D)
		}
		return fmt.Sprintf("d%d/config.lisp:=%s", e.D, strconv.Quote(c20CwFileText(e.File)))
	}
	return "new-process"
}

func c20CwFileText(kvs []c20Setting) string {
	s := c20CfgHeader
	for _, kv := range kvs {
		s += fmt.Sprintf("(setq %s %s)\n", kv.Var, kv.Lit)
	}
	return s
}

type c20CwSnap struct {
	Files []*string `json:"files"`
	Panic string    `json:"panic,omitempty"`
	Equal bool      `json:"equal,omitempty"`
}

// c20CwWorker: job on C20_CW_JOB (JSON: dirs, events), result as one line on stdout.
func c20CwWorker(c *lib.Ctx) {
	var job struct {
		Dirs   []string     `json:"dirs"`
		Events []c20CwEvent `json:"events"`
	}
	if err := lib.ReadJSON(os.Getenv("C20_CW_JOB"), &job); err != nil {
		fmt.Fprintln(os.Stderr, "C20-cfgw: no job:", err)
		os.Exit(2)
	}
	scope := repl.GetScope()
	var snaps []c20CwSnap
	for _, e := range job.Events {
		var sn c20CwSnap
		func() {
			defer func() {
				if r := recover(); r != nil {
					sn.Panic = fmt.Sprint(r)
				}
			}()
			switch e.Kind {
			case "B":
				if e.Zero {
					repl.ZeroMods()
				}
				repl.SetConfigDir(job.Dirs[e.D])
			case "S":
				slip.ReadString(fmt.Sprintf("(setq %s %s)", e.K, e.V), scope).Eval(scope, nil)
			case "C":
				sn.Equal = slip.ReadString(fmt.Sprintf("(equal %s %s)", e.K, e.V), scope).Eval(scope, nil) == slip.True
			case "E":
				path := filepath.Join(job.Dirs[e.D], "config.lisp")
				if e.Gone {
					_ = os.Remove(path)
				} else {
					_ = os.MkdirAll(job.Dirs[e.D], 0o755)
					_ = os.WriteFile(path, []byte(c20CwFileText(e.File)), 0o644)
				}
			}
		}()
		for _, d := range job.Dirs {
			sn.Files = append(sn.Files, c20ReadFile(filepath.Join(d, "config.lisp")))
		}
		snaps = append(snaps, sn)
	}
	b, _ := json.Marshal(snaps)
	fmt.Printf("C20CW %s\n", b)
	os.Exit(0)
}

// ---------------------------------------------------------------------------------------------
// parent side

type c20CwCase struct {
	Cell   string       `json:"cell"`
	NDirs  int          `json:"ndirs"`
	Events []c20CwEvent `json:"events"`
}

func (cs c20CwCase) request() string {
	parts := []string{"hist", "cfgw", strconv.Itoa(cs.NDirs)}
	for _, e := range cs.Events {
		parts = append(parts, e.wire())
	}
	return strings.Join(parts, " ")
}

func (cs c20CwCase) show() string {
	var parts []string
	for _, e := range cs.Events {
		parts = append(parts, e.show())
	}
	return fmt.Sprintf("%d directories: %s", cs.NDirs, strings.Join(parts, "; "))
}

func c20CwParse(req string) (c20CwCase, bool) {
	toks := strings.Fields(req)
	cs := c20CwCase{}
	if len(toks) < 3 {
		return cs, false
	}
	cs.NDirs, _ = strconv.Atoi(toks[2])
	for _, t := range toks[3:] {
		p := strings.Split(t, ":")
		switch {
		case p[0] == "B" && len(p) == 3:
			d, _ := strconv.Atoi(p[1])
			cs.Events = append(cs.Events, c20CwEvent{Kind: "B", D: d, Zero: p[2] == "1"})
		case p[0] == "S" && len(p) == 3:
			cs.Events = append(cs.Events, c20CwEvent{Kind: "S", K: c20Unhex(p[1]), V: c20Unhex(p[2])})
		case p[0] == "E" && len(p) == 3:
			d, _ := strconv.Atoi(p[1])
			e := c20CwEvent{Kind: "E", D: d, Gone: p[2] == "N"}
			if !e.Gone {
				for _, kv := range strings.Split(p[2], ",")[1:] {
					q := strings.Split(kv, "=")
					if len(q) != 2 {
						return cs, false
					}
					e.File = append(e.File, c20Setting{c20Unhex(q[0]), c20Unhex(q[1])})
				}
			}
			cs.Events = append(cs.Events, e)
		case p[0] == "X":
			cs.Events = append(cs.Events, c20CwEvent{Kind: "X"})
		default:
			return cs, false
		}
	}
	return cs, cs.NDirs > 0
}

// c20CwProcess runs one worker process; a worker that does not finish is a machinery problem
// (exit 2), never a verdict about slip.
func c20CwProcess(c *lib.Ctx, base, home string, dirs []string, events []c20CwEvent) ([]c20CwSnap, string) {
	jobPath := filepath.Join(base, "job.json")
	jb, _ := json.Marshal(map[string]any{"dirs": dirs, "events": events})
	_ = os.WriteFile(jobPath, jb, 0o644)
	self, err := os.Executable()
	if err != nil {
		self, _ = filepath.Abs(os.Args[0])
	}
	cmd := exec.Command(self, "C20-cfgw", "--root", c.Root)
	cmd.Dir = home
	cmd.Env = []string{"HOME=" + home, "PATH=" + os.Getenv("PATH"), "TERM=dumb", "C20_CW_JOB=" + jobPath}
	var out, errb bytes.Buffer
	cmd.Stdout = &out
	cmd.Stderr = &errb
	if err := cmd.Start(); err != nil {
		fmt.Fprintln(os.Stderr, "c20: cannot start the settings worker:", err)
		os.Exit(2)
	}
	done := make(chan error, 1)
	go func() { done <- cmd.Wait() }()
	select {
	case <-done:
	case <-time.After(900 * time.Second):
		_ = cmd.Process.Kill()
		<-done
		fmt.Fprintf(os.Stderr, "c20: the settings worker did not finish within 900 s (machine overloaded?): %s\n", lastLines(out.String()+errb.String(), 8))
		os.Exit(2)
	}
	for _, line := range strings.Split(out.String(), "\n") {
		if strings.HasPrefix(line, "C20CW ") {
			var res []c20CwSnap
			if json.Unmarshal([]byte(line[6:]), &res) == nil && len(res) == len(events) {
				return res, ""
			}
		}
	}
	return nil, "the process ended without finishing its events: " + lastLines(out.String()+errb.String(), 8)
}

func c20CwRunCase(c *lib.Ctx, base string, cs c20CwCase, reply string) *c20Problem {
	_ = os.RemoveAll(base)
	home := filepath.Join(base, "home")
	_ = os.MkdirAll(home, 0o755)
	dirs := make([]string, cs.NDirs)
	for i := range dirs {
		dirs[i] = filepath.Join(base, fmt.Sprintf("d%d", i))
	}
	req := cs.request()
	cell := ""
	if cs.Cell != "" {
		cell = "cell=" + cs.Cell + " "
	}
	exp := strings.Fields(reply)
	if len(exp) != len(cs.Events)+1 || exp[0] != "ok" {
		return &c20Problem{noInput: true, sig: "model-reply-cfgw", replay: map[string]any{"input": cs.show(), "request": req, "observed": reply, "expected": "ok + one disk per event"}}
	}
	exp = exp[1:]
	problem := func(sig, at, obs, want, from string, relies []string) *c20Problem {
		return &c20Problem{sig: cell + sig, replay: map[string]any{"input": cs.show(), "request": req, "at": at,
			"observed": obs, "expected": want, "expected_from": from, "relies_on": relies}}
	}
	// what the user saved in each directory: the setqs of the sessions on it and what somebody put there
	want := make([]map[string]string, cs.NDirs)
	put := make([]map[string]string, cs.NDirs) // put into the directory of the running session, not yet loaded or overwritten
	for i := range want {
		want[i] = map[string]string{}
	}
	// restart: a NEW process on every directory has every setting saved there
	restart := func(at string) *c20Problem {
		for d := range dirs {
			if len(want[d]) == 0 {
				continue
			}
			keys := make([]string, 0, len(want[d]))
			for k := range want[d] {
				keys = append(keys, k)
			}
			sort.Strings(keys)
			evs := []c20CwEvent{{Kind: "B", D: d, Zero: true}}
			for _, k := range keys {
				evs = append(evs, c20CwEvent{Kind: "C", K: k, V: want[d][k]})
			}
			before := c20ReadFile(filepath.Join(dirs[d], "config.lisp"))
			snaps, fail := c20CwProcess(c, base, home, dirs, evs)
			if fail != "" || snaps[0].Panic != "" {
				if fail == "" {
					fail = "SetConfigDir panics: " + snaps[0].Panic
				}
				return problem(fmt.Sprintf("op=cfg-start step=restart aspect=panic"), at, fmt.Sprintf("a new process on d%d: %s; config.lisp=%s", d, fail, c20ShowContent(before)),
					"the new process loads the saved settings", "property: the same saved settings", []string{"SlipVerif.History.settings_per_directory"})
			}
			for i, k := range keys {
				if !snaps[i+1].Equal {
					return problem(fmt.Sprintf("op=setq var=%s step=restart aspect=setting", k), at,
						fmt.Sprintf("a new process started on d%d does not have %s = %s; d%d/config.lisp=%s", d, k, want[d][k], d, c20ShowContent(before)),
						fmt.Sprintf("every setting saved in d%d has the value it was given (%s = %s)", d, k, want[d][k]),
						"property: the same saved settings", []string{"SlipVerif.History.settings_per_directory"})
				}
			}
		}
		return nil
	}
	i := 0
	for i < len(cs.Events) {
		j := i
		for j < len(cs.Events) && cs.Events[j].Kind != "X" {
			j++
		}
		seg := cs.Events[i:j]
		cur := -1
		if len(seg) > 0 {
			snaps, fail := c20CwProcess(c, base, home, dirs, seg)
			if fail != "" {
				return problem("op=cfg-session step=run aspect=panic", fmt.Sprintf("process of events %d..%d", i+1, j), fail, "the process performs its events", "", nil)
			}
			for n, e := range seg {
				at := fmt.Sprintf("event %d: %s", i+n+1, e.show())
				sn := snaps[n]
				if sn.Panic != "" {
					return problem("op="+map[string]string{"B": "cfg-start", "S": "setq", "E": "cfg-ext"}[e.Kind]+" step=memory aspect=panic", at, "panic: "+sn.Panic, "no panic", "", nil)
				}
				switch e.Kind {
				case "B":
					cur = e.D
					// what somebody put there while an earlier session on d was still running is loaded now
					for k, v := range put[cur] {
						want[cur][k] = v
					}
					put[cur] = nil
				case "S":
					if cur >= 0 {
						want[cur][e.K] = e.V
						put[cur] = nil // overwritten by the session
					}
				case "E":
					// a file put there while a session on that directory is running is overwritten by the
					// session's next setq (one writer at a time is an assumption of the property); a session
					// that starts on it before that loads it
					want[e.D] = map[string]string{}
					put[e.D] = nil
					for _, kv := range e.File {
						if e.D != cur {
							want[e.D][kv.Var] = kv.Lit
						} else {
							if put[e.D] == nil {
								put[e.D] = map[string]string{}
							}
							put[e.D][kv.Var] = kv.Lit
						}
					}
				}
				// the property on the text of the file, after every setq: everything saved in this directory is there, once
				if e.Kind == "S" && cur >= 0 {
					file := sn.Files[cur]
					keys := make([]string, 0, len(want[cur]))
					for k := range want[cur] {
						keys = append(keys, k)
					}
					sort.Strings(keys)
					for _, k := range keys {
						line := fmt.Sprintf("(setq %s %s)\n", k, want[cur][k])
						if file == nil || strings.Count(*file, "\n"+line) != 1 || strings.Count(*file, "(setq "+k+" ") != 1 {
							return problem(fmt.Sprintf("op=setq var=%s step=final aspect=setting", k), at,
								fmt.Sprintf("d%d/config.lisp=%s does not hold %s once", cur, c20ShowContent(file), strings.TrimSpace(line)),
								fmt.Sprintf("d%d/config.lisp holds every setting saved in d%d: %v", cur, cur, want[cur]),
								"property: the same saved settings (a file with each setq once loads these values: settings_restart)",
								[]string{"SlipVerif.History.settings_per_directory", "SlipVerif.History.settings_restart"})
						}
					}
				}
				// every directory's file against the model
				disks := strings.Split(exp[i+n], ";")
				for d := range dirs {
					var w *string
					if disks[d] != "-" {
						s := c20CfgHeader + c20Unhex(disks[d][1:])
						w = &s
					}
					if !c20Same(sn.Files[d], w) {
						return &c20Problem{noInput: true, sig: cell + "config-bytes vs=model", replay: map[string]any{"input": cs.show(), "request": req, "at": at,
							"observed": fmt.Sprintf("d%d/config.lisp=%s", d, c20ShowContent(sn.Files[d])), "expected": fmt.Sprintf("d%d/config.lisp=%s", d, c20ShowContent(w))}}
					}
				}
			}
			if p := restart(fmt.Sprintf("new processes after event %d", j)); p != nil {
				return p
			}
		}
		i = j + 1
	}
	return nil
}

// the variables of the composite cases: few variables and few values, so that two sessions often
// produce the same text
var c20CwPool = []c20Setting{
	{"*repl-match-color*", "\"bold\""}, {"*repl-match-color*", "\"\""},
	{"*repl-debug*", "t"}, {"*repl-debug*", "nil"},
	{"*repl-warning-prefix*", "\"W: \""}, {"*repl-help-box*", "nil"},
	{"*print-right-margin*", "100"}, {"*repl-eval-on-close*", "t"},
}

func c20CwCases(c *lib.Ctx, r *lib.Rng) []c20CwCase {
	B := func(d int, z bool) c20CwEvent { return c20CwEvent{Kind: "B", D: d, Zero: z} }
	S := func(kv c20Setting) c20CwEvent { return c20CwEvent{Kind: "S", K: kv.Var, V: kv.Lit} }
	gone := func(d int) c20CwEvent { return c20CwEvent{Kind: "E", D: d, Gone: true} }
	put := func(d int, kvs ...c20Setting) c20CwEvent { return c20CwEvent{Kind: "E", D: d, File: kvs} }
	X := c20CwEvent{Kind: "X"}
	a, a2, b, d := c20CwPool[0], c20CwPool[1], c20CwPool[2], c20CwPool[4]
	cases := []c20CwCase{
		{Cell: "cfgdirs/same-setq-two-dirs-zeromods", NDirs: 2, Events: []c20CwEvent{B(0, true), S(a), B(1, true), S(a)}},
		{Cell: "cfgdirs/same-setq-two-dirs-repl-call", NDirs: 2, Events: []c20CwEvent{B(0, true), S(a), B(1, false), S(a)}},
		{Cell: "cfgdirs/same-setqs-three-dirs", NDirs: 3, Events: []c20CwEvent{B(0, true), S(a), S(b), B(1, true), S(a), S(b), B(2, false), S(b), S(a)}},
		{Cell: "cfgdirs/removed-between-sessions", NDirs: 1, Events: []c20CwEvent{B(0, true), S(a), gone(0), B(0, true), S(a)}},
		{Cell: "cfgdirs/recreated-header-only", NDirs: 1, Events: []c20CwEvent{B(0, true), S(a), put(0), B(0, true), S(a)}},
		{Cell: "cfgdirs/replaced-between-sessions", NDirs: 1, Events: []c20CwEvent{B(0, true), S(a), put(0, b), B(0, true), S(a)}},
		{Cell: "cfgdirs/removed-during-session", NDirs: 1, Events: []c20CwEvent{B(0, true), S(a), gone(0), S(a)}},
		{Cell: "cfgdirs/emptied-during-session", NDirs: 1, Events: []c20CwEvent{B(0, true), S(a), S(b), put(0), S(b)}},
		{Cell: "cfgdirs/back-and-forth", NDirs: 2, Events: []c20CwEvent{B(0, true), S(a), B(1, true), S(b), B(0, true), S(a2), B(1, true), S(b), B(0, true), S(a2)}},
		{Cell: "cfgdirs/copied-directory", NDirs: 2, Events: []c20CwEvent{B(0, true), S(a), S(d), X, put(1, d, a), B(1, true), S(a), B(0, true), S(a)}},
		{Cell: "cfgdirs/loaded-then-same-setq", NDirs: 2, Events: []c20CwEvent{put(0, a), put(1, b), B(0, true), S(b), B(1, true), S(a)}},
		{Cell: "cfgdirs/replaced-after-loaded-session", NDirs: 1, Events: []c20CwEvent{put(0, a), B(0, true), S(b), put(0, d), B(0, true), S(b)}},
		{Cell: "cfgdirs/replaced-after-loaded-session-repl-call", NDirs: 2, Events: []c20CwEvent{put(0, a), B(0, true), S(b), B(1, false), put(0, d), B(0, false), S(b)}},
		{Cell: "cfgdirs/new-process-same-setq", NDirs: 2, Events: []c20CwEvent{B(0, true), S(a), X, B(1, true), S(a), X, B(0, true), S(a)}},
		{Cell: "cfgdirs/value-back-to-first", NDirs: 2, Events: []c20CwEvent{B(0, true), S(a), S(a2), B(1, true), S(a2), S(a), B(0, false), S(a)}},
	}
	for n := c.Scale(24, 200); n > 0; n-- {
		cs := c20CwCase{NDirs: 2 + r.Intn(2)}
		cs.Events = append(cs.Events, B(r.Intn(cs.NDirs), r.Intn(4) != 0))
		inSession := true
		for k := 3 + r.Intn(12); k > 0; k-- {
			switch x := r.Intn(20); {
			case x < 10 || !inSession && x < 12:
				if !inSession && r.Intn(8) != 0 {
					cs.Events = append(cs.Events, B(r.Intn(cs.NDirs), r.Intn(4) != 0))
					inSession = true
				}
				cs.Events = append(cs.Events, S(c20CwPool[r.Intn(len(c20CwPool))]))
			case x < 15:
				cs.Events = append(cs.Events, B(r.Intn(cs.NDirs), r.Intn(4) != 0))
				inSession = true
			case x < 18:
				dd := r.Intn(cs.NDirs)
				switch r.Intn(3) {
				case 0:
					cs.Events = append(cs.Events, gone(dd))
				case 1:
					cs.Events = append(cs.Events, put(dd))
				default:
					var kvs []c20Setting
					used := map[string]bool{}
					for m := 1 + r.Intn(3); m > 0; m-- {
						kv := c20CwPool[r.Intn(len(c20CwPool))]
						if !used[kv.Var] {
							used[kv.Var] = true
							kvs = append(kvs, kv)
						}
					}
					cs.Events = append(cs.Events, put(dd, kvs...))
				}
			default:
				if cs.Events[len(cs.Events)-1].Kind != "X" {
					cs.Events = append(cs.Events, X)
					inSession = false
				}
			}
		}
		cases = append(cases, cs)
	}
	return cases
}

func c20RunCfgDirs(c *lib.Ctx) (int, int) {
	base := filepath.Join(c.Root, ".work", "c20", fmt.Sprintf("cfgw-%d", os.Getpid()))
	defer os.RemoveAll(base)
	cases := c20CwCases(c, c20Rng)
	reqs := make([]string, len(cases))
	for i, cs := range cases {
		reqs[i] = cs.request()
	}
	replies := c.Model(reqs)
	problems := make([]*c20Problem, len(cases))
	var wg sync.WaitGroup
	next := make(chan int)
	for w := 0; w < 6; w++ {
		wg.Add(1)
		go func(w int) {
			defer wg.Done()
			for i := range next {
				problems[i] = c20CwRunCase(c, filepath.Join(base, fmt.Sprintf("w%d", w)), cases[i], replies[i])
			}
		}(w)
	}
	for i := range cases {
		next <- i
	}
	close(next)
	wg.Wait()
	agree := 0
	for i, cs := range cases {
		sessions := 0
		for _, e := range cs.Events {
			c.Ev.Hist("event", "cfgdirs-"+e.Kind)
			if e.Kind == "B" {
				sessions++
			}
		}
		c.Ev.Case(cs.request(), sessions > 1)
		if i == 0 || i == len(cases)-1 {
			c.Ev.Sample(map[string]string{"case": cs.show(), "cell": cs.Cell})
		}
		if p := problems[i]; p != nil {
			c20Report(c, p, cs.Cell != "" && !strings.Contains(p.sig, "vs=model"))
		} else {
			agree++
		}
	}
	return len(cases), agree
}

func c20ReplayCfgDirs(c *lib.Ctx, req string, rec map[string]any) {
	cs, ok := c20CwParse(req)
	if !ok {
		fmt.Println("replay file has no usable request")
		return
	}
	if sig, _ := rec["signature"].(string); strings.HasPrefix(sig, "cell=") {
		cs.Cell = strings.TrimPrefix(strings.Fields(sig)[0], "cell=")
	}
	base := filepath.Join(c.Root, ".work", "c20", fmt.Sprintf("replay-cfgw-%d", os.Getpid()))
	defer os.RemoveAll(base)
	reply := c.Model([]string{cs.request()})[0]
	p := c20CwRunCase(c, base, cs, reply)
	fmt.Printf("replay %s\n", cs.show())
	if p == nil {
		fmt.Println("  every directory's config.lisp holds what was saved in it; new processes have every saved setting")
		return
	}
	fmt.Printf("  signature: %s\n  at       : %v\n  observed : %v\n  expected : %v\n", p.sig, p.replay["at"], p.replay["observed"], p.replay["expected"])
	if p.noInput {
		c.ReportBroken(p.sig, p.replay)
	} else {
		c.Report(p.sig, false, p.replay)
	}
}
