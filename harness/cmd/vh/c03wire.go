package main

// C03, swank wire framing (pkg/swank/wire.go): a message is printed, sent with a 6-hex-digit
// length header, and read back by the peer. ReadWireMessage(WriteWireMessage(m)) must be Equal to m
// with the same type-of, and the header must be the payload's byte length.

import (
	"bytes"
	"fmt"
	"io"
	"strconv"
	"strings"

	"github.com/ohler55/slip"
	"github.com/ohler55/slip/pkg/swank"
	"verif/harness/lib"
)

type c3WireCase struct {
	obj   *c3Obj
	sweep bool
	cell  string
}

func c3WireStrClass(o *c3Obj) string {
	seen := map[string]bool{}
	var walk func(o *c3Obj)
	walk = func(o *c3Obj) {
		if o.kind == "str" {
			for _, f := range strings.Split(c3StrClass(o.s), "+") {
				seen[f] = true
			}
		}
		for _, e := range o.elems {
			walk(e)
		}
		if o.tail != nil {
			walk(o.tail)
		}
	}
	walk(o)
	for _, f := range []string{"quote", "backslash", "control", "blank-control", "non-ascii"} {
		if seen[f] {
			return f
		}
	}
	return "plain"
}

func c3WireRoundtrip(o *c3Obj) (aspect, payload, observed string) {
	aspect, payload, observed, _ = c3WireRoundtripH(o)
	return
}

// c3WireRoundtripH also returns the 6 header characters slip wrote.
func c3WireRoundtripH(o *c3Obj) (aspect, payload, observed, header string) {
	x := o.object()
	var buf bytes.Buffer
	var werr error
	out := lib.Protect(func() slip.Object {
		werr = swank.WriteWireMessage(&buf, x)
		return nil
	})
	if !out.Ok {
		return "write-condition:" + out.Class, "", out.Msg, ""
	}
	if werr != nil {
		return "write-error", "", werr.Error(), ""
	}
	raw := buf.Bytes()
	if len(raw) < 6 {
		return "header", string(raw), "short message", ""
	}
	n, err := strconv.ParseUint(string(raw[:6]), 16, 32)
	if err != nil || int(n) != len(raw)-6 {
		return "header", string(raw), fmt.Sprintf("header %q for a payload of %d bytes", raw[:6], len(raw)-6), string(raw[:6])
	}
	payload, header = string(raw[6:]), string(raw[:6])
	var y slip.Object
	var rerr error
	out = lib.Protect(func() slip.Object {
		y, rerr = swank.ReadWireMessage(bytes.NewReader(raw), slip.NewScope())
		return nil
	})
	if !out.Ok {
		return "read-condition:" + out.Class, payload, out.Msg, header
	}
	if rerr != nil {
		return "read-error", payload, rerr.Error(), header
	}
	if a := c3Compare(x, y); a != "" {
		return a, payload, "read back: " + slip.ObjectString(y), header
	}
	return "", payload, "", header
}

func c03Wire(c *lib.Ctx, g *c3Gen) {
	kw := func(s string) *c3Obj { return c3Sym(s) }
	var cases []c3WireCase
	add := func(o *c3Obj) {
		cases = append(cases, c3WireCase{obj: o, sweep: true, cell: "kind=wire-message class=" + c3WireStrClass(o)})
	}
	for _, s := range []string{"plain text", "say \"hi\"", "back\\slash", "two\nlines", "tab\there", "\x01", "é∑😀", ""} {
		add(c3List(kw(":return"), c3List(kw(":ok"), c3Str(s)), c3I(7)))
		add(c3List(kw(":write-string"), c3Str(s)))
	}
	add(c3List(kw(":emacs-rex"), c3List(c3Sym("swank:connection-info")), c3Str("cl-user"), c3T(), c3I(1)))
	add(c3List(kw(":return"), c3List(kw(":ok"), c3List(kw(":pid"), c3I(4242), kw(":version"), c3Str("2.27"), kw(":features"), c3Nil())), c3I(1)))
	add(c3List(kw(":return"), c3List(kw(":abort"), c3Str("error: \"x\" is not bound")), c3I(12)))
	add(c3List(kw(":ping"), c3I(1), c3I(2)))
	// characters of more than one byte outside strings: in a symbol, as a character object, in a keyword
	// (the header counts bytes, the printed text has fewer characters)
	for _, r := range []rune{0xe9, 0x3bb, 0x20ac, 0x1d122} {
		add(c3List(kw(":return"), c3List(kw(":ok"), c3Chr(r)), c3I(3)))
		add(c3List(kw(":return"), c3List(kw(":ok"), c3Sym("na"+string(r)+"ve")), c3I(4)))
		add(c3List(kw(":presentation-start"), c3Sym(":k"+string(r)), c3Str(string(r)+string(r))))
	}
	// payload lengths around the header's digit boundaries (16^3, 16^4) and the 1 MiB cap
	for _, target := range []int{4095, 4096, 4097, 65535, 65536, 65537, 1048575, 1048576} {
		n := target - 19
		var msg *c3Obj
		for try := 0; try < 4; try++ {
			msg = c3List(kw(":write-string"), c3Str(strings.Repeat("x", n)))
			_, payload, _ := c3WireRoundtrip(msg)
			if len(payload) == target || len(payload) == 0 {
				break
			}
			n += target - len(payload)
		}
		add(msg)
	}
	nRandom := c.Scale(600, 6000)
	for i := 0; i < nRandom; i++ {
		var leaf func(d int) *c3Obj
		leaf = func(d int) *c3Obj {
			r := c.Rng
			switch r.Intn(7) {
			case 0:
				return c3Sym(c3Keywords[r.Intn(len(c3Keywords))])
			case 1:
				return c3Int(r.BigBits([]int{8, 31, 64}[r.Intn(3)]))
			case 2, 3:
				return c3Str(g.randString())
			case 4:
				if r.Bool() {
					return c3T()
				}
				return c3Nil()
			case 5:
				return c3Sym(c3SymbolNames[r.Intn(len(c3SymbolNames))])
			default:
				if d <= 0 {
					return c3I(int64(r.Intn(100)))
				}
				n := 1 + r.Intn(4)
				el := make([]*c3Obj, n)
				for k := range el {
					el[k] = leaf(d - 1)
				}
				return c3List(el...)
			}
		}
		o := c3List(c3Sym(":return"), leaf(3), c3I(int64(c.Rng.Intn(1000))))
		cases = append(cases, c3WireCase{obj: o, cell: "composite kind=wire-message class=" + c3WireStrClass(o)})
	}
	ok := 0
	// K: the header the model writes for each payload length
	var reqs []string
	for _, wc := range cases {
		_, payload, _ := c3WireRoundtrip(wc.obj)
		reqs = append(reqs, fmt.Sprintf("print frame %d", len(payload)))
	}
	headers := c.Model(reqs)
	for i, wc := range cases {
		aspect, payload, observed, header := c3WireRoundtripH(wc.obj)
		if aspect == "" {
			// the case of the hexadecimal digits is not constrained by the property
			if want := strings.TrimPrefix(headers[i], "ok "); !strings.EqualFold(want, header) {
				aspect, observed = "model-header", "slip header "+header+", model header "+want
			}
		}
		c.Ev.Case("wire "+wc.obj.term(), true)
		c.Ev.Hist("kind", "wire-message")
		if aspect == "" {
			ok++
			continue
		}
		c.Report(c3Signature(wc.cell, aspect), wc.sweep, map[string]any{"term": wc.obj.term(), "wire": true, "cell": wc.cell, "sweep": wc.sweep,
			"input": "swank wire message " + wc.obj.term(), "printed": payload, "observed": observed,
			"expected": "ReadWireMessage gives back a message equal to the one written", "expected_from": "property statement (wire framing prints a message and the peer reads it back)"})
	}
	c.Ev.Coverage["wire_messages"] = len(cases)
	c.Ev.Coverage["wire_roundtrips_ok"] = ok

	// one connection: the messages written one after another and read back in order through a reader
	// that hands out a few bytes per call (a socket); a header that is off by one byte loses the framing
	// of everything that follows
	var stream bytes.Buffer
	var sent []*c3Obj
	for _, wc := range cases {
		mark := stream.Len()
		var werr error
		out := lib.Protect(func() slip.Object { werr = swank.WriteWireMessage(&stream, wc.obj.object()); return nil })
		if !out.Ok || werr != nil {
			stream.Truncate(mark) // reported above as a single message
			continue
		}
		sent = append(sent, wc.obj)
	}
	rd := &c3ChunkReader{data: stream.Bytes()}
	scope := slip.NewScope()
	streamOK := 0
	for k, o := range sent {
		var y slip.Object
		var rerr error
		out := lib.Protect(func() slip.Object { y, rerr = swank.ReadWireMessage(rd, scope); return nil })
		aspect, observed := "", ""
		switch {
		case !out.Ok:
			aspect, observed = "read-condition:"+out.Class, out.Msg
		case rerr != nil:
			aspect, observed = "read-error", rerr.Error()
		default:
			if aspect = c3Compare(o.object(), y); aspect != "" {
				observed = "read back: " + slip.ObjectString(y)
			}
		}
		if aspect != "" {
			prev := "(first message)"
			if k > 0 {
				prev = sent[k-1].term()
			}
			c.Report(c3Signature("composite kind=wire-stream", aspect), false, map[string]any{"term": o.term(), "wire": true, "previous": prev,
				"input": fmt.Sprintf("message %d of %d written on one connection: %s (after %s)", k+1, len(sent), o.term(), prev), "observed": observed,
				"expected": "every message of the stream is read back in order", "expected_from": "property statement (wire framing: header = byte length of the printed text)"})
			break // the framing is lost from here on
		}
		streamOK++
	}
	if streamOK == len(sent) && rd.pos != len(rd.data) {
		c.Report(c3Signature("composite kind=wire-stream", "bytes-left"), false, map[string]any{"wire": true, "term": "nil",
			"input": "all messages of the run on one connection", "observed": fmt.Sprintf("%d bytes not consumed", len(rd.data)-rd.pos), "expected": "the reader consumes exactly what was written"})
	}
	c.Ev.Coverage["wire_stream_messages"] = len(sent)
	c.Ev.Coverage["wire_stream_read_in_order"] = streamOK

	// the global printer settings a session may have changed (setq *print-base* 16 …): within the grid
	// documented to keep output readable the message still travels unchanged
	nGlobal, okGlobal := 0, 0
	for gi, cf := range c3WireGlobalGrid(!c.Thorough()) {
		for ci, wc := range cases {
			if !wc.sweep || len(wc.obj.term()) > 4000 || (ci+gi)%3 != 0 {
				continue
			}
			nGlobal++
			var aspect, payload, observed string
			c3WithGlobal(func(g *slip.Printer) {
				p := cf.printer()
				g.Base, g.Radix, g.Case, g.Pretty, g.RightMargin, g.Array = p.Base, p.Radix, p.Case, p.Pretty, p.RightMargin, p.Array
			}, func() { aspect, payload, observed = c3WireRoundtrip(wc.obj) })
			if aspect == "" {
				okGlobal++
				continue
			}
			c.Report(c3Signature(wc.cell+" var=global-settings", aspect), true, map[string]any{"term": wc.obj.term(), "wire": true, "wire_global": cf.asMap(), "cell": wc.cell, "sweep": true,
				"input": "swank wire message " + wc.obj.term() + " with the global printer set to " + cf.String(), "printed": payload, "observed": observed,
				"expected": "ReadWireMessage gives back a message equal to the one written", "expected_from": "property statement (every readable setting of the printer control variables)"})
		}
	}
	c.Ev.Coverage["wire_global_setting_roundtrips"] = nGlobal
	c.Ev.Coverage["wire_global_setting_roundtrips_ok"] = okGlobal
}

// c3WireGlobalGrid: readable settings of the global printer (base marked by radix, or base 10).
func c3WireGlobalGrid(quick bool) []c3Cfg {
	var out []c3Cfg
	bases := []int{10, 2, 16, 36}
	margins := []int{1, 30, 200}
	if !quick {
		bases = []int{10, 2, 3, 8, 16, 24, 30, 36}
		margins = []int{1, 7, 30, 72, 200}
	}
	for _, b := range bases {
		for _, cs := range c3Cases {
			for _, pretty := range []bool{false, true} {
				for _, m := range margins {
					if !pretty && m != margins[0] {
						continue
					}
					out = append(out, c3Cfg{base: b, radix: b != 10 || cs == "u", cs: cs, pretty: pretty, margin: m, readably: true, array: true})
				}
			}
		}
	}
	return out
}

// c3ChunkReader hands out 1..11 bytes per Read (a deterministic pattern), as a socket may.
type c3ChunkReader struct {
	data []byte
	pos  int
	n    int
}

func (r *c3ChunkReader) Read(b []byte) (int, error) {
	if r.pos >= len(r.data) {
		return 0, io.EOF
	}
	r.n++
	k := (r.n*7+3)%11 + 1
	if k > len(b) {
		k = len(b)
	}
	if k > len(r.data)-r.pos {
		k = len(r.data) - r.pos
	}
	copy(b, r.data[r.pos:r.pos+k])
	r.pos += k
	return k, nil
}
