package main

// C03, swank wire framing (pkg/swank/wire.go): a message is printed, sent with a 6-hex-digit
// length header, and read back by the peer. ReadWireMessage(WriteWireMessage(m)) must be Equal to m
// with the same type-of, and the header must be the payload's byte length.

import (
	"bytes"
	"fmt"
	"strconv"
	"strings"

	"github.com/ohler55/slip"
	"github.com/ohler55/slip/pkg/swank"
	"verif/harness/lib"
)

type c3WireCase struct {
	obj   *c3Obj
	sweep bool
	cell  string
}

func c3WireStrClass(o *c3Obj) string {
	seen := map[string]bool{}
	var walk func(o *c3Obj)
	walk = func(o *c3Obj) {
		if o.kind == "str" {
			for _, f := range strings.Split(c3StrClass(o.s), "+") {
				seen[f] = true
			}
		}
		for _, e := range o.elems {
			walk(e)
		}
		if o.tail != nil {
			walk(o.tail)
		}
	}
	walk(o)
	for _, f := range []string{"quote", "backslash", "control", "blank-control", "non-ascii"} {
		if seen[f] {
			return f
		}
	}
	return "plain"
}

func c3WireRoundtrip(o *c3Obj) (aspect, payload, observed string) {
	aspect, payload, observed, _ = c3WireRoundtripH(o)
	return
}

// c3WireRoundtripH also returns the 6 header characters slip wrote.
func c3WireRoundtripH(o *c3Obj) (aspect, payload, observed, header string) {
	x := o.object()
	var buf bytes.Buffer
	var werr error
	out := lib.Protect(func() slip.Object {
		werr = swank.WriteWireMessage(&buf, x)
		return nil
	})
	if !out.Ok {
		return "write-condition:" + out.Class, "", out.Msg, ""
	}
	if werr != nil {
		return "write-error", "", werr.Error(), ""
	}
	raw := buf.Bytes()
	if len(raw) < 6 {
		return "header", string(raw), "short message", ""
	}
	n, err := strconv.ParseUint(string(raw[:6]), 16, 32)
	if err != nil || int(n) != len(raw)-6 {
		return "header", string(raw), fmt.Sprintf("header %q for a payload of %d bytes", raw[:6], len(raw)-6), string(raw[:6])
	}
	payload, header = string(raw[6:]), string(raw[:6])
	var y slip.Object
	var rerr error
	out = lib.Protect(func() slip.Object {
		y, rerr = swank.ReadWireMessage(bytes.NewReader(raw), slip.NewScope())
		return nil
	})
	if !out.Ok {
		return "read-condition:" + out.Class, payload, out.Msg, header
	}
	if rerr != nil {
		return "read-error", payload, rerr.Error(), header
	}
	if a := c3Compare(x, y); a != "" {
		return a, payload, "read back: " + slip.ObjectString(y), header
	}
	return "", payload, "", header
}

func c03Wire(c *lib.Ctx, g *c3Gen) {
	kw := func(s string) *c3Obj { return c3Sym(s) }
	var cases []c3WireCase
	add := func(o *c3Obj) {
		cases = append(cases, c3WireCase{obj: o, sweep: true, cell: "kind=wire-message class=" + c3WireStrClass(o)})
	}
	for _, s := range []string{"plain text", "say \"hi\"", "back\\slash", "two\nlines", "tab\there", "\x01", "é∑😀", ""} {
		add(c3List(kw(":return"), c3List(kw(":ok"), c3Str(s)), c3I(7)))
		add(c3List(kw(":write-string"), c3Str(s)))
	}
	add(c3List(kw(":emacs-rex"), c3List(c3Sym("swank:connection-info")), c3Str("cl-user"), c3T(), c3I(1)))
	add(c3List(kw(":return"), c3List(kw(":ok"), c3List(kw(":pid"), c3I(4242), kw(":version"), c3Str("2.27"), kw(":features"), c3Nil())), c3I(1)))
	add(c3List(kw(":return"), c3List(kw(":abort"), c3Str("error: \"x\" is not bound")), c3I(12)))
	add(c3List(kw(":ping"), c3I(1), c3I(2)))
	// payload lengths around the header's digit boundaries (16^3, 16^4) and the 1 MiB cap
	for _, target := range []int{4095, 4096, 4097, 65535, 65536, 65537, 1048575, 1048576} {
		n := target - 19
		var msg *c3Obj
		for try := 0; try < 4; try++ {
			msg = c3List(kw(":write-string"), c3Str(strings.Repeat("x", n)))
			_, payload, _ := c3WireRoundtrip(msg)
			if len(payload) == target || len(payload) == 0 {
				break
			}
			n += target - len(payload)
		}
		add(msg)
	}
	nRandom := c.Scale(600, 6000)
	for i := 0; i < nRandom; i++ {
		var leaf func(d int) *c3Obj
		leaf = func(d int) *c3Obj {
			r := c.Rng
			switch r.Intn(7) {
			case 0:
				return c3Sym(c3Keywords[r.Intn(len(c3Keywords))])
			case 1:
				return c3Int(r.BigBits([]int{8, 31, 64}[r.Intn(3)]))
			case 2, 3:
				return c3Str(g.randString())
			case 4:
				if r.Bool() {
					return c3T()
				}
				return c3Nil()
			case 5:
				return c3Sym(c3SymbolNames[r.Intn(len(c3SymbolNames))])
			default:
				if d <= 0 {
					return c3I(int64(r.Intn(100)))
				}
				n := 1 + r.Intn(4)
				el := make([]*c3Obj, n)
				for k := range el {
					el[k] = leaf(d - 1)
				}
				return c3List(el...)
			}
		}
		o := c3List(c3Sym(":return"), leaf(3), c3I(int64(c.Rng.Intn(1000))))
		cases = append(cases, c3WireCase{obj: o, cell: "composite kind=wire-message class=" + c3WireStrClass(o)})
	}
	ok := 0
	// K: the header the model writes for each payload length
	var reqs []string
	for _, wc := range cases {
		_, payload, _ := c3WireRoundtrip(wc.obj)
		reqs = append(reqs, fmt.Sprintf("print frame %d", len(payload)))
	}
	headers := c.Model(reqs)
	for i, wc := range cases {
		aspect, payload, observed, header := c3WireRoundtripH(wc.obj)
		if aspect == "" {
			// the case of the hexadecimal digits is not constrained by the property
			if want := strings.TrimPrefix(headers[i], "ok "); !strings.EqualFold(want, header) {
				aspect, observed = "model-header", "slip header "+header+", model header "+want
			}
		}
		c.Ev.Case("wire "+wc.obj.term(), true)
		c.Ev.Hist("kind", "wire-message")
		if aspect == "" {
			ok++
			continue
		}
		c.Report(c3Signature(wc.cell, aspect), wc.sweep, map[string]any{"term": wc.obj.term(), "wire": true, "cell": wc.cell, "sweep": wc.sweep,
			"input": "swank wire message " + wc.obj.term(), "printed": payload, "observed": observed,
			"expected": "ReadWireMessage gives back a message equal to the one written", "expected_from": "property statement (wire framing prints a message and the peer reads it back)"})
	}
	c.Ev.Coverage["wire_messages"] = len(cases)
	c.Ev.Coverage["wire_roundtrips_ok"] = ok
}
