package main

// C18 — the recover family: a parse that raises a condition must leave no trace. A case is a text
// that does not parse, handed to one of the parsing entry points, followed by valid documents
// (the model's JSON / SEN text of generated documents) through make-bag / :parse / bag-parse:
// each must parse to its own document, exactly as it does in a process that never saw the bad
// text (Theorems/C18 `parses_independent`: the model's reader is a function of the text alone).

import (
	"fmt"
	"strings"

	"github.com/ohler55/slip"
	"verif/harness/lib"
)

var c18RecoverEntries = []string{"make-bag", "make-bag-octets", "init-parse", "bag-parse", "bag-parse-path", "bag-read", "init-read", "json-parse", "json-parse-strict", "each-bag"}

// badParse hands text to an entry point; the outcome is Ok when no condition was raised.
func (r *c18Run) badParse(entry, text string) lib.Outcome {
	b := map[string]slip.Object{"c18-text": slip.String(text), "c18-oct": slip.Octets([]byte(text))}
	switch entry {
	case "make-bag":
		return r.impl.eval("(make-bag c18-text)", b)
	case "make-bag-octets":
		return r.impl.eval("(make-bag c18-oct)", b)
	case "init-parse":
		return r.impl.eval("(make-instance 'bag-flavor :parse c18-text)", b)
	case "bag-parse":
		return r.impl.eval("(bag-parse (make-instance 'bag-flavor) c18-text)", b)
	case "bag-parse-path":
		return r.impl.eval("(bag-parse (make-bag \"{a:1}\") c18-text \"b\")", b)
	case "bag-read":
		return r.impl.eval("(bag-read (make-instance 'bag-flavor) (make-string-input-stream c18-text))", b)
	case "init-read":
		return r.impl.eval("(make-instance 'bag-flavor :read (make-string-input-stream c18-text))", b)
	case "json-parse":
		return r.impl.eval("(json-parse (lambda (b) nil) c18-text)", b)
	case "json-parse-strict":
		return r.impl.eval("(json-parse (lambda (b) nil) c18-text t)", b)
	default:
		return r.impl.eval("(each-bag (make-string-input-stream c18-text) (lambda (b) nil))", b)
	}
}

// c18BadTexts: class ↦ texts that do not parse (single cause each).
var c18BadTexts = [][2]string{
	{"plus-top", "+x"}, {"plus-top", "+"}, {"plus-in-array", "[+]"}, {"plus-in-array", "[1 +]"}, {"plus-in-array", "[\"a\" + 1]"},
	{"plus-in-object", "{a:+}"}, {"plus-in-object", "{a:\"x\" + }"}, {"plus-in-object", "{a:1 b:+}"},
	{"minus", "[-x]"}, {"minus", "{a:-}"}, {"truncated", "[1 2"}, {"truncated", "{a:"}, {"truncated", "[\"abc"}, {"truncated", "{\"a\":{\"b\":[1"},
	{"stray-close", "]"}, {"stray-close", "{a:1}}"}, {"stray-close", "[1 2}}"}, {"missing-colon", "{\"a\" 1}"}, {"bad-token", "[1e]"},
	{"bad-escape", "\"\\u12\""}, {"bad-char", "`"}, {"bad-char", "[a`b]"}, {"bad-char", "{a:#}"},
}

func (r *c18Run) sweepRecover() []*c18Case {
	goods := []*jv{jArr(jStr("p q")), jObj("k", jStr("v w")), jStr("top level"), jObj("a", jArr(jInt(1), jInt(2), jObj("b", jStr("x y")))),
		jArr(jStr("word"), jFlo(1.5), jInt(-2), jBool(true), jNull())}
	var docs []string
	for _, g := range goods {
		docs = append(docs, w(g))
	}
	var out []*c18Case
	for _, bt := range c18BadTexts {
		for _, e := range c18RecoverEntries {
			out = append(out, &c18Case{Family: "recover", Entry: e, Bad: bt[1], Cell: bt[0], Docs: docs, Sweep: true})
		}
	}
	return out
}

// randomRecoverCase: a valid text damaged at one place, then 1..3 generated documents.
func (r *c18Run) randomRecoverCase() *c18Case {
	g := r.g
	cs := &c18Case{Family: "recover", Entry: c18RecoverEntries[g.r.Intn(len(c18RecoverEntries))], Cell: "damaged"}
	t := g.container(1 + g.r.Intn(3)).text()
	pos := g.r.Intn(len(t) + 1)
	switch g.r.Intn(4) {
	case 0:
		t = t[:pos] + "+" + t[pos:]
		cs.Cell = "damaged-plus"
	case 1:
		t = t[:pos]
		cs.Cell = "damaged-cut"
	case 2:
		t = t[:pos] + []string{"]", "}", "\"", "`", "-", ":"}[g.r.Intn(6)] + t[pos:]
		cs.Cell = "damaged-insert"
	default:
		t = t[:pos] + " + " + t[pos:]
		cs.Cell = "damaged-plus"
	}
	cs.Bad = t
	for i, n := 0, 1+g.r.Intn(3); i < n; i++ {
		var d *jv
		if g.r.Chance(70) {
			d = g.container(1 + g.r.Intn(3))
		} else {
			d = g.scalar()
		}
		cs.Docs = append(cs.Docs, strings.Join(d.wire(), " "))
	}
	return cs
}

func (r *c18Run) runRecover(cases []*c18Case) {
	// the valid documents as text: the model's JSON and SEN writers
	var reqs []string
	for _, cs := range cases {
		for i, d := range cs.Docs {
			if i%2 == 0 {
				reqs = append(reqs, "json write c "+d)
			} else {
				reqs = append(reqs, "json writesen c "+d)
			}
		}
	}
	texts := r.c.Model(reqs)
	at := 0
	for _, cs := range cases {
		mine := texts[at : at+len(cs.Docs)]
		at += len(cs.Docs)
		r.c.Ev.Case("recover "+cs.Entry+" "+cs.Bad+" "+strings.Join(cs.Docs, "|"), len(cs.Docs) >= 2)
		r.c.Ev.Hist("family", "recover")
		r.impl.heal()
		bo := r.badParse(cs.Entry, cs.Bad)
		if bo.Ok {
			r.c.Ev.Hist("recover_bad_text", "accepted-by-the-parser")
			continue
		}
		r.c.Ev.Hist("recover_bad_text", cs.Cell)
		for i, dw := range cs.Docs {
			doc := parseDoc(dw)
			if doc == nil || !strings.HasPrefix(mine[i], "ok s") {
				fmt.Println("C18 harness bug: recover case", dw, mine[i])
				continue
			}
			text := lib.Unhex(mine[i][4:])
			var b any
			// the first document goes through the entry point that saw the bad text, the following ones
			// through the others in turn
			ent := cs.Entry
			if i > 0 {
				ent = c18RecoverEntries[(i+len(cs.Bad)+len(cs.Entry))%len(c18RecoverEntries)]
			}
			if ent == "json-parse-strict" && i%2 == 1 {
				ent = "make-bag" // the text is SEN: not for the strict reader
			}
			if doc.kind == 'n' && (strings.HasPrefix(ent, "json-parse") || ent == "each-bag" || ent == "bag-parse-path") {
				ent = "make-bag" // a null document: bag-get returns nil for a null leaf, there is no bag to look at
			}
			o := r.goodParse(ent, text)
			ok := o.Ok
			if ok {
				b, ok = bagAny(o.Value)
			}
			kind := doc.leafKind()
			if !ok {
				r.check(cs, false, c18Diff{sig: sig("parse-after-error", cs.Entry, cs.Cell, "condition"),
					observed: fmt.Sprintf("after %s of %q raised (%s), %q does not parse: %s %s", cs.Entry, cs.Bad, bo.Msg, text, o.Class, o.Msg),
					expected: doc.canon() + " (" + kind + ")", from: "model:json.write", relies: []string{"SlipVerif.Json.parses_independent"}})
				break
			}
			dk := diffKind(doc, doc.toAnyTree(), b, canonAny)
			r.check(cs, dk == "", c18Diff{sig: sig("parse-after-error", cs.Entry, cs.Cell, "wrong-value"),
				observed: fmt.Sprintf("after %s of %q raised, %q parses to %s", cs.Entry, cs.Bad, text, canonAny(b)),
				expected: doc.canon(), from: "model:json.write", relies: []string{"SlipVerif.Json.parses_independent"}})
			if dk != "" {
				break
			}
		}
		r.impl.heal()
	}
}

// goodParse hands a valid text to an entry point and returns the bag it produces (no healing: the
// recover family wants to see the damage).
func (r *c18Run) goodParse(entry, text string) lib.Outcome {
	b := map[string]slip.Object{"c18-text": slip.String(text), "c18-oct": slip.Octets([]byte(text))}
	switch entry {
	case "make-bag":
		return r.impl.eval("(make-bag c18-text)", b)
	case "make-bag-octets":
		return r.impl.eval("(make-bag c18-oct)", b)
	case "init-parse":
		return r.impl.eval("(make-instance 'bag-flavor :parse c18-text)", b)
	case "bag-parse":
		return r.impl.eval("(bag-parse (make-instance 'bag-flavor) c18-text)", b)
	case "bag-parse-path":
		return r.impl.eval("(bag-get (bag-parse (make-bag \"{a:1}\") c18-text \"b\") \"b\" t)", b)
	case "bag-read":
		return r.impl.eval("(bag-read (make-instance 'bag-flavor) (make-string-input-stream c18-text))", b)
	case "init-read":
		return r.impl.eval("(make-instance 'bag-flavor :read (make-string-input-stream c18-text))", b)
	case "json-parse":
		return r.impl.eval("(let ((c18-acc nil)) (json-parse (lambda (b) (setq c18-acc b)) c18-text) c18-acc)", b)
	case "json-parse-strict":
		return r.impl.eval("(let ((c18-acc nil)) (json-parse (lambda (b) (setq c18-acc b)) c18-text t) c18-acc)", b)
	default:
		return r.impl.eval("(let ((c18-acc nil)) (each-bag (make-string-input-stream c18-text) (lambda (b) (setq c18-acc b))) c18-acc)", b)
	}
}

// evalParse parses text without the healing of makeBag (the recover family wants to see the damage).
func (m *c18Impl) evalParse(text string, via int) lib.Outcome {
	b := map[string]slip.Object{"c18-text": slip.String(text)}
	switch via % 3 {
	case 0:
		return m.eval("(make-bag c18-text)", b)
	case 1:
		return m.eval("(make-instance 'bag-flavor :parse c18-text)", b)
	default:
		return m.eval("(bag-parse (make-instance 'bag-flavor) c18-text)", b)
	}
}
