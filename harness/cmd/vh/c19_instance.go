package main

// C19 leg A2 — instances of flavors and of CLOS classes as values: "flavors and their instances,
// classes …: evaluating the pretty-printed load form rebuilds an object equal to the original".
//
// An instance is made in-process from a freshly defined flavor / class (unique names), its slots
// are put into a state, and the property is evaluated for margins 20..120:
//   eval(read(pp_margin(LoadForm(inst))))  has, SLOT BY SLOT, the same state (unbound / value) as
//   inst, is Equal() to it and has the same type.
// Sweep: {flavor, class} x default of the slot {none, nil, fixnum, string, symbol, list} x state
// {initial, unbound, nil, equal to the default, other fixnum, string, symbol, list, t}; composite:
// random classes/flavors (with a parent) of 2..5 slots in random states.
// The load form is also compared with the model (`lf instops`): one operation per slot —
// (setf (slot-value inst 's) <load form of the value>) for a bound slot, (slot-makunbound inst 's)
// for an unbound one.

import (
	"fmt"
	"os"
	"sort"
	"strings"

	"github.com/ohler55/slip"
	"verif/harness/lib"
)

type c19SlotSpec struct {
	Name    string `json:"name"`
	Default string `json:"default"` // source text of the default / initform; "" = none
	State   string `json:"state"`   // "initial" | "unbound" | source text of the value to set
}

type c19InstCase struct {
	Cell   string        `json:"cell"`
	Kind   string        `json:"kind"`   // flavor | class
	Parent []c19SlotSpec `json:"parent"` // slots of an inherited flavor / superclass (may be empty)
	Slots  []c19SlotSpec `json:"slots"`
	sweep  bool
}

var c19InstSeq int

type c19SlotState struct {
	bound bool
	val   slip.Object
}

func c19SlotStates(inst slip.Instance) map[string]c19SlotState {
	out := map[string]c19SlotState{}
	for _, n := range inst.SlotNames() {
		if n == "self" {
			continue
		}
		v, has := inst.SlotValue(slip.Symbol(n))
		if !has || v == slip.Unbound {
			out[n] = c19SlotState{}
		} else {
			out[n] = c19SlotState{bound: true, val: v}
		}
	}
	return out
}

func (s c19SlotState) String() string {
	if !s.bound {
		return "<unbound>"
	}
	return c19Show(s.val)
}

// c19BuildInstance defines the flavor / class and makes the instance in the given state.
func c19BuildInstance(cs *c19InstCase) (inst slip.Instance, name string, err string) {
	c19InstSeq++
	scope := slip.NewScope()
	name = fmt.Sprintf("zqi%s%d", cs.Kind[:1], c19InstSeq)
	eval := func(src string) bool {
		o := lib.EvalString(scope, src)
		if !o.Ok {
			err = src + " => " + o.Class + ": " + o.Msg
		}
		return o.Ok
	}
	def := func(n string, slots []c19SlotSpec, parent string) bool {
		var parts []string
		for _, sl := range slots {
			if cs.Kind == "flavor" {
				if sl.Default == "" {
					parts = append(parts, sl.Name)
				} else {
					parts = append(parts, fmt.Sprintf("(%s %s)", sl.Name, sl.Default))
				}
			} else {
				if sl.Default == "" {
					parts = append(parts, fmt.Sprintf("(%s :initarg :%s)", sl.Name, sl.Name))
				} else {
					parts = append(parts, fmt.Sprintf("(%s :initarg :%s :initform %s)", sl.Name, sl.Name, sl.Default))
				}
			}
		}
		if cs.Kind == "flavor" {
			return eval(fmt.Sprintf("(defflavor %s (%s) (%s) :gettable-instance-variables :settable-instance-variables :inittable-instance-variables)", n, strings.Join(parts, " "), parent))
		}
		return eval(fmt.Sprintf("(defclass %s (%s) (%s))", n, parent, strings.Join(parts, " ")))
	}
	parent := ""
	if len(cs.Parent) > 0 {
		parent = name + "-p"
		if !def(parent, cs.Parent, "") {
			return nil, name, err
		}
	}
	if !def(name, cs.Slots, parent) {
		return nil, name, err
	}
	o := lib.EvalString(scope, fmt.Sprintf("(make-instance '%s)", name))
	if !o.Ok {
		return nil, name, "make-instance: " + o.Class + ": " + o.Msg
	}
	inst, _ = o.Value.(slip.Instance)
	if inst == nil {
		return nil, name, "make-instance did not return an instance"
	}
	scope.Let(slip.Symbol("c19-inst"), inst)
	for _, sl := range append(append([]c19SlotSpec{}, cs.Parent...), cs.Slots...) {
		switch sl.State {
		case "initial", "":
		case "unbound":
			if !eval(fmt.Sprintf("(slot-makunbound c19-inst '%s)", sl.Name)) {
				return nil, name, err
			}
		default:
			if !eval(fmt.Sprintf("(setf (slot-value c19-inst '%s) %s)", sl.Name, sl.State)) {
				return nil, name, err
			}
		}
	}
	return inst, name, ""
}

// c19CheckInstance evaluates the property on one instance case.
func c19CheckInstance(cs *c19InstCase, margins []int, all bool) (formText string, ops *c19Term, want map[string]c19SlotState, obs *c19Obs) {
	inst, _, berr := c19BuildInstance(cs)
	if inst == nil {
		return "", nil, nil, &c19Obs{Aspect: "machinery", Observed: "cannot build the instance: " + berr}
	}
	want = c19SlotStates(inst)
	// what make-instance starts from (the defaults of the class), for the model
	if fo := lib.Protect(func() slip.Object { return inst.Class().MakeInstance() }); fo.Ok {
		if fi, ok := fo.Value.(slip.Instance); ok {
			for n, st := range c19SlotStates(fi) {
				want["fresh:"+n] = st
			}
		}
	}
	defer func() {
		for n := range want {
			if !strings.HasPrefix(n, "fresh:") {
				continue
			}
			if c19Fresh == nil {
				c19Fresh = map[*c19InstCase]map[string]c19SlotState{}
			}
			if c19Fresh[cs] == nil {
				c19Fresh[cs] = map[string]c19SlotState{}
			}
			c19Fresh[cs][strings.TrimPrefix(n, "fresh:")] = want[n]
			delete(want, n)
		}
	}()
	lfr, ok := inst.(slip.LoadFormer)
	if !ok {
		return "", nil, want, &c19Obs{Aspect: "no-load-form", Observed: "instance does not offer LoadForm", Expected: "a load form"}
	}
	fo := lib.Protect(func() slip.Object { return lfr.LoadForm() })
	if !fo.Ok {
		return "", nil, want, &c19Obs{Aspect: "no-load-form", Observed: "LoadForm failed: " + fo.Class + ": " + fo.Msg, Expected: "a load form"}
	}
	form := fo.Value
	formText = c19Show(form)
	ops = c19InstanceOps(form)
	// make-load-form is the Lisp level entry to the same form
	scope := slip.NewScope()
	scope.Let(slip.Symbol("c19-inst"), inst)
	if mo := lib.EvalString(scope, "(make-load-form c19-inst)"); !mo.Ok || !c19FormEqual(mo.Value, form) {
		return formText, ops, want, &c19Obs{Aspect: "make-load-form", Form: formText, Observed: "(make-load-form inst) = " + mo.String() + " " + mo.Msg, Expected: formText}
	}
	check := func(m int) *c19Obs {
		back, text, o := c19PPRead(form, m)
		if o != nil {
			o.Form = formText
			return o
		}
		if !c19FormEqual(form, back) {
			return &c19Obs{Aspect: "unreadable", Margin: m, Form: formText, Observed: "read(pp(form)) = " + c19Show(back) + " text=" + text, Expected: formText}
		}
		es := slip.NewScope()
		eo := lib.Protect(func() slip.Object { return es.Eval(back, 0) })
		if !eo.Ok {
			return &c19Obs{Aspect: "eval-error", Margin: m, Form: formText, Observed: "evaluating the load form: " + eo.Class + ": " + eo.Msg, Expected: "an instance"}
		}
		y, isInst := eo.Value.(slip.Instance)
		if !isInst || c19TypeOf(y) != c19TypeOf(inst) {
			return &c19Obs{Aspect: "not-equal", Margin: m, Form: formText, Observed: c19Show(eo.Value) + " : " + c19TypeOf(eo.Value), Expected: "an instance of " + c19TypeOf(inst)}
		}
		got := c19SlotStates(y)
		var names []string
		for n := range want {
			if !strings.HasPrefix(n, "fresh:") {
				names = append(names, n)
			}
		}
		sort.Strings(names)
		for _, n := range names {
			w, g := want[n], got[n]
			same := w.bound == g.bound
			if same && w.bound {
				eq := lib.Protect(func() slip.Object {
					if slip.ObjectEqual(w.val, g.val) && c19TypeOf(w.val) == c19TypeOf(g.val) {
						return slip.True
					}
					return nil
				})
				same = eq.Ok && eq.Value != nil
			}
			if !same {
				return &c19Obs{Aspect: "not-equal", Margin: m, Form: formText, Observed: fmt.Sprintf("slot %s = %s", n, g), Expected: fmt.Sprintf("slot %s = %s", n, w)}
			}
		}
		if len(got) != len(names) {
			return &c19Obs{Aspect: "not-equal", Margin: m, Form: formText, Observed: fmt.Sprintf("%d slots", len(got)), Expected: fmt.Sprintf("%d slots", len(names))}
		}
		eq := lib.Protect(func() slip.Object {
			if slip.ObjectEqual(inst, y) {
				return slip.True
			}
			return nil
		})
		if !eq.Ok || eq.Value == nil {
			return &c19Obs{Aspect: "not-equal", Margin: m, Form: formText, Observed: "every slot agrees but Equal() is false", Expected: "Equal"}
		}
		return nil
	}
	return formText, ops, want, c19OverMargins(margins, all, check)
}

// c19Fresh: the slot states of a fresh instance of the case's class (filled by c19CheckInstance)
var c19Fresh map[*c19InstCase]map[string]c19SlotState

// c19InstanceOps extracts the slot operations of an instance load form as a term: a proper list of
// (slot . U) for (slot-makunbound inst 'slot) and (slot . (S . valueform)) for a setf; nil when the
// form does not have the expected shape.
func c19InstanceOps(form slip.Object) *c19Term {
	l, ok := c19Listify(form).(slip.List)
	if !ok || len(l) < 3 || !strings.EqualFold(c19Show(l[0]), "let") {
		return nil
	}
	var ops []*c19Term
	for _, e := range l[2 : len(l)-1] {
		op, ok := e.(slip.List)
		if !ok || len(op) < 2 {
			return nil
		}
		slotOf := func(place slip.Object) (string, bool) {
			// (slot-value inst 'slot) / for makunbound the argument list itself
			pl, ok := place.(slip.List)
			if !ok || len(pl) != 3 {
				return "", false
			}
			q, ok := pl[2].(slip.List)
			if !ok || len(q) != 2 {
				return "", false
			}
			s, ok := q[1].(slip.Symbol)
			return strings.ToLower(string(s)), ok
		}
		switch strings.ToLower(c19Show(op[0])) {
		case "setf":
			if len(op) != 3 {
				return nil
			}
			slot, ok := slotOf(op[1])
			vt, vok := c19FormTerm(op[2])
			if !ok || !vok {
				return nil
			}
			ops = append(ops, c19Cons(c19Atom("y:"+lib.Hex(slot)), c19Cons(c19Atom("y:"+lib.Hex("s")), vt)))
		case "slot-makunbound":
			slot, ok := slotOf(op)
			if !ok {
				return nil
			}
			ops = append(ops, c19Cons(c19Atom("y:"+lib.Hex(slot)), c19Atom("y:"+lib.Hex("u"))))
		default:
			return nil
		}
	}
	sort.SliceStable(ops, func(i, j int) bool { return ops[i].String() < ops[j].String() })
	return c19Chain(ops, nil)
}

// ---------------------------------------------------------------------------------------------

var c19InstDefaults = []struct{ name, src string }{
	{"none", ""}, {"nil", "nil"}, {"fixnum", "7"}, {"string", "\"dflt\""}, {"symbol", "'dsym"}, {"list", "'(1 d)"}, {"t", "t"},
}

func c19InstStates(def string) []struct{ name, src string } {
	out := []struct{ name, src string }{
		{"initial", "initial"}, {"unbound", "unbound"}, {"nil", "nil"}, {"fixnum", "42"}, {"string", "\"val\""},
		{"symbol", "'vsym"}, {"keyword", ":kw"}, {"list", "'(2 v \"w\")"}, {"t", "t"},
	}
	if def != "" && def != "nil" {
		out = append(out, struct{ name, src string }{"equal-default", def})
	}
	return out
}

func c19InstanceSweep() []c19InstCase {
	var out []c19InstCase
	for _, kind := range []string{"flavor", "class"} {
		for _, d := range c19InstDefaults {
			for _, st := range c19InstStates(d.src) {
				out = append(out, c19InstCase{Cell: fmt.Sprintf("%s/default-%s/%s", kind, d.name, st.name), Kind: kind, sweep: true,
					Slots: []c19SlotSpec{{Name: "s", Default: d.src, State: st.src}, {Name: "k", Default: "1", State: "initial"}}})
			}
		}
		// an inherited slot in each state class
		for _, st := range []struct{ name, src string }{{"initial", "initial"}, {"unbound", "unbound"}, {"nil", "nil"}, {"fixnum", "42"}} {
			out = append(out, c19InstCase{Cell: fmt.Sprintf("%s/inherited-default-fixnum/%s", kind, st.name), Kind: kind, sweep: true,
				Parent: []c19SlotSpec{{Name: "p", Default: "7", State: st.src}}, Slots: []c19SlotSpec{{Name: "k", Default: "1", State: "initial"}}})
		}
		// the parent's default overridden by the child
		out = append(out, c19InstCase{Cell: kind + "/override-default/nil", Kind: kind, sweep: true,
			Parent: []c19SlotSpec{{Name: "s", Default: "7"}}, Slots: []c19SlotSpec{{Name: "s", Default: "8", State: "nil"}}})
	}
	return out
}

func c19RandInstance(r *lib.Rng, listed func(cell string) bool) c19InstCase {
	kind := []string{"flavor", "class"}[r.Intn(2)]
	cs := c19InstCase{Kind: kind}
	slot := func(name string) c19SlotSpec {
		for {
			d := c19InstDefaults[r.Intn(len(c19InstDefaults))]
			states := c19InstStates(d.src)
			st := states[r.Intn(len(states))]
			if listed(fmt.Sprintf("%s/default-%s/%s", kind, d.name, st.name)) {
				continue
			}
			src := st.src
			switch st.name { // some variety of the values
			case "fixnum":
				src = fmt.Sprint(r.Intn(2000) - 1000)
			case "string":
				src = fmt.Sprintf("%q", c19StrPool[r.Intn(3)]+fmt.Sprint(r.Intn(9)))
			}
			return c19SlotSpec{Name: name, Default: d.src, State: src}
		}
	}
	n := 2 + r.Intn(4)
	for i := 0; i < n; i++ {
		cs.Slots = append(cs.Slots, slot(fmt.Sprintf("s%d", i)))
	}
	if r.Chance(50) {
		for i := 0; i < 1+r.Intn(2); i++ {
			cs.Parent = append(cs.Parent, slot(fmt.Sprintf("p%d", i)))
		}
	}
	return cs
}

func c19InstInput(cs *c19InstCase) string {
	var parts []string
	show := func(pfx string, sl []c19SlotSpec) {
		for _, s := range sl {
			d := s.Default
			if d == "" {
				d = "<none>"
			}
			parts = append(parts, fmt.Sprintf("%s%s default=%s state=%s", pfx, s.Name, d, s.State))
		}
	}
	show("inherited ", cs.Parent)
	show("", cs.Slots)
	return cs.Kind + " instance: " + strings.Join(parts, "; ")
}

// c19RunInstances runs leg A2.
func c19RunInstances(c *lib.Ctx) {
	listed := func(cell string) bool { return c.Findings.Listed("C19", "instance cell="+cell+" ") }
	cases := c19InstanceSweep()
	nRandom := c.Scale(300, 2500)
	for i := 0; i < nRandom; i++ {
		cases = append(cases, c19RandInstance(c.Rng, listed))
	}
	type pending struct {
		i    int
		ops  *c19Term
		text string
	}
	var reqs []string
	var pend []pending
	results := make([]*c19Obs, len(cases))
	for i := range cases {
		cs := &cases[i]
		margins := c19Margins(c, cs.sweep)
		formText, ops, want, obs := c19CheckInstance(cs, margins, cs.sweep)
		results[i] = obs
		c.Ev.Case("i:"+c19InstInput(cs), len(cs.Slots)+len(cs.Parent) >= 2)
		c.Ev.Hist("instance_kind", cs.Kind)
		c.Ev.Count("instance_margin_checks", len(margins))
		if i%(len(cases)/2+1) == 0 {
			c.Ev.Sample(map[string]string{"leg": "instance", "instance": c19InstInput(cs), "load_form": formText})
		}
		if obs != nil && obs.Aspect == "machinery" {
			fmt.Fprintln(os.Stderr, "c19:", obs.Observed)
			os.Exit(2)
		}
		if obs == nil && want != nil {
			// the model's operations for these slot states
			var names []string
			for n := range want {
				names = append(names, n)
			}
			sort.Strings(names)
			req := "lf instops"
			modelled := true
			state := func(st c19SlotState) string {
				if !st.bound {
					return " U"
				}
				vt, ok := c19FormTerm(st.val)
				if !ok {
					modelled = false
					return " U"
				}
				return " " + vt.String()
			}
			for _, n := range names {
				fr, has := c19Fresh[cs][n]
				if !has {
					modelled = false
				}
				req += " " + n + state(fr) + state(want[n])
			}
			if modelled {
				reqs = append(reqs, req)
				pend = append(pend, pending{i, ops, formText})
			}
		}
	}
	replies := c.Model(reqs)
	c.Ev.Coverage["instance_ops_compared_with_model"] = len(reqs)
	shapeReported := map[string]bool{}
	for k, p := range pend {
		cs := &cases[p.i]
		mt, _, ok := c19ParseTerm(strings.Fields(strings.TrimPrefix(replies[k], "ok ")))
		if !ok || !strings.HasPrefix(replies[k], "ok ") {
			fmt.Fprintf(os.Stderr, "c19: model reply to %s: %s\n", reqs[k], replies[k])
			os.Exit(2)
		}
		elems, _ := mt.spine()
		sort.SliceStable(elems, func(i, j int) bool { return elems[i].String() < elems[j].String() })
		want := c19Chain(elems, nil).canon().String()
		if p.ops == nil || p.ops.canon().String() != want {
			name := "model:lf.instops " + cs.Kind
			if !shapeReported[name] {
				shapeReported[name] = true
				c.ReportBroken(name, map[string]any{"leg": "instance", "case": cs, "input": c19InstInput(cs), "observed": p.text,
					"expected": "one operation per slot: (setf (slot-value inst 's) <load form>) / (slot-makunbound inst 's) — model ops " + want})
			}
		}
	}
	for i := range cases {
		cs, obs := &cases[i], results[i]
		if obs == nil {
			continue
		}
		sig := "instance kind=" + cs.Kind + " aspect=" + obs.Aspect
		if cs.sweep {
			sig = "instance cell=" + cs.Cell + " aspect=" + c19AspectM(obs, true)
		}
		c.Report(sig, cs.sweep, map[string]any{"leg": "instance", "case": cs, "sweep": cs.sweep, "input": c19InstInput(cs), "load_form": obs.Form,
			"margin": obs.Margin, "observed": obs.Observed, "expected": obs.Expected,
			"expected_from": "property statement: eval(read(pp(loadform inst))) has the same state in every slot, is Equal and of the same type",
			"relies_on":     []string{"SlipVerif.LoadForm.instance_roundtrip"}})
	}
	c.Ev.Coverage["instance_cases"] = len(cases)
}

func c19ReplayInstance(c *lib.Ctx, rec map[string]any) {
	cs := &c19InstCase{}
	if err := jsonUnmarshal(mustJSON(rec["case"]), cs); err != nil {
		fmt.Println("replay file has no usable instance case:", err)
		return
	}
	formText, _, _, obs := c19CheckInstance(cs, c19Margins(c, true), true)
	fmt.Printf("replay %s\n  load form: %s\n", c19InstInput(cs), formText)
	if obs != nil {
		fmt.Printf("  margin %d: %s\n  observed: %s\n  expected: %s\n", obs.Margin, obs.Aspect, obs.Observed, obs.Expected)
		c.Report("instance replay aspect="+obs.Aspect, false, map[string]any{"observed": obs.Observed, "expected": obs.Expected})
	} else {
		fmt.Println("  every slot of the rebuilt instance has the state of the original, for all margins 20..120")
	}
}
