package main

// C09 (a): byte strings to the reader. A fixed, seed-independent table (every token of the
// grammar in every context; every byte after every reader prefix) is the single-cause sweep;
// grammar-aware mutations and raw random bytes are the seeded part.

import (
	"fmt"
	"regexp"
	"strings"

	"verif/harness/lib"
)

// tokens of the reader grammar, valid and nearly valid
var c09Tokens = []string{
	"foo", "nil", "t", "T", ":key", "cl:car", "cl::car", "nopkg:x", ":", "::", "a:b:c", "1+", "-", "+", ".", "..", "...",
	"123", "-5", "+7", "007", "1/2", "-1/2", "1/0", "0/0", "1/-2", "1//2", "1.5", "-1.5", ".5", "5.", "-.5", "+.", "1e5", "1e-5", "1E5", "1e", "e5",
	"1.0d10", "1.5s3", "2f0", "1l5", "1.5L-3", "1e400", "-1e400", "1d400", "1s99", "1f99", "1l99999", "1e99999999999", "99999999999999999999999",
	"-99999999999999999999999", "9223372036854775807", "9223372036854775808", "-9223372036854775808", "-9223372036854775809",
	"99999999999999999999999/3", "1/99999999999999999999999", "0.000000000000000000000000000001", "1.7976931348623157e308", "4.9e-324",
	`"str"`, `""`, `"a\nb"`, `"\t\"\\"`, `"é"`, `"\u12"`, `"\uzzzz"`, `"\U0001F600"`, `"\U00110000"`, `"\UFFFFFFFF"`, `"\ud800"`, `"\x"`, `"\`, `"abc`, "\"\xff\xfe\"", "\"é\"",
	"|sym bol|", `|a\|b|`, "||", "|abc", `|A|`, "a|b|c", "|a|b",
	`#\a`, `#\A`, `#\Space`, `#\space`, `#\Newline`, `#\Tab`, `#\Rubout`, `#é`, `#\u12`, `#\U0001F600`, `#\é`, `#\ab`, `#\(`, `#\)`, `#\"`, `#\;`, `#\|`, `#\#`, `#\\`, `#\ `, `#\`,
	"#\\\xff", "#\\\xe2\x82", "#\\nosuchname", `#\u`, `#\uD800`, `#\U00110000`, `#\x41`,
	"#b101", "#b", "#b2", "#b-101", "#b1/1", "#B101", "#o17", "#o8", "#O17", "#xff", "#xFF", "#xfg", "#x", "#x-ff", "#xff/1",
	"#3r12", "#36rzz", "#36rZZ", "#37r1", "#0r1", "#1r0", "#2r", "#10r99", "#99999999999999999999r1", "#3R12", "#3r-12", "#3r1.", "#16r1.5",
	"#2A((1 2) (3 4))", "#2a((1 2) (3 4))", "#0A5", "#0A(1)", "#0A", "#1A(1 2)", "#1A5", "#3A(((1)))", "#2A(1 2)", "#2A((1 2) (3))", "#2A()", "#2A(())",
	"#99A(1)", "#1025A(1)", "#99999999999999999999A(1)", "#9223372036854775807A(1)", "#18446744073709551615A(1)", "#4294967296A(1)", "#2A", "#2Ax", "#2A\"x\"", "#2A#(1 2)",
	"#(1 2)", "#()", "#(", "#(1 . 2)", "#(#(1))", "#3(1 2)", "#0()", "#2(1 2 3)", "#99999999999999999999(1)",
	"#C(1 2)", "#c(1 2)", "#C(1)", "#C()", "#C(1 2 3)", "#C(a b)", "#C(\"a\" 1)", "#C(1.5 2)", "#C(1/2 3)", "#C(nil nil)", "#C((1) 2)", "#C", "#Cx", "#C5", "#C(1 . 2)", "#C(#C(1 2) 3)",
	"#*101", "#*", "#*12", "#*1a", "#*101)", "#5*101", "#*101 ",
	"#'car", "#'", "#'(lambda (x) x)", "#'5", "#''a", "#'#'a",
	"'x", "'", "''x", "'(a b)", "'()", "')", "'5", "'\"s\"", "' x",
	"`(a ,b ,@c)", "`", "`x", "`(a . ,b)", "`,x", "`,@x", "``(a ,,b)", ",x", ",@x", ",", ",@", "`(,)", "`(,@)", "`(a ,)", "`,", "`#(1 ,x)", "`,'x", "`(,@'(1) . 2)",
	"; comment\n", ";", ";\n", "; no newline", "#| block |#", "#||#", "#| nested #| x |# |#", "#|", "#| |", "|#", "#|#", "#| |# x",
	"(a . b)", "(a . )", "( . b)", "(a . b c)", "(a . b . c)", "(. a)", "(a .b)", "(a. b)", "(a . nil)", "(a . (b))", "( . )", "(.)", "()", "( )", "(())", ")", "(", "((", "))",
	"#.", "#.(+ 1 2)", "#+", "#+x y", "#-x y", "#<", "#<foo>", "#s(a b)", "#S(c09-struct :a 1)", "#p\"x\"", "#P\"x\"", "#:", "#:foo", "#=", "#1=", "#1#", "#1=(a . #1#)", "##", "#!", "#$", "#%", "#&", "#)", "#,", "#/", "#;", "#>", "#?", "#@", "#[", "#]", "#^", "#_", "#`", "#{", "#}", "#~", "# ", "#\n", "#",
	"@2024-01-02T00:00:00Z", "@", "@x", "@2024", "@2024-13-45T99:99:99Z", "@2024-01-02T00:00:00.123456789Z", "@2024-01-02T00:00:00+05:00",
	"\x00", "\x01", "\x7f", "\x80", "\xff", "\xc3", "\xe2\x82\xac", "\xf0\x9f\x98\x80", "\xc0\x80", "\xed\xa0\x80", "a\x00b", "é", "λx", "\t", "\r", "\r\n", "\f", "\v", "\x1b",
	"{", "}", "[", "]", "{a}", "[a]", "\\", "\\a", "a\\b", "a\\", "a\\ b", "~", "^", "&", "%", "$", "!", "?", "<", ">", "=", "*", "/", "_",
}

// contexts a token is placed in (%s = the token)
var c09Contexts = []string{
	"%s", "%s ", " %s", "%s\n", "(%s)", "(%s %s)", "((%s))", "(a %s b)", "'%s", "(quote %s)", "#(%s)", "`(a ,%s)", "(%s", "%s)", "%s%s", "%s;c\n%s", "(a . %s)", "(%s . a)", "#C(%s 1)", "#2A((%s 1) (2 3))", "\"%s\"", "|%s|", "#|%s|#", "(a #|%s|# b)",
}

// prefixes after which every byte value is tried
var c09Prefixes = []string{
	"", "#", "#\\", "\"", "\"\\", "\"\\u", "\"\\u0", "\"\\U0000000", "|", "|\\", "#1", "#12", "#b", "#o", "#x", "#3r", "#*", "#*1", ",", "`", "`,", "`(,", "#|", "#||", "#'", "'", "(", "(a ", "(a .", "(a . ", "#(", "#C", "#C(", "#2A", "#2A(", "1", "1.", "1e", "1/", "-", "a", "a:", ":", ";", "@", "#\\a", "#\\u", "#\\u0",
}

var c09ReaderAlphabet = []byte("()'`,@#\\\"|;:. \n\t0123456789abcdefrxXoObBAaCcuUeEdDsSlL+-*/<>=_~^&%$!?[]{}\x00\x7f\x80\xc3\xa9\xe2\x82\xac\xf0\x9f\xff")

// c09ReaderTable is the deterministic table.
func c09ReaderTable(thorough bool) []string {
	seen := map[string]bool{}
	var out []string
	add := func(s string) {
		if !seen[s] {
			seen[s] = true
			out = append(out, s)
		}
	}
	for _, t := range c09Tokens {
		for _, cx := range c09Contexts {
			add(strings.ReplaceAll(cx, "%s", t))
		}
	}
	for _, p := range c09Prefixes {
		for b := 0; b < 256; b++ {
			s := p + string([]byte{byte(b)})
			add(s)
			add(s + " ")
			add("(" + s + ")")
			add("(" + s + " 1)")
		}
	}
	// all pairs (thorough: triples) over the reader alphabet
	al := c09ReaderAlphabet
	for _, a := range al {
		for _, b := range al {
			add(string([]byte{a, b}))
			if thorough {
				for _, c := range al {
					add(string([]byte{a, b, c}))
				}
			}
		}
	}
	// pairs of tokens (adjacent and separated)
	step := 7
	if thorough {
		step = 1
	}
	for i := 0; i < len(c09Tokens); i++ {
		for j := i % step; j < len(c09Tokens); j += step {
			add(c09Tokens[i] + " " + c09Tokens[j])
			add("(" + c09Tokens[i] + " " + c09Tokens[j] + ")")
			add(c09Tokens[i] + c09Tokens[j])
		}
	}
	// decimal strings at and next to the machine integer boundaries in every numeric position
	for _, t := range c09BoundaryReaderTable() {
		add(t)
	}
	// depth and length probes
	for _, n := range []int{10, 1000, 100000} {
		add(strings.Repeat("(", n))
		add(strings.Repeat("(", n) + strings.Repeat(")", n))
		add(strings.Repeat(")", n))
		add(strings.Repeat("'", n) + "a")
		add(strings.Repeat("`", n) + "a")
		add(strings.Repeat("#(", n))
		add(strings.Repeat("#(", n) + strings.Repeat(")", n))
		add("\"" + strings.Repeat("a", n))
		add(strings.Repeat("a", n))
		add(strings.Repeat("9", n))
		add("#" + strings.Repeat("9", n) + "A(1)")
		add("#" + strings.Repeat("9", n) + "r1")
		add("#*" + strings.Repeat("1", n))
		add(strings.Repeat("#|", n))
		add(strings.Repeat("#|", n) + strings.Repeat("|#", n))
		add(strings.Repeat("(a . ", n) + "b" + strings.Repeat(")", n))
		add("`" + strings.Repeat("(,", n) + "a" + strings.Repeat(")", n))
		add(strings.Repeat("\\", n))
		add("1." + strings.Repeat("0", n) + "1")
		add("1e" + strings.Repeat("9", n/100+1))
	}
	return out
}

// c09ReaderSeeded: grammar-aware mutations + raw random bytes.
func c09ReaderSeeded(rng *lib.Rng, n int, avoid []c09Construct) []string {
	out := make([]string, 0, n)
	form := func(depth int) string { return "" }
	var gen func(depth int) string
	gen = func(depth int) string {
		if depth > 4 || rng.Chance(55) {
			return c09Tokens[rng.Intn(len(c09Tokens))]
		}
		var b strings.Builder
		open := []string{"(", "'(", "#(", "`(", "(a . ", "#C(", "#2A(", ",(", ",@("}[rng.Intn(9)]
		b.WriteString(open)
		k := rng.Intn(5)
		for i := 0; i < k; i++ {
			if i > 0 {
				b.WriteString([]string{" ", " ", "\n", "  ", "", " ; c\n", " #| c |# "}[rng.Intn(7)])
			}
			b.WriteString(gen(depth + 1))
		}
		b.WriteString(")")
		return b.String()
	}
	_ = form
	mutate := func(s string) string {
		b := []byte(s)
		for m := 1 + rng.Intn(3); m > 0; m-- {
			if len(b) == 0 {
				b = append(b, c09ReaderAlphabet[rng.Intn(len(c09ReaderAlphabet))])
				continue
			}
			i := rng.Intn(len(b))
			switch rng.Intn(7) {
			case 0: // delete a byte
				b = append(b[:i], b[i+1:]...)
			case 1: // insert a significant byte
				b = append(b[:i], append([]byte{c09ReaderAlphabet[rng.Intn(len(c09ReaderAlphabet))]}, b[i:]...)...)
			case 2: // replace by a significant byte
				b[i] = c09ReaderAlphabet[rng.Intn(len(c09ReaderAlphabet))]
			case 3: // replace by any byte
				b[i] = byte(rng.Intn(256))
			case 4: // truncate
				b = b[:i]
			case 5: // duplicate a span
				j := i + rng.Intn(len(b)-i+1)
				b = append(b[:j], append(append([]byte{}, b[i:j]...), b[j:]...)...)
			case 6: // delete a span
				j := i + rng.Intn(len(b)-i+1)
				b = append(b[:i], b[j:]...)
			}
		}
		return string(b)
	}
	emit := func(s string) {
		for _, cs := range avoid {
			if cs.match(s) {
				return
			}
		}
		out = append(out, s)
	}
	for len(out) < n {
		switch r := rng.Intn(100); {
		case r < 20: // valid-ish program
			k := 1 + rng.Intn(3)
			var parts []string
			for i := 0; i < k; i++ {
				parts = append(parts, gen(0))
			}
			emit(strings.Join(parts, " "))
		case r < 70: // mutated program
			k := 1 + rng.Intn(3)
			var parts []string
			for i := 0; i < k; i++ {
				parts = append(parts, gen(0))
			}
			emit(mutate(strings.Join(parts, " ")))
		case r < 85: // random bytes over the reader alphabet
			k := 1 + rng.Intn(24)
			b := make([]byte, k)
			for i := range b {
				b[i] = c09ReaderAlphabet[rng.Intn(len(c09ReaderAlphabet))]
			}
			emit(string(b))
		default: // uniform random bytes
			k := 1 + rng.Intn(48)
			b := make([]byte, k)
			for i := range b {
				b[i] = byte(rng.Intn(256))
			}
			emit(string(b))
		}
	}
	return out
}

// ---------------------------------------------------------------------------------------------
// constructs: the classes of reader input a fault is attributed to. The first matching detector
// names the construct of a faulting input (signature), and the seeded generator drops inputs that
// contain a construct listed in the findings (so that a seeded reader fault is never excused).

type c09Construct struct {
	name string
	re   *regexp.Regexp
	fn   func(string) bool // used when re is nil
}

func (c c09Construct) match(s string) bool {
	if c.re != nil {
		return c.re.MatchString(s)
	}
	return c.fn(s)
}

// c09Depth: the maximum number of simultaneously open parentheses (no string/comment awareness:
// an over-approximation is fine for a class of inputs).
func c09Depth(s string) int {
	d, max := 0, 0
	for i := 0; i < len(s); i++ {
		switch s[i] {
		case '(':
			d++
			if d > max {
				max = d
			}
		case ')':
			if d > 0 {
				d--
			}
		}
	}
	return max
}

var c09ReaderConstructs = []c09Construct{
	// #<n>A with n beyond the int range (the rank wraps around)
	{"sharp-rank-overflow", regexp.MustCompile(`#[0-9]{19,}[aA]`), nil},
	// #<n>A() with n >= 2: a multi-dimensional array with empty contents
	{"sharp-array-empty", regexp.MustCompile(`#0*([2-9]|[1-9][0-9]+)[aA]\((\s|;[^\n]*\n|#\|[^|]*\|#)*\)`), nil},
	// long-float with an exponent of six or more digits (big.Float parsing time grows with it)
	{"long-float-exponent", regexp.MustCompile(`[0-9.][lL][+-]?[0-9]{6,}`), nil},
	// more than 10000 unclosed list/vector openings
	{"nesting-10000", nil, func(s string) bool { return c09Depth(s) >= 10000 }},
}

func c09ReaderConstruct(in string) string {
	for _, c := range c09ReaderConstructs {
		if c.match(in) {
			return c.name
		}
	}
	return "other"
}

func c09ReaderSig(in, kind, stage string) string {
	s := fmt.Sprintf("reader construct=%s kind=%s", c09ReaderConstruct(in), kind)
	if stage == "print" {
		s += " stage=print"
	}
	return s
}
