package main

// C19 worker processes. A session (a sequence of definition forms) has to be evaluated in a
// FRESH interpreter, its snapshot loaded into another fresh interpreter: interpreter state is
// process-global. The harness binary re-executes itself as `vh c19-worker` (request: one JSON
// document on stdin, reply: one JSON document on stdout). The worker runs with its scratch
// directory as working directory and never touches slip's configuration directory
// (repl.SetConfigDir is not called anywhere in the harness).

import (
	"bytes"
	"encoding/json"
	"fmt"
	"math"
	"os"
	"os/exec"
	"path/filepath"
	"strings"
	"time"

	"github.com/ohler55/slip"
	"verif/harness/lib"
)

func init() {
	if len(os.Args) > 1 && os.Args[1] == "c19-worker" {
		c19WorkerMain()
		os.Exit(0)
	}
	if len(os.Args) > 3 && os.Args[1] == "c19-try" {
		c19Try(os.Args[2], os.Args[3])
		os.Exit(0)
	}
}

// c19Try is a debugging aid: vh c19-try <scratch-dir> <file with one form per line; lines
// starting with "? " are probes>. Prints the two snapshots' difference and the probe results.
func c19Try(dir, file string) {
	text, err := os.ReadFile(file)
	if err != nil {
		fmt.Println(err)
		return
	}
	var forms, probes []string
	for _, line := range strings.Split(string(text), "\n") {
		line = strings.TrimSpace(line)
		switch {
		case line == "":
		case strings.HasPrefix(line, "? "):
			probes = append(probes, line[2:])
		default:
			forms = append(forms, line)
		}
	}
	dir, _ = filepath.Abs(dir)
	r1, err := c19RunWorker(dir, &c19Req{Mode: "session", Forms: forms, Probes: probes, Snap: true})
	if err != nil {
		fmt.Println("worker 1:", err)
		return
	}
	for i, o := range r1.Forms {
		if !o.Ok {
			fmt.Printf("form %d failed: %s %s: %s\n", i, forms[i], o.Class, o.Msg)
		}
	}
	if r1.Panic != "" || r1.SnapErr != nil {
		fmt.Println("worker 1 panic:", r1.Panic, r1.SnapErr)
	}
	_ = os.WriteFile(filepath.Join(dir, "snap1.lisp"), []byte(r1.Snapshot), 0o644)
	r2, err := c19RunWorker(dir, &c19Req{Mode: "load", File: "snap1.lisp", Probes: probes, Snap: true})
	if err != nil {
		fmt.Println("worker 2:", err)
		return
	}
	fmt.Println("load:", r2.Load, r2.Panic)
	if r2.Load != nil && !r2.Load.Ok {
		fmt.Println("  load message:", r2.Load.Msg)
	}
	_ = os.WriteFile(filepath.Join(dir, "snap2.lisp"), []byte(r2.Snapshot), 0o644)
	if !r2.Load.Ok {
		r3, _ := c19RunWorker(dir, &c19Req{Mode: "loadforms", File: "snap1.lisp", Probes: probes, Snap: true})
		for i, o := range r3.Forms {
			if !o.Ok {
				fmt.Printf("  form fails: %s => %s %s\n", r3.FormSrc[i], o.Class, o.Msg)
			}
		}
		_ = os.WriteFile(filepath.Join(dir, "snap3.lisp"), []byte(r3.Snapshot), 0o644)
		r2 = r3
	}
	for i, p := range probes {
		a, b := r1.Probes[i], r2.Probes[i]
		mark := "  "
		if a.String() != b.String() {
			mark = "!!"
		}
		fmt.Printf("%s %s\n     before: %s %s\n     after : %s %s\n", mark, p, a, a.Msg, b, b.Msg)
	}
}

// c19Req is one worker request.
type c19Req struct {
	Mode   string   `json:"mode"`   // session | load | loadforms
	Forms  []string `json:"forms"`  // session: source text of the forms, evaluated in order
	File   string   `json:"file"`   // load/loadforms: the snapshot file (relative to the worker's directory)
	Probes []string `json:"probes"` // expressions evaluated after the forms / the load
	Snap   bool     `json:"snap"`   // take a snapshot at the end
}

type c19Out struct {
	Ok    bool   `json:"ok"`
	Text  string `json:"text,omitempty"`
	Class string `json:"class,omitempty"`
	Msg   string `json:"msg,omitempty"`
}

func (o c19Out) String() string {
	if o.Ok {
		return "ok " + o.Text
	}
	return "err " + o.Class
}

// c19Resp is the worker's reply.
type c19Resp struct {
	Forms    []c19Out `json:"forms"`    // outcome of each form (session, loadforms)
	FormSrc  []string `json:"form_src"` // loadforms: one-line text of each top-level form of the file
	Load     *c19Out  `json:"load"`     // outcome of (load file)
	Probes   []c19Out `json:"probes"`   //
	Snapshot string   `json:"snapshot"` // text of (snapshot nil)
	SnapErr  *c19Out  `json:"snap_err"` // when taking the snapshot failed
	Panic    string   `json:"panic"`    // a Go panic that escaped (machinery or host fault)
	Died     bool     `json:"-"`        // the process ended without a reply
}

func c19Outcome(o lib.Outcome) c19Out {
	if o.Ok {
		return c19Out{Ok: true, Text: o.Text}
	}
	return c19Out{Class: o.Class, Msg: o.Msg}
}

func c19WorkerMain() {
	var req c19Req
	dec := json.NewDecoder(os.Stdin)
	if err := dec.Decode(&req); err != nil {
		fmt.Fprintln(os.Stderr, "c19-worker: bad request:", err)
		os.Exit(2)
	}
	resp := c19Resp{}
	func() {
		defer func() {
			if r := recover(); r != nil {
				resp.Panic = fmt.Sprint(r)
			}
		}()
		scope := slip.NewScope()
		switch req.Mode {
		case "session":
			for _, src := range req.Forms {
				resp.Forms = append(resp.Forms, c19Outcome(lib.EvalString(scope, src)))
			}
		case "load":
			o := c19Outcome(lib.EvalString(scope, fmt.Sprintf("(load %q)", req.File)))
			resp.Load = &o
		case "loadforms":
			text, err := os.ReadFile(req.File)
			if err != nil {
				resp.Panic = err.Error()
				return
			}
			// read form by form so that a form that cannot be read does not hide the others
			rest := text
			for len(bytes.TrimSpace(rest)) > 0 {
				var (
					code slip.Code
					pos  int
				)
				ro := lib.Protect(func() slip.Object {
					code, pos = slip.ReadOne(rest, scope)
					return nil
				})
				if !ro.Ok || pos <= 0 {
					resp.Forms = append(resp.Forms, c19Out{Class: "read:" + ro.Class, Msg: ro.Msg})
					resp.FormSrc = append(resp.FormSrc, c19OneLine(string(rest)))
					break
				}
				src := string(rest[:pos])
				rest = rest[pos:]
				if len(code) == 0 {
					continue // comment only
				}
				resp.FormSrc = append(resp.FormSrc, c19OneLine(src))
				form := code[0]
				resp.Forms = append(resp.Forms, c19Outcome(lib.Protect(func() slip.Object { return scope.Eval(form, 0) })))
			}
		}
		// the snapshot first: the probes must not be able to disturb it
		if req.Snap {
			o := lib.EvalString(scope, "(snapshot nil)")
			if s, ok := o.Value.(slip.String); o.Ok && ok {
				resp.Snapshot = string(s)
			} else {
				so := c19Outcome(o)
				resp.SnapErr = &so
			}
		}
		for _, p := range req.Probes {
			o := lib.EvalString(scope, p)
			out := c19Outcome(o)
			if o.Ok {
				out.Text = c19Print(o.Value)
			}
			resp.Probes = append(resp.Probes, out)
		}
	}()
	enc := json.NewEncoder(os.Stdout)
	_ = enc.Encode(&resp)
}

// c19Print prints a probe result with arrays and vectors spelled out.
func c19Print(v slip.Object) string {
	p := slip.Printer{Array: true, Base: 10, Case: slip.Symbol(":downcase"), Escape: true, Gensym: true,
		Length: math.MaxInt, Level: math.MaxInt, Lines: math.MaxInt, Prec: -1, RightMargin: 100000}
	out := lib.Protect(func() slip.Object { return slip.String(p.Append(nil, v, 0)) })
	if !out.Ok {
		return "<unprintable " + out.Class + ">"
	}
	return string(out.Value.(slip.String))
}

func c19OneLine(s string) string {
	s = strings.Join(strings.Fields(s), " ")
	if len(s) > 300 {
		s = s[:300] + "…"
	}
	return s
}

// c19WorkerLimit is the wall clock limit of one worker process. It is a distant backstop only (the
// workers run a few definitions; a second of CPU time): a worker that exceeds it, that cannot be
// started or that dies without a reply makes the SESSION "flaky", and a flaky session is run again,
// alone, with c19WorkerLimitAlone before anything is concluded (c19RunSessions). Verdicts therefore
// do not depend on the load of the machine.
const (
	c19WorkerLimit      = 300 * time.Second
	c19WorkerLimitAlone = 1800 * time.Second
)

// c19WorkerFlaky: the error of a worker that gave no usable reply for a reason that need not be slip's
type c19WorkerFlaky struct{ why string }

func (e *c19WorkerFlaky) Error() string { return e.why }

// c19RunWorker starts a fresh worker process in dir and returns its reply.
func c19RunWorker(dir string, req *c19Req) (*c19Resp, error) {
	return c19RunWorkerLimit(dir, req, c19WorkerLimit)
}

func c19RunWorkerLimit(dir string, req *c19Req, limit time.Duration) (*c19Resp, error) {
	if err := os.MkdirAll(dir, 0o755); err != nil {
		return nil, err
	}
	exe, err := os.Executable()
	if err != nil {
		return nil, err
	}
	in, _ := json.Marshal(req)
	cmd := exec.Command(exe, "c19-worker")
	cmd.Dir = dir
	cmd.Stdin = bytes.NewReader(in)
	// a scratch HOME: nothing the worker does may reach a real home / configuration directory
	cmd.Env = append(os.Environ(), "HOME="+filepath.Join(dir, "home"), "XDG_CONFIG_HOME="+filepath.Join(dir, "home", ".config"))
	var out, errb bytes.Buffer
	cmd.Stdout = &out
	cmd.Stderr = &errb
	if err = cmd.Start(); err != nil {
		return nil, &c19WorkerFlaky{"cannot start a worker: " + err.Error()} // fork/exec under load: EAGAIN, ENOMEM
	}
	done := make(chan error, 1)
	go func() { done <- cmd.Wait() }()
	select {
	case err = <-done:
	case <-time.After(limit):
		_ = cmd.Process.Kill()
		<-done
		return nil, &c19WorkerFlaky{fmt.Sprintf("no reply from the worker within %v", limit)}
	}
	resp := &c19Resp{}
	if derr := json.Unmarshal(out.Bytes(), resp); derr != nil {
		// the process died (Go fatal error, os.Exit in slip): report as a host fault of the session
		tail := errb.String()
		if len(tail) > 600 {
			tail = tail[len(tail)-600:]
		}
		// (killed from outside — OOM killer, a signal — looks the same: the session is run again alone)
		return &c19Resp{Panic: fmt.Sprintf("worker died: %v: %s", err, tail), Died: true}, nil
	}
	return resp, nil
}
