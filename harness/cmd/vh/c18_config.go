package main

// C18 — histories of configuration changes. *bag-time-format* and *bag-time-wrap* (pkg/bag/pkg.go)
// decide which converter every parsing entry point applies. A case sets the variables a few
// times (set, reset to nil, set again …), then parses a document full of values in the
// converters' trigger ranges and compares what the bag holds with the model that carries the
// configuration as state. Every case ends by setting both variables back to nil, and chunks of
// config cases run between the other families, so those families are the "use again after the
// reset" part: they must behave as in a process where the variables were never touched.

import (
	"fmt"
	"strings"

	"github.com/ohler55/slip"
	"github.com/ohler55/slip/pkg/flavors"
	"verif/harness/lib"
)

var c18Formats = []string{"second", "nano", "rfc3339", "2006-01-02T15:04:05.999999999Z07:00", "2006-01-02", ""}

// values in and around the trigger ranges of the converters
func c18TriggerDocs() []*jv {
	day := "2024-01-02"
	return []*jv{
		jFlo(1500000000.5), jFlo(946684800.5), jFlo(946684800), jFlo(2524608000), jFlo(2524607999.5), jFlo(2524608000.5), jFlo(946684799.5),
		jFlo(1.7e9 + 0.25), jFlo(1500000000), jFlo(-1500000000.5), jFlo(15.5),
		jBig(bigOf("1500000000000000000")), jBig(bigOf("946684800000000000")), jBig(bigOf("946684799999999999")), jBig(bigOf("9223372036854775799")),
		jBig(bigOf("9223372036854775807")), jBig(bigOf("1500000000")), jInt(5),
		jStr("2024-01-02T03:04:05Z"), jStr(day), jStr("2024-02-29"), jStr("2023-02-29"), jStr("2024-02-30"), jStr("2024-13-01"), jStr("2024-00-10"),
		jStr("2024-01-02T03:04:05.123456789+02:00"), jStr("2024-01-02T03:04:05.5-07:30"), jStr("2024-01-02T03:04:05"), jStr("2024-01-02T24:00:00Z"),
		jStr("2024-01-02T03:04:60Z"), jStr("2024-01-02 03:04:05Z"), jStr("2024-1-2"), jStr("x"), jStr(""), jStr("20240102"), jStr("2024-01-02T03:04:05.1234567891Z"),
		jObj("t", jStr(day)), jObj("t", jStr("2024-01-02T03:04:05Z")), jObj("t", jBig(bigOf("1500000000000000000"))), jObj("t", jInt(5)), jObj("t", jStr("x")),
		jObj("t", jStr(day), "u", jInt(1)), jObj("u", jStr(day)), jObj("t", jFlo(1500000000.5)), jObj("t", jNull()), jObj("t", jObj("t", jStr(day))),
	}
}

func (cs *c18Case) historyText() string {
	var parts []string
	for _, h := range cs.History {
		v := "nil"
		if h.Value != "" || !h.Symbol {
			v = fmt.Sprintf("%q", h.Value)
		}
		if h.Symbol && h.Value != "" {
			v = "'" + h.Value
		}
		parts = append(parts, h.Var+"="+v)
	}
	return strings.Join(parts, ",")
}

// historyKinds: signature part, the shape of the history
func (cs *c18Case) historyKinds() string {
	var parts []string
	for _, h := range cs.History {
		v := h.Value
		switch {
		case v == "":
			v = "nil"
		case strings.HasPrefix(v, "2006-01-02T"):
			v = "rfc3339nano"
		case v == "2006-01-02":
			v = "date"
		}
		parts = append(parts, h.Var+":"+v)
	}
	if len(parts) == 0 {
		return "untouched"
	}
	return strings.Join(parts, ">")
}

func (r *c18Run) setVar(h c18CfgStep) lib.Outcome {
	name := "*bag-time-format*"
	if h.Var == "wrap" {
		name = "*bag-time-wrap*"
	}
	var v slip.Object
	switch {
	case h.Value == "" && h.Symbol:
		v = nil
	case h.Symbol:
		v = slip.Symbol(h.Value)
	default:
		v = slip.String(h.Value)
	}
	return r.impl.eval("(setq "+name+" c18-cv)", map[string]slip.Object{"c18-cv": v})
}

func (r *c18Run) resetConfig() {
	r.impl.eval("(setq *bag-time-format* nil)", nil)
	r.impl.eval("(setq *bag-time-wrap* nil)", nil)
}

func (r *c18Run) runConfig(cases []*c18Case) {
	reqs := make([]string, 0, len(cases))
	type obsT struct {
		cs       *c18Case
		doc      *jv
		got      string
		vars     string
		fail     string
		pristine string
	}
	var obs []obsT
	c18TimeTokens = true
	defer func() { c18TimeTokens = false }()
	for _, cs := range cases {
		doc := parseDoc(cs.Doc)
		r.c.Ev.Case("config "+cs.historyText()+cs.Doc+cs.Entry, len(cs.History) >= 2)
		r.c.Ev.Hist("family", "config")
		r.c.Ev.Hist("config_history_len", fmt.Sprint(len(cs.History)))
		req := []string{"json config"}
		ob := obsT{cs: cs, doc: doc}
		for _, h := range cs.History {
			tag := "f"
			if h.Var == "wrap" {
				tag = "w"
			}
			req = append(req, tag+lib.Hex(h.Value))
			if o := r.setVar(h); !o.Ok {
				ob.fail = "setq " + h.Var + ": " + o.Class + " " + o.Msg
			}
		}
		req = append(req, ";", cs.Doc)
		reqs = append(reqs, strings.Join(req, " "))
		show := func(o lib.Outcome) string {
			if !o.Ok {
				return "err"
			}
			if s, ok := o.Value.(slip.String); ok {
				return string(s)
			}
			return ""
		}
		ob.vars = "f" + lib.Hex(show(r.impl.eval("*bag-time-format*", nil))) + " w" + lib.Hex(show(r.impl.eval("*bag-time-wrap*", nil)))
		if ob.fail == "" {
			one := &c18Case{Entry: cs.Entry, Form: cs.Form}
			bags, o := r.runMultiImpl(one, doc.text(), 1)
			switch {
			case !o.Ok:
				ob.fail = "parse: " + o.Class + " " + o.Msg
			case len(bags) != 1 || bags[0] == nil:
				ob.fail = "no bag"
			default:
				ob.got = canonAny(bags[0].Any)
			}
		}
		// back to the defaults; then the same parse must give what a process gives where the
		// variables were never touched: no time value anywhere
		r.resetConfig()
		if ob.fail == "" {
			one := &c18Case{Entry: cs.Entry, Form: cs.Form}
			bags, o := r.runMultiImpl(one, doc.text(), 1)
			if o.Ok && len(bags) == 1 && bags[0] != nil {
				ob.pristine = canonAny(bags[0].Any)
			} else {
				ob.pristine = "err " + o.Class
			}
		}
		obs = append(obs, ob)
	}
	replies := r.c.Model(reqs)
	for i, ob := range obs {
		cs := ob.cs
		steps := cs.historyKinds() + "|" + cs.Entry
		kind := ob.doc.firstKind()
		if ob.fail != "" {
			r.check(cs, false, c18Diff{sig: sig("config-parse", steps, kind, "condition"), observed: ob.fail, expected: "a bag", from: "model:json.config"})
			continue
		}
		parts := strings.SplitN(strings.TrimPrefix(replies[i], "ok "), " | ", 2)
		if len(parts) != 2 {
			fmt.Println("C18 harness bug: config reply", replies[i])
			continue
		}
		r.check(cs, ob.vars == parts[0], c18Diff{sig: sig("config-vars", cs.historyKinds(), "-", "wrong-value"), observed: ob.vars, expected: parts[0], from: "model:json.config",
			relies: []string{"SlipVerif.Json.conv_is_derived"}})
		exp := canonTokenString(parts[1])
		r.check(cs, ob.got == exp, c18Diff{sig: sig("config-parse", steps, kind, "wrong-value"), observed: ob.got, expected: exp, from: "model:json.config",
			relies: []string{"SlipVerif.Json.conv_is_derived", "SlipVerif.Json.reset_restores_default"}})
		r.check(cs, ob.pristine == ob.doc.canon(), c18Diff{sig: sig("config-reset", steps, kind, "not-as-untouched"),
			observed: "after setting both variables back to nil the same text parses to " + ob.pristine, expected: ob.doc.canon(), from: "impl:reset-equals-untouched"})
	}
}

// checkPristine: the configuration is what it is in a process that never touched it (both
// variables nil, no converter): called after every family and after every call that was given
// :time-format / :time-wrap keywords.
func (r *c18Run) checkPristine(cs *c18Case, after string) {
	show := func(src string) string {
		o := r.impl.eval(src, nil)
		if !o.Ok {
			return "err " + o.Class
		}
		return slip.ObjectString(o.Value)
	}
	vars := show("*bag-time-format*") + " " + show("*bag-time-wrap*")
	r.check(cs, vars == "nil nil", c18Diff{sig: sig("config-leak", after, "-", "variables-changed"), observed: "*bag-time-format* *bag-time-wrap* = " + vars,
		expected: "nil nil", from: "impl:configuration-untouched"})
	probe := jArr(jFlo(1500000000.5), jBig(bigOf("1500000000000000000")), jStr("2024-01-02T03:04:05Z"), jStr("2024-01-02"), jObj("t", jStr("2024-01-02")), jObj("t", jInt(5)))
	b, o := r.impl.makeBag(probe.text(), r.total)
	got := "err " + o.Class
	if o.Ok {
		got = canonAny(b.Any)
	}
	r.check(cs, got == probe.canon(), c18Diff{sig: sig("config-leak", after, "-", "converter-active"), observed: got, expected: probe.canon(), from: "impl:configuration-untouched"})
}

// sweepConfig: fixed histories x trigger documents x parse entry points.
func (r *c18Run) sweepConfig() []*c18Case {
	f := func(v string) c18CfgStep { return c18CfgStep{Var: "format", Value: v} }
	fs := func(v string) c18CfgStep { return c18CfgStep{Var: "format", Value: v, Symbol: true} }
	wv := func(v string) c18CfgStep { return c18CfgStep{Var: "wrap", Value: v} }
	ws := func(v string) c18CfgStep { return c18CfgStep{Var: "wrap", Value: v, Symbol: true} }
	rfc := "2006-01-02T15:04:05.999999999Z07:00"
	hists := [][]c18CfgStep{
		{}, {f("second")}, {f("second"), fs("")}, {fs("nano")}, {fs("nano"), f("")}, {f("nano"), fs("")}, {f("rfc3339")}, {f("rfc3339"), fs("")},
		{f(rfc)}, {f(rfc), fs("")}, {f("2006-01-02")}, {f("2006-01-02"), fs("")}, {f("2006-01-02"), wv("t")}, {wv("t")}, {wv("t"), f("second")},
		{f("second"), wv("t"), ws("")}, {f("second"), wv("t"), fs("")}, {f("second"), wv("t"), fs(""), ws("")}, {f("second"), ws("t"), ws(""), fs("")},
		{fs("nano"), f("second")}, {f("second"), fs("nano"), fs("")}, {f("rfc3339"), wv("t"), fs(""), f("nano")}, {f("second"), fs(""), f("second")},
	}
	all := jArr(c18TriggerDocs()...)
	docs := []*jv{all, jObj("a", all), jFlo(1500000000.5), jBig(bigOf("1500000000000000000")), jStr("2024-01-02T03:04:05Z"), jObj("t", jStr("2024-01-02"))}
	entries := []struct {
		name string
		form int
	}{{"make-bag", 0}, {"make-bag", 1}, {"init-parse", 0}, {"bag-parse", 0}, {"bag-read", 2}, {"send-read", 2}, {"init-read", 2}}
	var out []*c18Case
	for hi, h := range hists {
		for di, d := range docs {
			for ei, e := range entries {
				if di >= 2 && (hi+di+ei)%3 != 0 {
					continue // the small documents: a third of the combinations
				}
				out = append(out, &c18Case{Family: "config", Doc: w(d), Entry: e.name, Form: e.form, History: h, Sweep: true, Cell: "history"})
			}
		}
	}
	return out
}

func (r *c18Run) randomConfigCase() *c18Case {
	g := r.g
	cs := &c18Case{Family: "config"}
	n := g.r.Intn(5)
	for i := 0; i < n; i++ {
		st := c18CfgStep{Var: "format", Symbol: g.r.Chance(30)}
		if g.r.Chance(30) {
			st.Var = "wrap"
			st.Value = []string{"t", "t", "time", ""}[g.r.Intn(4)]
		} else {
			st.Value = c18Formats[g.r.Intn(len(c18Formats))]
			if strings.Contains(st.Value, ":") {
				st.Symbol = false
			}
		}
		if g.r.Chance(35) {
			st.Value = ""
		}
		if st.Value == "" {
			st.Symbol = g.r.Bool()
		}
		cs.History = append(cs.History, st)
	}
	pool := c18TriggerDocs()
	var build func(d int) *jv
	build = func(d int) *jv {
		if d <= 0 || g.r.Chance(45) {
			if g.r.Chance(75) {
				return pool[g.r.Intn(len(pool))]
			}
			return g.scalar()
		}
		k := 1 + g.r.Intn(4)
		if g.r.Bool() {
			a := &jv{kind: 'a'}
			for i := 0; i < k; i++ {
				a.arr = append(a.arr, build(d-1))
			}
			return a
		}
		o := &jv{kind: 'o'}
		for i := 0; i < k; i++ {
			key := []string{"t", "t", "u", "time", "a"}[g.r.Intn(5)]
			dup := false
			for _, e := range o.keys {
				dup = dup || e == key
			}
			if !dup {
				o.keys = append(o.keys, key)
				o.vals = append(o.vals, build(d-1))
			}
		}
		return o
	}
	cs.Doc = strings.Join(build(3).wire(), " ")
	e := []struct {
		name string
		form int
	}{{"make-bag", 0}, {"make-bag", 1}, {"init-parse", 0}, {"bag-parse", 0}, {"bag-read", 2}, {"send-read", 2}, {"init-read", 2}}[g.r.Intn(7)]
	cs.Entry, cs.Form = e.name, e.form
	return cs
}

var _ = flavors.Instance{}
