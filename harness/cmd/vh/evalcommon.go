package main

// Shared machinery of the C01 / C07 harnesses (the evaluator slices): S-expressions, the model
// request encoding, running the real slip on a program with the trace primitive `vtr` and the
// lock probe `vheld` (Go built-ins registered here with slip.Define), canonical printing of slip
// values, and the observation type both sides are reduced to.

import (
	"bufio"
	"context"
	"fmt"
	"io"
	"os"
	"os/exec"
	"strconv"
	"strings"
	"sync"
	"time"

	"github.com/ohler55/slip"
	"github.com/ohler55/slip/pkg/gi"
	"verif/harness/lib"
)

// ---------------------------------------------------------------------------------------------
// S-expressions (restricted syntax: lists, dotted tails, integers, symbols, "strings", nil, t)

type sx struct {
	k    byte // 'l' list, 'i' int, 'y' symbol, 's' string, 'n' nil, 't' true
	i    int64
	s    string
	l    []*sx
	tail *sx
}

func sxParseAll(src string) ([]*sx, error) {
	p := &sxParser{src: src}
	var out []*sx
	for {
		p.skip()
		if p.pos >= len(p.src) {
			return out, nil
		}
		x, err := p.one()
		if err != nil {
			return nil, err
		}
		out = append(out, x)
	}
}

type sxParser struct {
	src string
	pos int
}

func (p *sxParser) skip() {
	for p.pos < len(p.src) && (p.src[p.pos] == ' ' || p.src[p.pos] == '\n' || p.src[p.pos] == '\t') {
		p.pos++
	}
}

func (p *sxParser) one() (*sx, error) {
	p.skip()
	if p.pos >= len(p.src) {
		return nil, fmt.Errorf("unexpected end")
	}
	switch c := p.src[p.pos]; {
	case c == '(':
		p.pos++
		x := &sx{k: 'l'}
		for {
			p.skip()
			if p.pos >= len(p.src) {
				return nil, fmt.Errorf("unclosed list")
			}
			if p.src[p.pos] == ')' {
				p.pos++
				if len(x.l) == 0 {
					return &sx{k: 'n'}, nil
				}
				return x, nil
			}
			if p.src[p.pos] == '.' && p.pos+1 < len(p.src) && p.src[p.pos+1] == ' ' {
				p.pos++
				t, err := p.one()
				if err != nil {
					return nil, err
				}
				x.tail = t
				p.skip()
				if p.pos >= len(p.src) || p.src[p.pos] != ')' {
					return nil, fmt.Errorf("bad dotted list")
				}
				p.pos++
				return x, nil
			}
			e, err := p.one()
			if err != nil {
				return nil, err
			}
			x.l = append(x.l, e)
		}
	case c == ')':
		return nil, fmt.Errorf("unexpected )")
	case c == '"':
		end := strings.IndexByte(p.src[p.pos+1:], '"')
		if end < 0 {
			return nil, fmt.Errorf("unclosed string")
		}
		s := p.src[p.pos+1 : p.pos+1+end]
		p.pos += end + 2
		return &sx{k: 's', s: s}, nil
	default:
		start := p.pos
		for p.pos < len(p.src) && !strings.ContainsRune(" \n\t()\"", rune(p.src[p.pos])) {
			p.pos++
		}
		tok := p.src[start:p.pos]
		if n, err := strconv.ParseInt(tok, 10, 64); err == nil {
			return &sx{k: 'i', i: n}, nil
		}
		switch tok {
		case "nil":
			return &sx{k: 'n'}, nil
		case "t":
			return &sx{k: 't'}, nil
		}
		return &sx{k: 'y', s: tok}, nil
	}
}

func (x *sx) write(b *strings.Builder) {
	switch x.k {
	case 'n':
		b.WriteString("nil")
	case 't':
		b.WriteString("t")
	case 'i':
		b.WriteString(strconv.FormatInt(x.i, 10))
	case 's':
		b.WriteByte('"')
		b.WriteString(x.s)
		b.WriteByte('"')
	case 'y':
		b.WriteString(x.s)
	case 'l':
		b.WriteByte('(')
		for i, e := range x.l {
			if i > 0 {
				b.WriteByte(' ')
			}
			e.write(b)
		}
		if x.tail != nil {
			b.WriteString(" . ")
			x.tail.write(b)
		}
		b.WriteByte(')')
	}
}

func (x *sx) String() string {
	var b strings.Builder
	x.write(&b)
	return b.String()
}

func sxText(forms []*sx) string {
	parts := make([]string, len(forms))
	for i, f := range forms {
		parts[i] = f.String()
	}
	return strings.Join(parts, " ")
}

// toks appends the model token encoding of x.
func (x *sx) toks(out *[]string) {
	switch x.k {
	case 'n':
		*out = append(*out, "n")
	case 't':
		*out = append(*out, "t")
	case 'i':
		*out = append(*out, "i:"+strconv.FormatInt(x.i, 10))
	case 's':
		*out = append(*out, "s:"+lib.Hex(x.s))
	case 'y':
		*out = append(*out, "y:"+lib.Hex(x.s))
	case 'l':
		*out = append(*out, "(")
		for _, e := range x.l {
			e.toks(out)
		}
		if x.tail != nil {
			*out = append(*out, ".")
			x.tail.toks(out)
		}
		*out = append(*out, ")")
	}
}

func (x *sx) size() int {
	n := 1
	for _, e := range x.l {
		n += e.size()
	}
	return n
}

func (x *sx) depth() int {
	d := 0
	for _, e := range x.l {
		if ed := e.depth(); ed > d {
			d = ed
		}
	}
	if x.k == 'l' {
		return d + 1
	}
	return 0
}

// ---------------------------------------------------------------------------------------------
// one program = one case

const evNMutex = 3
const evFuel = 4000

type evCase struct {
	src    string // program text (top-level forms)
	forms  []*sx
	cell   string // sweep cell name ("" for composite cases)
	exit   string // sweep exit kind (C07)
	kind   string // generator family, for the histogram
	prefix string // the substring all generated identifiers of this case contain ("" for sweep cells)
}

func evNewCase(src, cell, exit, kind string) evCase {
	forms, err := sxParseAll(src)
	if err != nil {
		panic(fmt.Sprintf("harness bug: cannot parse generated program %q: %v", src, err))
	}
	return evCase{src: sxText(forms), forms: forms, cell: cell, exit: exit, kind: kind}
}

func (cs evCase) request() string {
	toks := []string{"eval", "run", strconv.Itoa(evFuel), strconv.Itoa(evNMutex)}
	for _, f := range cs.forms {
		f.toks(&toks)
	}
	return strings.Join(toks, " ")
}

// evObs is what both sides are reduced to: outcome kind, primary value / condition class, the
// ordered trace, the final lock states.
type evObs struct {
	kind  string // val | err | escaped | outside | timeout | fault
	value string // printed primary value (val) or condition class (err)
	trace string
	locks string
	msg   string // implementation only: condition message (never compared)
}

func (o evObs) String() string {
	return o.kind + "|" + o.value + "|" + o.trace + "|" + o.locks
}

func evParseReply(r string) evObs {
	parts := strings.Split(r, "|")
	o := evObs{kind: parts[0]}
	if len(parts) == 4 {
		o.value, o.trace, o.locks = parts[1], parts[2], parts[3]
	} else if len(parts) == 3 {
		o.trace, o.locks = parts[1], parts[2]
	}
	return o
}

// ---------------------------------------------------------------------------------------------
// the implementation side

var (
	evTrace   []string
	evDefOnce sync.Once
	evSteps   int
	evTrips   int
)

const evStepMax = 100000

type evVtr struct{ slip.Function }

// Call appends the canonical print of the argument to the trace and returns the argument.
func (f *evVtr) Call(s *slip.Scope, args slip.List, depth int) slip.Object {
	slip.CheckArgCount(s, depth, f, args, 1, 1)
	evTrace = append(evTrace, evCanon(args[0]))
	return args[0]
}

type evVheld struct{ slip.Function }

// Call reports whether the mutex argument is currently locked.
func (f *evVheld) Call(s *slip.Scope, args slip.List, depth int) slip.Object {
	slip.CheckArgCount(s, depth, f, args, 1, 1)
	m, ok := args[0].(*gi.Mutex)
	if !ok {
		slip.TypePanic(s, depth, "mutex", args[0], "mutex")
	}
	if (*sync.Mutex)(m).TryLock() {
		(*sync.Mutex)(m).Unlock()
		return nil
	}
	return slip.True
}

type evVopen struct{ slip.Function }

// Call reports whether the stream argument is open.
func (f *evVopen) Call(s *slip.Scope, args slip.List, depth int) slip.Object {
	slip.CheckArgCount(s, depth, f, args, 1, 1)
	st, ok := args[0].(slip.Stream)
	if !ok {
		slip.TypePanic(s, depth, "stream", args[0], "stream")
	}
	if fs, isFile := args[0].(*slip.FileStream); isFile {
		// IsOpen of a file stream tries an empty write, which fails on a stream opened for input: ask the file itself
		if _, err := (*os.File)(fs).Stat(); err == nil {
			return slip.True
		}
		return nil
	}
	if st.IsOpen() {
		return slip.True
	}
	return nil
}

func evDefine() {
	evDefOnce.Do(func() {
		slip.Define(func(args slip.List) slip.Object {
			f := evVopen{Function: slip.Function{Name: "vopen", Args: args}}
			f.Self = &f
			return &f
		}, &slip.FuncDoc{Name: "vopen", Args: []*slip.DocArg{{Name: "stream", Type: "stream"}}, Return: "boolean",
			Text: "verification probe: is the stream open"}, &slip.UserPkg)
		slip.Define(func(args slip.List) slip.Object {
			f := evVtr{Function: slip.Function{Name: "vtr", Args: args}}
			f.Self = &f
			return &f
		}, &slip.FuncDoc{Name: "vtr", Args: []*slip.DocArg{{Name: "value", Type: "object"}}, Return: "object",
			Text: "verification trace primitive: records its argument and returns it"}, &slip.UserPkg)
		slip.Define(func(args slip.List) slip.Object {
			f := evVheld{Function: slip.Function{Name: "vheld", Args: args}}
			f.Self = &f
			return &f
		}, &slip.FuncDoc{Name: "vheld", Args: []*slip.DocArg{{Name: "mutex", Type: "mutex"}}, Return: "boolean",
			Text: "verification probe: is the mutex locked"}, &slip.UserPkg)
	})
}

// evCanon prints a slip value in the canonical form shared with the model driver.
func evCanon(obj slip.Object) string {
	var b strings.Builder
	evCanonTo(&b, obj)
	return b.String()
}

// evCanonResult prints the primary value of the result of a program.
func evCanonResult(obj slip.Object) string {
	if vs, ok := obj.(slip.Values); ok {
		if len(vs) == 0 {
			return "nil"
		}
		obj = vs[0]
	}
	return evCanon(obj)
}

func evCanonTo(b *strings.Builder, obj slip.Object) {
	switch tv := obj.(type) {
	case nil:
		b.WriteString("nil")
	case slip.Fixnum:
		b.WriteString(strconv.FormatInt(int64(tv), 10))
	case slip.String:
		b.WriteByte('"')
		b.WriteString(string(tv))
		b.WriteByte('"')
	case slip.Symbol:
		b.WriteString(strings.ToLower(string(tv)))
	case slip.List:
		if len(tv) == 0 {
			b.WriteString("nil")
			return
		}
		b.WriteByte('(')
		for i, e := range tv {
			if t, ok := e.(slip.Tail); ok {
				b.WriteString(" . ")
				evCanonTo(b, t.Value)
				continue
			}
			if i > 0 {
				b.WriteByte(' ')
			}
			evCanonTo(b, e)
		}
		b.WriteByte(')')
	case slip.Values:
		// Only the RESULT of a program may be a multiple-values object (evCanonResult takes its primary value).
		// Anywhere else — an element of a list, the argument a function received (vtr) — a values object is not
		// a Lisp datum: a variable or a parameter was bound to the unreduced values of a form. It is printed as
		// what it is, so that it can never pass for its primary value.
		b.WriteString("#<values")
		for _, e := range tv {
			b.WriteByte(' ')
			evCanonTo(b, e)
		}
		b.WriteString(">")
	case *slip.Lambda, *slip.FuncInfo:
		b.WriteString("#<fn>")
	case *gi.Mutex:
		b.WriteString("#<mutex>")
	case *slip.FileStream:
		b.WriteString("#<file-stream>")
	case *slip.ReturnResult:
		b.WriteString("#<return-result>")
	default:
		if obj == slip.True {
			b.WriteString("t")
			return
		}
		if _, ok := obj.(slip.Funky); ok {
			b.WriteString("#<fn>")
			return
		}
		h := obj.Hierarchy()
		cls := "?"
		if len(h) > 0 {
			cls = strings.ToLower(string(h[0]))
		}
		if strings.HasPrefix(obj.String(), "#<go ") {
			cls = "go"
		}
		b.WriteString("#<" + cls + ">")
	}
}

// evRunImplLocal evaluates the program on the real slip in this process: fresh scope, fresh
// mutexes vmx0…, trace reset.
func evRunImplLocal(cs evCase) evObs {
	evDefine()
	scope := slip.NewScope()
	evTrace = evTrace[:0]
	evSteps, evTrips = 0, 0
	scope.InterruptCheck = func() {
		evSteps++
		if evSteps > evStepMax {
			if evTrips == 0 {
				// raised once, as a slip condition (a foreign panic value would be wrapped by slip's own
				// condition construction, which evaluates functions and would trip again)
				evTrips = 1
				slip.ErrorPanic(scope, 0, "verif step limit")
			}
			if evSteps > 20*evStepMax {
				// the program swallowed the condition and keeps running: give up on this process
				os.Exit(3)
			}
		}
	}
	mx := make([]*gi.Mutex, evNMutex)
	for k := range mx {
		mx[k] = new(gi.Mutex)
		scope.Let(slip.Symbol(fmt.Sprintf("vmx%d", k)), mx[k])
	}
	o := lib.EvalString(scope, cs.src)
	obs := evObs{trace: strings.Join(evTrace, " ")}
	var lb strings.Builder
	for _, m := range mx {
		if (*sync.Mutex)(m).TryLock() {
			(*sync.Mutex)(m).Unlock()
			lb.WriteByte('0')
		} else {
			lb.WriteByte('1')
		}
	}
	obs.locks = lb.String()
	switch {
	case o.Ok:
		obs.kind, obs.value = "val", evCanonResult(o.Value)
	case evTrips > 0:
		obs.kind = "timeout"
	case o.GoFault || o.Class == "go-panic" || o.Class == "go-error":
		obs.kind, obs.value, obs.msg = "fault", o.Class, o.Msg
	default:
		obs.kind, obs.value, obs.msg = "err", o.Class, o.Msg
	}
	return obs
}

// ---------------------------------------------------------------------------------------------
// worker process: the implementation runs in a child (`vh evalworker`, same binary) so that a
// program on which slip never returns (a Go-level loop, runaway recursion) or dies can be given up
// after a deadline; the child is restarted on demand. One line per program, one reply line.

func init() { props["evalworker"] = func(c *lib.Ctx) { evWorkerLoop() } }

func evWorkerLoop() {
	in := bufio.NewReaderSize(os.Stdin, 1<<20)
	out := bufio.NewWriter(os.Stdout)
	for {
		line, err := in.ReadString('\n')
		if line = strings.TrimRight(line, "\n"); line != "" {
			forms, perr := sxParseAll(line)
			var o evObs
			if perr != nil {
				o = evObs{kind: "fault", value: "harness-parse"}
			} else {
				o = evRunImplLocal(evCase{src: line, forms: forms})
			}
			fmt.Fprintf(out, "%s\t%s\t%s\t%s\t%s\n", o.kind, o.value, o.trace, o.locks, lib.Hex(o.msg))
			out.Flush()
		}
		if err != nil {
			os.Exit(0)
		}
	}
}

type evWorkerProc struct {
	cmd   *exec.Cmd
	in    io.WriteCloser
	lines chan string
}

var (
	evW        *evWorkerProc
	evRestarts int
	evServed   int
	evGaveUp   []string
)

// Limits of one program on the implementation side. They are CPU time of the worker process (read
// from /proc), never wall clock: on a machine at load 100 a healthy worker may need minutes of wall
// clock for what is 50 ms of work. A worker is given up as "hang" only when
//   (a) it has consumed more than evCPULimit of CPU time on this one program, or
//   (b) it is blocked: no CPU progress at all and every thread asleep for evBlockedSamples
//       consecutive samples (a mutex that is never released), or
//   (c) the distant wall-clock backstop evWallBackstop has passed.
// and then only after the same program, re-run alone on a fresh worker, was given up again.
var (
	evCPULimit       = 8 * time.Second
	evBlockedSamples = 15
	evWallBackstop   = 30 * time.Minute
	evHangs          int
)

const evClockTick = 100 // USER_HZ on Linux

// evProcSample returns the CPU time consumed so far by the process and whether every one of its
// threads is asleep (state S). ok=false: /proc is not readable (the caller falls back to wall clock).
func evProcSample(pid int) (cpu time.Duration, asleep bool, ok bool) {
	parse := func(path string) (state byte, ticks int64, ok bool) {
		b, err := os.ReadFile(path)
		if err != nil {
			return 0, 0, false
		}
		s := string(b)
		i := strings.LastIndexByte(s, ')')
		if i < 0 {
			return 0, 0, false
		}
		f := strings.Fields(s[i+1:])
		if len(f) < 13 {
			return 0, 0, false
		}
		ut, e1 := strconv.ParseInt(f[11], 10, 64)
		st, e2 := strconv.ParseInt(f[12], 10, 64)
		if e1 != nil || e2 != nil {
			return 0, 0, false
		}
		return f[0][0], ut + st, true
	}
	_, ticks, ok := parse(fmt.Sprintf("/proc/%d/stat", pid))
	if !ok {
		return 0, false, false
	}
	asleep = true
	tasks, err := os.ReadDir(fmt.Sprintf("/proc/%d/task", pid))
	if err != nil {
		asleep = false
	}
	for _, t := range tasks {
		st, _, ok2 := parse(fmt.Sprintf("/proc/%d/task/%s/stat", pid, t.Name()))
		if !ok2 || st != 'S' {
			asleep = false
		}
	}
	return time.Duration(ticks) * time.Second / evClockTick, asleep, true
}

func evWorkerStart() *evWorkerProc {
	cmd := exec.Command(os.Args[0], "evalworker")
	cmd.Stderr = io.Discard // redefinition warnings of replayed / shrunk programs
	in, err := cmd.StdinPipe()
	if err != nil {
		fmt.Fprintln(os.Stderr, "harness: cannot start worker:", err)
		os.Exit(2)
	}
	outp, err := cmd.StdoutPipe()
	if err != nil {
		fmt.Fprintln(os.Stderr, "harness: cannot start worker:", err)
		os.Exit(2)
	}
	if err = cmd.Start(); err != nil {
		fmt.Fprintln(os.Stderr, "harness: cannot start worker:", err)
		os.Exit(2)
	}
	w := &evWorkerProc{cmd: cmd, in: in, lines: make(chan string, 1)}
	go func() {
		r := bufio.NewReaderSize(outp, 1<<20)
		for {
			line, err := r.ReadString('\n')
			if err != nil {
				close(w.lines)
				return
			}
			w.lines <- strings.TrimRight(line, "\n")
		}
	}()
	return w
}

// evRunImpl evaluates the program on the real slip (in the worker). A worker that exceeds the CPU
// limit / is blocked, or dies, is observed as kind "hang" / "died" — after the program was re-run
// alone on a fresh worker with the same result (a verdict never rests on one attempt).
func evRunImpl(cs evCase) evObs {
	o := evRunImplOnce(cs, evCPULimit)
	if o.kind != "hang" && o.kind != "died" {
		return o
	}
	if evNoRetry {
		return o
	}
	// alone, on a fresh worker, with a doubled CPU allowance
	o2 := evRunImplOnce(cs, 2*evCPULimit)
	if o2.kind == "hang" || o2.kind == "died" {
		evHangs++
		if evHangs >= 4 && evCPULimit > 2*time.Second {
			// a tree on which many programs never return: the verdict is settled, spend less on each
			evCPULimit = 2 * time.Second
		}
		if len(evGaveUp) < 8 {
			evGaveUp = append(evGaveUp, o2.kind+": "+cs.src)
		}
	}
	return o2
}

var evNoRetry bool // shrinking: candidates are judged by one attempt

func evRunImplOnce(cs evCase, cpuLimit time.Duration) evObs {
	// the interpreter keeps every function and global variable ever defined: a fresh worker every few
	// thousand programs keeps the cost per program flat
	if evW != nil && evServed >= 3000 {
		_ = evW.in.Close()
		_ = evW.cmd.Wait()
		evW = nil
	}
	if evW == nil {
		evW = evWorkerStart()
		evServed = 0
	}
	evServed++
	w := evW
	giveUp := func(kind string) evObs {
		_ = w.cmd.Process.Kill()
		_ = w.cmd.Wait()
		evW = nil
		evRestarts++
		if os.Getenv("VERIF_EV_DEBUG") != "" {
			fmt.Fprintf(os.Stderr, "worker %s on: %s\n", kind, cs.src)
		}
		return evObs{kind: kind}
	}
	cpu0, _, procOK := evProcSample(w.cmd.Process.Pid)
	if _, err := io.WriteString(w.in, cs.src+"\n"); err != nil {
		return giveUp("died")
	}
	start := time.Now()
	blocked := 0
	lastCPU := cpu0
	tick := 250 * time.Millisecond
	for {
		select {
		case line, ok := <-w.lines:
			if !ok {
				return giveUp("died")
			}
			f := strings.Split(line, "\t")
			if len(f) != 5 {
				return giveUp("died")
			}
			return evObs{kind: f[0], value: f[1], trace: f[2], locks: f[3], msg: lib.Unhex(f[4])}
		case <-time.After(tick):
			if tick < time.Second {
				tick *= 2
			}
			if time.Since(start) > evWallBackstop {
				return giveUp("hang")
			}
			cpu, asleep, ok := evProcSample(w.cmd.Process.Pid)
			if !ok || !procOK {
				// no /proc: wall clock with a generous allowance is all there is
				if time.Since(start) > 30*cpuLimit {
					return giveUp("hang")
				}
				continue
			}
			if cpu-cpu0 > cpuLimit {
				return giveUp("hang")
			}
			if asleep && cpu == lastCPU {
				blocked++
				if blocked >= evBlockedSamples {
					return giveUp("hang")
				}
			} else {
				blocked = 0
			}
			lastCPU = cpu
		}
	}
}

// evModelTimed runs request lines through the model driver with a deadline (shrink candidates can
// multiply loop counts: fuel bounds the depth of an evaluation, not its total work). nil = gave up.
func evModelTimed(c *lib.Ctx, lines []string, deadline time.Duration) []string {
	ctx, cancel := context.WithTimeout(context.Background(), deadline)
	defer cancel()
	cmd := exec.CommandContext(ctx, c.ModelBin)
	cmd.Stdin = strings.NewReader(strings.Join(lines, "\n") + "\n")
	out, err := cmd.Output()
	if err != nil {
		return nil
	}
	res := strings.Split(strings.TrimRight(string(out), "\n"), "\n")
	if len(res) != len(lines) {
		return nil
	}
	for _, r := range res {
		if strings.HasPrefix(r, "bad-request") {
			return nil
		}
	}
	return res
}

// ---------------------------------------------------------------------------------------------
// comparison

// evAspect classifies a disagreement by a fixed function of (observed, expected):
//
//	o: the implementation's outcome kind (val, err:<class>, fault, timeout)
//	v: same | diff          printed primary value (or condition class) against the model's
//	t: same | longer | shorter | other     implementation trace relative to the model's
//	l: same | held | diff   final lock states
//
// Empty string = agreement.
func evAspect(impl, model evObs) string {
	if impl.kind == model.kind && impl.value == model.value && impl.trace == model.trace && impl.locks == model.locks {
		return ""
	}
	o := impl.kind
	if impl.kind == "err" {
		o = "err:" + impl.value
	}
	v := "same"
	if impl.kind != model.kind || impl.value != model.value {
		v = "diff"
	}
	t := "other"
	switch {
	case impl.trace == model.trace:
		t = "same"
	case strings.HasPrefix(impl.trace, model.trace) && (model.trace == "" || impl.trace[len(model.trace)] == ' '):
		t = "longer"
	case strings.HasPrefix(model.trace, impl.trace) && (impl.trace == "" || model.trace[len(impl.trace)] == ' '):
		t = "shorter"
	}
	l := "same"
	if impl.locks != model.locks {
		l = "diff"
		if strings.Contains(impl.locks, "1") {
			l = "held"
		}
	}
	return fmt.Sprintf("o=%s,v=%s,t=%s,l=%s", o, v, t, l)
}

// evComparable: the model made a claim about this program.
func evComparable(model evObs) bool {
	return model.kind == "val" || model.kind == "err"
}

func evNontrivial(cs evCase, model evObs) bool {
	// Appendix C: >= 2 nested non-atomic forms, trace length >= 2, no generator-induced type error
	d := 0
	for _, f := range cs.forms {
		if fd := f.depth(); fd > d {
			d = fd
		}
	}
	ntrace := 0
	if model.trace != "" {
		ntrace = len(strings.Fields(model.trace))
	}
	return d >= 2 && ntrace >= 2 && !(model.kind == "err" && (model.value == "type-error" || model.value == "program-error"))
}

func evReplayMap(cs evCase, impl, model evObs, relies []string) map[string]any {
	return map[string]any{
		"input":         map[string]any{"program": cs.src, "cell": cs.cell, "exit": cs.exit},
		"entry":         "Scope.Eval",
		"observed":      impl.String() + "   (kind|value-or-class|trace|locks) " + impl.msg,
		"expected":      model.String(),
		"expected_from": "model:eval.run",
		"relies_on":     relies,
	}
}

// evReplay re-runs a recorded case; returns true when it still disagrees.
func evReplay(c *lib.Ctx, relies []string) {
	var rec map[string]any
	if err := lib.ReadJSON(c.Replay, &rec); err != nil {
		fmt.Println("cannot read replay file:", err)
		return
	}
	in, _ := rec["input"].(map[string]any)
	src, _ := in["program"].(string)
	if src == "" {
		fmt.Println("replay file has no program")
		return
	}
	cell, _ := in["cell"].(string)
	exit, _ := in["exit"].(string)
	cs := evNewCase(src, cell, exit, "replay")
	model := evParseReply(c.Model([]string{cs.request()})[0])
	impl := evRunImpl(cs)
	fmt.Printf("replay %s\n  implementation: %s %s\n  model         : %s\n", cs.src, impl, impl.msg, model)
	if a := evAspect(impl, model); a != "" && evComparable(model) {
		c.Report("replay "+a, false, evReplayMap(cs, impl, model, relies))
	}
}
