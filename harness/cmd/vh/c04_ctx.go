package main

// C04 — further call contexts of part (i). Every lambda list goes through the same Lambda.Call,
// but who builds the argument vector, which scope the call runs in and what happens to the bound
// values afterwards differs:
//
//   mvcall        (multiple-value-call LAM (values a…) (values b…))
//   apply-spread  (apply LAM a1 … ak (list ak+1 …))         k = half of the arguments
//   flavor        (defmethod (c04fl :mN) LL (list p…)) (send c04inst :mN args…)   — scope of an instance
//   clos          (defmethod c04gN ((a1 t) …) (list p…)) (c04gN args…)            — generic function dispatch
//   mapcar2       (mapcar LAM '(a1 a1') '(a2 a2') …): two calls through a caller that reuses its
//                 argument vector; both result lists are looked at after the second call
//   map2          the same through (map 'list …)
//   around        generic function with two :around methods and a primary method, all with the
//                 lambda list of the shape: the first :around method (specialised on integer) calls
//                 (call-next-method a1' a2' …) with other arguments, the second one
//                 (call-next-method) without arguments; every method reports its bindings
//   whopper       flavors: a whopper with the lambda list calls (continue-whopper a1' …), the primary
//                 method has the same lambda list
//   defun3, funcall3, flavor3, clos3
//                 three calls of the SAME function / lambda object / flavors method / CLOS method in one
//                 form, (list (F V) (F V') (F V)): nothing a call leaves behind (a cached default or
//                 initial form, a count, a binding) may change the next call
//
// Multi-call contexts yield one outcome per call; each is judged against the model outcome of the
// argument vector that call must see (model entry `ll chain` for the method chains).

import (
	"fmt"
	"strconv"
	"strings"

	"github.com/ohler55/slip"
	"verif/harness/lib"
)

var c04MoreContexts = []string{"mvcall", "apply-spread", "flavor", "clos", "mapcar2", "map2", "around", "whopper",
	"defun3", "funcall3", "flavor3", "clos3"}

// c04Shift: the second argument vector of the multi-call contexts: every integer + 1000, the rest
// (keywords, strings, nil, lists) unchanged, so that the key structure and the verdict are the same
// and every bound integer tells which call it came from.
func c04Shift(args []c04Arg) []c04Arg {
	out := make([]c04Arg, len(args))
	for i, a := range args {
		out[i] = a
		if strings.HasPrefix(a.wire, "i:") {
			if n, err := strconv.Atoi(a.wire[2:]); err == nil {
				out[i] = c04Int(n + 1000)
			}
		}
	}
	return out
}

// c04Datum: the argument as it stands inside a quoted list
func c04Datum(a c04Arg) string { return strings.TrimPrefix(a.lisp, "'") }

// c04MultiCalls: how many calls the context observes
func c04MultiCalls(ctx string) int {
	switch ctx {
	case "mapcar2", "map2", "whopper":
		return 2
	case "around", "defun3", "funcall3", "flavor3", "clos3":
		return 3
	}
	return 1
}

// c04CallShifted: does the j-th observed call of the context see the shifted vector V' (else V)?
func c04CallShifted(ctx string, j int) bool {
	switch ctx {
	case "defun3", "funcall3", "flavor3", "clos3":
		return j == 1
	}
	return j > 0
}

// c04CtxApplies: can the case be expressed in the context?
func c04CtxApplies(sh c04Shape, args []c04Arg, ctx string) bool {
	switch ctx {
	case "defmacro":
		return c04SelfEvaluating(args)
	case "mapcar2", "map2":
		return len(args) >= 1
	case "clos", "clos3":
		// a method without required parameter cannot be defined (defmethod needs one to dispatch on)
		return len(sh.req) >= 1
	case "around":
		// the first :around method is specialised on integer
		return len(sh.req) >= 1 && len(args) >= 1 && strings.HasPrefix(args[0].wire, "i:")
	}
	return true
}

// expected argument vector of the j-th observed call
func c04CallArgs(ctx string, args []c04Arg, j int) []c04Arg {
	if !c04CallShifted(ctx, j) {
		return args
	}
	return c04Shift(args)
}

// define returns the name under which the definitions `setup` (with %NAME%) are or were evaluated,
// and the text to evaluate now ("" when they were evaluated for an earlier case).
func (r *c04Runner) define(key, setup string) (name string, out string) {
	if n, ok := r.defuns[key]; ok {
		r.lastDefs += strings.ReplaceAll(setup, "%NAME%", n)
		return n, ""
	}
	r.n++
	name = fmt.Sprintf("c04d%d", r.n)
	r.defuns[key] = name
	out = strings.ReplaceAll(setup, "%NAME%", name)
	r.lastDefs += out
	return name, out
}

// specialise the first required parameter: (a1 a2 …) -> ((a1 <class>) a2 …)
func c04Specialise(sh c04Shape, class string) string {
	ll := sh.llLisp()
	if len(sh.req) == 0 {
		return ll
	}
	return "((" + sh.req[0] + " " + class + ")" + strings.TrimPrefix(ll, "("+sh.req[0])
}

// formMore builds setup and form of the further contexts.
func (r *c04Runner) formMore(sh c04Shape, args []c04Arg, ctx string) (setup, form string) {
	names, _ := sh.params()
	plist := strings.Join(names, " ")
	body := "(list " + plist + ")"
	if len(names) == 0 {
		body = "(list)"
	}
	ll := sh.llLisp()
	lam := "(lambda " + ll + " " + body + ")"
	al := c04ArgsLisp(args)
	sp := ""
	if al != "" {
		sp = " "
	}
	r.lastDefs = ""
	const flavorDefs = "(defflavor c04fl ((c04iv :iv)) ()) (defflavor c04wf ((c04iv :iv)) ()) (setq c04inst (make-instance 'c04fl)) (setq c04winst (make-instance 'c04wf)) "
	if ctx == "flavor" || ctx == "whopper" || ctx == "flavor3" {
		r.lastDefs = flavorDefs
	}
	if !r.flavorReady && (ctx == "flavor" || ctx == "whopper" || ctx == "flavor3") {
		r.flavorReady = true
		setup = "(defflavor c04fl ((c04iv :iv)) ()) (defflavor c04wf ((c04iv :iv)) ()) (setq c04inst (make-instance 'c04fl)) (setq c04winst (make-instance 'c04wf)) "
	}
	switch ctx {
	case "mvcall":
		h := len(args) / 2
		return "", "(multiple-value-call " + lam + " (values" + c04Sp(c04ArgsLisp(args[:h])) + ") (values" + c04Sp(c04ArgsLisp(args[h:])) + "))"
	case "apply-spread":
		h := len(args) / 2
		return "", "(apply " + lam + c04Sp(c04ArgsLisp(args[:h])) + " (list" + c04Sp(c04ArgsLisp(args[h:])) + "))"
	case "flavor":
		n, def := r.define("flavor "+ll, "(defmethod (c04fl :%NAME%) "+ll+" "+body+")")
		return setup + def, "(send c04inst :" + n + sp + al + ")"
	case "clos":
		n, def := r.define("clos "+ll, "(defmethod %NAME% "+c04Specialise(sh, "t")+" "+body+")")
		return def, "(" + n + sp + al + ")"
	case "defun3", "funcall3", "flavor3", "clos3":
		al2 := c04ArgsLisp(c04Shift(args))
		three := func(pre string) string {
			return "(list (" + pre + sp + al + ") (" + pre + c04Sp(al2) + ") (" + pre + sp + al + "))"
		}
		switch ctx {
		case "defun3":
			n, def := r.define("defun3 "+ll, "(defun %NAME% "+ll+" "+body+")")
			return def, three(n)
		case "funcall3":
			return "", "(let ((c04fo " + lam + ")) " + three("funcall c04fo") + ")"
		case "flavor3":
			n, def := r.define("flavor "+ll, "(defmethod (c04fl :%NAME%) "+ll+" "+body+")")
			return setup + def, three("send c04inst :" + n)
		default:
			n, def := r.define("clos "+ll, "(defmethod %NAME% "+c04Specialise(sh, "t")+" "+body+")")
			return def, three(n)
		}
	case "mapcar2", "map2":
		v2 := c04Shift(args)
		var lists []string
		for i := range args {
			lists = append(lists, "'("+c04Datum(args[i])+" "+c04Datum(v2[i])+")")
		}
		fn := "mapcar "
		if ctx == "map2" {
			fn = "map 'list "
		}
		return "", "(" + fn + lam + " " + strings.Join(lists, " ") + ")"
	case "around":
		// the explicit arguments of the first :around method are the shifted vector, so the generic
		// function is defined per (lambda list, argument vector)
		v2 := c04ArgsLisp(c04Shift(args))
		tagged := func(tag, next string) string {
			return "(list '" + tag + c04Sp(plist) + " " + next + ")"
		}
		n, def := r.define("around "+ll+" | "+v2,
			"(defmethod %NAME% "+c04Specialise(sh, "t")+" "+tagged("prim", "nil")+") "+
				"(defmethod %NAME% :around "+c04Specialise(sh, "t")+" "+tagged("ar-t", "(call-next-method)")+") "+
				"(defmethod %NAME% :around "+c04Specialise(sh, "integer")+" "+tagged("ar-int", "(call-next-method"+c04Sp(v2)+")")+")")
		return def, "(" + n + sp + al + ")"
	case "whopper":
		v2 := c04ArgsLisp(c04Shift(args))
		n, def := r.define("whopper "+ll+" | "+v2,
			"(defmethod (c04wf :%NAME%) "+ll+" (list 'prim"+c04Sp(plist)+" nil)) "+
				"(defwhopper (c04wf :%NAME%) "+ll+" (list 'whop"+c04Sp(plist)+" (continue-whopper"+c04Sp(v2)+")))")
		return setup + def, "(send c04winst :" + n + sp + al + ")"
	}
	panic(ctx)
}

func c04Sp(s string) string {
	if s == "" {
		return ""
	}
	return " " + s
}

// c04GenericArity: a generic function rejects a call with fewer arguments than required
// parameters before any method runs; the condition has its own message.
func c04GenericArity(o lib.Outcome) string {
	if !o.Ok && (o.Class == "error" || o.Class == "program-error" || o.Class == "simple-error") &&
		strings.Contains(o.Msg, "requires at least") && strings.HasPrefix(o.Msg, "generic-function") {
		return "arity-few"
	}
	return ""
}

// c04OutcomesMore canonicalises the evaluation of a further context into one outcome per call.
func c04OutcomesMore(sh c04Shape, ctx string, o lib.Outcome) []string {
	if !o.Ok {
		if a := c04GenericArity(o); a != "" && (ctx == "clos" || ctx == "around" || ctx == "clos3") {
			return []string{"err " + a}
		}
		return []string{c04Outcome(o)}
	}
	names, _ := sh.params()
	list, _ := o.Value.(slip.List)
	wires := func(l slip.List) string {
		w := []string{"ok"}
		for _, v := range l {
			w = append(w, c04ObjWire(v))
		}
		return strings.Join(w, " ")
	}
	switch ctx {
	case "mapcar2", "map2", "defun3", "funcall3", "flavor3", "clos3":
		var out []string
		for _, e := range list {
			l, ok := e.(slip.List)
			if !ok && e != nil {
				return []string{"ok ?" + o.Text}
			}
			out = append(out, wires(l))
		}
		if len(out) != c04MultiCalls(ctx) {
			return []string{"ok ?" + o.Text}
		}
		return out
	case "around", "whopper":
		// (tag p1 … pn next) nested
		var out []string
		cur := list
		for {
			if len(cur) != len(names)+2 {
				return append(out, "ok ?"+o.Text)
			}
			out = append(out, wires(cur[1:len(cur)-1]))
			next, ok := cur[len(cur)-1].(slip.List)
			if !ok || len(next) == 0 {
				break
			}
			cur = next
		}
		return out
	}
	return []string{c04Outcome(o)}
}

// c04ImplCanon: the reply of the code-level machine (`ll impl`) in the vocabulary of the model
// outcomes, so that both can be judged by the same function.
func c04ImplCanon(sh c04Shape, reply string) string {
	w := strings.Fields(reply)
	if len(w) == 0 {
		return "err empty-reply"
	}
	if w[0] == "err" && len(w) == 2 {
		switch w[1] {
		case "tooFew", "tooMany":
			return reply
		case "missingValue":
			return "err oddKeys"
		case "notKeyword":
			return "err badKey"
		}
		return reply
	}
	if w[0] != "ok" {
		return reply
	}
	names, _ := sh.params()
	out := []string{"ok"}
	if len(w)-1 != len(names) {
		panic(fmt.Sprintf("harness bug: the machine reports %d parameters, shape %s has %v", len(w)-1, sh.llLisp(), names))
	}
	for i, nv := range w[1:] {
		n, v, _ := strings.Cut(nv, "=")
		if lib.Unhex(n) != names[i] {
			panic(fmt.Sprintf("harness bug: the machine reports %q, shape %s expects %v", lib.Unhex(n), sh.llLisp(), names))
		}
		out = append(out, v)
	}
	return strings.Join(out, " ")
}

// c04SameVerdict: two expected outcomes that the judge cannot tell apart (the malformed-key
// conditions are judged as one class)
func c04SameVerdict(a, b string) bool {
	if a == b {
		return true
	}
	keyErr := map[string]bool{"err oddKeys": true, "err badKey": true, "err unknownKey": true}
	return keyErr[a] && keyErr[b]
}

// c04Malformed: lambda-list elements that are no parameter specifier — `(name default extra)`,
// `((name) default)`, a number, a string, a list of numbers — in every section: the definition must
// be rejected with a condition (model: parseLL answers badLL, the code-level DefLambda a type error).
// Seed independent.
func c04Malformed(c *lib.Ctx) {
	type bad struct{ kind, lisp, wire string }
	bads := []bad{
		{"three-elements", "(a1 1 2)", "(" + c04Sym("a1") + ",i:1,i:2)"},
		{"name-not-a-symbol", "((a1) 1)", "((" + c04Sym("a1") + "),i:1)"},
		{"number", "5", "i:5"},
		{"string", `"s"`, "s:" + lib.Hex("s")},
		{"list-of-numbers", "(1 2)", "(i:1,i:2)"},
	}
	sections := []string{"", "&optional", "&key", "&aux"}
	var reqs []string
	type cell struct {
		form, sig string
	}
	var cells []cell
	for _, sec := range sections {
		for _, b := range bads {
			l, w := "z1 ", c04Sym("z1")+","
			if sec != "" {
				l += sec + " "
				w += c04Sym(sec) + ","
			}
			name := sec
			if name == "" {
				name = "required"
			}
			for _, def := range []string{"(lambda (%s) nil)", "(defun c04bad (%s) nil)", "(defmacro c04badm (%s) nil)"} {
				cells = append(cells, cell{fmt.Sprintf(def, l+b.lisp), "lambda-list malformed-element-accepted section=" + name + " element=" + b.kind})
				reqs = append(reqs, "ll bind ("+w+b.wire+") ()", "ll impl ("+w+b.wire+") ()")
			}
			// the other constructors of a lambda list: flavors method and whopper (DefLambda), CLOS method
			// (its own builder in pkg/generic; the first parameter is specialised, so the required section
			// is left out there: `(a1 1 2)` would be read as a specialiser)
			for _, def := range [][2]string{{"flavors-method", "(defmethod (c04badfl :bad) (%s) nil)"}, {"flavors-whopper", "(defwhopper (c04badfl :bad) (%s) nil)"},
				{"clos-method", ""}} {
				sig := "lambda-list malformed-element-accepted section=" + name + " element=" + b.kind + " constructor=" + def[0]
				if def[0] == "clos-method" {
					if sec == "" {
						continue
					}
					// a generic function of its own per cell: an accepted definition must not decide the next cell
					cells = append(cells, cell{fmt.Sprintf("(defmethod c04badg%d ((z1 t) %s %s) nil)", len(cells), sec, b.lisp), sig})
				} else {
					cells = append(cells, cell{fmt.Sprintf(def[1], l+b.lisp), sig})
				}
				reqs = append(reqs, "ll bind ("+w+b.wire+") ()", "ll impl ("+w+b.wire+") ()")
			}
		}
	}
	rep := c.Model(reqs)
	n := 0
	if o := lib.EvalString(slip.NewScope(), "(defflavor c04badfl () ())"); !o.Ok {
		panic("harness bug: defflavor c04badfl: " + o.Msg)
	}
	for i, cl := range cells {
		if rep[2*i] != "err badLL" || rep[2*i+1] != "err defLambda" {
			panic("harness bug: the model accepts the malformed lambda list of " + cl.form + ": " + rep[2*i] + " / " + rep[2*i+1])
		}
		o := lib.EvalString(slip.NewScope(), cl.form)
		n++
		c.Ev.Case("malformed "+cl.form, true)
		out := c04Outcome(o)
		if o.Ok {
			out = "ok"
		}
		if !o.Ok && out != "err go-fault" {
			continue
		}
		c.Report(cl.sig, true, map[string]any{"part": "malformed", "sweep": true, "input": cl.form,
			"observed": out, "expected": "a condition: the element is no parameter specifier (model ll.bind: err badLL; ll.impl: err defLambda)",
			"expected_from": "model:ll.bind / ll.impl", "relies_on": []string{"SlipVerif.Theorems.GenC04.defLambda_grammar"}})
	}
	c.Ev.Coverage["lambda_malformed_element_cells"] = n
	c.Ev.Count("traces_validated_against_impl", n)
}
