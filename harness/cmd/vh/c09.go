package main

// C09 — no Lisp-level input can fault the host: every failure is a Lisp condition.
//
// Exploration harness (level `other`): every case is evaluated by the real slip in an isolated
// worker subprocess (c09_worker.go / c09_engine.go). A result is a FAULT iff the recovered
// condition's message carries a Go runtime signature, or a foreign Go panic reaches the top
// level, or the worker dies, or the per-case deadline / memory cap is hit.
//
//   (b) built-ins : every exported function of every package (enumerated at run time) x all 0-,
//                   1- and 2-tuples of the object pool, exhaustively (the single-cause sweep:
//                   seed independent; failing cells are listed in findings/C09.json), a fixed
//                   table of 3-tuples, and seeded 3..5-tuples.
//   (a) reader    : see c09_reader.go      (c) format : see c09_format.go

import (
	"encoding/json"
	"fmt"
	"os"
	"path/filepath"
	"regexp"
	"sort"
	"strconv"
	"strings"
	"time"

	"verif/harness/lib"
)

func init() { props["C09"] = runC09 }

// ---------------------------------------------------------------------------------------------
// fault classification

var c09RuntimeSigs = []struct {
	re   *regexp.Regexp
	kind string
}{
	{regexp.MustCompile(`interface conversion`), "type-assertion"},
	{regexp.MustCompile(`index out of range`), "index-range"},
	{regexp.MustCompile(`slice bounds out of range`), "slice-bounds"},
	{regexp.MustCompile(`invalid memory address|nil pointer dereference`), "nil-deref"},
	{regexp.MustCompile(`hash of unhashable type|unhashable type`), "unhashable"},
	{regexp.MustCompile(`integer divide by zero`), "int-div-zero"},
	{regexp.MustCompile(`makeslice|makechan|makemap|len out of range|cap out of range|size out of range`), "alloc-size"},
	{regexp.MustCompile(`assignment to entry in nil map|nil map`), "nil-map"},
	{regexp.MustCompile(`negative shift amount`), "neg-shift"},
	{regexp.MustCompile(`integer overflow|floating point error`), "arith-trap"},
	{regexp.MustCompile(`runtime error`), "runtime-other"},
	{regexp.MustCompile(`reflect: |reflect\.Value|reflect\.`), "reflect"},
	{regexp.MustCompile(`negative Repeat count|Repeat count causes overflow|strings\.Builder|bytes\.Buffer: |strings: |bytes: `), "stdlib-panic"},
	// math/big panics with these texts (SetString / Text with a base outside 2..62, Exp / Div misuse)
	{regexp.MustCompile(`invalid number base|big: |division by zero in big|math/big`), "stdlib-panic"},
}

// c09FaultKind returns "" when the result is a value or a proper Lisp condition.
func c09FaultKind(r c09Result) string {
	switch r.Status {
	case "V":
		return ""
	case "C", "P":
		// the catch-all of trace.go wraps a Go panic in a plain `error` condition: a condition of any
		// other class (type-error, parse-error …) was raised on purpose, whatever text it quotes
		if r.Status == "C" && r.Class != "error" {
			return ""
		}
		for _, s := range c09RuntimeSigs {
			if s.re.MatchString(r.Text) {
				return s.kind
			}
		}
		// a foreign Go panic without a runtime signature (panic("package x is not defined"), the
		// reader's PartialPanic) becomes an ordinary `error` condition at the next function boundary:
		// counted in the outcome histogram, not a fault
		return ""
	case "H", "M", "K": // K: a listed unbounded cell that the quick tier does not run
		return "unbounded"
	case "S":
		return "unit-abandoned"
	case "D":
		e := r.Stderr
		switch {
		case strings.Contains(e, "stack overflow") || strings.Contains(e, "stack exceeds"):
			return "stack-overflow"
		case strings.Contains(e, "out of memory") || strings.Contains(e, "cannot allocate memory"):
			return "unbounded"
		case strings.Contains(e, "concurrent map"):
			return "concurrent-map"
		case strings.Contains(e, "all goroutines are asleep"):
			return "deadlock"
		case strings.Contains(e, "panic: ") || strings.Contains(e, "fatal error: "):
			return "crash"
		}
		return "worker-exit"
	}
	return "protocol"
}

func (r c09Result) Summary() string {
	switch r.Status {
	case "V":
		return "value " + r.Class + ": " + c09Clip(r.Text, 120)
	case "C":
		return "condition " + r.Class + ": " + c09Clip(r.Text, 200)
	case "P":
		return "foreign Go panic reached the top level (" + r.Class + "): " + c09Clip(r.Text, 200)
	case "K":
		return "not run in the quick tier: listed as unbounded (runs until the deadline / memory cap)"
	case "H":
		return "no result within the deadline (worker killed)"
	case "M":
		return "memory cap exceeded (worker killed)"
	case "D":
		return "worker died (" + r.Exit + "): " + c09Clip(strings.ReplaceAll(r.Stderr, "\n", " | "), 300)
	}
	return "?"
}

func c09Clip(s string, n int) string {
	if len(s) > n {
		return s[:n] + "…"
	}
	return s
}

const c09Expected = "a value or a Lisp condition of a documented class whose message carries no Go runtime signature, within the deadline and memory cap, with the worker alive"

// ---------------------------------------------------------------------------------------------

// c09Obs is the confirmed observation of one case.
type c09Obs struct {
	Res  c09Result
	Kind string // confirmed fault kind, "" = no fault
	How  string // isolated: reproduced alone in a fresh worker | poisoner: the evaluation after this case faults | sequence: only within its unit
	// Prefix: for how=sequence the (minimised) cases that have to run before it in the same worker;
	// for how=poisoner the case that faults when evaluated after it
	Prefix []string
}

// explore runs the units (one fresh worker per unit, restarted after every fault) and confirms
// every fault with the long deadline: (1) the case alone in a fresh worker; if it does not
// reproduce, (2) its predecessor followed by the case in a fresh worker — when the case faults
// there, the predecessor is blamed (it leaves the interpreter in a state in which the next
// evaluation faults: kind poisons-next:<kind>) and the victim is not counted; (3) otherwise the
// cases the same worker had run before it are replayed: when the fault shows again it is kept
// with how=sequence and a minimised prefix; when not, it is recorded as unreproduced (evidence
// only: a verdict must be repeatable).
func (r *c09Run) explore(units [][]c09Case, progress func(i int, res []c09Result), known func(u, k int, rs c09Result, kind string) string) [][]c09Obs {
	verbose := os.Getenv("C09_VERBOSE") != ""
	t0 := time.Now()
	res := r.eng.RunUnits(units, progress)
	conf := r.eng.Confirming()
	// a unit abandoned after too many deadline kills (status S for its tail): on an overloaded machine
	// those kills can be load artifacts, so the tail is run once more with the long deadline (and the
	// same kill budget); what is abandoned again is reported
	{
		again := r.eng.Confirming()
		again.KillBudget = r.eng.KillBudget
		var tails [][]c09Case
		var at [][2]int
		for u := range res {
			for k := range res[u] {
				if res[u][k].Status == "S" {
					tails = append(tails, units[u][k:])
					at = append(at, [2]int{u, k})
					break
				}
			}
		}
		if len(tails) > 0 {
			tres := again.RunUnits(tails, nil)
			for i, a := range at {
				for j := range tres[i] {
					tres[i][j].Session += a[1]
					res[a[0]][a[1]+j] = tres[i][j]
				}
			}
			r.c.Ev.Count("abandoned_tails_rerun", len(tails))
		}
	}
	if verbose {
		n := 0
		for _, u := range units {
			n += len(u)
		}
		fmt.Fprintf(os.Stderr, "explore: first pass %d cases in %d units %.1fs\n", n, len(units), time.Since(t0).Seconds())
	}
	obs := make([][]c09Obs, len(units))
	type ref struct{ u, k int }
	var faults, deferred []ref
	listed := map[ref]bool{}
	ranAlone := map[ref]bool{} // already observed alone in a fresh worker with the long deadline
	accepted, skipped := 0, 0
	if r.c.Thorough() {
		// thorough: the listed unbounded cells that were kept out of their units run now, each alone
		var ks [][]c09Case
		var kref [][2]int
		for u := range res {
			for k := range res[u] {
				if res[u][k].Status == "K" {
					ks = append(ks, []c09Case{units[u][k]})
					kref = append(kref, [2]int{u, k})
				}
			}
		}
		kres := conf.RunIsolated(ks)
		for i, rf := range kref {
			res[rf[0]][rf[1]] = kres[i][0]
			ranAlone[ref{rf[0], rf[1]}] = true
		}
		r.c.Ev.Count("known_unbounded_run_alone", len(ks))
	}
	for u := range res {
		obs[u] = make([]c09Obs, len(res[u]))
		for k, rs := range res[u] {
			obs[u][k].Res = rs
			if rs.Status == "K" {
				obs[u][k].Kind, obs[u][k].How = "unbounded", "isolated"
				skipped++
				continue
			}
			if ranAlone[ref{u, k}] {
				obs[u][k].Kind, obs[u][k].How = c09FaultKind(rs), "isolated"
				continue
			}
			if kind := c09FaultKind(rs); kind != "" {
				// quick tier: a first-pass fault whose signature is a listed finding is taken as that
				// finding without confirmation (confirmation exists to keep load and interpreter
				// state from producing a verdict; a listed signature produces none)
				if known != nil && rs.Status != "S" {
					if how := known(u, k, rs, kind); how != "" {
						if !r.c.Thorough() {
							obs[u][k].Kind, obs[u][k].How = kind, how
							accepted++
							continue
						}
						listed[ref{u, k}] = true // thorough: confirmed like any other, outside the caps below
					}
				}
				faults = append(faults, ref{u, k})
			}
		}
	}
	r.c.Ev.Count("faults_listed_unconfirmed", accepted)
	r.c.Ev.Count("skipped_known_unbounded", skipped)
	// bound the confirmation work for faults that are not listed: beyond 400 of them, or 24 deadline /
	// memory kills, in one sweep the first-pass observation is taken as it is (how=unconfirmed) — a
	// run with that many new faults is a violation whatever the rest turns out to be
	{
		var keep []ref
		slow, fresh := 0, 0
		deferred = nil
		for _, f := range faults {
			st := res[f.u][f.k].Status
			isSlow := st == "H" || st == "M"
			if listed[f] {
				keep = append(keep, f)
				continue
			}
			fresh++
			if os.Getenv("C09_NOCAP") == "" && isSlow && slow >= 24 && fresh <= 400 {
				deferred = append(deferred, f) // decided after the first 24 were confirmed
				continue
			}
			if os.Getenv("C09_NOCAP") == "" && (fresh > 400 || (isSlow && slow >= 24)) {
				if st != "S" {
					obs[f.u][f.k].Kind, obs[f.u][f.k].How = c09FaultKind(res[f.u][f.k]), "unconfirmed"
				} else {
					obs[f.u][f.k].Kind, obs[f.u][f.k].How = "unit-abandoned", "sequence"
				}
				continue
			}
			if isSlow {
				slow++
			}
			keep = append(keep, f)
		}
		r.c.Ev.Count("faults_unconfirmed_overflow", len(faults)-len(keep)-len(deferred))
		faults = keep
	}
	if len(deferred) > 0 {
		// more than 24 deadline / memory kills in the first pass. When none of the first 24 reproduces
		// alone they were artifacts of machine load, and so are the others most likely: confirm them
		// like the rest. When one does reproduce the tree really hangs: the others are taken as observed.
		var probe [][]c09Case
		for _, f := range faults {
			if st := res[f.u][f.k].Status; (st == "H" || st == "M") && !listed[f] {
				probe = append(probe, []c09Case{units[f.u][f.k]})
			}
		}
		real := false
		for _, pr := range conf.RunIsolated(probe) {
			if c09FaultKind(pr[0]) == "unbounded" {
				real = true
			}
		}
		if real {
			for _, f := range deferred {
				obs[f.u][f.k].Kind, obs[f.u][f.k].How = c09FaultKind(res[f.u][f.k]), "unconfirmed"
			}
			r.c.Ev.Count("faults_unconfirmed_overflow", len(deferred))
		} else {
			faults = append(faults, deferred...)
			r.c.Ev.Count("faults_deferred_confirmed", len(deferred))
		}
	}
	// (1) alone
	iso := make([][]c09Case, len(faults))
	for i, f := range faults {
		iso[i] = []c09Case{units[f.u][f.k]}
	}
	if verbose {
		hist := map[string]int{}
		for _, f := range faults {
			hist[res[f.u][f.k].Status]++
		}
		fmt.Fprintf(os.Stderr, "explore: %d faults to confirm %v\n", len(faults), hist)
	}
	if os.Getenv("C09_NOCONFIRM") != "" {
		// development aid: take the first pass as it is
		for _, f := range faults {
			obs[f.u][f.k].Kind, obs[f.u][f.k].How = c09FaultKind(res[f.u][f.k]), "isolated"
		}
		return obs
	}
	isoRes := conf.RunIsolated(iso)
	if verbose {
		fmt.Fprintf(os.Stderr, "explore: isolation done %.1fs\n", time.Since(t0).Seconds())
	}
	var second []ref
	for i, f := range faults {
		o := &obs[f.u][f.k]
		if o.Res.Status == "S" {
			o.Kind, o.How = "unit-abandoned", "sequence"
			continue
		}
		if kind := c09FaultKind(isoRes[i][0]); kind != "" {
			o.Kind, o.How, o.Res = kind, "isolated", isoRes[i][0]
		} else {
			second = append(second, f)
		}
	}
	// (2) predecessor + case
	var pairs [][]c09Case
	var pairRef, third []ref
	for _, f := range second {
		if f.k > obs[f.u][f.k].Res.Session {
			pairs = append(pairs, []c09Case{units[f.u][f.k-1], units[f.u][f.k]})
			pairRef = append(pairRef, f)
		} else {
			third = append(third, f)
		}
	}
	pairRes := conf.RunUnits(pairs, nil)
	victims := 0
	for i, f := range pairRef {
		kind := c09FaultKind(pairRes[i][1])
		if kind != "" && c09FaultKind(pairRes[i][0]) == "" {
			victims++
			prev := &obs[f.u][f.k-1]
			if prev.Kind == "" {
				prev.Kind, prev.How = "poisons-next:"+kind, "poisoner"
				prev.Res = pairRes[i][1]
				prev.Prefix = []string{units[f.u][f.k].Text}
			}
			continue
		}
		third = append(third, f)
	}
	// (3) the whole session up to the case
	sess := make([][]c09Case, len(third))
	for i, f := range third {
		sess[i] = units[f.u][obs[f.u][f.k].Res.Session : f.k+1]
	}
	sessRes := conf.RunUnits(sess, nil)
	unrepro := []string{}
	for i, f := range third {
		o := &obs[f.u][f.k]
		last := sessRes[i][len(sessRes[i])-1]
		kind := c09FaultKind(last)
		clean := true
		for _, x := range sessRes[i][:len(sessRes[i])-1] {
			if c09FaultKind(x) != "" {
				clean = false
			}
		}
		if kind == "" || !clean {
			unrepro = append(unrepro, units[f.u][f.k].Text+" => "+o.Res.Summary())
			continue
		}
		o.Kind, o.How, o.Res = kind, "sequence", last
		o.Prefix = r.minimisePrefix(conf, sess[i])
	}
	r.c.Ev.Count("faults_first_pass", len(faults))
	r.c.Ev.Count("faults_poison_victims", victims)
	r.unrepro = append(r.unrepro, unrepro...)
	return obs
}

// minimisePrefix: delta debugging on the cases before the last one; keeps the last case
// faulting. Returns the texts of the remaining prefix.
func (r *c09Run) minimisePrefix(conf *c09Engine, session []c09Case) []string {
	prefix := append([]c09Case{}, session[:len(session)-1]...)
	last := session[len(session)-1]
	fails := func(p []c09Case) bool {
		rs := conf.RunUnit(append(append([]c09Case{}, p...), last), false)
		for _, x := range rs[:len(rs)-1] {
			if c09FaultKind(x) != "" {
				return false
			}
		}
		return c09FaultKind(rs[len(rs)-1]) != ""
	}
	n, tests := 2, 0
	for len(prefix) >= 1 && tests < 80 {
		if n > len(prefix) {
			n = len(prefix)
		}
		chunk := (len(prefix) + n - 1) / n
		reduced := false
		for i := 0; i < len(prefix); i += chunk {
			end := i + chunk
			if end > len(prefix) {
				end = len(prefix)
			}
			cand := append(append([]c09Case{}, prefix[:i]...), prefix[end:]...)
			tests++
			if fails(cand) {
				prefix = cand
				if n > 2 {
					n--
				}
				reduced = true
				break
			}
		}
		if !reduced {
			if chunk == 1 {
				break
			}
			n *= 2
		}
	}
	out := make([]string, len(prefix))
	for i, p := range prefix {
		out[i] = p.Text
	}
	if len(out) > 40 {
		out = out[len(out)-40:]
	}
	return out
}

type c09Cell struct {
	fn  *c09Fn
	idx []int
}

func (cl c09Cell) Sig(kind, stage string) string {
	s := fmt.Sprintf("fn=%s args=%s kind=%s", cl.fn.Key(), c09Types(cl.idx...), kind)
	if stage == "print" || stage == "read" {
		s += " stage=" + stage
	}
	return s
}

type c09Run struct {
	c   *lib.Ctx
	eng *c09Engine
	fns []*c09Fn
	// faults seen once that neither reproduce alone, nor after their predecessor, nor in their
	// session: listed in the evidence, never a verdict
	unrepro []string
	// first case text and observation per reported signature (findings candidate file)
	firstCase map[string][2]string
	sigOrder  []string
	cellsOf   map[string][]string
	// evaluations / non-trivial cases (table cases are distinct by construction; seeded duplicates
	// are possible and counted — a dedup map over millions of case texts is not worth its memory)
	evals, nontrivial int
	samples           map[string]int
}

// sample: true for the first n calls per family (the evidence keeps a dozen samples in all).
func (r *c09Run) sample(family string, n int) bool {
	if r.samples == nil {
		r.samples = map[string]int{}
	}
	r.samples[family]++
	return r.samples[family] <= n
}

func (r *c09Run) countCase(nontrivial bool) {
	r.evals++
	if nontrivial {
		r.nontrivial++
	}
	// the evidence counts distinct non-trivial cases by key: a compact serial number per case
	var key [5]byte
	n := r.evals
	for i := range key {
		key[i] = byte(n)
		n >>= 8
	}
	r.c.Ev.Case(string(key[:]), nontrivial)
}

func runC09(c *lib.Ctx) {
	r := &c09Run{c: c, eng: c09NewEngine(c)}
	defer os.RemoveAll(c09JailBase(c.Root))
	r.eng.Expected = c09ExpectedCells(filepath.Join(c.Root, "findings", "C09.json"))
	// the listed unbounded cells are kept out of their units in both tiers (a unit runs its cases one
	// after the other, each of these takes a deadline); the thorough tier runs every one of them
	// afterwards, alone and in parallel (explore)
	r.eng.SkipExpected = c.Replay == ""
	if c.Replay != "" {
		r.replay()
		return
	}
	var denied []string
	r.fns, denied = c09Functions()
	c.Ev.Coverage["deny_list"] = denied
	c.Ev.Coverage["functions_swept"] = len(r.fns)
	c.Ev.Coverage["pool_size"] = len(c09Pool)
	pool := []string{}
	for _, o := range c09Pool {
		pool = append(pool, o.Type+": "+o.Expr)
	}
	c.Ev.Coverage["pool"] = pool
	only := os.Getenv("C09_ONLY") // development aid: run one family only
	if only == "" || strings.Contains(only, "builtin") {
		r.sweepBuiltins()
	}
	if only == "" || strings.Contains(only, "tuples") {
		r.sweepTuples()
	}
	if only == "" || strings.Contains(only, "reader") {
		r.sweepReader()
	}
	if only == "" || strings.Contains(only, "stream") {
		r.sweepStream()
	}
	if only == "" || strings.Contains(only, "stack") {
		r.sweepStack()
		r.sweepSharp()
		r.sweepCursor()
	}
	if only == "" || strings.Contains(only, "format") {
		r.sweepFormat()
	}
	if only == "" || strings.Contains(only, "forms") {
		r.sweepForms()
	}
	r.writeCandidates()
	c.Ev.Coverage["nontrivial_counted"] = r.nontrivial
	c.Ev.Coverage["traces_validated_against_impl"] = r.evals
	c.Ev.Coverage["unreproduced_faults"] = r.unrepro
	c.Ev.Coverage["worker_starts"] = r.eng.starts.Load()
	c.Ev.Coverage["worker_kills"] = r.eng.kills.Load()
	c.Ev.Coverage["worker_uid_dropped"] = r.eng.DropPriv
	c.Ev.Coverage["rule"] = "cases = (function, argument tuple) / byte string / (control string, arguments); distinct by case text; non-trivial = the call reached the built-in's body (outcome is not an arity program-error)"
}

// sweepBuiltins: the single-cause sweep — every function x all 0-, 1- and 2-tuples.
func (r *c09Run) sweepBuiltins() {
	c := r.c
	n := len(c09Pool)
	var units [][]c09Case
	var cells [][]c09Cell
	for _, f := range r.fns {
		var u []c09Case
		var cl []c09Cell
		add := func(idx ...int) {
			u = append(u, c09Case{"E", f.Call(idx...)})
			cl = append(cl, c09Cell{f, append([]int{}, idx...)})
		}
		add()
		for i := 0; i < n; i++ {
			add(i)
		}
		for i := 0; i < n; i++ {
			for j := 0; j < n; j++ {
				add(i, j)
			}
		}
		units = append(units, u)
		cells = append(cells, cl)
	}
	t0 := time.Now()
	done := 0
	res := r.explore(units, func(i int, _ []c09Result) {
		done++
		if os.Getenv("C09_VERBOSE") == "2" {
			fmt.Fprintf(os.Stderr, "unit %d/%d %s %.1fs\n", done, len(units), r.fns[i].Key(), time.Since(t0).Seconds())
		}
	}, func(u, k int, rs c09Result, kind string) string {
		return r.knownHow(cells[u][k].Sig(kind, rs.Stage))
	})
	c.Ev.Coverage["pair_sweep_wall_s"] = time.Since(t0).Seconds()
	total, faults := 0, 0
	var dump, slowCases []string
	slow := map[string]int64{}
	for ui := range units {
		var unitUs int64
		for k, ob := range res[ui] {
			cl := cells[ui][k]
			rs := ob.Res
			total++
			unitUs += rs.Micros
			r.countCase(!c09IsArity(rs))
			c.Ev.Hist("outcome", c09OutcomeBucket(rs))
			if rs.Text != "" && rs.Status != "C" && r.sample("builtin", 4) {
				c.Ev.Sample(map[string]string{"call": units[ui][k].Text, "outcome": rs.Summary()})
			}
			if rs.Micros > 100000 {
				slowCases = append(slowCases, fmt.Sprintf("%8.3fs\t%s\t%s", float64(rs.Micros)/1e6, units[ui][k].Text, c09OutcomeBucket(rs)))
			}
			kind := ob.Kind
			if kind == "" {
				continue
			}
			faults++
			c.Ev.Hist("fault_kind", kind)
			c.Ev.Hist("fault_how", ob.How)
			sig := cl.Sig(kind, rs.Stage)
			if ob.How == "sequence" {
				sig += " how=sequence"
			}
			dump = append(dump, sig+"\t"+units[ui][k].Text+"\t"+rs.Summary())
			r.report(sig, true, units[ui][k].Text, "E", ob, "objects "+c09Names(cl.idx...))
		}
		slow[r.fns[ui].Key()] = unitUs
	}
	built := r.sweepBuilt(units, cells, res)
	r.sweepPlaces(built)
	c.Ev.Coverage["pair_sweep_cases"] = total
	c.Ev.Coverage["pair_sweep_fault_cells"] = faults
	// slowest units
	type kv struct {
		k string
		v int64
	}
	var sl []kv
	for k, v := range slow {
		sl = append(sl, kv{k, v})
	}
	sort.Slice(sl, func(i, j int) bool { return sl[i].v > sl[j].v })
	top := []string{}
	for i := 0; i < len(sl) && i < 10; i++ {
		top = append(top, fmt.Sprintf("%s %.2fs", sl[i].k, float64(sl[i].v)/1e6))
	}
	c.Ev.Coverage["slowest_units"] = top
	sort.Strings(dump)
	sort.Sort(sort.Reverse(sort.StringSlice(slowCases)))
	_ = os.WriteFile(filepath.Join(c.OutDir, "slow.tsv"), []byte(strings.Join(slowCases, "\n")+"\n"), 0o644)
	_ = os.WriteFile(filepath.Join(c.OutDir, "faults.tsv"), []byte(strings.Join(dump, "\n")+"\n"), 0o644)
}

// sweepBuilt: the constructed-objects stage (c09_built.go). pairUnits / pairCells / pairObs are the
// pair sweep and its observations, from which acceptance is read: a function accepts a type in a
// position when the type's plain pool representative there got past the type and arity checks in
// at least one case.
func (r *c09Run) sweepBuilt(pairUnits [][]c09Case, pairCells [][]c09Cell, pairObs [][]c09Obs) []c09BuiltObj {
	c := r.c
	built := c09BuiltPool(c.Thorough())
	comp := c09PoolIndex(c09BuiltCompanions...)
	if !c.Thorough() {
		comp = comp[:6]
	}
	// an "object" whose construction raises is none: probe every construction text alone first
	{
		probe := make([]c09Case, len(built))
		for i, b := range built {
			probe[i] = c09Case{"E", b.Expr}
		}
		pres := r.eng.Confirming().RunIsolated([][]c09Case{probe})[0]
		var ok []c09BuiltObj
		dropped := []string{}
		for i, b := range built {
			if pres[i].Status == "V" {
				ok = append(ok, b)
			} else {
				dropped = append(dropped, b.Type+": "+c09Clip(pres[i].Summary(), 100))
				if kind := c09FaultKind(pres[i]); kind != "" {
					// the construction itself faults
					r.report(fmt.Sprintf("construct obj=%s kind=%s", b.Type, kind), true, b.Expr, "E", c09Obs{Res: pres[i], Kind: kind, How: "isolated"}, "construction history")
				}
			}
		}
		built = ok
		c.Ev.Coverage["built_not_constructible"] = dropped
	}
	poolIdx := map[string]int{}
	for i, o := range c09Pool {
		poolIdx[o.Name] = i
	}
	passed := func(rs c09Result) bool {
		return !(rs.Status == "C" && (rs.Class == "type-error" || rs.Arity))
	}
	var units [][]c09Case
	type bcell struct {
		fn     *c09Fn
		labels string
	}
	var cells [][]bcell
	n := 0
	for ui := range pairUnits {
		f := r.fns[ui]
		n := len(c09Pool)
		alone, first, second := make([]bool, n), make([]bool, n), make([]bool, n)
		// a position where the plain representative already faults is left out: the function faults
		// there for (nearly) every object of the type, which the pair sweep lists; a constructed
		// object adds nothing but thousands of cells of the same defect
		badAlone, badFirst, badSecond := make([]bool, n), make([]bool, n), make([]bool, n)
		for k, cl := range pairCells[ui] {
			ob := pairObs[ui][k]
			if ob.Kind != "" {
				switch len(cl.idx) {
				case 1:
					badAlone[cl.idx[0]] = true
				case 2:
					badFirst[cl.idx[0]], badSecond[cl.idx[1]] = true, true
				}
				continue
			}
			if !passed(ob.Res) {
				continue
			}
			switch len(cl.idx) {
			case 1:
				alone[cl.idx[0]] = true
			case 2:
				first[cl.idx[0]], second[cl.idx[1]] = true, true
			}
		}

		// accepted for one of the base representatives, faulting for none of them
		any := func(acc []bool, base []string) bool {
			yes := false
			for _, b := range base {
				if i, ok := poolIdx[b]; ok {
					yes = yes || acc[i]
				}
			}
			return yes
		}
		none := func(bad []bool, base []string) bool {
			for _, b := range base {
				if i, ok := poolIdx[b]; ok && bad[i] {
					return false
				}
			}
			return true
		}
		var u []c09Case
		var cl []bcell
		for _, b := range built {
			if any(alone, b.Base) && none(badAlone, b.Base) {
				u = append(u, c09Case{"E", f.CallObjs(b.c09Obj)})
				cl = append(cl, bcell{f, b.Type})
			}
			if any(first, b.Base) && none(badFirst, b.Base) {
				for _, x := range comp {
					u = append(u, c09Case{"E", f.CallObjs(b.c09Obj, c09Pool[x])})
					cl = append(cl, bcell{f, b.Type + "," + c09Pool[x].Type})
				}
			}
			if any(second, b.Base) && none(badSecond, b.Base) {
				for _, x := range comp {
					u = append(u, c09Case{"E", f.CallObjs(c09Pool[x], b.c09Obj)})
					cl = append(cl, bcell{f, c09Pool[x].Type + "," + b.Type})
				}
			}
		}
		if len(u) > 0 {
			units = append(units, u)
			cells = append(cells, cl)
		}
	}
	sigOf := func(u, k int, kind, stage string) string {
		s := fmt.Sprintf("fn=%s args=%s kind=%s", cells[u][k].fn.Key(), cells[u][k].labels, kind)
		if stage == "print" || stage == "read" {
			s += " stage=" + stage
		}
		return s
	}
	t0 := time.Now()
	obs := r.explore(units, nil, func(u, k int, rs c09Result, kind string) string {
		return r.knownHow(sigOf(u, k, kind, rs.Stage))
	})
	var dump []string
	for u := range obs {
		for k, ob := range obs[u] {
			n++
			r.countCase(!c09IsArity(ob.Res))
			c.Ev.Hist("built_outcome", c09OutcomeBucket(ob.Res))
			if ob.Res.Text != "" && ob.Res.Status == "V" && r.sample("built", 2) {
				c.Ev.Sample(map[string]string{"call": units[u][k].Text, "outcome": ob.Res.Summary()})
			}
			if ob.Kind == "" {
				continue
			}
			sig := sigOf(u, k, ob.Kind, ob.Res.Stage)
			if ob.How == "sequence" {
				sig += " how=sequence"
			}
			dump = append(dump, fmt.Sprintf("%s\t%s\t%s", sig, units[u][k].Text, ob.Res.Summary()))
			r.report(sig, true, units[u][k].Text, "E", ob, "constructed object")
		}
	}
	c.Ev.Coverage["built_objects"] = len(built)
	c.Ev.Coverage["built_cases"] = n
	c.Ev.Coverage["built_wall_s"] = time.Since(t0).Seconds()
	sort.Strings(dump)
	_ = os.WriteFile(filepath.Join(c.OutDir, "built-faults.tsv"), []byte(strings.Join(dump, "\n")+"\n"), 0o644)
	return built
}

// sweepPlaces: setf / incf / push / pop forms over places in every pool and constructed object.
func (r *c09Run) sweepPlaces(built []c09BuiltObj) {
	c := r.c
	objs := append([]c09Obj{}, c09Pool...)
	for _, b := range built {
		objs = append(objs, b.c09Obj)
	}
	byName := map[string]c09Obj{}
	for _, o := range c09Pool {
		byName[o.Name] = o
	}
	type pcell struct{ sig string }
	var units [][]c09Case
	var cells [][]pcell
	for _, pf := range c09PlaceForms {
		var u []c09Case
		var cl []pcell
		idxs, vals := c09PlaceIndices, c09PlaceValues
		if !strings.Contains(pf.form, "%i") {
			idxs = idxs[:1]
		}
		if !strings.Contains(pf.form, "%v") {
			vals = vals[:1]
		}
		for _, o := range objs {
			for _, in := range idxs {
				for _, vn := range vals {
					i, v := byName[in], byName[vn]
					t := strings.ReplaceAll(pf.form, "%o", o.Expr)
					t = strings.ReplaceAll(t, "%i", i.Expr)
					t = strings.ReplaceAll(t, "%v", v.Expr)
					sig := "place=" + pf.name + " obj=" + o.Type
					if len(idxs) > 1 {
						sig += " index=" + i.Name
					}
					if len(vals) > 1 {
						sig += " value=" + v.Type
					}
					u = append(u, c09Case{"E", t})
					cl = append(cl, pcell{sig})
				}
			}
		}
		units = append(units, u)
		cells = append(cells, cl)
	}
	t0 := time.Now()
	obs := r.explore(units, nil, func(u, k int, _ c09Result, kind string) string {
		return r.knownHow(cells[u][k].sig + " kind=" + kind)
	})
	n := 0
	var dump []string
	for u := range obs {
		for k, ob := range obs[u] {
			n++
			r.countCase(ob.Res.Status == "V" || ob.Res.Class != "type-error")
			c.Ev.Hist("place_outcome", c09OutcomeBucket(ob.Res))
			if ob.Kind == "" {
				continue
			}
			sig := cells[u][k].sig + " kind=" + ob.Kind
			if ob.How != "isolated" {
				sig += " how=" + ob.How
			}
			dump = append(dump, fmt.Sprintf("%s\t%s\t%s", sig, units[u][k].Text, ob.Res.Summary()))
			r.report(sig, true, units[u][k].Text, "E", ob, "place form")
		}
	}
	c.Ev.Coverage["place_cases"] = n
	c.Ev.Coverage["place_wall_s"] = time.Since(t0).Seconds()
	sort.Strings(dump)
	_ = os.WriteFile(filepath.Join(c.OutDir, "place-faults.tsv"), []byte(strings.Join(dump, "\n")+"\n"), 0o644)
}

// sweepTuples: 3+-tuples. A fixed table (every function that documents room for three arguments
// x all triples over the reduced pool; thorough: one argument, in any position, over the whole
// pool) and seeded
// 3..5-tuples over the whole pool. Table cells have the signature of the pair sweep (function +
// argument type tuple + fault kind): the table is seed independent, its failing cells are the
// listed ones. A seeded tuple (any types, up to five arguments) may only fault in a function and
// with a kind for which some cell is listed; it is then counted as a hit of that finding.
func (r *c09Run) sweepTuples() {
	c := r.c
	var units [][]c09Case
	var cells [][]c09Cell
	var table [][]bool
	nTable, nSeeded := 0, 0
	third := c09Reduced
	if c.Thorough() {
		third = nil
		for i := range c09Pool {
			third = append(third, i)
		}
	}
	perFn := c.Scale(40000, 500000) / len(r.fns)
	if v, err := strconv.Atoi(os.Getenv("C09_TUPLES")); err == nil && v > 0 {
		perFn = v / len(r.fns) // development aid: a larger seeded part to find cells worth promoting
	}
	for _, f := range r.fns {
		var u []c09Case
		var cl []c09Cell
		var tb []bool
		if f.Max < 0 || f.Max >= 3 {
			seen := map[[3]int]bool{}
			add3 := func(i, j, k int) {
				if seen[[3]int{i, j, k}] {
					return
				}
				seen[[3]int{i, j, k}] = true
				u = append(u, c09Case{"E", f.Call(i, j, k)})
				cl = append(cl, c09Cell{f, []int{i, j, k}})
				tb = append(tb, true)
				nTable++
			}
			for _, i := range c09Reduced {
				for _, j := range c09Reduced {
					for _, k := range third {
						add3(i, j, k)
					}
				}
			}
			if c.Thorough() {
				// … and the first and the second argument over the whole pool
				for _, i := range c09Reduced {
					for _, j := range c09Reduced {
						for _, k := range third {
							add3(i, k, j)
							add3(k, i, j)
						}
					}
				}
			}
		}
		for _, pc := range c09Promoted {
			if pc[0] == f.Key() {
				idx := c09PoolIndex(pc[1:]...)
				u = append(u, c09Case{"E", f.Call(idx...)})
				cl = append(cl, c09Cell{f, idx})
				tb = append(tb, true)
				nTable++
			}
		}
		for n := 0; n < perFn; n++ {
			k := 3 + c.Rng.Intn(3)
			if f.Max >= 0 && f.Max < 3 {
				k = 3 // beyond the documented maximum only the arity check is exercised
				if n > 3 {
					break
				}
			} else if f.Max >= 3 && k > f.Max+1 {
				k = f.Max + 1
			}
			idx := make([]int, k)
			for i := range idx {
				idx[i] = c.Rng.Intn(len(c09Pool))
			}
			u = append(u, c09Case{"E", f.Call(idx...)})
			cl = append(cl, c09Cell{f, idx})
			tb = append(tb, false)
			nSeeded++
		}
		units = append(units, u)
		cells = append(cells, cl)
		table = append(table, tb)
	}
	t0 := time.Now()
	// listed findings by (function, kind), for the seeded tuples
	byFnKind := map[string]string{}
	for _, f := range c.Findings.Findings {
		if f.Property == "C09" && strings.HasPrefix(f.Signature, "fn=") {
			w := strings.Fields(f.Signature)
			if len(w) >= 3 && strings.HasPrefix(w[2], "kind=") {
				key := w[0] + " " + w[2]
				if old, has := byFnKind[key]; !has || f.Signature < old {
					byFnKind[key] = f.Signature
				}
			}
		}
	}
	sigOf := func(u, k int, kind, stage string) (string, bool) {
		cl := cells[u][k]
		if table[u][k] {
			return cl.Sig(kind, stage), true
		}
		if s, has := byFnKind["fn="+cl.fn.Key()+" kind="+kind]; has {
			return s, false
		}
		return cl.Sig(kind, stage), true
	}
	obs := r.explore(units, nil, func(u, k int, rs c09Result, kind string) string {
		sig, own := sigOf(u, k, kind, rs.Stage)
		if !own {
			return "isolated"
		}
		return r.knownHow(sig)
	})
	c.Ev.Coverage["tuple_wall_s"] = time.Since(t0).Seconds()
	c.Ev.Coverage["tuple_table_cases"] = nTable
	c.Ev.Coverage["tuple_seeded_cases"] = nSeeded
	var dump []string
	hitByTable := map[string]string{}
	for u := range obs {
		for k, ob := range obs[u] {
			cl := cells[u][k]
			r.countCase(!c09IsArity(ob.Res))
			c.Ev.Hist("tuple_outcome", c09OutcomeBucket(ob.Res))
			c.Ev.Hist("tuple_argc", fmt.Sprint(len(cl.idx)))
			if ob.Res.Text != "" && len(cl.idx) > 3 && r.sample("tuple", 2) {
				c.Ev.Sample(map[string]string{"call": units[u][k].Text, "outcome": ob.Res.Summary()})
			}
			if ob.Kind == "" {
				continue
			}
			sig, own := sigOf(u, k, ob.Kind, ob.Res.Stage)
			if own && ob.How != "isolated" {
				sig += " how=" + ob.How
			}
			fk := "fn=" + cl.fn.Key() + " kind=" + ob.Kind
			if table[u][k] {
				if _, has := hitByTable[fk]; !has && ob.How == "isolated" {
					hitByTable[fk] = sig
				}
			} else if s2, has := hitByTable[fk]; has {
				// a seeded tuple: counted with a table cell of the same function and kind that failed
				// in this very run
				sig, own = s2, false
			}
			dump = append(dump, fmt.Sprintf("%s\t%v\t%s\t%s", sig, table[u][k], units[u][k].Text, ob.Res.Summary()))
			r.report(sig, table[u][k] || !own, units[u][k].Text, "E", ob, "args="+c09Types(cl.idx...))
		}
	}
	sort.Strings(dump)
	_ = os.WriteFile(filepath.Join(c.OutDir, "tuple-faults.tsv"), []byte(strings.Join(dump, "\n")+"\n"), 0o644)
}

// knownHow: "" when the signature of a first-pass fault is not listed; else how it is listed
// (alone, or only in the sequence of its unit).
func (r *c09Run) knownHow(sig string) string {
	if r.c.Findings.Match("C09", sig) != nil {
		return "isolated"
	}
	if r.c.Findings.Match("C09", sig+" how=sequence") != nil {
		return "sequence"
	}
	return ""
}

// c09IsArity: the outcome is an argument count error (statistics only).
func c09IsArity(r c09Result) bool { return r.Arity }

// report records a fault: listed signatures of sweep cells are known findings, everything else
// is a violation. The first case seen per signature is kept for the findings candidate file.
func (r *c09Run) report(sig string, sweep bool, text, kind string, ob c09Obs, note string) {
	if !sweep {
		// never listable: seeded cases are reported, not recorded in the candidate file
	} else if _, seen := r.firstCase[sig]; !seen {
		if r.firstCase == nil {
			r.firstCase = map[string][2]string{}
		}
		r.firstCase[sig] = [2]string{text, ob.Res.Summary()}
		r.sigOrder = append(r.sigOrder, sig)
	}
	if ob.Kind == "unbounded" && sweep && ob.How == "isolated" {
		if r.cellsOf == nil {
			r.cellsOf = map[string][]string{}
		}
		r.cellsOf[sig] = append(r.cellsOf[sig], text)
	}
	in := map[string]any{"kind": kind, "text": text, "how": ob.How, "with": ob.Prefix}
	if kind == "R" || kind == "T" {
		in["text_hex"] = lib.Hex(text)
	}
	rep := map[string]any{}
	if r.c.GenBroken != "" {
		// a generated obligation no longer builds for this tree: this failing input is its witness
		rep["broken"] = map[string]any{"obligation": r.c.GenBroken, "lean_error": "see .work/run/C09/gen-broken.txt"}
	}
	r.c.Report(sig, sweep, c09Merge(rep, map[string]any{
		"input":         in,
		"note":          note,
		"observed":      ob.Res.Summary(),
		"expected":      c09Expected,
		"expected_from": "property statement (exploration: the implementation is observed directly, no model in the loop)",
	}))
}

func c09Merge(a, b map[string]any) map[string]any {
	for k, v := range b {
		a[k] = v
	}
	return a
}

// c09ExpectedCells: the case texts recorded (field "cells") with the listed findings of kind
// unbounded.
func c09ExpectedCells(path string) map[string]bool {
	var doc struct {
		Findings []struct {
			Signature string   `json:"signature"`
			Cells     []string `json:"cells"`
		} `json:"findings"`
	}
	out := map[string]bool{}
	if lib.ReadJSON(path, &doc) == nil {
		for _, f := range doc.Findings {
			if strings.Contains(f.Signature, " kind=unbounded") {
				for _, t := range f.Cells {
					out[t] = true
				}
			}
		}
	}
	return out
}

// writeCandidates writes every signature reported in this run in the format of findings/C09.json
// into the run directory (never into the committed findings file).
func (r *c09Run) writeCandidates() {
	type fnd struct {
		Property  string `json:"property"`
		Signature string `json:"signature"`
		WhatFails string `json:"what_fails"`
		Replay    string `json:"replay"`
		FirstSeen string `json:"first_seen"`
		// every failing case text, recorded for kind=unbounded only: the quick tier does not run them
		Cells []string `json:"cells,omitempty"`
	}
	sigs := append([]string{}, r.sigOrder...)
	sort.Strings(sigs)
	out := struct {
		Findings []fnd    `json:"findings"`
		Fixed    []string `json:"fixed"`
	}{Findings: []fnd{}, Fixed: r.c.Findings.Fixed}
	for _, sig := range sigs {
		fc := r.firstCase[sig]
		obs := fc[1]
		// addresses and sizes in messages differ between runs: keep the head of the observation only
		if i := strings.Index(obs, " | "); i > 0 {
			obs = obs[:i]
		}
		out.Findings = append(out.Findings, fnd{"C09", sig, c09Clip(obs, 160), c09Clip(fc[0], 300), "round 1", r.cellsOf[sig]})
	}
	b, _ := json.MarshalIndent(out, "", " ")
	_ = os.WriteFile(filepath.Join(r.c.OutDir, "findings-candidate.json"), b, 0o644)
}

// chunk splits cases into units of at most n.
func c09Chunk(cases []c09Case, n int) [][]c09Case {
	var units [][]c09Case
	for len(cases) > 0 {
		k := n
		if k > len(cases) {
			k = len(cases)
		}
		units = append(units, cases[:k])
		cases = cases[k:]
	}
	return units
}

// sweepReader: (a) byte strings to the reader.
func (r *c09Run) sweepReader() {
	c := r.c
	table := c09ReaderTable(c.Thorough())
	// the seeded generator drops inputs containing a construct that is listed in the findings
	var avoid []c09Construct
	for _, cs := range c09ReaderConstructs {
		if c.Findings.Listed("C09", "reader construct="+cs.name+" ") {
			avoid = append(avoid, cs)
		}
	}
	seeded := c09ReaderSeeded(c.Rng, c.Scale(40000, 600000), avoid)
	var cases []c09Case
	for _, t := range table {
		cases = append(cases, c09Case{"R", t})
	}
	nTable := len(cases)
	for _, t := range seeded {
		cases = append(cases, c09Case{"R", t})
	}
	units := c09Chunk(cases, 2000)
	t0 := time.Now()
	obs := r.explore(units, nil, func(u, k int, rs c09Result, kind string) string {
		if u*2000+k >= nTable {
			return ""
		}
		return r.knownHow(c09ReaderSig(units[u][k].Text, kind, rs.Stage))
	})
	c.Ev.Coverage["reader_wall_s"] = time.Since(t0).Seconds()
	c.Ev.Coverage["reader_table_cases"] = nTable
	c.Ev.Coverage["reader_seeded_cases"] = len(seeded)
	var dump []string
	i := 0
	for u := range obs {
		for k, ob := range obs[u] {
			in := units[u][k].Text
			sweep := i < nTable
			i++
			r.countCase(len(in) >= 2)
			c.Ev.Hist("reader_outcome", c09OutcomeBucket(ob.Res))
			if ob.Res.Text != "" && i%7 == 0 && r.sample("reader", 3) {
				c.Ev.Sample(map[string]string{"reader_input": fmt.Sprintf("%q", in), "outcome": ob.Res.Summary()})
			}
			if ob.Kind == "" {
				continue
			}
			if !sweep && ob.How == "isolated" {
				in, ob = r.minimiseReader(in, ob)
			}
			sig := c09ReaderSig(in, ob.Kind, ob.Res.Stage)
			if ob.How != "isolated" {
				sig += " how=" + ob.How
			}
			dump = append(dump, fmt.Sprintf("%s\t%v\t%q\t%s", sig, sweep, in, ob.Res.Summary()))
			r.report(sig, sweep, in, "R", ob, "reader input")
		}
	}
	sort.Strings(dump)
	_ = os.WriteFile(filepath.Join(c.OutDir, "reader-faults.tsv"), []byte(strings.Join(dump, "\n")+"\n"), 0o644)
	// correspondence with the model over the regenerated tables: where the model says that every
	// possible reader state has no action for a byte (must-raise), the implementation must not
	// return a value
	if c.ModelBin != "" {
		var reqs []string
		var refs [][2]int
		for u := range obs {
			for k := range obs[u] {
				if in := units[u][k].Text; len(in) <= 4096 {
					reqs = append(reqs, "tot reader "+lib.Hex(in))
					refs = append(refs, [2]int{u, k})
				}
			}
		}
		replies := c.Model(reqs)
		must, agree := 0, 0
		for i, rep := range replies {
			u, k := refs[i][0], refs[i][1]
			in := units[u][k].Text
			switch {
			case strings.HasPrefix(rep, "err"):
				// excluded by Theorems.GenC09.reader_run_total_now while the obligation builds
				c.Report("reader-model aspect=model-fault", false, map[string]any{
					"input": map[string]any{"kind": "R", "text": in, "text_hex": lib.Hex(in)}, "request": reqs[i], "observed": "model: " + rep,
					"expected": "ok must-raise | ok may-pass", "expected_from": "model:tot.reader", "relies_on": []string{"SlipVerif.Theorems.GenC09.reader_run_total_now"}})
			case strings.HasPrefix(rep, "ok must-raise"):
				must++
				if obs[u][k].Res.Status == "V" {
					c.Report("reader-model aspect=value-where-tables-have-no-action", false, map[string]any{
						"input": map[string]any{"kind": "R", "text": in, "text_hex": lib.Hex(in)}, "request": reqs[i], "observed": obs[u][k].Res.Summary(),
						"expected": "a condition: " + rep + " (no action in the byte tables for any reachable mode)", "expected_from": "model:tot.reader",
						"relies_on": []string{"SlipVerif.Theorems.C09.reader_run_total"}})
				} else {
					agree++
				}
			default:
				agree++
			}
		}
		c.Ev.Coverage["reader_model_requests"] = len(reqs)
		c.Ev.Coverage["reader_model_must_raise"] = must
		c.Ev.Coverage["reader_model_agree"] = agree
	}
}

// sweepStream: (a') the reader behind its stream entry points, see c09_stream.go.
func (r *c09Run) sweepStream() {
	c := r.c
	if c.ModelBin != "" {
		if f := strings.Fields(c.Model([]string{"tot blocksize"})[0]); len(f) == 2 && f[0] == "ok" {
			if n, err := strconv.Atoi(f[1]); err == nil && n > 0 {
				c09BlockSize = n
			}
		}
	}
	c.Ev.Coverage["stream_block_size"] = c09BlockSize
	var avoid []c09Construct
	for _, cs := range c09ReaderConstructs {
		if c.Findings.Listed("C09", "reader construct="+cs.name+" ") {
			avoid = append(avoid, cs)
		}
	}
	all := append(c09StreamTable(c.Thorough()), c09StreamSeeded(c.Rng, c.Scale(6000, 120000), avoid)...)
	cases := make([]c09Case, len(all))
	nTable := 0
	for i, sc := range all {
		cases[i] = sc.request()
		if sc.table {
			nTable++
		}
	}
	units := c09Chunk(cases, 1500)
	t0 := time.Now()
	obs := r.explore(units, nil, func(u, k int, _ c09Result, kind string) string {
		if sc := all[u*1500+k]; sc.table {
			return r.knownHow(sc.sig(kind))
		}
		return ""
	})
	c.Ev.Coverage["stream_wall_s"] = time.Since(t0).Seconds()
	c.Ev.Coverage["stream_table_cases"] = nTable
	c.Ev.Coverage["stream_seeded_cases"] = len(all) - nTable
	var dump []string
	for u := range obs {
		for k, ob := range obs[u] {
			sc := all[u*1500+k]
			r.countCase(len(sc.text) >= 2)
			c.Ev.Hist("stream_outcome", c09OutcomeBucket(ob.Res))
			c.Ev.Hist("stream_entry", sc.entry)
			if ob.Res.Text != "" && ob.Res.Status == "V" && sc.pad > 0 && r.sample("stream", 2) {
				c.Ev.Sample(map[string]string{"stream_case": fmt.Sprintf("%s pad=%d %q", sc.entry, sc.pad, sc.text), "outcome": ob.Res.Summary()})
			}
			if ob.Kind == "" {
				continue
			}
			sig := sc.sig(ob.Kind)
			if ob.How != "isolated" {
				sig += " how=" + ob.How
			}
			dump = append(dump, fmt.Sprintf("%s\t%v\tpad=%d cuts=%s %q\t%s", sig, sc.table, sc.pad, sc.cuts, c09Clip(sc.text, 80), ob.Res.Summary()))
			r.report(sig, sc.table, units[u][k].Text, "T", ob, fmt.Sprintf("entry=%s pad=%d cuts=%q text=%q", sc.entry, sc.pad, sc.cuts, c09Clip(sc.text, 200)))
		}
	}
	sort.Strings(dump)
	_ = os.WriteFile(filepath.Join(c.OutDir, "stream-faults.tsv"), []byte(strings.Join(dump, "\n")+"\n"), 0o644)
}

// sweepFormat: (c) format control strings x argument lists.
func (r *c09Run) sweepFormat() {
	c := r.c
	table := c09FmtTable(c.Thorough())
	// composite generator avoids directive instances that have a listed finding
	skip := func(label string) bool { return c.Findings.Listed("C09", "format "+label+" ") }
	seeded := c09FmtSeeded(c.Rng, c.Scale(30000, 400000), skip)
	all := append(append([]c09FmtCase{}, table...), seeded...)
	cases := make([]c09Case, len(all))
	for i, fc := range all {
		cases[i] = c09Case{"E", c09FmtCall(fc.ctl, fc.args)}
	}
	// units of 3000 cases; the huge-count probes (they run until the memory cap) one per unit
	var units [][]c09Case
	var unitOf []c09FmtCase // flattened in unit order
	var cur []c09Case
	var curF []c09FmtCase
	flush := func() {
		if len(cur) > 0 {
			units = append(units, cur)
			unitOf = append(unitOf, curF...)
			cur, curF = nil, nil
		}
	}
	for i, fc := range all {
		if strings.HasPrefix(fc.segs[0], "huge ") {
			flush()
			cur, curF = []c09Case{cases[i]}, []c09FmtCase{fc}
			flush()
			continue
		}
		cur, curF = append(cur, cases[i]), append(curF, fc)
		if len(cur) == 3000 {
			flush()
		}
	}
	flush()
	all = unitOf
	offset := make([]int, len(units))
	for u := 1; u < len(units); u++ {
		offset[u] = offset[u-1] + len(units[u-1])
	}
	t0 := time.Now()
	// format output is small unless a count is huge: a low memory cap ends those cases quickly
	cap0 := r.eng.RSSCap
	r.eng.RSSCap = 512 << 20
	obs := r.explore(units, nil, func(u, k int, _ c09Result, kind string) string {
		if fc := all[offset[u]+k]; fc.table {
			return r.knownHow(fc.sig(kind))
		}
		return ""
	})
	r.eng.RSSCap = cap0
	c.Ev.Coverage["format_wall_s"] = time.Since(t0).Seconds()
	c.Ev.Coverage["format_table_cases"] = len(table)
	c.Ev.Coverage["format_seeded_cases"] = len(seeded)
	var dump []string
	i := -1
	for u := range obs {
		for k, ob := range obs[u] {
			i++
			fc := all[i]
			r.countCase(len(fc.args) > 0 || strings.Count(fc.ctl, "~") > 1)
			c.Ev.Hist("format_outcome", c09OutcomeBucket(ob.Res))
			if ob.Res.Text != "" && i%5 == 0 && r.sample("format", 3) {
				c.Ev.Sample(map[string]string{"format_case": units[u][k].Text, "outcome": ob.Res.Summary()})
			}
			if ob.Kind == "" {
				continue
			}
			text := units[u][k].Text
			sweep := fc.table
			if !fc.table && ob.How == "isolated" {
				// a seeded case: reduce it to the parts and arguments that matter; when one
				// directive instance is left the case is a cell of the table (listed or not)
				fc, ob = r.minimiseFormat(fc, ob)
				text = c09FmtCall(fc.ctl, fc.args)
				sweep = len(fc.segs) == 1 && fc.segs[0] != "mutated" && len(fc.args) <= 2
			}
			sig := fc.sig(ob.Kind)
			if ob.How != "isolated" {
				sig += " how=" + ob.How
			}
			dump = append(dump, fmt.Sprintf("%s\t%v\t%s\t%s", sig, fc.table, text, ob.Res.Summary()))
			r.report(sig, sweep, text, "E", ob, "format")
		}
	}
	sort.Strings(dump)
	_ = os.WriteFile(filepath.Join(c.OutDir, "format-faults.tsv"), []byte(strings.Join(dump, "\n")+"\n"), 0o644)
	if c.ModelBin != "" {
		// the directive scanner model: an unknown byte after the first ~ (past modifiers and
		// parameters) must make format raise
		// the model's answer depends on the control string only: one request per distinct string
		var reqs []string
		reqOf := map[string]int{}
		var refs [][3]int // unit, case, request
		i := -1
		for u := range obs {
			for k := range obs[u] {
				i++
				q, ok := reqOf[all[i].ctl]
				if !ok {
					q = len(reqs)
					reqOf[all[i].ctl] = q
					reqs = append(reqs, "tot format "+lib.Hex(all[i].ctl))
				}
				refs = append(refs, [3]int{u, k, q})
			}
		}
		replies := c.Model(reqs)
		raise, agree := 0, 0
		for _, ref := range refs {
			u, k, rep := ref[0], ref[1], replies[ref[2]]
			switch {
			case strings.HasPrefix(rep, "err"):
				c.Report("format-model aspect=model-fault", false, map[string]any{
					"input": map[string]any{"kind": "E", "text": units[u][k].Text}, "request": reqs[ref[2]], "observed": "model: " + rep,
					"expected": "ok …", "expected_from": "model:tot.format", "relies_on": []string{"SlipVerif.Theorems.GenC09.format_scan_total_now"}})
			case rep == "ok raise":
				raise++
				if obs[u][k].Res.Status == "V" {
					c.Report("format-model aspect=value-for-unknown-directive", false, map[string]any{
						"input": map[string]any{"kind": "E", "text": units[u][k].Text}, "request": reqs[ref[2]], "observed": obs[u][k].Res.Summary(),
						"expected": "a condition: the byte after ~ (and its modifiers / parameters) has no clause in readDir", "expected_from": "model:tot.format",
						"relies_on": []string{"SlipVerif.Theorems.C09.format_unknown_raises"}})
				} else {
					agree++
				}
			default:
				agree++
			}
		}
		c.Ev.Coverage["format_model_requests"] = len(reqs)
		c.Ev.Coverage["format_model_cases"] = len(refs)
		c.Ev.Coverage["format_model_raise"] = raise
		c.Ev.Coverage["format_model_agree"] = agree
		r.groupCorrespondence()
	}
}

// minimiseReader: byte-wise reduction of a faulting seeded reader input (same fault kind kept).
func (r *c09Run) minimiseReader(in string, ob c09Obs) (string, c09Obs) {
	conf := r.eng.Confirming()
	budget := 80
	for size := len(in) / 2; size >= 1 && budget > 0; size /= 2 {
		for i := 0; i+size <= len(in) && budget > 0; {
			cand := in[:i] + in[i+size:]
			budget--
			rs := conf.RunUnit([]c09Case{{"R", cand}}, true)[0]
			if kind := c09FaultKind(rs); kind == ob.Kind {
				in, ob = cand, c09Obs{Res: rs, Kind: kind, How: "isolated"}
			} else {
				i += size
			}
		}
	}
	return in, ob
}

// minimiseFormat reduces a faulting seeded format case: parts of a composite are dropped (a
// mutated control string loses bytes) and then arguments are dropped from the end, as long as a
// fault of the same kind remains. Every candidate runs alone in a fresh worker.
func (r *c09Run) minimiseFormat(fc c09FmtCase, ob c09Obs) (c09FmtCase, c09Obs) {
	conf := r.eng.Confirming()
	conf.RSSCap = 512 << 20
	budget := 60
	try := func(cand c09FmtCase) (c09Obs, bool) {
		if budget <= 0 {
			return c09Obs{}, false
		}
		budget--
		rs := conf.RunUnit([]c09Case{{"E", c09FmtCall(cand.ctl, cand.args)}}, true)[0]
		if kind := c09FaultKind(rs); kind == ob.Kind {
			return c09Obs{Res: rs, Kind: kind, How: "isolated"}, true
		}
		return c09Obs{}, false
	}
	rebuild := func(c *c09FmtCase) {
		c.ctl = strings.Join(c.parts, "")
		c.segs = nil
		for _, l := range c.labels {
			if l != "" {
				c.segs = append(c.segs, l)
			}
		}
		if len(c.segs) == 0 {
			c.segs = []string{"literal"}
		}
	}
	changed := true
	for changed && budget > 0 {
		changed = false
		if fc.parts != nil {
			for i := len(fc.parts) - 1; i >= 0 && len(fc.parts) > 1; i-- {
				cand := fc
				cand.parts = append(append([]string{}, fc.parts[:i]...), fc.parts[i+1:]...)
				cand.labels = append(append([]string{}, fc.labels[:i]...), fc.labels[i+1:]...)
				rebuild(&cand)
				if o, ok := try(cand); ok {
					fc, ob, changed = cand, o, true
				}
			}
		} else {
			// byte-wise for mutated strings: halves first, then single bytes
			for size := len(fc.ctl) / 2; size >= 1 && budget > 0; size /= 2 {
				for i := 0; i+size <= len(fc.ctl) && budget > 0; {
					cand := fc
					cand.ctl = fc.ctl[:i] + fc.ctl[i+size:]
					if o, ok := try(cand); ok {
						fc, ob, changed = cand, o, true
					} else {
						i += size
					}
				}
			}
		}
		for len(fc.args) > 0 && budget > 0 {
			cand := fc
			cand.args = fc.args[:len(fc.args)-1]
			o, ok := try(cand)
			if !ok {
				break
			}
			fc, ob, changed = cand, o, true
		}
	}
	return fc, ob
}

// groupCorrespondence: the digit grouping of ~:D — the model's slices (Theorems.C09
// group_slices_in_range / group_slices_cover) against the implementation's output.
func (r *c09Run) groupCorrespondence() {
	c := r.c
	n := c.Scale(3000, 40000)
	var cases []c09Case
	var reqs []string
	// comma characters that readParam accepts after the quote (bytes that dirScanMap marks end the
	// parameter: `',` is a parse error, a C15 matter)
	commas := []string{".", "_", "-", " "}
	for i := 0; i < n; i++ {
		digits := 1 + c.Rng.Intn(40)
		if i < 200 {
			digits = 1 + i%25
		}
		var b strings.Builder
		sign := ""
		if c.Rng.Chance(40) {
			sign = "-"
		}
		b.WriteString(sign)
		b.WriteByte(byte('1' + c.Rng.Intn(9)))
		for d := 1; d < digits; d++ {
			b.WriteByte(byte('0' + c.Rng.Intn(10)))
		}
		num := b.String()
		ci := 1 + c.Rng.Intn(7)
		if i < 200 {
			ci = 1 + (i/25)%7
		}
		comma := commas[c.Rng.Intn(len(commas))]
		at := ""
		shown := num
		if sign == "" && c.Rng.Chance(30) {
			at, shown = "@", "+"+num
		}
		ctl := fmt.Sprintf("~,,'%s,%d:%sD", comma, ci, at)
		cases = append(cases, c09Case{"E", "(format nil " + c09LispString(ctl) + " " + num + ")"})
		reqs = append(reqs, fmt.Sprintf("tot group %s %d %s", shown, ci, lib.Hex(comma)))
	}
	eng := r.eng.Confirming()
	eng.Deadline, eng.KeepText = r.eng.Deadline, true
	res := eng.RunUnits(c09Chunk(cases, 1000), nil)
	replies := c.Model(reqs)
	i, agree := 0, 0
	for _, ur := range res {
		for _, rs := range ur {
			want := ""
			if f := strings.Fields(replies[i]); len(f) == 2 && f[0] == "ok" {
				want = "\"" + lib.Unhex(f[1]) + "\""
			}
			if rs.Status == "V" && rs.Text == want {
				agree++
			} else {
				c.Report("group-model aspect=grouped-digits", false, map[string]any{
					"input": map[string]any{"kind": "E", "text": cases[i].Text}, "request": reqs[i], "observed": rs.Summary(), "expected": want,
					"expected_from": "model:tot.group", "relies_on": []string{"SlipVerif.Theorems.C09.group_slices_in_range", "SlipVerif.Theorems.C09.group_slices_cover"}})
			}
			c.Ev.Case(cases[i].Text, true)
			i++
		}
	}
	c.Ev.Coverage["group_model_cases"] = len(cases)
	c.Ev.Coverage["group_model_agree"] = agree
}

func c09OutcomeBucket(r c09Result) string {
	switch r.Status {
	case "V":
		return "value"
	case "C":
		return "condition:" + r.Class
	case "P":
		return "foreign-panic"
	case "K":
		return "skipped-known-unbounded"
	case "H":
		return "deadline"
	case "M":
		return "memory-cap"
	case "D":
		return "worker-died"
	}
	return "?"
}

func (r *c09Run) replay() {
	c := r.c
	var rec map[string]any
	if err := lib.ReadJSON(c.Replay, &rec); err != nil {
		fmt.Println("cannot read replay file:", err)
		return
	}
	in, _ := rec["input"].(map[string]any)
	kind, _ := in["kind"].(string)
	text, _ := in["text"].(string)
	if kind == "" {
		fmt.Println("replay file has no usable input")
		return
	}
	how, _ := in["how"].(string)
	var with []c09Case
	if w, ok := in["with"].([]any); ok {
		for _, x := range w {
			if t, ok := x.(string); ok {
				with = append(with, c09Case{kind, t})
			}
		}
	}
	conf := r.eng.Confirming()
	var res c09Result
	switch how {
	case "poisoner":
		// the case, then the victim evaluated after it in the same worker
		rs := conf.RunUnit(append([]c09Case{{kind, text}}, with...), false)
		res = rs[len(rs)-1]
		fmt.Printf("replay: %q is evaluated first, then %q in the same interpreter\n", text, with[0].Text)
	case "sequence":
		rs := conf.RunUnit(append(with, c09Case{kind, text}), false)
		res = rs[len(rs)-1]
		fmt.Printf("replay: %d cases are evaluated before it in the same interpreter\n", len(with))
	default:
		res = conf.RunUnit([]c09Case{{kind, text}}, true)[0]
	}
	fk := c09FaultKind(res)
	sig, _ := rec["signature"].(string)
	if req, ok := rec["request"].(string); ok && c.ModelBin != "" && strings.Contains(sig, "-model ") {
		// a disagreement with the model: ask the model again
		rep := c.Model([]string{req})[0]
		fmt.Printf("replay %s %q\n  implementation: %s\n  model (%s): %s\n", kind, text, res.Summary(), req, rep)
		bad := strings.HasPrefix(rep, "err")
		switch {
		case strings.HasPrefix(sig, "reader-model"):
			bad = bad || (strings.HasPrefix(rep, "ok must-raise") && res.Status == "V")
		case strings.HasPrefix(sig, "format-model"):
			bad = bad || (rep == "ok raise" && res.Status == "V")
		case strings.HasPrefix(sig, "reader-stack-model"):
			ops, _ := in["ops"].(string)
			_, offsets := c09StackText(ops)
			want, ok := c09StackExpect(rep, offsets)
			bad = bad || !ok || res.Status != "V" || strings.Trim(res.Text, `"`) != want
		case strings.HasPrefix(sig, "format-cursor-model"):
			f := strings.Fields(rep)
			switch {
			case len(f) >= 3 && f[1] == "raise":
				bad = bad || res.Status == "V"
			case len(f) == 4 && f[1] == "done":
				want := strings.ReplaceAll(strings.ReplaceAll(f[2], ".", ""), "-", "")
				bad = bad || res.Status != "V" || res.Text != "\""+want+"\""
			default:
				bad = true
			}
		case strings.HasPrefix(sig, "reader-sharp-model"):
			bad = bad || (rep == "ok raise" && res.Status == "V") || (strings.HasPrefix(rep, "ok radix") && (res.Status != "V" || res.Text != "(1)"))
		case strings.HasPrefix(sig, "group-model"):
			f := strings.Fields(rep)
			bad = bad || len(f) != 2 || res.Status != "V" || res.Text != "\""+lib.Unhex(f[1])+"\""
		}
		if bad || fk != "" {
			c.Report(sig, false, map[string]any{"input": in, "observed": res.Summary(), "expected": rep})
		}
		return
	}
	fmt.Printf("replay %s %q\n  observed: %s\n  fault kind: %q\n  expected: %s\n", kind, text, res.Summary(), fk, c09Expected)
	if fk != "" {
		c.Report(sig, false, map[string]any{"input": in, "observed": res.Summary(), "expected": c09Expected})
	}
}
