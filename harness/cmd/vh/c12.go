package main

// C12 — CLOS classes: precedence, slots and initialisation are order-independent.
//
// A case is a *program*: a sequence of tokens (defclass forms interleaved with observations) that is
// run both on the real slip (pkg/clos, in worker processes, unique class names per run) and on the
// Lean model (SlipVerif.Model.Clos through the line protocol "clos run <token>*"). The replies are
// compared word by word. See lean/SlipVerif/Driver/Clos.lean for the token grammar.
//
// Families: (1) a fixed, seed-independent sweep of single-cause cells (hand-written minimal
// programs + every DAG on three classes in every definition order); (2) perm families: a random
// configuration (DAG of <= 5 classes, slot sets with shadowing, shared initargs, initforms at several
// levels, optional redefinition of one class) run under *every* permutation of its defclass forms,
// all with the same final observation block (every subset of the valid initargs per class, typep,
// applicable methods, reader/writer/accessor effects); the final blocks of one family are also
// compared with each other directly (order independence on the implementation, no model involved);
// (3) random single programs for n = 5.
//
// Programs that contain a redefinition are run several times (Go map iteration order is random):
// the verdict is "any run differs".

import (
	"bufio"
	"fmt"
	"os"
	"os/exec"
	"runtime"
	"sort"
	"strconv"
	"strings"
	"sync"
	"time"

	"github.com/ohler55/slip"
	"verif/harness/lib"
)

func init() { props["C12"] = runC12 }

// ---------------------------------------------------------------------------------------------
// configurations

type c12Slot struct {
	name     int
	initargs []int
	hasForm  bool
	form     int    // value of the initform; -1 = nil
	flags    string // subset of "rwa": :reader :writer :accessor
}

type c12Class struct {
	supers   []int
	slots    []c12Slot
	defaults [][2]int // (:default-initargs k v …), at most on classes nothing inherits from
}

func c12Ints(xs []int, sep string) string {
	if len(xs) == 0 {
		return "-"
	}
	parts := make([]string, len(xs))
	for i, x := range xs {
		parts[i] = strconv.Itoa(x)
	}
	return strings.Join(parts, sep)
}

func (cl c12Class) token(c int) string {
	var slots []string
	for _, sl := range cl.slots {
		form := "-"
		if sl.hasForm {
			form = strconv.Itoa(sl.form)
		}
		flags := sl.flags
		if flags == "" {
			flags = "-"
		}
		slots = append(slots, fmt.Sprintf("%d/%s/%s/%s", sl.name, c12Ints(sl.initargs, ","), form, flags))
	}
	st := "-"
	if len(slots) > 0 {
		st = strings.Join(slots, ";")
	}
	if len(cl.defaults) > 0 {
		var ds []string
		for _, d := range cl.defaults {
			ds = append(ds, fmt.Sprintf("%d=%d", d[0], d[1]))
		}
		return fmt.Sprintf("D:%d:%s:%s:%s", c, c12Ints(cl.supers, ","), st, strings.Join(ds, ","))
	}
	return fmt.Sprintf("D:%d:%s:%s", c, c12Ints(cl.supers, ","), st)
}

type c12OldDef struct {
	cls int
	def c12Class
}

type c12Config struct {
	n     int
	defs  []c12Class
	redef *c12Class // new definition of class redefOf (nil: none)
	rcls  int
	after []string    // J tokens: :after methods on initialize-instance / shared-initialize (same for every order)
	old   []c12OldDef // history programs: the superseded definitions (their accessors stay defined)
}

// c12GenAfter: :after methods on initialize-instance / shared-initialize for random classes (half of
// the configurations have none of a kind); they are defined before the classes exist
func c12GenAfter(r *lib.Rng, n int) []string {
	var toks []string
	for _, f := range []string{"i", "s"} {
		if r.Bool() {
			var ks []int
			for k := 0; k < n; k++ {
				if r.Chance(60) {
					ks = append(ks, k)
				}
			}
			if len(ks) > 0 {
				toks = append(toks, "J:"+f+":"+c12Ints(ks, ","))
			}
		}
	}
	return toks
}

// finalDefs: the definitions in force at the end
func (cf *c12Config) finalDefs() []c12Class {
	out := append([]c12Class{}, cf.defs...)
	if cf.redef != nil {
		out[cf.rcls] = *cf.redef
	}
	return out
}

// generator-side reachability (only used to aim the observations; never an oracle)
func c12Ancestors(defs []c12Class, c int) map[int]bool {
	seen := map[int]bool{}
	var walk func(k int)
	walk = func(k int) {
		if k < 0 || k >= len(defs) || seen[k] {
			return
		}
		seen[k] = true
		for _, s := range defs[k].supers {
			walk(s)
		}
	}
	walk(c)
	return seen
}

func c12Depth(defs []c12Class) int {
	memo := map[int]int{}
	var d func(k int) int
	d = func(k int) int {
		if v, ok := memo[k]; ok {
			return v
		}
		best := 0
		for _, s := range defs[k].supers {
			if s < len(defs) {
				if x := d(s) + 1; x > best {
					best = x
				}
			}
		}
		memo[k] = best
		return best
	}
	best := 0
	for k := range defs {
		if x := d(k); x > best {
			best = x
		}
	}
	return best
}

type c12GenOpts struct {
	sharedInitargs bool
	nilForms       bool
	redef          bool
}

func c12GenSlots(r *lib.Rng, cls, version int, o c12GenOpts, usedArgs map[int]bool) []c12Slot {
	var slots []c12Slot
	nslots := []int{0, 1, 1, 2, 2, 2, 3}[r.Intn(7)]
	perm := []int{0, 1, 2, 3}
	for i := 3; i > 0; i-- {
		j := r.Intn(i + 1)
		perm[i], perm[j] = perm[j], perm[i]
	}
	// half of the classes draw their slots from two names only: the same slot then shows up at many
	// places of a hierarchy (shadowing, joins of a diamond)
	if r.Bool() {
		perm = []int{0, 1}
		if r.Bool() {
			perm = []int{1, 0}
		}
		if nslots > 2 {
			nslots = 2
		}
	}
	for _, name := range perm[:nslots] {
		sl := c12Slot{name: name}
		na := []int{0, 0, 1, 1, 1, 1, 2, 2}[r.Intn(8)]
		for len(sl.initargs) < na {
			k := r.Intn(3)
			if !o.sharedInitargs {
				// without shared initargs an initarg names one slot (the slot with the same number)
				k = name % 3
				if name == 3 {
					break
				}
			}
			dup := false
			for _, x := range sl.initargs {
				dup = dup || x == k
			}
			if dup {
				if !o.sharedInitargs {
					break
				}
				continue
			}
			sl.initargs = append(sl.initargs, k)
			usedArgs[k] = true
		}
		if r.Chance(55) {
			sl.hasForm = true
			sl.form = 100*version + 10*cls + name + 1
			if o.nilForms && r.Chance(8) {
				sl.form = -1
			}
		}
		if r.Chance(30) {
			sl.flags += "r"
		}
		if r.Chance(25) {
			sl.flags += "w"
		}
		if r.Chance(25) {
			sl.flags += "a"
		}
		slots = append(slots, sl)
	}
	return slots
}

func c12GenSupers(r *lib.Rng, i int) []int {
	if i == 0 {
		return nil
	}
	want := []int{0, 0, 1, 1, 1, 1, 1, 2, 2, 2, 3}[r.Intn(11)]
	if want > i {
		want = i
	}
	var sup []int
	for len(sup) < want {
		k := r.Intn(i)
		dup := false
		for _, x := range sup {
			dup = dup || x == k
		}
		if !dup {
			sup = append(sup, k)
		}
	}
	return sup
}

func c12GenConfig(r *lib.Rng, n int, o c12GenOpts) *c12Config {
	cf := &c12Config{n: n}
	used := map[int]bool{}
	for i := 0; i < n; i++ {
		cf.defs = append(cf.defs, c12Class{supers: c12GenSupers(r, i), slots: c12GenSlots(r, i, 0, o, used)})
	}
	if o.redef {
		cf.rcls = r.Intn(n)
		// prefer a class that has descendants
		for try := 0; try < 3; try++ {
			has := false
			for k := cf.rcls + 1; k < n; k++ {
				has = has || c12Ancestors(cf.defs, k)[cf.rcls]
			}
			if has {
				break
			}
			cf.rcls = r.Intn(n)
		}
		nd := c12Class{supers: cf.defs[cf.rcls].supers, slots: c12GenSlots(r, cf.rcls, 1, o, used)}
		if r.Chance(50) {
			// new direct superclasses: any classes that do not inherit from the redefined class
			// (the graph stays acyclic); they may be defined before or after the redefinition
			var cand []int
			for k := 0; k < n; k++ {
				if k != cf.rcls && !c12Ancestors(cf.defs, k)[cf.rcls] {
					cand = append(cand, k)
				}
			}
			for try := 0; try < 4; try++ {
				var sup []int
				for _, k := range cand {
					if r.Chance(45) && len(sup) < 3 {
						sup = append(sup, k)
					}
				}
				for i := len(sup) - 1; i > 0; i-- {
					j := r.Intn(i + 1)
					sup[i], sup[j] = sup[j], sup[i]
				}
				nd.supers = sup
				if c12Ints(sup, ",") != c12Ints(cf.defs[cf.rcls].supers, ",") {
					break
				}
			}
		}
		cf.redef = &nd
	}
	c12GenDefaults(r, cf)
	cf.after = c12GenAfter(r, n)
	return cf
}

// c12GenDefaults gives default initargs to one class nothing inherits from (in either version of
// the definitions: slip offers a class's own default initargs only, Common Lisp inherits them; with
// nothing below the class the two readings coincide). Two default keys are used only when no slot
// anywhere declares both (slip walks a Go map of them).
func c12GenDefaults(r *lib.Rng, cf *c12Config) {
	if !r.Chance(45) {
		return
	}
	isSuper := map[int]bool{}
	both := map[[2]int]bool{}
	scan := func(cl c12Class) {
		for _, s := range cl.supers {
			isSuper[s] = true
		}
		for _, sl := range cl.slots {
			for _, a := range sl.initargs {
				for _, b := range sl.initargs {
					both[[2]int{a, b}] = true
				}
			}
		}
	}
	for _, d := range cf.defs {
		scan(d)
	}
	if cf.redef != nil {
		scan(*cf.redef)
	}
	// a slot name reached through different classes of one hierarchy: be conservative, per slot name
	byName := map[int][]int{}
	all := append([]c12Class{}, cf.defs...)
	if cf.redef != nil {
		all = append(all, *cf.redef)
	}
	for _, d := range all {
		for _, sl := range d.slots {
			byName[sl.name] = append(byName[sl.name], sl.initargs...)
		}
	}
	for _, ks := range byName {
		for _, a := range ks {
			for _, b := range ks {
				both[[2]int{a, b}] = true
			}
		}
	}
	var leaves []int
	for c := 0; c < cf.n; c++ {
		if !isSuper[c] {
			leaves = append(leaves, c)
		}
	}
	if len(leaves) == 0 {
		return
	}
	c := leaves[r.Intn(len(leaves))]
	gen := func(version int) [][2]int {
		k1 := r.Intn(3)
		v1 := 700 + 100*version + 10*c + k1
		if r.Chance(8) {
			v1 = -1
		}
		out := [][2]int{{k1, v1}}
		if r.Chance(50) {
			k2 := r.Intn(4) // 3: an initarg no slot declares (ignored)
			if k2 != k1 && !both[[2]int{k1, k2}] {
				out = append(out, [2]int{k2, 700 + 100*version + 10*c + k2})
			}
		}
		return out
	}
	cf.defs[c].defaults = gen(0)
	if cf.redef != nil && cf.rcls == c {
		switch r.Intn(3) {
		case 0:
			cf.redef.defaults = nil
		case 1:
			cf.redef.defaults = cf.defs[c].defaults
		default:
			cf.redef.defaults = gen(1)
		}
	}
}

// ---------------------------------------------------------------------------------------------
// programs

type c12Prog struct {
	key      string // unique per program: suffix of every global name
	family   string // perm family ("" = none): programs whose final blocks must coincide
	toks     []string
	final    int // index of the first token of the final observation block
	reps     int
	sweep    bool
	shape    string
	redefAt  int          // index of the redefinition token, -1 = none
	affected map[int]bool // classes with the redefined class on their precedence list (generator's view)
}

func (p *c12Prog) request() string { return "clos run " + strings.Join(p.toks, " ") }

// step observation: after a defclass, the precedence list of every class and one make-instance
func c12StepObs(n int, pick int) []string {
	var toks []string
	for k := 0; k < n; k++ {
		toks = append(toks, fmt.Sprintf("P:%d", k))
	}
	toks = append(toks, fmt.Sprintf("M:%d:-", pick), "H:0")
	// which initforms a make-instance evaluates and which :after methods of the initialisation
	// protocol run, for another class
	if pick%2 == 0 {
		toks = append(toks, fmt.Sprintf("E:%d:-", (pick+1)%n))
	} else {
		toks = append(toks, fmt.Sprintf("N:%d:-", (pick+1)%n))
	}
	return toks
}

func c12Subsets(xs []int) [][]int {
	var out [][]int
	for m := 0; m < 1<<len(xs); m++ {
		var s []int
		for i, x := range xs {
			if m&(1<<i) != 0 {
				s = append(s, x)
			}
		}
		out = append(out, s)
	}
	return out
}

func c12ArgToken(c int, ks []int) string {
	if len(ks) == 0 {
		return fmt.Sprintf("M:%d:-", c)
	}
	parts := make([]string, len(ks))
	for i, k := range ks {
		parts[i] = fmt.Sprintf("%d=%d", k, 1000+10*k+i)
	}
	return fmt.Sprintf("M:%d:%s", c, strings.Join(parts, ","))
}

// final observation block for the definitions defs (generator's view of what is worth asking)
func c12FinalBlock(r *lib.Rng, cf *c12Config) []string {
	defs := cf.finalDefs()
	n := len(defs)
	var toks []string
	// who defines readers / writers / accessors for which slot
	type acc struct {
		cls, slot int
		how       string
	}
	var accs []acc
	for c, d := range defs {
		for _, sl := range d.slots {
			for _, f := range sl.flags {
				accs = append(accs, acc{c, sl.name, string(f)})
			}
		}
	}
	// the accessors of a superseded definition stay defined as methods on the class name
	var stale []acc
	if cf.redef != nil {
		for _, sl := range cf.defs[cf.rcls].slots {
			for _, f := range sl.flags {
				stale = append(stale, acc{cf.rcls, sl.name, string(f)})
			}
		}
	}
	for _, od := range cf.old {
		for _, sl := range od.def.slots {
			for _, f := range sl.flags {
				stale = append(stale, acc{od.cls, sl.name, string(f)})
			}
		}
	}
	for c := 0; c < n; c++ {
		toks = append(toks, fmt.Sprintf("P:%d", c))
		anc := c12Ancestors(defs, c)
		valid := map[int]bool{}
		slots := map[int]bool{}
		for k := range anc {
			for _, sl := range defs[k].slots {
				slots[sl.name] = true
				for _, a := range sl.initargs {
					valid[a] = true
				}
			}
		}
		var vs []int
		for k := 0; k < 4; k++ {
			if valid[k] {
				vs = append(vs, k)
			}
		}
		subsets := c12Subsets(vs)
		// the instance the accessors act on: one whose initargs are not ambiguous (no slot reached by
		// two of the supplied names), so that both sides have an instance
		var unamb []int
		for si, sub := range subsets {
			ok := true
			for x := range slots {
				hit := 0
				for _, k := range sub {
					declared := false
					for a := range anc {
						for _, sl := range defs[a].slots {
							if sl.name == x {
								for _, ia := range sl.initargs {
									declared = declared || ia == k
								}
							}
						}
					}
					if declared {
						hit++
					}
				}
				ok = ok && hit < 2
			}
			if ok {
				unamb = append(unamb, si)
			}
		}
		actAfter := unamb[r.Intn(len(unamb))]
		for si, sub := range subsets {
			// random order of the supplied initargs
			sub = append([]int{}, sub...)
			for i := len(sub) - 1; i > 0; i-- {
				j := r.Intn(i + 1)
				sub[i], sub[j] = sub[j], sub[i]
			}
			toks = append(toks, c12ArgToken(c, sub))
			if si == 0 {
				toks = append(toks, "H:0", "C")
			}
			if si != actAfter {
				continue
			}
			// reader / writer / accessor / slot-value effects on this instance
			var sl []int
			for x := range slots {
				sl = append(sl, x)
			}
			sort.Ints(sl)
			wv := 5000
			// a slot the instance does not have: slot-makunbound / setf slot-value must not create it,
			// nor may a writer left over from a superseded definition
			if r.Chance(40) {
				for x := 0; x < 5; x++ {
					if !slots[x] {
						if r.Bool() {
							toks = append(toks, fmt.Sprintf("U:%d", x))
						} else {
							toks = append(toks, fmt.Sprintf("W:%d:%d:s:0", x, 4999))
						}
						break
					}
				}
			}
			for _, a := range stale {
				if r.Chance(50) {
					switch a.how {
					case "r":
						toks = append(toks, fmt.Sprintf("R:%d:r:%d", a.slot, a.cls))
					case "w":
						toks = append(toks, fmt.Sprintf("W:%d:%d:w:%d", a.slot, 4998, a.cls))
					default:
						toks = append(toks, fmt.Sprintf("W:%d:%d:a:%d", a.slot, 4997, a.cls))
					}
				}
			}
			for _, x := range sl {
				// candidates defined by any class (applicable or not)
				var cand []acc
				for _, a := range accs {
					if a.slot == x {
						cand = append(cand, a)
					}
				}
				switch r.Intn(4) {
				case 0:
					toks = append(toks, fmt.Sprintf("W:%d:%d:s:0", x, wv))
				case 1:
					toks = append(toks, fmt.Sprintf("U:%d", x))
				default:
					if len(cand) == 0 {
						toks = append(toks, fmt.Sprintf("W:%d:%d:s:0", x, wv))
						break
					}
					a := cand[r.Intn(len(cand))]
					switch a.how {
					case "r":
						toks = append(toks, fmt.Sprintf("R:%d:r:%d", x, a.cls))
					case "w":
						toks = append(toks, fmt.Sprintf("W:%d:%d:w:%d", x, wv, a.cls))
					default:
						toks = append(toks, fmt.Sprintf("W:%d:%d:a:%d", x, wv, a.cls), fmt.Sprintf("R:%d:a:%d", x, a.cls))
					}
				}
				wv++
			}
			if len(sl) > 0 {
				toks = append(toks, fmt.Sprintf("W:%d:%d:s:0", sl[0], 5999))
			}
		}
		// evaluated initforms / :after methods of the initialisation protocol, for two subsets of the
		// initargs that are not ambiguous
		for j := 0; j < 2; j++ {
			sub := subsets[unamb[r.Intn(len(unamb))]]
			if j == 0 {
				sub = subsets[unamb[0]] // no initarg: every initform in force is evaluated
			}
			toks = append(toks, "E"+c12ArgToken(c, sub)[1:])
			if j == 1 {
				toks = append(toks, "N"+c12ArgToken(c, sub)[1:], "C")
			}
		}
		// an initarg no slot of the class declares
		for k := 0; k < 4; k++ {
			if !valid[k] {
				toks = append(toks, c12ArgToken(c, append([]int{k}, vs...)))
				if c == 0 {
					toks = append(toks, "E"+c12ArgToken(c, append([]int{k}, vs...))[1:])
				}
				break
			}
		}
		for k := 0; k <= n; k++ {
			toks = append(toks, fmt.Sprintf("T:%d:%d", c, k))
		}
		var ks []int
		for k := 0; k < n; k++ {
			if r.Chance(60) {
				ks = append(ks, k)
			}
		}
		if len(ks) == 0 {
			ks = []int{r.Intn(n)}
		}
		toks = append(toks, fmt.Sprintf("A:%d:%s", c, c12Ints(ks, ",")))
	}
	return toks
}

// c12Build assembles a program: the forms of cf in the order given, the redefinition (if any)
// inserted after position rpos of the order, a step observation after every form, then final.
func c12Build(r *lib.Rng, cf *c12Config, order []int, rpos int, final []string, reps int) *c12Prog {
	p := &c12Prog{redefAt: -1, reps: 1}
	// a generic function with a method on every class, defined first and called throughout (its
	// dispatch cache lives across the definitions)
	all := make([]int, cf.n)
	for k := range all {
		all[k] = k
	}
	p.toks = append(p.toks, "G:0:"+c12Ints(all, ","))
	p.toks = append(p.toks, cf.after...)
	// instances that are kept and observed again after later forms (in particular across the
	// redefinition): slip documents that an existing instance keeps its class object
	nkept := 0
	keep := func(c int) {
		if nkept < 3 {
			p.toks = append(p.toks, fmt.Sprintf("M:%d:-", c), fmt.Sprintf("K:%d", nkept), "C", "H:0")
			nkept++
		}
	}
	keepAfter := -1
	if cf.redef == nil {
		keepAfter = r.Intn(len(order))
	}
	nforms := 0
	emit := func(c int, d c12Class, isRedef bool) {
		if isRedef {
			keep(cf.rcls)
			keep(r.Intn(cf.n))
			if r.Bool() {
				keep(r.Intn(cf.n))
			}
			p.redefAt = len(p.toks)
		}
		p.toks = append(p.toks, d.token(c))
		p.toks = append(p.toks, c12StepObs(cf.n, r.Intn(cf.n))...)
		for j := 0; j < nkept; j++ {
			p.toks = append(p.toks, fmt.Sprintf("X:%d", j), "C", fmt.Sprintf("t:%d", r.Intn(cf.n)), "H:0")
		}
		if nforms == keepAfter {
			keep(c)
			keep(r.Intn(cf.n))
		}
		nforms++
	}
	if cf.redef != nil && rpos == 0 {
		emit(cf.rcls, *cf.redef, true)
	}
	for i, c := range order {
		emit(c, cf.defs[c], false)
		if cf.redef != nil && rpos == i+1 {
			emit(cf.rcls, *cf.redef, true)
		}
	}
	// the kept instances at the end: class-of, typep against every class, applicable methods, slots
	for j := 0; j < nkept; j++ {
		p.toks = append(p.toks, fmt.Sprintf("X:%d", j), "C")
		for k := 0; k <= cf.n; k++ {
			p.toks = append(p.toks, fmt.Sprintf("t:%d", k))
		}
		var ks []int
		for k := 0; k < cf.n; k++ {
			if r.Chance(60) {
				ks = append(ks, k)
			}
		}
		if len(ks) == 0 {
			ks = []int{r.Intn(cf.n)}
		}
		p.toks = append(p.toks, "a:"+c12Ints(ks, ","), "H:0", fmt.Sprintf("W:%d:%d:s:0", r.Intn(4), 7000+j), fmt.Sprintf("X:%d", j))
	}
	p.final = len(p.toks)
	p.toks = append(p.toks, final...)
	if cf.redef != nil {
		p.reps = reps
		p.affected = map[int]bool{}
		fd := cf.finalDefs()
		for k := 0; k < cf.n; k++ {
			if c12Ancestors(fd, k)[cf.rcls] || c12Ancestors(cf.defs, k)[cf.rcls] {
				p.affected[k] = true
			}
		}
	}
	fwd := 0
	seen := map[int]bool{}
	for _, c := range order {
		for _, s := range cf.defs[c].supers {
			if !seen[s] {
				fwd = 1
			}
		}
		seen[c] = true
	}
	rd := "none"
	if cf.redef != nil {
		rd = "slots"
		if c12Ints(cf.redef.supers, ",") != c12Ints(cf.defs[cf.rcls].supers, ",") {
			rd = "supers"
		}
	}
	p.shape = fmt.Sprintf("n=%d depth=%d fwd=%d redef=%s", cf.n, c12Depth(cf.finalDefs()), fwd, rd)
	return p
}

// ---------------------------------------------------------------------------------------------
// histories: several definitions per class, forward references to classes defined much later or
// never, redefinitions of super- and grand-superclasses while a class waits for a missing one

type c12Hist struct {
	n        int
	versions [][]c12Class // versions[c]: the successive definitions of class c
	phantom  bool         // some definition names class n, which is never defined
	after    []string
}

func c12GenHist(r *lib.Rng, o c12GenOpts) *c12Hist {
	h := &c12Hist{n: 4 + r.Intn(4)}
	used := map[int]bool{}
	phantomFinal := r.Chance(6)
	for c := 0; c < h.n; c++ {
		nv := 1 + []int{0, 0, 1, 1, 2}[r.Intn(5)]
		var vs []c12Class
		for v := 0; v < nv; v++ {
			// superclasses have smaller numbers: whatever subset of the forms is in force, the graph is acyclic
			d := c12Class{supers: c12GenSupers(r, c), slots: c12GenSlots(r, c, v, o, used)}
			last := v == nv-1
			if (!last && r.Chance(14)) || (last && phantomFinal && r.Chance(30)) {
				at := r.Intn(len(d.supers) + 1)
				d.supers = append(d.supers[:at:at], append([]int{h.n}, d.supers[at:]...)...)
				h.phantom = true
			}
			vs = append(vs, d)
		}
		h.versions = append(h.versions, vs)
	}
	// default initargs: only on the last class (nothing can inherit from it), one key
	if r.Chance(30) {
		vs := h.versions[h.n-1]
		for v := range vs {
			if r.Chance(70) {
				k := r.Intn(3)
				vs[v].defaults = [][2]int{{k, 700 + 100*v + 10*(h.n-1) + k}}
			}
		}
	}
	h.after = c12GenAfter(r, h.n)
	return h
}

func (h *c12Hist) finalConfig() *c12Config {
	cf := &c12Config{n: h.n, after: h.after}
	for c, vs := range h.versions {
		cf.defs = append(cf.defs, vs[len(vs)-1])
		for _, d := range vs[:len(vs)-1] {
			cf.old = append(cf.old, c12OldDef{c, d})
		}
	}
	return cf
}

// an order of the forms: every class as often as it has versions, shuffled; the k-th occurrence of a
// class is its k-th version, so every order leaves the same definitions in force
func (h *c12Hist) order(r *lib.Rng) []int {
	var seq []int
	for c, vs := range h.versions {
		for range vs {
			seq = append(seq, c)
		}
	}
	for i := len(seq) - 1; i > 0; i-- {
		j := r.Intn(i + 1)
		seq[i], seq[j] = seq[j], seq[i]
	}
	return seq
}

func c12BuildHist(r *lib.Rng, h *c12Hist, seq []int, final []string, reps int) *c12Prog {
	p := &c12Prog{redefAt: -1, reps: reps, affected: map[int]bool{}}
	all := make([]int, h.n)
	for k := range all {
		all[k] = k
		p.affected[k] = true
	}
	p.toks = append(p.toks, "G:0:"+c12Ints(all, ","))
	p.toks = append(p.toks, h.after...)
	nkept := 0
	keep := func(c int) {
		if nkept < 4 {
			p.toks = append(p.toks, fmt.Sprintf("M:%d:-", c), fmt.Sprintf("K:%d", nkept), "C", "H:0")
			nkept++
		}
	}
	seen := make([]int, h.n)
	redefs, fwd := 0, 0
	defined := map[int]bool{}
	for _, c := range seq {
		d := h.versions[c][seen[c]]
		if seen[c] > 0 {
			// a redefinition: an instance of the class (and sometimes of another one) is kept across it
			keep(c)
			if r.Bool() {
				keep(r.Intn(h.n))
			}
			if p.redefAt < 0 {
				p.redefAt = len(p.toks)
			}
			redefs++
		}
		for _, s := range d.supers {
			if !defined[s] {
				fwd = 1
			}
		}
		seen[c]++
		defined[c] = true
		p.toks = append(p.toks, d.token(c))
		p.toks = append(p.toks, c12StepObs(h.n, r.Intn(h.n))...)
		for j := 0; j < nkept; j++ {
			p.toks = append(p.toks, fmt.Sprintf("X:%d", j), "C", fmt.Sprintf("t:%d", r.Intn(h.n)), "H:0")
		}
	}
	for j := 0; j < nkept; j++ {
		p.toks = append(p.toks, fmt.Sprintf("X:%d", j), "C")
		for k := 0; k <= h.n; k++ {
			p.toks = append(p.toks, fmt.Sprintf("t:%d", k))
		}
		p.toks = append(p.toks, "a:"+c12Ints(all, ","), "H:0", fmt.Sprintf("W:%d:%d:s:0", r.Intn(4), 7000+j), fmt.Sprintf("X:%d", j))
	}
	p.final = len(p.toks)
	p.toks = append(p.toks, final...)
	ph := 0
	if h.phantom {
		ph = 1
	}
	p.shape = fmt.Sprintf("hist n=%d forms=%d redefs=%d fwd=%d never-defined-super=%d", h.n, len(seq), redefs, fwd, ph)
	return p
}

// the redefinition goes somewhere after the original form of the class (so that it is the
// definition in force at the end for every permutation of the family)
func c12RedefPos(r *lib.Rng, cf *c12Config, order []int) int {
	if cf.redef == nil {
		return -1
	}
	at := 0
	for i, c := range order {
		if c == cf.rcls {
			at = i + 1
		}
	}
	return at + r.Intn(cf.n+1-at)
}

func c12Perms(n int) [][]int {
	var out [][]int
	var rec func(cur []int, used int)
	rec = func(cur []int, used int) {
		if len(cur) == n {
			out = append(out, append([]int{}, cur...))
			return
		}
		for i := 0; i < n; i++ {
			if used&(1<<i) == 0 {
				rec(append(cur, i), used|1<<i)
			}
		}
	}
	rec(nil, 0)
	return out
}

// ---------------------------------------------------------------------------------------------
// the fixed sweep (seed independent): hand-written single-cause cells

type c12Cell struct {
	name string
	reps int
	toks string
}

var c12Cells = []c12Cell{
	{"single/initarg-initform-unbound", 1,
		"D:0:-:0/0/1/-;1/1/-/-;2/-/3/-;3/-/-/- P:0 M:0:- M:0:0=1000 M:0:1=1010 M:0:0=1000,1=1011 M:0:1=1010,0=1001 M:0:3=1030 T:0:0 T:0:1"},
	{"chain/in-order", 1,
		"D:0:-:0/0/1/- P:0 P:1 D:1:0:1/1/12/- P:0 P:1 M:1:- M:1:0=1000 M:1:1=1010 M:1:0=1000,1=1011 T:1:0 T:0:1 T:1:1 A:1:0 A:1:0,1 A:0:1"},
	{"chain/forward-reference", 1,
		"D:1:0:1/1/12/- P:0 P:1 M:1:- D:0:-:0/0/1/- P:0 P:1 M:1:- M:1:0=1000 M:1:1=1010 M:1:0=1000,1=1011 T:1:0 T:0:1 A:1:0,1"},
	{"chain3/reverse-order", 1,
		"D:2:1:2/2/23/- P:2 D:1:0:1/1/12/- P:1 P:2 M:2:- D:0:-:0/0/1/- P:0 P:1 P:2 M:2:- M:2:0=1000,1=1011,2=1022 T:2:0 T:2:1 T:0:2 A:2:0,1,2 A:1:0,2"},
	{"diamond/written-order", 1,
		"D:0:-:0/-/1/- D:1:0:0/-/11/- D:2:0:0/-/21/- D:3:1,2:-  D:4:2,1:- P:3 P:4 M:3:- M:4:- A:3:0,1,2 A:4:0,1,2 T:3:0"},
	{"diamond/forward", 1,
		"D:3:1,2:- P:3 D:2:0:0/-/21/- P:3 D:1:0:0/-/11/- P:3 P:1 M:3:- D:0:-:0/-/1/- P:3 P:2 P:1 M:3:- A:3:0,1,2 T:3:0"},
	{"diamond/initform-through-join", 1,
		"D:0:-:0/0/1/-;1/-/2/- D:1:0:- D:2:0:0/-/21/- D:3:1,2:- D:4:2,1:- D:5:1,2:1/-/52/- P:3 M:3:- M:4:- M:5:- M:3:0=1000"},
	{"diamond/initarg-through-join", 1,
		"D:0:-:0/0/1/- D:1:0:- D:2:0:0/1/-/- D:3:1,2:- P:3 M:3:- M:3:0=1000 M:3:1=1010 M:1:1=1010"},
	{"super-order/ancestor-first", 1,
		"D:0:-:0/-/1/- D:1:0:0/-/11/- D:2:0,1:- P:2 M:2:- A:2:0,1 D:3:1,0:- P:3 M:3:- A:3:0,1"},
	{"super-order/duplicate-direct", 1,
		"D:0:-:0/-/1/- D:1:0,0:1/-/12/- P:1 M:1:- D:2:1,0,1:- P:2 M:2:- T:2:0 A:2:0,1,2"},
	{"shadow/initform-levels", 1,
		"D:0:-:0/0/1/- D:1:0:0/-/11/- D:2:1:0/1/-/- D:3:2:- P:3 M:0:- M:1:- M:2:- M:3:- M:2:0=1000 M:2:1=1010 M:3:0=1000 M:3:1=1010"},
	{"shadow/no-initform-below-unbound-above", 1,
		"D:0:-:0/0/-/- D:1:0:0/-/11/- D:2:1:0/-/-/- M:0:- M:1:- M:2:- M:2:0=1000"},
	{"initarg/shared-same-class", 1,
		"D:0:-:0/0/1/-;1/0/2/- M:0:- M:0:0=1000"},
	{"initarg/shared-across-classes", 1,
		"D:0:-:0/0/1/- D:1:0:1/0/12/- M:1:- M:1:0=1000 M:0:0=1000"},
	{"initarg/two-names-one-slot", 1,
		"D:0:-:0/0/1/- D:1:0:0/1/-/- M:1:0=1000 M:1:1=1010 M:1:- M:1:0=1000,1=1011"},
	{"initform/nil", 1,
		"D:0:-:0/0/-1/-;1/-/2/- M:0:- M:0:0=1000 T:0:0"},
	{"initform/nil-shadowed-without-initform", 1,
		"D:0:-:0/-/-1/-;1/1/-1/- D:1:0:0/0/-/-;1/-/-/- D:2:1:- P:2 M:1:- M:2:- M:1:0=1000 M:2:1=1010 M:0:- E:2:-"},
	{"default-initargs/basic", 1,
		"D:0:-:0/0/1/-;1/1/2/-;2/2/-/-;3/-/4/-:1=77,2=88 P:0 M:0:- M:0:1=1010 M:0:0=1000,2=1020 M:0:0=1000,1=1011,2=1022"},
	{"default-initargs/shared-key-and-second-name", 1,
		"D:0:-:0/0,1/1/-;1/1/2/-;2/2/3/-:1=77 M:0:- M:0:0=1000 M:0:1=1010 M:0:2=1020"},
	{"default-initargs/inherited-slots-own-defaults", 1,
		"D:0:-:0/0/1/-;1/1/-/- D:1:0:2/2/23/-:0=710,1=-1,3=713 P:1 M:1:- M:1:0=1000 M:1:1=1010,2=1020 M:0:-"},
	{"default-initargs/forward-and-redefined", 6,
		"D:1:0:2/2/23/-:0=710 M:1:- D:0:-:0/0/1/- M:1:- M:1:0=1000 D:1:0:2/2/123/-:0=810,2=812 M:1:- D:1:0:2/2/223/- M:1:- M:1:2=1020"},
	{"accessor/frame", 1,
		"D:0:-:0/0/1/rwa;1/1/2/rwa;2/-/-/rwa M:0:- R:0:r:0 R:1:a:0 R:2:r:0 W:0:5000:w:0 W:1:5001:a:0 W:2:5002:s:0 R:0:a:0 R:1:r:0 R:2:a:0 U:1 R:1:r:0 W:1:5003:w:0"},
	{"accessor/inherited-and-inapplicable", 1,
		"D:0:-:0/0/1/rwa D:1:0:1/1/12/rwa D:2:-:0/0/21/rwa M:1:- R:0:r:0 W:0:5000:w:0 W:0:5001:a:0 R:1:r:1 R:0:r:2 W:0:5002:w:2 M:0:- R:1:r:1 W:1:5003:a:1 R:0:a:0"},
	{"redefine/depth1-slots", 6,
		"D:0:-:0/0/1/- D:1:0:1/-/12/- P:1 M:1:- D:0:-:0/0/101/-;2/-/103/- P:1 M:1:- M:1:0=1000 M:0:-"},
	{"redefine/depth2-slots", 12,
		"D:0:-:0/0/1/- D:1:0:- D:2:1:- P:2 M:2:- D:0:-:0/0/101/-;2/-/103/- P:2 P:1 M:2:- M:1:- M:2:0=1000"},
	{"redefine/depth3-slots", 12,
		"D:0:-:0/0/1/- D:1:0:- D:2:1:- D:3:2:- M:3:- D:0:-:0/0/101/-;2/-/103/- P:3 M:3:- M:2:- M:1:-"},
	{"redefine/depth2-supers", 12,
		"D:0:-:0/0/1/- D:1:0:- D:2:1:- D:3:-:3/-/34/- P:2 M:2:- D:0:3:0/0/101/- P:0 P:1 P:2 M:2:- T:2:3 A:2:3,0 M:1:-"},
	{"redefine/diamond", 12,
		"D:0:-:0/0/1/- D:1:0:1/-/12/- D:2:0:2/-/23/- D:3:1,2:- M:3:- D:0:-:3/-/104/- P:3 M:3:- M:1:- M:2:-"},
	{"redefine/drop-super", 12,
		"D:0:-:0/-/1/- D:1:0:1/-/12/- D:2:1:- D:3:2:- P:3 M:3:- D:1:-:1/-/112/- P:1 P:2 P:3 M:3:- M:2:- T:3:0 T:2:0 A:3:0,1"},
	{"redefine/middle-of-chain", 12,
		"D:0:-:0/-/1/- D:1:0:1/-/12/- D:2:1:- D:3:2:- M:3:- D:1:0:1/-/112/-;2/-/113/- P:3 M:3:- M:2:- M:1:-"},
	{"redefine/forward-super-later", 12,
		"D:0:-:0/-/1/- D:1:0:- D:2:1:- M:2:- D:0:3:0/-/101/- P:0 P:1 P:2 M:2:- M:1:- D:3:-:3/-/34/- P:0 P:1 P:2 M:0:- M:1:- M:2:- T:2:3"},
	{"redefine/before-subclass-defined", 4,
		"D:1:0:1/-/12/- D:0:-:0/-/1/- M:1:- D:0:-:0/-/101/- M:1:- D:2:1:- P:2 M:2:-"},
	{"existing/instance-of-redefined-class", 12,
		"D:0:-:0/0/1/- D:2:-:2/-/23/- D:1:0:1/-/12/- M:1:- K:0 C t:0 t:2 a:0,1,2 D:1:2:1/-/112/-;3/-/114/- X:0 C t:0 t:1 t:2 a:0,1,2 W:1:7000:s:0 X:0 M:1:- C t:0 t:2 a:0,1,2 X:0 C"},
	{"existing/instance-of-subclass", 12,
		"D:0:-:0/0/1/- D:1:0:- D:2:1:- D:3:-:3/-/34/- M:2:- K:0 C t:3 a:0,3 D:0:3:0/0/101/- X:0 C t:3 t:0 a:0,3 M:2:- C t:3"},
	{"existing/class-becomes-not-ready", 12,
		"D:0:-:0/0/1/- D:1:0:- M:1:- K:0 C D:0:3:0/0/101/- X:0 C D:3:-:- X:0 C t:3 t:0 a:0,3"},
	{"existing/redefined-twice", 12,
		"D:0:-:0/-/1/- D:1:0:- M:1:- K:0 D:1:-:- M:1:- K:1 D:1:0:1/-/112/- X:0 C t:0 X:1 C t:0 M:1:- C t:0"},
	{"dispatch/cache-across-redefinition", 12,
		"D:3:-:- D:0:-:- D:1:0:- G:0:0,1,3 M:1:- H:0 D:0:3:- M:1:- H:0 t:3 A:1:0,1,3"},
	{"dispatch/cache-old-and-new-instance", 12,
		"D:3:-:- D:0:-:- G:0:0,3 M:0:- K:0 H:0 D:0:3:- M:0:- H:0 X:0 H:0 M:0:- H:0 X:0 H:0"},
	{"dispatch/cache-subclass-redefined-super-dropped", 12,
		"D:0:-:- D:1:0:- D:2:1:- G:0:0,1,2 M:2:- H:0 D:1:-:- M:2:- H:0 t:0"},
	{"initform-evaluation/shadowed-and-filled", 1,
		"D:0:-:0/0/2/-;1/-/5/-;2/2/8/- D:1:0:0/1/-/-;1/-/14/- E:1:- E:1:0=1000 E:1:1=1010 E:1:2=1020 E:0:- E:0:0=1000,2=1021 E:1:3=1030"},
	{"initform-evaluation/per-instance", 1,
		"D:0:-:0/-/12/-;1/1/-/- E:0:- E:0:- M:0:- E:0:- E:0:1=1010"},
	{"initform-evaluation/default-initarg-fills", 1,
		"D:0:-:0/0/5/-;1/1/8/-:0=77 E:0:- E:0:1=1010 E:0:0=1000"},
	{"initform-evaluation/diamond-and-redefinition", 12,
		"D:0:-:0/0/2/-;1/-/5/- D:1:0:- D:2:0:0/-/23/- D:3:1,2:- E:3:- D:4:2,1:1/-/47/- E:4:- D:2:0:1/-/126/- E:3:- E:4:- E:3:0=1000"},
	{"after-methods/order", 1,
		"J:i:0,1,2,3 J:s:0,2 D:0:-:0/0/1/- D:1:0:- D:2:0:- D:3:1,2:- N:3:- N:3:0=1000 N:1:- N:0:- N:3:1=1010"},
	{"after-methods/forward-reference", 1,
		"J:i:0,1 J:s:1 D:1:0:1/-/12/- N:1:- D:0:-:0/-/1/- N:1:- N:0:-"},
	{"after-methods/redefinition", 12,
		"J:i:0,1,3 J:s:3 D:3:-:- D:0:-:- D:1:0:- N:1:- D:0:3:- N:1:- N:0:- D:0:-:- N:1:-"},
	{"history/two-missing-supers-redefine-during-wait", 12,
		"D:0:-:0/-/2/- D:1:0:1/-/14/- D:4:1,2,3:- P:4 D:0:-:0/-/104/-;4/-/107/- P:4 D:2:0:2/-/23/- P:4 M:4:- D:1:-:1/-/113/- P:4 P:1 D:3:-:3/-/35/- P:4 M:4:- E:4:- T:4:0 T:4:3 A:4:0,1,2,3"},
	{"history/missing-super-dropped-by-redefinition", 12,
		"D:0:-:- D:2:0,5:2/-/23/- P:2 D:3:2:- P:3 M:3:- D:2:0:2/-/123/- P:2 P:3 M:3:- D:5:-:5/-/56/- P:2 P:3 M:3:- T:3:5"},
	{"history/grand-super-redefined-twice", 12,
		"D:0:-:0/-/2/- D:1:0:- D:2:1:- D:3:2:- M:3:- K:0 D:0:-:0/-/104/- M:3:- D:1:-:- P:3 M:3:- D:0:-:0/-/203/-;1/-/206/- P:3 M:3:- D:1:0:- P:3 M:3:- X:0 C t:0"},
	{"history/wait-for-two-redefine-both-supers-of-the-waiting-class", 12,
		"D:1:-:1/-/14/- D:2:-:2/-/23/- D:5:1,6,2,7:- P:5 D:1:-:1/-/113/- D:2:1:2/-/125/- P:5 D:6:-:- P:5 D:2:-:2/-/224/-;1/-/221/- P:5 D:7:2:- P:5 P:7 M:5:- E:5:- T:5:1 A:5:1,2,6,7"},
	{"redefine/leaf", 4,
		"D:0:-:0/-/1/- D:1:0:1/1/12/- M:1:- D:1:0:1/1/112/-;2/-/113/- P:1 M:1:- M:1:1=1010 M:0:-"},
}

func c12SweepPrograms() []*c12Prog {
	var out []*c12Prog
	for i, cell := range c12Cells {
		p := &c12Prog{key: fmt.Sprintf("w%d", i), toks: strings.Fields(cell.toks), reps: cell.reps, sweep: true,
			shape: "cell=" + cell.name, redefAt: -1}
		p.final = len(p.toks)
		out = append(out, p)
	}
	// every DAG on three classes (supers in written order) in every definition order, with a fixed
	// slot layout: an own slot per class and one slot shadowed at every level
	sup1 := [][]int{nil, {0}}
	sup2 := [][]int{nil, {0}, {1}, {0, 1}, {1, 0}}
	fr := lib.NewRng(12)
	for a, s1 := range sup1 {
		for b, s2 := range sup2 {
			cf := &c12Config{n: 3, defs: []c12Class{
				{supers: nil, slots: []c12Slot{{name: 0, initargs: []int{0}, hasForm: true, form: 1, flags: "r"}, {name: 3, initargs: []int{2}, hasForm: true, form: 4}}},
				{supers: s1, slots: []c12Slot{{name: 1, initargs: []int{1}, hasForm: true, form: 12, flags: "a"}, {name: 3, hasForm: true, form: 14}}},
				{supers: s2, slots: []c12Slot{{name: 2, hasForm: true, form: 23, flags: "w"}, {name: 3}}},
			}}
			final := c12FinalBlock(fr, cf)
			for pi, order := range c12Perms(3) {
				p := c12Build(fr, cf, order, -1, final, 1)
				p.key = fmt.Sprintf("g%d%d%d", a, b, pi)
				p.family = fmt.Sprintf("dag3-%d%d", a, b)
				p.sweep = true
				p.shape = fmt.Sprintf("cell=dag3/%s|%s order=%s", c12Ints(s1, ","), c12Ints(s2, ","), c12Ints(order, ""))
				out = append(out, p)
			}
		}
	}
	return out
}

// ---------------------------------------------------------------------------------------------
// running a program on the implementation

type c12Exec struct {
	scope     *slip.Scope
	sfx       string
	cur       slip.Object
	curReg    int                 // register holding the current instance (-1: none)
	regs      map[int]slip.Object // kept instances
	regClass  map[int]slip.Object // their class objects when they were kept
	gcount    int
	trDefined bool
	evDefined bool // the log of evaluated initforms / the traces of :after methods are defined
	obsForm   string
	trace     []string // transcript (replay mode)
	keepText  bool
}

const c12SlotPool = 6

func newC12Exec(sfx string, keep bool) *c12Exec {
	e := &c12Exec{scope: slip.NewScope(), sfx: sfx, keepText: keep, curReg: -1, regs: map[int]slip.Object{}, regClass: map[int]slip.Object{}}
	var b strings.Builder
	b.WriteString("(list")
	for x := 0; x < c12SlotPool; x++ {
		fmt.Fprintf(&b, " (if (slot-exists-p cur 's%d) (if (slot-boundp cur 's%d) (list (slot-value cur 's%d)) 'u) 'm)", x, x, x)
	}
	b.WriteString(")")
	e.obsForm = b.String()
	return e
}

func (e *c12Exec) cname(k int) string { return fmt.Sprintf("c%dx%s", k, e.sfx) }

func (e *c12Exec) classNum(name string) (int, bool) {
	name = strings.ToLower(name)
	if !strings.HasPrefix(name, "c") || !strings.HasSuffix(name, "x"+e.sfx) {
		return 0, false
	}
	k, err := strconv.Atoi(name[1 : len(name)-len(e.sfx)-1])
	return k, err == nil
}

func (e *c12Exec) eval(src string) lib.Outcome {
	o := lib.EvalString(e.scope, src)
	if e.keepText {
		e.trace = append(e.trace, src+"  =>  "+o.String())
	}
	return o
}

func c12FormText(v int) string {
	switch {
	case v == -1:
		return "nil"
	case v >= 10 && v%3 == 0:
		return fmt.Sprintf("(+ %d 1)", v-1)
	case v%3 == 2:
		return fmt.Sprintf("(progn %d)", v)
	}
	return strconv.Itoa(v)
}

// c12Logged: the initform with value v is rendered as a form that records its own evaluation
func c12Logged(v int) bool { return v != -1 && ((v >= 10 && v%3 == 0) || v%3 == 2) }

func (e *c12Exec) evVar() string { return "*c12ev" + e.sfx + "*" }
func (e *c12Exec) aiVar() string { return "*c12ai" + e.sfx + "*" }
func (e *c12Exec) asVar() string { return "*c12as" + e.sfx + "*" }
func (e *c12Exec) defVars() {
	if !e.evDefined {
		e.evDefined = true
		e.eval(fmt.Sprintf("(defvar %s nil)", e.evVar()))
		e.eval(fmt.Sprintf("(defvar %s nil)", e.aiVar()))
		e.eval(fmt.Sprintf("(defvar %s nil)", e.asVar()))
	}
}

// slotForm: the text of the initform of slot x written in class c with value v. The non-literal
// shapes push a tag naming the form (class, slot, value) on the run's log each time they are
// evaluated, so that WHICH forms make-instance evaluates is observable (token E).
func (e *c12Exec) slotForm(c int, x string, v int) string {
	if !c12Logged(v) {
		return c12FormText(v)
	}
	return fmt.Sprintf("(progn (setq %s (cons 't%d-%s-%d %s)) %s)", e.evVar(), c, x, v, e.evVar(), c12FormText(v))
}

// obsFormFor: the slot observation form on variable v
func (e *c12Exec) obsFormFor(v string) string {
	return strings.ReplaceAll(e.obsForm, " cur ", " "+v+" ")
}

func c12ValueWord(v slip.Object) string {
	switch tv := v.(type) {
	case nil:
		return "-1"
	case slip.Fixnum:
		return strconv.FormatInt(int64(tv), 10)
	}
	if v == slip.Unbound {
		return "u"
	}
	return "?" + strings.ToLower(string(v.Hierarchy()[0]))
}

func (e *c12Exec) observe() string {
	e.scope.Let(slip.Symbol("cur"), e.cur)
	o := e.eval(e.obsForm)
	if !o.Ok {
		return "!error:" + o.Class
	}
	word := c12ObsWord(o.Value)
	if e.keepText {
		e.trace = append(e.trace, "  ; slots of that instance (slot-exists-p / slot-boundp / slot-value on s0..s5, sN=u: unbound): "+word)
	}
	return word
}

// c12ObsWord renders the value of the observation form
func c12ObsWord(v slip.Object) string {
	list, _ := v.(slip.List)
	var parts []string
	for x, item := range list {
		switch ti := item.(type) {
		case slip.Symbol:
			if strings.EqualFold(string(ti), "u") {
				parts = append(parts, fmt.Sprintf("%d=u", x))
			}
		case slip.List:
			if len(ti) == 1 {
				parts = append(parts, fmt.Sprintf("%d=%s", x, c12ValueWord(ti[0])))
			} else {
				parts = append(parts, fmt.Sprintf("%d=?list", x))
			}
		default:
			parts = append(parts, fmt.Sprintf("%d=?", x))
		}
	}
	word := "-"
	if len(parts) > 0 {
		word = strings.Join(parts, ",")
	}
	return word
}

// c12SortTriples: "k/x/v" items sorted by class then slot, joined by "."; "-" when empty
func c12SortTriples(items []string) string {
	if len(items) == 0 {
		return "-"
	}
	key := func(s string) (int, int) {
		p := strings.Split(s, "/")
		a, _ := strconv.Atoi(p[0])
		b := 0
		if len(p) > 1 {
			b, _ = strconv.Atoi(p[1])
		}
		return a, b
	}
	sort.SliceStable(items, func(i, j int) bool {
		a1, b1 := key(items[i])
		a2, b2 := key(items[j])
		if a1 != a2 {
			return a1 < a2
		}
		if b1 != b2 {
			return b1 < b2
		}
		return items[i] < items[j]
	})
	return strings.Join(items, ".")
}

// c12LoggedOnly: the model reports every evaluated initform; the implementation can only report
// those rendered as logging forms
func c12LoggedOnly(model string) string {
	if model == "-" || strings.HasPrefix(model, "!") {
		return model
	}
	var keep []string
	for _, it := range strings.Split(model, ".") {
		p := strings.Split(it, "/")
		if len(p) == 3 {
			if v, err := strconv.Atoi(p[2]); err == nil && c12Logged(v) {
				keep = append(keep, it)
			}
		}
	}
	return c12SortTriples(keep)
}

func c12ErrWord(o lib.Outcome) string {
	if o.Class == "no-applicable-method-error" {
		return "!noapplicable"
	}
	return "!error:" + o.Class
}

func (e *c12Exec) fresh(c int) (slip.Object, bool) {
	o := e.eval(fmt.Sprintf("(make-instance '%s)", e.cname(c)))
	if !o.Ok {
		return nil, false
	}
	return o.Value, true
}

// defMethods defines a :before and a primary method on g for every listed class
func (e *c12Exec) defMethods(g string, ks []string) string {
	tr := "*c12tr" + e.sfx + "*"
	if !e.trDefined {
		e.trDefined = true
		e.eval(fmt.Sprintf("(defvar %s nil)", tr))
	}
	for _, ks := range ks {
		k, _ := strconv.Atoi(ks)
		cn := e.cname(k)
		if o := e.eval(fmt.Sprintf("(defmethod %s :before ((o %s)) (setq %s (cons '%s %s)))", g, cn, tr, cn, tr)); !o.Ok {
			return "!error:" + o.Class
		}
		if o := e.eval(fmt.Sprintf("(defmethod %s ((o %s)) '%s)", g, cn, cn)); !o.Ok {
			return "!error:" + o.Class
		}
	}
	return ""
}

// callGeneric calls g on inst: the classes whose :before methods ran, most specific first; the
// primary method that ran must be the first of them
func (e *c12Exec) callGeneric(g string, inst slip.Object) string {
	tr := "*c12tr" + e.sfx + "*"
	e.scope.Let(slip.Symbol("tmp"), inst)
	o := e.eval(fmt.Sprintf("(progn (setq %s nil) (list (%s tmp) (reverse %s)))", tr, g, tr))
	if !o.Ok {
		if o.Class == "no-applicable-method-error" {
			return "-"
		}
		return "!error:" + o.Class
	}
	res, _ := o.Value.(slip.List)
	if len(res) != 2 {
		return "!shape"
	}
	trl, _ := res[1].(slip.List)
	var parts []string
	for _, x := range trl {
		if k, ok := e.classNum(slip.ObjectString(x)); ok {
			parts = append(parts, strconv.Itoa(k))
		} else {
			parts = append(parts, "?")
		}
	}
	if len(parts) == 0 {
		return "!no-before-ran"
	}
	if k, ok := e.classNum(slip.ObjectString(res[0])); !ok || strconv.Itoa(k) != parts[0] {
		return "!primary:" + slip.ObjectString(res[0]) + "/" + strings.Join(parts, ".")
	}
	return strings.Join(parts, ".")
}

// precWord renders the result of class-precedence (constant tail standard-object t stripped)
func (e *c12Exec) precWord(o lib.Outcome) string {
	if !o.Ok {
		return "!notready"
	}
	l, _ := o.Value.(slip.List)
	if len(l) == 0 {
		return "!notready"
	}
	var names []string
	for _, x := range l {
		names = append(names, strings.ToLower(slip.ObjectString(x)))
	}
	if len(names) < 3 || names[len(names)-1] != "t" || names[len(names)-2] != "standard-object" {
		return "!tail:" + strings.Join(names, ".")
	}
	var parts []string
	for _, nm := range names[:len(names)-2] {
		if k, ok := e.classNum(nm); ok {
			parts = append(parts, strconv.Itoa(k))
		} else {
			parts = append(parts, "?"+nm)
		}
	}
	return strings.Join(parts, ".")
}

// step executes one token and returns the reply word.
func (e *c12Exec) step(tok string) string {
	f := strings.Split(tok, ":")
	num := func(i int) int {
		if i >= len(f) {
			return 0
		}
		n, _ := strconv.Atoi(f[i])
		return n
	}
	list := func(s, sep string) []string {
		if s == "-" || s == "" {
			return nil
		}
		return strings.Split(s, sep)
	}
	switch f[0] {
	case "D":
		if len(f) != 4 && len(f) != 5 {
			return "!token"
		}
		c := num(1)
		e.defVars()
		var b strings.Builder
		fmt.Fprintf(&b, "(defclass %s (", e.cname(c))
		for i, s := range list(f[2], ",") {
			if i > 0 {
				b.WriteByte(' ')
			}
			k, _ := strconv.Atoi(s)
			b.WriteString(e.cname(k))
		}
		b.WriteString(") (")
		for i, sl := range list(f[3], ";") {
			sf := strings.Split(sl, "/")
			if len(sf) != 4 {
				return "!token"
			}
			if i > 0 {
				b.WriteByte(' ')
			}
			fmt.Fprintf(&b, "(s%s", sf[0])
			for _, a := range list(sf[1], ",") {
				fmt.Fprintf(&b, " :initarg :k%s", a)
			}
			if sf[2] != "-" {
				v, _ := strconv.Atoi(sf[2])
				fmt.Fprintf(&b, " :initform %s", e.slotForm(c, sf[0], v))
			}
			for _, fl := range sf[3] {
				switch fl {
				case 'r':
					fmt.Fprintf(&b, " :reader rd%sc%dx%s", sf[0], c, e.sfx)
				case 'w':
					fmt.Fprintf(&b, " :writer wr%sc%dx%s", sf[0], c, e.sfx)
				case 'a':
					fmt.Fprintf(&b, " :accessor ac%sc%dx%s", sf[0], c, e.sfx)
				}
			}
			b.WriteByte(')')
		}
		b.WriteString(")")
		if len(f) == 5 {
			b.WriteString(" (:default-initargs")
			for _, kv := range list(f[4], ",") {
				k, v, _ := strings.Cut(kv, "=")
				n, _ := strconv.Atoi(v)
				fmt.Fprintf(&b, " :k%s %s", k, c12FormText(n))
			}
			b.WriteString(")")
		}
		b.WriteString(")")
		if o := e.eval(b.String()); !o.Ok {
			return "!error:" + o.Class
		}
		return "d"
	case "P":
		return e.precWord(e.eval(fmt.Sprintf("(class-precedence '%s)", e.cname(num(1)))))
	case "M":
		c := num(1)
		var b strings.Builder
		fmt.Fprintf(&b, "(make-instance '%s", e.cname(c))
		for _, kv := range list(f[2], ",") {
			k, v, _ := strings.Cut(kv, "=")
			fmt.Fprintf(&b, " :k%s %s", k, v)
		}
		b.WriteString(")")
		e.cur = nil
		e.curReg = -1
		o := e.eval(b.String())
		if !o.Ok {
			return "!error"
		}
		e.cur = o.Value
		e.scope.Let(slip.Symbol("cur"), e.cur)
		co := e.eval("(class-name (class-of cur))")
		if !co.Ok || !strings.EqualFold(co.Text, e.cname(c)) {
			return "!classof:" + co.String()
		}
		return e.observe()
	case "E":
		// make-instance reporting which (logging) initforms it evaluated
		e.defVars()
		var b strings.Builder
		fmt.Fprintf(&b, "(progn (setq %s nil) (make-instance '%s", e.evVar(), e.cname(num(1)))
		for _, kv := range list(f[2], ",") {
			k, v, _ := strings.Cut(kv, "=")
			fmt.Fprintf(&b, " :k%s %s", k, v)
		}
		fmt.Fprintf(&b, ") %s)", e.evVar())
		o := e.eval(b.String())
		if !o.Ok {
			return "!error"
		}
		l, _ := o.Value.(slip.List)
		var tags []string
		for _, x := range l {
			t := strings.ToLower(slip.ObjectString(x))
			p := strings.Split(strings.TrimPrefix(t, "t"), "-")
			if len(p) != 3 || !strings.HasPrefix(t, "t") {
				return "!tag:" + t
			}
			tags = append(tags, strings.Join(p, "/"))
		}
		return c12SortTriples(tags)
	case "J":
		e.defVars()
		for _, ks := range list(f[2], ",") {
			k, _ := strconv.Atoi(ks)
			cn := e.cname(k)
			var src string
			if f[1] == "i" {
				src = fmt.Sprintf("(defmethod initialize-instance :after ((o %s) &rest args) (setq %s (cons (list '%s %s) %s)))",
					cn, e.aiVar(), cn, e.obsFormFor("o"), e.aiVar())
			} else {
				src = fmt.Sprintf("(defmethod shared-initialize :after ((o %s) names &rest args) (setq %s (cons '%s %s)))",
					cn, e.asVar(), cn, e.asVar())
			}
			if o := e.eval(src); !o.Ok {
				return "!error:" + o.Class
			}
		}
		return "j"
	case "N":
		// make-instance reporting the :after methods of initialize-instance / shared-initialize that ran
		e.defVars()
		c := num(1)
		var b strings.Builder
		fmt.Fprintf(&b, "(progn (setq %s nil) (setq %s nil) (make-instance '%s", e.aiVar(), e.asVar(), e.cname(c))
		for _, kv := range list(f[2], ",") {
			k, v, _ := strings.Cut(kv, "=")
			fmt.Fprintf(&b, " :k%s %s", k, v)
		}
		b.WriteString("))")
		e.cur = nil
		e.curReg = -1
		o := e.eval(b.String())
		if !o.Ok {
			return "!error"
		}
		e.cur = o.Value
		final := e.observe()
		ai := e.eval(fmt.Sprintf("(reverse %s)", e.aiVar()))
		as := e.eval(fmt.Sprintf("(reverse %s)", e.asVar()))
		if !ai.Ok || !as.Ok {
			return "!error:trace"
		}
		var iw, sw []string
		ail, _ := ai.Value.(slip.List)
		for _, x := range ail {
			pair, _ := x.(slip.List)
			if len(pair) != 2 {
				return "!shape"
			}
			k, ok := e.classNum(slip.ObjectString(pair[0]))
			if !ok {
				return "!class:" + slip.ObjectString(pair[0])
			}
			// an :after method of initialize-instance sees the initialised slots
			if saw := c12ObsWord(pair[1]); saw != final {
				return fmt.Sprintf("!after-method-of-%d-saw:%s", k, saw)
			}
			iw = append(iw, strconv.Itoa(k))
		}
		asl, _ := as.Value.(slip.List)
		for _, x := range asl {
			k, ok := e.classNum(slip.ObjectString(x))
			if !ok {
				return "!class:" + slip.ObjectString(x)
			}
			sw = append(sw, strconv.Itoa(k))
		}
		word := func(ws []string) string {
			if len(ws) == 0 {
				return "-"
			}
			return strings.Join(ws, ".")
		}
		return word(iw) + "/" + word(sw)
	case "W":
		if e.cur == nil {
			return "!noinst"
		}
		e.scope.Let(slip.Symbol("cur"), e.cur)
		var src string
		switch f[3] {
		case "s":
			src = fmt.Sprintf("(setf (slot-value cur 's%s) %s)", f[1], f[2])
		case "w":
			src = fmt.Sprintf("(wr%sc%sx%s cur %s)", f[1], f[4], e.sfx, f[2])
		default:
			src = fmt.Sprintf("(setf (ac%sc%sx%s cur) %s)", f[1], f[4], e.sfx, f[2])
		}
		if o := e.eval(src); !o.Ok {
			return c12ErrWord(o)
		}
		return e.observe()
	case "U":
		if e.cur == nil {
			return "!noinst"
		}
		e.scope.Let(slip.Symbol("cur"), e.cur)
		if o := e.eval(fmt.Sprintf("(slot-makunbound cur 's%s)", f[1])); !o.Ok {
			return c12ErrWord(o)
		}
		return e.observe()
	case "R":
		if e.cur == nil {
			return "!noinst"
		}
		e.scope.Let(slip.Symbol("cur"), e.cur)
		fn := "rd"
		if f[2] == "a" {
			fn = "ac"
		}
		o := e.eval(fmt.Sprintf("(%s%sc%sx%s cur)", fn, f[1], f[3], e.sfx))
		if !o.Ok {
			if o.Class == "unbound-slot" {
				return "u"
			}
			return c12ErrWord(o)
		}
		return c12ValueWord(o.Value)
	case "T":
		inst, ok := e.fresh(num(1))
		if !ok {
			return "!notready"
		}
		e.scope.Let(slip.Symbol("tmp"), inst)
		o := e.eval(fmt.Sprintf("(typep tmp '%s)", e.cname(num(2))))
		if !o.Ok {
			return "!error:" + o.Class
		}
		if o.Value == nil {
			return "nil"
		}
		return "t"
	case "A":
		inst, ok := e.fresh(num(1))
		if !ok {
			return "!notready"
		}
		e.gcount++
		g := fmt.Sprintf("g%dx%s", e.gcount, e.sfx)
		if w := e.defMethods(g, list(f[2], ",")); w != "" {
			return w
		}
		return e.callGeneric(g, inst)
	case "a":
		if e.cur == nil {
			return "!noinst"
		}
		e.gcount++
		g := fmt.Sprintf("g%dx%s", e.gcount, e.sfx)
		if w := e.defMethods(g, list(f[1], ",")); w != "" {
			return w
		}
		return e.callGeneric(g, e.cur)
	case "G":
		if w := e.defMethods(fmt.Sprintf("pg%dx%s", num(1), e.sfx), list(f[2], ",")); w != "" {
			return w
		}
		return "g"
	case "H":
		if e.cur == nil {
			return "!noinst"
		}
		return e.callGeneric(fmt.Sprintf("pg%dx%s", num(1), e.sfx), e.cur)
	case "K":
		if e.cur == nil {
			return "!noinst"
		}
		e.regs[num(1)] = e.cur
		e.scope.Let(slip.Symbol("cur"), e.cur)
		if o := e.eval("(class-of cur)"); o.Ok {
			e.regClass[num(1)] = o.Value
		}
		e.curReg = num(1)
		return "k"
	case "X":
		inst, ok := e.regs[num(1)]
		if !ok {
			e.cur = nil
			e.curReg = -1
			return "!noinst"
		}
		e.cur = inst
		e.curReg = num(1)
		return e.observe()
	case "C":
		if e.cur == nil {
			return "!noinst"
		}
		e.scope.Let(slip.Symbol("cur"), e.cur)
		no := e.eval("(class-name (class-of cur))")
		if !no.Ok {
			return "!error:" + no.Class
		}
		k, ok := e.classNum(no.Text)
		if !ok {
			return "!classname:" + no.Text
		}
		// the class object of an instance never changes
		if saved, has := e.regClass[e.curReg]; has && e.curReg >= 0 {
			e.scope.Let(slip.Symbol("kcls"), saved)
			if o := e.eval("(eq (class-of cur) kcls)"); !o.Ok || o.Value == nil {
				return fmt.Sprintf("%d/!class-of-changed", k)
			}
		}
		status := "old"
		if o := e.eval(fmt.Sprintf("(eq (class-of cur) (find-class '%s))", e.cname(k))); o.Ok && o.Value != nil {
			status = "cur"
		}
		po := e.eval("(class-precedence (class-of cur))")
		return fmt.Sprintf("%d/%s/%s", k, status, e.precWord(po))
	case "t":
		if e.cur == nil {
			return "!noinst"
		}
		e.scope.Let(slip.Symbol("cur"), e.cur)
		o := e.eval(fmt.Sprintf("(typep cur '%s)", e.cname(num(1))))
		if !o.Ok {
			return "!error:" + o.Class
		}
		if o.Value == nil {
			return "nil"
		}
		return "t"
	}
	return "!token"
}

func c12RunImpl(sfx string, toks []string, keep bool) ([]string, []string) {
	e := newC12Exec(sfx, keep)
	words := make([]string, len(toks))
	for i, t := range toks {
		o := lib.Protect(func() slip.Object {
			words[i] = e.step(t)
			return nil
		})
		if !o.Ok {
			words[i] = "!panic:" + o.Class
		}
	}
	return words, e.trace
}

// worker mode: programs on stdin ("key reps tok…"), one reply line per run ("key rep word…")
func c12Worker() {
	sc := bufio.NewScanner(os.Stdin)
	sc.Buffer(make([]byte, 1<<20), 1<<26)
	w := bufio.NewWriter(os.Stdout)
	defer w.Flush()
	for sc.Scan() {
		f := strings.Fields(sc.Text())
		if len(f) < 3 {
			continue
		}
		reps, _ := strconv.Atoi(f[1])
		for rep := 0; rep < reps; rep++ {
			words, _ := c12RunImpl(fmt.Sprintf("%sr%d", f[0], rep), f[2:], false)
			fmt.Fprintf(w, "%s %d %s\n", f[0], rep, strings.Join(words, " "))
			w.Flush()
		}
	}
}

// c12RunWorker runs the programs in one fresh worker process. The worker writes one line per
// finished run; it is killed when it produces NO line for `idle` (a run takes milliseconds, `idle`
// is minutes: progress, not total time, is what is watched, so machine load cannot trigger it).
// Returns the complete reply lines received and whether the worker stalled.
func c12RunWorker(c *lib.Ctx, part []*c12Prog, idle time.Duration) (lines []string, stalled bool, err error) {
	var in strings.Builder
	for _, p := range part {
		fmt.Fprintf(&in, "%s %d %s\n", p.key, p.reps, strings.Join(p.toks, " "))
	}
	cmd := exec.Command(os.Args[0], "C12", "--root", c.Root, "--repo", c.Repo)
	cmd.Env = append(os.Environ(), "VERIF_C12_WORKER=1")
	cmd.Stdin = strings.NewReader(in.String())
	cmd.Stderr = os.Stderr
	pipe, err := cmd.StdoutPipe()
	if err != nil {
		return nil, false, err
	}
	if err = cmd.Start(); err != nil {
		return nil, false, err
	}
	got := make(chan string, 1024)
	go func() {
		sc := bufio.NewScanner(pipe)
		sc.Buffer(make([]byte, 1<<20), 1<<26)
		for sc.Scan() {
			got <- sc.Text()
		}
		close(got)
	}()
	timer := time.NewTimer(idle)
	defer timer.Stop()
	for {
		select {
		case line, ok := <-got:
			if !ok {
				return lines, false, cmd.Wait()
			}
			lines = append(lines, line)
			if !timer.Stop() {
				select {
				case <-timer.C:
				default:
				}
			}
			timer.Reset(idle)
		case <-timer.C:
			_ = cmd.Process.Kill()
			for range got {
			}
			_ = cmd.Wait()
			return lines, true, nil
		}
	}
}

// c12RunAll distributes the programs over worker processes (fresh process per chunk: classes are
// global and never go away, so a process is retired after a few hundred runs);
// result[key][rep] = words.
//
// Hangs (slip can dead-lock: a mutex left locked by a panic) must not stop the check, and the
// verdict must not depend on the load of the machine: a worker is watched for PROGRESS (one line
// per finished run); when it produces nothing for c12Idle, the first unanswered program is run
// again ALONE in a fresh process under the same watch. Only a program that stalls then too is
// recorded as hung (every word "!hang"); otherwise its results are used. The rest of the chunk is
// queued again.
// c12Idle: no finished run for this long = stalled (a run normally takes 5-50 ms; at load average 400
// on 16 cores a history program was seen to take several seconds).
// VERIF_C12_IDLE_S overrides it (only meant for exercising the hang path quickly).
var c12Idle = func() time.Duration {
	if v, err := strconv.Atoi(os.Getenv("VERIF_C12_IDLE_S")); err == nil && v > 0 {
		return time.Duration(v) * time.Second
	}
	return 5 * time.Minute
}()

func c12RunAll(c *lib.Ctx, progs []*c12Prog) map[string][][]string {
	// worker processes: the machine's scheduler shares the cores per thread, so on a heavily shared
	// machine the wall time is inversely proportional to this number; verdicts do not depend on it
	nw := runtime.NumCPU()
	if nw > 16 {
		nw = 16
	}
	if nw < 1 {
		nw = 1
	}
	const maxRuns = 400
	var queue [][]*c12Prog
	var cur []*c12Prog
	runs := 0
	for _, p := range progs {
		if runs+p.reps > maxRuns && len(cur) > 0 {
			queue = append(queue, cur)
			cur, runs = nil, 0
		}
		cur = append(cur, p)
		runs += p.reps
	}
	if len(cur) > 0 {
		queue = append(queue, cur)
	}
	res := map[string][][]string{}
	var mu sync.Mutex
	var wg sync.WaitGroup
	failed := false
	busy := 0
	hangsConfirmed, slowChunks := 0, 0
	store := func(lines []string) {
		for _, line := range lines {
			f := strings.Fields(line)
			if len(f) < 2 {
				continue
			}
			rep, _ := strconv.Atoi(f[1])
			for len(res[f[0]]) <= rep {
				res[f[0]] = append(res[f[0]], nil)
			}
			res[f[0]][rep] = f[2:]
		}
	}
	complete := func(p *c12Prog) bool {
		if len(res[p.key]) < p.reps {
			return false
		}
		for _, w := range res[p.key] {
			if w == nil {
				return false
			}
		}
		return true
	}
	for w := 0; w < nw; w++ {
		wg.Add(1)
		go func() {
			defer wg.Done()
			for {
				mu.Lock()
				if failed || (len(queue) == 0 && busy == 0) {
					mu.Unlock()
					return
				}
				if len(queue) == 0 {
					mu.Unlock()
					time.Sleep(50 * time.Millisecond)
					continue
				}
				part := queue[0]
				queue = queue[1:]
				busy++
				mu.Unlock()
				lines, timedOut, err := c12RunWorker(c, part, c12Idle)
				mu.Lock()
				if err != nil {
					fmt.Fprintf(os.Stderr, "C12 worker failed: %v\n", err)
					failed = true
					busy--
					mu.Unlock()
					return
				}
				store(lines)
				var suspect *c12Prog
				if timedOut {
					slowChunks++
					for i, p := range part {
						if complete(p) {
							continue
						}
						suspect = p
						delete(res, p.key)
						if i+1 < len(part) {
							queue = append(queue, part[i+1:])
						}
						break
					}
				}
				mu.Unlock()
				if suspect != nil {
					// confirmation: the program alone, fresh process, twice the patience
					lines, timedOut, err := c12RunWorker(c, []*c12Prog{suspect}, 2*c12Idle)
					mu.Lock()
					if err != nil {
						fmt.Fprintf(os.Stderr, "C12 worker failed: %v\n", err)
						failed = true
					} else {
						store(lines)
						if timedOut || !complete(suspect) {
							hangsConfirmed++
							hang := make([]string, len(suspect.toks))
							for j := range hang {
								hang[j] = "!hang"
							}
							for len(res[suspect.key]) < suspect.reps {
								res[suspect.key] = append(res[suspect.key], nil)
							}
							for rep := range res[suspect.key] {
								if res[suspect.key][rep] == nil {
									res[suspect.key][rep] = hang
								}
							}
						}
					}
					mu.Unlock()
				}
				mu.Lock()
				busy--
				mu.Unlock()
			}
		}()
	}
	wg.Wait()
	if failed {
		os.Exit(2)
	}
	c.Ev.Coverage["worker_chunks_over_deadline"] = slowChunks
	c.Ev.Coverage["hangs_confirmed_alone"] = hangsConfirmed
	return res
}

// ---------------------------------------------------------------------------------------------
// comparison

// c12Agree decides whether the implementation's word is what the model's word allows.
func c12Agree(tok, model, impl string) bool {
	if model == impl {
		return true
	}
	switch tok[0] {
	case 'E':
		if model == "!notready" || model == "!badarg" {
			return impl == "!error"
		}
		return c12LoggedOnly(model) == impl
	case 'N':
		if model == "!notready" || model == "!badarg" {
			return impl == "!error"
		}
	case 'M':
		if model == "!notready" || model == "!badarg" {
			return impl == "!error"
		}
		if strings.HasPrefix(model, "~") {
			// a class above has default initargs (inherited in Common Lisp, not in slip): not constrained
			return true
		}
		if strings.HasPrefix(model, "?") {
			// two supplied initargs name one slot: an error or the leftmost value are both accepted
			return impl == "!error" || impl == model[1:]
		}
	case 'R':
		if model == "!noslot" {
			return true // reading a slot the instance does not have is not constrained
		}
	case 'W', 'U':
		if model == "!noslot" {
			return strings.HasPrefix(impl, "!error:")
		}
	case 't', 'a', 'H':
		if model == "!notready" {
			// an existing instance whose class currently has an undefined superclass: not constrained
			return true
		}
	}
	return false
}

func c12SlotMap(word string) map[string]string {
	m := map[string]string{}
	if word == "-" || strings.HasPrefix(word, "!") {
		return m
	}
	for _, kv := range strings.Split(strings.TrimPrefix(word, "?"), ",") {
		k, v, _ := strings.Cut(kv, "=")
		m[k] = v
	}
	return m
}

// c12Aspect: which part of the property statement the disagreement is about
func c12Aspect(p *c12Prog, i int, model, impl string, curClass int) string {
	tok := p.toks[i]
	f := strings.Split(tok, ":")
	cls := curClass
	aspect := "other"
	if impl == "!hang" {
		return "hang"
	}
	switch f[0] {
	case "D":
		aspect = "defclass"
	case "P":
		aspect = "precedence"
		cls, _ = strconv.Atoi(f[1])
	case "T":
		aspect = "typep"
		cls, _ = strconv.Atoi(f[1])
	case "A":
		aspect = "applicable"
		cls, _ = strconv.Atoi(f[1])
	case "R", "W", "U":
		aspect = "accessor"
	case "C":
		aspect = "class-of"
	case "t":
		aspect = "typep"
	case "a", "H":
		aspect = "applicable"
	case "E":
		aspect = "initform-evaluation"
		cls, _ = strconv.Atoi(f[1])
	case "N":
		aspect = "after-methods"
		cls, _ = strconv.Atoi(f[1])
	case "J":
		aspect = "defmethod"
	case "G":
		aspect = "defgeneric"
	case "K", "X":
		aspect = "instance"
	case "M":
		cls, _ = strconv.Atoi(f[1])
		aspect = "make-instance"
		if strings.HasPrefix(impl, "!") {
			aspect = "make-instance-error"
			// an instance whose model value involves a nil initform / an initarg …
			break
		}
		mm, im := c12SlotMap(model), c12SlotMap(impl)
		keys := []string{}
		for k := range mm {
			keys = append(keys, k)
		}
		for k := range im {
			if _, has := mm[k]; !has {
				keys = append(keys, k)
			}
		}
		sort.Strings(keys)
		for _, k := range keys {
			mv, mhas := mm[k]
			iv, ihas := im[k]
			if mhas && ihas && mv == iv {
				continue
			}
			switch {
			case !mhas || !ihas:
				aspect = "slots"
			case mv == "u":
				aspect = "unbound"
			default:
				n, _ := strconv.Atoi(mv)
				if n >= 1000 {
					aspect = "initarg"
				} else {
					aspect = "initform"
				}
			}
			break
		}
	}
	if p.redefAt >= 0 && i > p.redefAt && p.affected[cls] {
		aspect = "redefinition/" + aspect
	}
	if c12CurIsKept(p.toks, i) {
		aspect = "existing-instance/" + aspect
	}
	return aspect
}

// c12CurClass: the class of the current instance at token i (-1: none), following keep / recall
func c12CurClass(toks []string, i int) int {
	cur := -1
	regs := map[string]int{}
	for j := 0; j <= i && j < len(toks); j++ {
		f := strings.Split(toks[j], ":")
		switch f[0] {
		case "M", "N":
			cur, _ = strconv.Atoi(f[1])
		case "K":
			regs[f[1]] = cur
		case "X":
			if c, ok := regs[f[1]]; ok {
				cur = c
			} else {
				cur = -1
			}
		}
	}
	return cur
}

// c12CurIsKept: the current instance at token i was recalled from a register (it may predate a
// redefinition)
func c12CurIsKept(toks []string, i int) bool {
	kept := false
	for j := 0; j <= i && j < len(toks); j++ {
		switch toks[j][0] {
		case 'M', 'N':
			kept = false
		case 'X':
			kept = true
		}
	}
	return kept && strings.ContainsAny(toks[i][:1], "CtaHWRUX")
}

// c12Lisp renders the program up to token `upto` as the Lisp forms the harness evaluates, with
// their results in this process (for the replay file; a nondeterministic defect may not show here).
func c12Lisp(p *c12Prog, upto int) []string {
	toks := p.toks
	if upto+1 < len(toks) {
		toks = toks[:upto+1]
	}
	_, trace := c12RunImpl(p.key+"t", toks, true)
	return c12FilterTrace(trace)
}

func c12FilterTrace(trace []string) []string {
	var out []string
	for _, l := range trace {
		if !strings.HasPrefix(l, "(list (if (slot-exists-p") && !strings.Contains(l, "(class-name (class-of cur))") {
			out = append(out, l)
		}
	}
	return out
}

func c12Seen(c *lib.Ctx, sig string) bool {
	for _, v := range c.Violations {
		if v.Signature == sig {
			return true
		}
	}
	return false
}

func c12Compare(c *lib.Ctx, p *c12Prog, model []string, runs [][]string) (agree bool) {
	agree = true
	// after a make-instance with ambiguous initargs that the implementation rejected there is no
	// current instance on its side: the reader/writer tokens up to the next make-instance are skipped
	noInst := make([]bool, len(runs))
	for i, tok := range p.toks {
		for rep, words := range runs {
			if tok[0] == 'N' {
				noInst[rep] = false
			}
			if tok[0] == 'M' {
				noInst[rep] = strings.HasPrefix(model[i], "?") && words[i] == "!error"
			} else if noInst[rep] && (tok[0] == 'W' || tok[0] == 'R' || tok[0] == 'U') && words[i] == "!noinst" {
				continue
			}
			if i >= len(words) || c12Agree(tok, model[i], words[i]) {
				continue
			}
			agree = false
			aspect := c12Aspect(p, i, model[i], words[i], c12CurClass(p.toks, i))
			sig := fmt.Sprintf("aspect=%s %s", aspect, p.shape)
			c.Ev.Hist("disagreement_aspect", aspect)
			var lisp []string
			if !c12Seen(c, sig) && !(p.sweep && c.Findings.Match(c.Prop, sig) != nil) {
				lisp = c12Lisp(p, i)
			}
			c.Report(sig, p.sweep, map[string]any{
				"lisp":    lisp,
				"request": p.request(), "reps": p.reps, "token_index": i, "token": tok, "run": rep,
				"observed": words[i], "expected": model[i], "expected_from": "model:clos.run",
				"input":     strings.Join(p.toks[:i+1], " "),
				"relies_on": []string{"SlipVerif.Clos.inh_iff_spec", "SlipVerif.Clos.order_independent", "SlipVerif.Clos.slot_init_spec"},
			})
			return // first disagreement of a program decides its signature
		}
	}
	return
}

// ---------------------------------------------------------------------------------------------

func c12Replay(c *lib.Ctx) {
	var rec map[string]any
	if err := lib.ReadJSON(c.Replay, &rec); err != nil {
		fmt.Println("cannot read replay file:", err)
		return
	}
	req, _ := rec["request"].(string)
	toks := strings.Fields(req)
	if len(toks) < 3 || toks[0] != "clos" {
		fmt.Println("replay file has no usable request")
		return
	}
	toks = toks[2:]
	reps := 1
	if r, ok := rec["reps"].(float64); ok && r > 1 {
		reps = int(r)
	}
	if reps > 1 && reps < 16 {
		reps = 16
	}
	p := &c12Prog{key: "rp", toks: toks, reps: reps, redefAt: -1, shape: "replay"}
	model := strings.Fields(c.Model([]string{p.request()})[0])[1:]
	// first in a watched worker process: the recorded case may dead-lock the implementation
	if _, stalled, err := c12RunWorker(c, []*c12Prog{{key: "rpw", toks: toks, reps: reps}}, c12Idle); err == nil && stalled {
		fmt.Printf("replay: the implementation made no progress for %v on this program (dead-lock)\n  %s\n", c12Idle, strings.Join(toks, " "))
		c.Report("aspect=replay", false, map[string]any{"request": req, "observed": "!hang", "expected": strings.Join(model, " ")})
		return
	}
	shown := false
	for rep := 0; rep < reps; rep++ {
		words, trace := c12RunImpl(fmt.Sprintf("rpr%d", rep), toks, true)
		for i, tok := range toks {
			if c12Agree(tok, model[i], words[i]) {
				continue
			}
			if !shown {
				shown = true
				fmt.Printf("replay (run %d of %d):\n", rep+1, reps)
				for _, l := range c12FilterTrace(trace) {
					fmt.Println("  " + l)
				}
			}
			fmt.Printf("  token %d %s: implementation %s, model %s\n", i, tok, words[i], model[i])
			c.Report("aspect=replay", false, map[string]any{"request": req, "observed": words[i], "expected": model[i]})
			break
		}
	}
	if !shown {
		fmt.Printf("replay: implementation and model agree on all %d tokens in %d run(s)\n", len(toks), reps)
	}
}

func runC12(c *lib.Ctx) {
	if os.Getenv("VERIF_C12_WORKER") != "" {
		c12Worker()
		os.Exit(0)
	}
	if c.Replay != "" {
		c12Replay(c)
		return
	}
	// lib.NewRng(seed) is splitmix64 with state seed*G: the streams of seeds k and k+1 are the same
	// stream shifted by one draw (and re-align after a data-dependent number of draws). Re-seeding
	// from the first (well mixed) output gives unrelated streams for neighbouring seeds.
	c.Rng = lib.NewRng(c.Rng.U64() ^ 0xC12C12)
	opts := c12GenOpts{
		sharedInitargs: !c.Findings.Listed("C12", "aspect=initarg cell=initarg/shared"),
		nilForms:       !c.Findings.Listed("C12", "aspect=make-instance-error cell=initform/nil"),
	}
	avoidRedef := c.Findings.Listed("C12", "aspect=redefinition/")

	progs := c12SweepPrograms()
	nsweep := len(progs)

	// perm families
	type fam struct{ n, count int }
	fams := []fam{{1, c.Scale(4, 8)}, {2, c.Scale(10, 24)}, {3, c.Scale(26, 80)}, {4, c.Scale(20, 60)}, {5, c.Scale(5, 14)}}
	// VERIF_C12_ONLY_SWEEP=1 (self-test aid): run the seed-independent sweep only. The sweep is part of
	// every run, so a mutant caught this way is caught by the quick tier for every seed; the run is
	// marked in the evidence and must never be used for a verdict on the unchanged tree.
	onlySweep := os.Getenv("VERIF_C12_ONLY_SWEEP") != ""
	if onlySweep {
		fmt.Fprintln(os.Stderr, "C12: VERIF_C12_ONLY_SWEEP set: random families skipped (self-test mode)")
		c.Ev.Coverage["restricted_to_sweep"] = true
		fams = nil
	}
	fi := 0
	for _, fm := range fams {
		for k := 0; k < fm.count; k++ {
			o := opts
			o.redef = !avoidRedef && c.Rng.Chance(50)
			cf := c12GenConfig(c.Rng, fm.n, o)
			final := c12FinalBlock(c.Rng, cf)
			for pi, order := range c12Perms(fm.n) {
				rpos := c12RedefPos(c.Rng, cf, order)
				p := c12Build(c.Rng, cf, order, rpos, final, c.Scale(4, 6))
				p.key = fmt.Sprintf("f%dp%d", fi, pi)
				p.family = fmt.Sprintf("f%d", fi)
				progs = append(progs, p)
			}
			fi++
		}
	}
	// history families: 4-7 classes, up to three definitions per class, never-defined superclasses;
	// a few orders of the same forms (all leaving the same definitions in force)
	nhist := c.Scale(36, 90)
	for k := 0; k < nhist && !avoidRedef && !onlySweep; k++ {
		h := c12GenHist(c.Rng, opts)
		final := c12FinalBlock(c.Rng, h.finalConfig())
		for v := 0; v < c.Scale(3, 4); v++ {
			p := c12BuildHist(c.Rng, h, h.order(c.Rng), final, c.Scale(4, 6))
			p.key = fmt.Sprintf("h%dv%d", k, v)
			p.family = fmt.Sprintf("h%d", k)
			progs = append(progs, p)
		}
		fi++
	}
	// single random programs, five classes
	nsingle := c.Scale(300, 1000)
	for k := 0; k < nsingle && !onlySweep; k++ {
		o := opts
		o.redef = !avoidRedef && c.Rng.Chance(60)
		cf := c12GenConfig(c.Rng, 3+c.Rng.Intn(3), o)
		perms := c12Perms(cf.n)
		order := perms[c.Rng.Intn(len(perms))]
		rpos := c12RedefPos(c.Rng, cf, order)
		p := c12Build(c.Rng, cf, order, rpos, c12FinalBlock(c.Rng, cf), c.Scale(4, 6))
		p.key = fmt.Sprintf("s%d", k)
		progs = append(progs, p)
	}

	// model
	reqs := make([]string, len(progs))
	for i, p := range progs {
		reqs[i] = p.request()
	}
	replies := c.Model(reqs)
	// implementation
	impl := c12RunAll(c, progs)

	agreeN, runsN, tokN := 0, 0, 0
	famFinal := map[string][]string{} // family -> final block words of its first program
	famProg := map[string]*c12Prog{}
	for i, p := range progs {
		mw := strings.Fields(replies[i])
		if len(mw) != len(p.toks)+1 || mw[0] != "ok" {
			fmt.Fprintf(os.Stderr, "model reply does not match the request: %q -> %q\n", reqs[i], replies[i])
			os.Exit(2)
		}
		model := mw[1:]
		runs := impl[p.key]
		if len(runs) != p.reps {
			fmt.Fprintf(os.Stderr, "program %s: %d runs, expected %d\n", p.key, len(runs), p.reps)
			os.Exit(2)
		}
		for _, w := range runs {
			if len(w) != len(p.toks) {
				fmt.Fprintf(os.Stderr, "program %s: %d words for %d tokens\n", p.key, len(w), len(p.toks))
				os.Exit(2)
			}
		}
		runsN += len(runs)
		tokN += len(p.toks) * len(runs)
		// non-trivial: an observation after >= 2 definitions one of which follows an observation
		nd := 0
		for _, t := range p.toks {
			if t[0] == 'D' {
				nd++
			}
		}
		c.Ev.Case(strings.Join(p.toks, " "), nd >= 2)
		c.Ev.Hist("classes", strconv.Itoa(nd))
		kind := "single"
		if p.sweep {
			kind = "sweep"
		} else if strings.HasPrefix(p.family, "h") {
			kind = "history-family"
		} else if p.family != "" {
			kind = "perm-family"
		}
		c.Ev.Hist("kind", kind)
		if p.redefAt >= 0 {
			c.Ev.Hist("redefinition", "yes")
		} else {
			c.Ev.Hist("redefinition", "no")
		}
		if !p.sweep {
			c.Ev.Hist("shape", p.shape)
		}
		for j, t := range p.toks {
			c.Ev.Hist("token", t[:1])
			if t[0] == 'P' && model[j] == "!notready" {
				c.Ev.Count("observed_not_ready", 1)
			}
			if t[0] == 'E' && model[j] != "-" && !strings.HasPrefix(model[j], "!") {
				c.Ev.Count("initform_evaluations_compared", len(strings.Split(c12LoggedOnly(model[j]), ".")))
			}
			if t[0] == 'N' && strings.Contains(model[j], ".") {
				c.Ev.Count("after_method_traces_with_two_or_more_methods", 1)
			}
			if t[0] == 'M' && strings.HasPrefix(model[j], "?") {
				c.Ev.Count("ambiguous_initargs", 1)
			}
			if t[0] == 'M' && strings.HasPrefix(model[j], "~") {
				c.Ev.Count("unconstrained_inherited_default_initargs", 1)
			}
			if t[0] == 'D' && strings.Count(t, ":") == 4 {
				c.Ev.Count("defclass_forms_with_default_initargs", 1)
			}
		}
		if i%(len(progs)/10+1) == 0 {
			c.Ev.Sample(map[string]any{"program": strings.Join(p.toks, " "), "impl": strings.Join(runs[0], " "), "model": strings.Join(model, " ")})
		}
		if c12Compare(c, p, model, runs) {
			agreeN++
		}
		// order independence directly on the implementation: same final block for the whole family
		if p.family != "" {
			for _, w := range runs {
				fin := w[p.final:]
				first, has := famFinal[p.family]
				if !has {
					famFinal[p.family] = fin
					famProg[p.family] = p
					continue
				}
				for j := range fin {
					if fin[j] != first[j] {
						q := famProg[p.family]
						c.Report(fmt.Sprintf("aspect=order %s", p.shape), p.sweep, map[string]any{
							"request": p.request(), "other_request": q.request(), "reps": p.reps, "token": p.toks[p.final+j],
							"observed": fin[j], "expected": first[j], "expected_from": "impl: the same forms in another order",
							"relies_on": []string{"SlipVerif.Clos.order_independent"}})
						break
					}
				}
			}
		}
	}
	c.Ev.Coverage["traces_validated_against_impl"] = runsN
	c.Ev.Coverage["programs"] = len(progs)
	c.Ev.Coverage["tokens_compared"] = tokN
	c.Ev.Coverage["agreements"] = agreeN
	c.Ev.Coverage["sweep_programs"] = nsweep
	c.Ev.Coverage["perm_families"] = fi
	c.Ev.Coverage["rule"] = "case = program (defclass forms in some order, optional redefinition, step observations, final observation block); sweep = hand-written single-cause cells + every DAG on 3 classes in every order (seed independent); perm families = random configuration under every permutation of its forms; non-trivial = at least two defclass forms with an observation in between and after; distinct by program text"
}
